(* ProtocolLaws.v — what the specification automaton of Protocol.v guarantees
   (C09): each sentence of the property as a lemma about [r_op] / [r_moveNext].
   Together with [hist_refines] they hold of the machine, i.e. of seq.go. *)
From Verif Require Import Base SeqMachine SeqRef Protocol.

Set Implicit Arguments.

Section PLaws.
  Variables U V P : Type.
  Variable zeroV : V.
  Notation rgen := (rgen U V P).
  Notation gop := (gop U V).

  (* invariant of every reachable automaton state *)
  Definition rinv (rg : rgen) : Prop :=
    (r_pending rg = None -> r_current rg = zeroV) /\
    (r_pending rg <> None -> r_result rg = zeroV) /\
    (r_started rg = false -> r_current rg = zeroV /\ exists s, r_pending rg = Some (RInit s)).

  Lemma rinv_fresh s : rinv (r_fresh zeroV s).
  Proof.
    split; [|split]; cbn.
    - discriminate.
    - reflexivity.
    - intros _. split; [reflexivity|eauto].
  Qed.

  Lemma rinv_setstarted rg : rinv rg -> rinv (r_setstarted rg).
  Proof.
    intros [A [B C]]. split; [|split]; cbn; auto. discriminate.
  Qed.

  Definition is_advance (o : gop) : bool :=
    match o with OMoveNext | OSend _ => true | _ => false end.

  (* the three outcomes of one advance of the automaton *)
  Lemma moveNext_spec n sent (rg : rgen) u :
    match r_moveNext zeroV n sent rg u with
    | None => exists r, r_pending rg = Some r /\
                        (resume zeroV n r sent u = None \/ resume zeroV n r sent u = Some RStuck)
    | Some (rg', u', inr pv) =>
        rg' = rg /\ exists r, r_pending rg = Some r /\ resume zeroV n r sent u = Some (RPanic u' pv)
    | Some (rg', u', inl true) =>
        exists v r r', r_pending rg = Some r /\ resume zeroV n r sent u = Some (RYield v r' u') /\
                       rg' = {| r_started := r_started rg; r_pending := Some r'; r_current := v; r_result := r_result rg |}
    | Some (rg', u', inl false) =>
        (r_pending rg = None /\ rg' = rg /\ u' = u) \/
        (exists r res, r_pending rg = Some r /\ resume zeroV n r sent u = Some (RDone res u') /\
                       rg' = {| r_started := r_started rg; r_pending := None; r_current := zeroV; r_result := res |})
    end.
  Proof.
    unfold r_moveNext. destruct (r_pending rg) as [r|] eqn:Hp.
    - destruct (resume zeroV n r sent u) as [[v r' u1|res u1|u1 pv|]|] eqn:Hr; eauto 8.
    - left. auto.
  Qed.

  Lemma rinv_moveNext n sent (rg rg' : rgen) u u' x :
    rinv rg -> r_started rg = true -> r_moveNext zeroV n sent rg u = Some (rg', u', x) ->
    rinv rg' /\ r_started rg' = true.
  Proof.
    intros [A [B C]] Hst H. pose proof (moveNext_spec n sent rg u) as S. rewrite H in S.
    destruct x as [[|]|pv].
    - destruct S as [v [r [r' [Hp [Hr ->]]]]]. cbn. split; auto.
      split; [|split]; cbn.
      + discriminate.
      + intros _. apply B. congruence.
      + intros E. congruence.
    - destruct S as [[Hp [-> ->]]|[r [res [Hp [Hr ->]]]]]; [split; auto; split; auto|].
      cbn. split; auto. split; [|split]; cbn.
      + reflexivity.
      + congruence.
      + intros E. congruence.
    - destruct S as [-> _]. split; auto. split; auto.
  Qed.

  Lemma rinv_op n o (rg rg' : rgen) u u' a :
    rinv rg -> r_op zeroV n o rg u = Some (rg', u', a) -> rinv rg'.
  Proof.
    intros Hi. destruct o as [| |v| |f]; cbn [r_op].
    - destruct (r_moveNext zeroV n zeroV (r_setstarted rg) u) as [[[rg1 u1] x]|] eqn:E; [|discriminate].
      destruct (@rinv_moveNext n zeroV (r_setstarted rg) rg1 u u1 x (rinv_setstarted Hi) eq_refl E) as [H1 _].
      destruct x; intros H; inversion H; subst; auto.
    - intros H; inversion H; subst; auto.
    - assert (First : forall rg1 u1 x,
               (if r_started rg then Some (rg, u, inl true) else r_moveNext zeroV n zeroV (r_setstarted rg) u) = Some (rg1, u1, x) ->
               rinv rg1 /\ (x = inl true -> r_started rg1 = true)).
      { intros rg1 u1 x. destruct (r_started rg) eqn:Es.
        - intros H; inversion H; subst. auto.
        - intros E. destruct (@rinv_moveNext n zeroV (r_setstarted rg) rg1 u u1 x (rinv_setstarted Hi) eq_refl E); auto. }
      destruct (if r_started rg then Some (rg, u, inl true) else r_moveNext zeroV n zeroV (r_setstarted rg) u)
        as [[[rg1 u1] x]|]; [|discriminate].
      destruct (First rg1 u1 x eq_refl) as [H1 Hs1].
      destruct x as [[|]|pv]; try (intros H; inversion H; subst; auto; fail).
      destruct (r_moveNext zeroV n v rg1 u1) as [[[rg2 u2] y]|] eqn:E2; [|discriminate].
      destruct (@rinv_moveNext n v rg1 rg2 u1 u2 y H1 (Hs1 eq_refl) E2) as [H2 _].
      destruct y as [[|]|pv]; intros H; inversion H; subst; auto.
    - intros H; inversion H; subst; auto.
    - intros H; inversion H; subst; auto.
  Qed.

  Lemma rinv_hist n h : forall (rg rg' : rgen) u u' l,
    rinv rg -> r_hist zeroV n h rg u = Some (rg', u', l) -> rinv rg'.
  Proof.
    induction h as [|o h IH]; intros rg rg' u u' l Hi; cbn [r_hist].
    - intros H; inversion H; subst; auto.
    - destruct (r_op zeroV n o rg u) as [[[rg1 u1] a]|] eqn:E; [|discriminate].
      destruct (r_hist zeroV n h rg1 u1) as [[[rg2 u2] l2]|] eqn:E2; [|discriminate].
      intros H; inversion H; subst. eapply IH; [eapply rinv_op; eauto|eauto].
  Qed.

  (* ---- sentence 1: Current is pure and reports the latest delivered value ---- *)
  Lemma current_pure n (rg : rgen) u :
    r_op zeroV n OCurrent rg u = Some (rg, u, RVal (r_current rg)).
  Proof. reflexivity. Qed.

  Lemma current_zero_before_first_advance (rg : rgen) : rinv rg -> r_started rg = false -> r_current rg = zeroV.
  Proof. intros [_ [_ C]] H. apply C; auto. Qed.

  Lemma current_zero_after_exhaustion (rg : rgen) : rinv rg -> r_pending rg = None -> r_current rg = zeroV.
  Proof. intros [A _] H. auto. Qed.

  Lemma current_after_MoveNext n (rg rg' : rgen) u u' b :
    r_op zeroV n OMoveNext rg u = Some (rg', u', RBool b) ->
    if b then exists r r', r_pending rg = Some r /\ resume zeroV n r zeroV u = Some (RYield (r_current rg') r' u')
    else r_pending rg' = None.
  Proof.
    cbn [r_op]. pose proof (moveNext_spec n zeroV (r_setstarted rg) u) as S.
    destruct (r_moveNext zeroV n zeroV (r_setstarted rg) u) as [[[rg1 u1] x]|]; [|discriminate].
    destruct x as [[|]|pv]; intros H; inversion H; subst.
    - destruct S as [v [r [r' [Hp [Hr ->]]]]]. cbn in *. eauto.
    - destruct S as [[Hp [-> ->]]|[r [res [Hp [Hr ->]]]]]; auto.
  Qed.

  (* ---- sentence 2: exhaustion is permanent and runs no generator code ---- *)
  Lemma exhausted_MoveNext n (rg : rgen) u :
    r_pending rg = None ->
    r_op zeroV n OMoveNext rg u = Some (r_setstarted rg, u, RBool false).
  Proof. intros H. cbn [r_op]. unfold r_moveNext. cbn. rewrite H. reflexivity. Qed.

  Lemma exhausted_Send n v (rg : rgen) u :
    r_pending rg = None ->
    exists rg', r_op zeroV n (OSend v) rg u = Some (rg', u, RSent zeroV false) /\ r_pending rg' = None
                /\ r_current rg' = r_current rg /\ r_result rg' = r_result rg.
  Proof.
    intros H. cbn [r_op]. destruct (r_started rg) eqn:Es.
    - unfold r_moveNext. rewrite H. exists rg. auto.
    - unfold r_moveNext. cbn. rewrite H. eexists. split; [reflexivity|]. cbn. auto.
  Qed.

  Lemma false_means_exhausted n o (rg rg' : rgen) u u' a :
    r_op zeroV n o rg u = Some (rg', u', a) ->
    (a = RBool false \/ exists y, a = RSent y false) -> r_pending rg' = None.
  Proof.
    destruct o as [| |v| |f]; cbn [r_op].
    - pose proof (moveNext_spec n zeroV (r_setstarted rg) u) as S.
      destruct (r_moveNext zeroV n zeroV (r_setstarted rg) u) as [[[rg1 u1] x]|]; [|discriminate].
      destruct x as [[|]|pv]; intros H; inversion H; subst; intros [E|[y E]]; try discriminate.
      destruct S as [[Hp [-> ->]]|[r [res [Hp [Hr ->]]]]]; auto.
    - intros H; inversion H; subst; intros [E|[y E]]; discriminate.
    - assert (First : forall rg1 u1,
               (if r_started rg then Some (rg, u, inl true) else r_moveNext zeroV n zeroV (r_setstarted rg) u) = Some (rg1, u1, inl false) ->
               r_pending rg1 = None).
      { intros rg1 u1. destruct (r_started rg); [discriminate|].
        pose proof (moveNext_spec n zeroV (r_setstarted rg) u) as S. intros E. rewrite E in S.
        destruct S as [[Hp [-> ->]]|[r [res [Hp [Hr ->]]]]]; auto. }
      destruct (if r_started rg then Some (rg, u, inl true) else r_moveNext zeroV n zeroV (r_setstarted rg) u)
        as [[[rg1 u1] x]|]; [|discriminate].
      destruct x as [[|]|pv].
      + pose proof (moveNext_spec n v rg1 u1) as S.
        destruct (r_moveNext zeroV n v rg1 u1) as [[[rg2 u2] y]|]; [|discriminate].
        destruct y as [[|]|pv]; intros H; inversion H; subst; intros [E|[y E]]; try discriminate.
        destruct S as [[Hp [-> ->]]|[r [res [Hp [Hr ->]]]]]; auto.
      + intros H; inversion H; subst. intros _. eapply First; eauto.
      + intros H; inversion H; subst; intros [E|[y E]]; discriminate.
    - intros H; inversion H; subst; intros [E|[y E]]; discriminate.
    - intros H; inversion H; subst; intros [E|[y E]]; discriminate.
  Qed.

  (* ---- sentence 3: Send ---- *)
  (* on a started generator, Send v is one advance with v as the value of the pending yield *)
  Lemma send_started n v (rg : rgen) u :
    r_started rg = true ->
    r_op zeroV n (OSend v) rg u =
      match r_moveNext zeroV n v rg u with
      | None => None
      | Some (rg2, u2, inr pv) => Some (rg2, u2, RPanicked pv)
      | Some (rg2, u2, inl true) => Some (rg2, u2, RSent (r_current rg2) true)
      | Some (rg2, u2, inl false) => Some (rg2, u2, RSent zeroV false)
      end.
  Proof. intros H. cbn [r_op]. rewrite H. reflexivity. Qed.

  (* on an unstarted generator, Send v = MoveNext (value dropped), then Send v *)
  Lemma send_unstarted n v (rg : rgen) u :
    r_started rg = false ->
    r_op zeroV n (OSend v) rg u =
      match r_op zeroV n OMoveNext rg u with
      | None => None
      | Some (rg1, u1, RBool true) => r_op zeroV n (OSend v) rg1 u1
      | Some (rg1, u1, RBool false) => Some (rg1, u1, RSent zeroV false)
      | Some (rg1, u1, a) => Some (rg1, u1, a)
      end.
  Proof.
    intros H. cbn [r_op]. rewrite H.
    pose proof (moveNext_spec n zeroV (r_setstarted rg) u) as S.
    destruct (r_moveNext zeroV n zeroV (r_setstarted rg) u) as [[[rg1 u1] x]|]; auto.
    destruct x as [[|]|pv]; auto.
    destruct S as [v0 [r [r' [Hp [Hr ->]]]]]. cbn. reflexivity.
  Qed.

  (* the resumed computation receives exactly v *)
  Lemma send_delivers_value n v (rg : rgen) u r :
    r_started rg = true -> r_pending rg = Some r ->
    r_op zeroV n (OSend v) rg u =
      match resume zeroV n r v u with
      | None | Some RStuck => None
      | Some (RPanic u' pv) => Some (rg, u', RPanicked pv)
      | Some (RYield y r' u') =>
          Some ({| r_started := true; r_pending := Some r'; r_current := y; r_result := r_result rg |}, u', RSent y true)
      | Some (RDone res u') =>
          Some ({| r_started := true; r_pending := None; r_current := zeroV; r_result := res |}, u', RSent zeroV false)
      end.
  Proof.
    intros Hs Hp. rewrite send_started by assumption. unfold r_moveNext. rewrite Hp.
    destruct (resume zeroV n r v u) as [[y r' u'|res u'|u' pv|]|]; cbn; rewrite ?Hs; reflexivity.
  Qed.

  (* ---- sentence 4: Result ---- *)
  Lemma result_pure n (rg : rgen) u :
    r_op zeroV n OResult rg u = Some (rg, u, RVal (r_result rg)).
  Proof. reflexivity. Qed.

  Lemma result_zero_until_done (rg : rgen) : rinv rg -> r_pending rg <> None -> r_result rg = zeroV.
  Proof. intros [_ [B _]]. exact B. Qed.

  Lemma result_set_on_completion n sent (rg rg' : rgen) u u' r :
    r_pending rg = Some r -> r_moveNext zeroV n sent rg u = Some (rg', u', inl false) ->
    resume zeroV n r sent u = Some (RDone (r_result rg') u').
  Proof.
    intros Hp H. pose proof (moveNext_spec n sent rg u) as S. rewrite H in S.
    destruct S as [[Hp' _]|[r0 [res [Hp' [Hr ->]]]]]; [congruence|]. cbn. congruence.
  Qed.

  (* once exhausted, no operation other than a consumer world action changes anything *)
  Lemma exhausted_stable n o (rg rg' : rgen) u u' a :
    r_pending rg = None -> (forall f, o <> OWorld f) -> r_op zeroV n o rg u = Some (rg', u', a) ->
    u' = u /\ r_pending rg' = None /\ r_current rg' = r_current rg /\ r_result rg' = r_result rg.
  Proof.
    intros Hp Hw. destruct o as [| |v| |f].
    - rewrite exhausted_MoveNext by assumption. intros H; inversion H; subst. cbn. auto.
    - cbn. intros H; inversion H; subst. auto.
    - destruct (@exhausted_Send n v rg u Hp) as [rg1 [E [A [B C]]]]. rewrite E.
      intros H; inversion H; subst. auto.
    - cbn. intros H; inversion H; subst. auto.
    - exfalso. eapply Hw; eauto.
  Qed.
End PLaws.
