(* Props_C16.v — go:generate mode writes exactly the derived files and is idempotent.

   Full statement (C16): for each *_co.go / *_co_test.go file that uses the API the tool writes exactly
   one sibling file with the _co suffix removed (build constraint, header), creates, modifies or leaves
   behind nothing else, the package then builds and passes its tests without the co tag, still
   type-checks with it, and a second run leaves every file byte-identical.

   What is proved (PARTIAL).  The technique reaches the file-name mapping of GoGen (NameMap.v models
   rewriter/compile.go: suffix test, suffix mapping, the two ReplaceAll calls that move a path into
   <dir>_tmp and back; strings.ReplaceAll is modelled for every string):
   - C16_suffix_mapping: the suffix "_co.go" becomes ".go" and "_co_test.go" becomes "_test.go" whatever
     the rest of the path contains, and a name ending in "_co.go" is never taken for a test file;
   - C16_src_file_mapping / C16_test_file_mapping: for every directory dir and every relative name stem,
     the file dir/stem_co.go is written to <dir>_tmp/stem.go by the first stage and to dir/stem.go by the
     second — the sibling with the suffix removed — provided the directory string occurs in the path only
     as its prefix (computable; the one remaining use of ReplaceAll on whole paths);
   - C16_old_mapping_refuted: the mapping before the repair (ReplaceAll for the suffixes as well) sent
     dir/api_co.go.d/y_co.go to dir/api.go.d/y.go; this witness was replayed on the real cogen, which
     created the directory api.go.d (known_findings.txt: fixed).
   On every run the check evaluates [out_name] inside Coq on the absolute paths of all co files of the
   generated layouts and compares the result with the set of files cogen really created.
   Everything else of C16 — file contents, header, build and test of the package with and without the
   tag, the second run, stale <dir>_tmp — is file system and go/types: decided by the check only. *)
From Coq Require Import List.
From Verif Require Import NameMap.
Import ListNotations.

Theorem C16_suffix_mapping :
  forall q : list nat,
    suffix_map (q ++ co_go) = q ++ dot_go /\ suffix_map (q ++ co_test_go) = q ++ test_go /\
    has_suffix (q ++ co_go) co_test_go = false /\ is_co_file (q ++ co_go) = true /\ is_co_file (q ++ co_test_go) = true.
Proof.
  intros q. split; [exact (suffix_map_src q)|]. split; [exact (suffix_map_test q)|]. split; [exact (co_go_not_test q)|].
  unfold is_co_file. rewrite !has_suffix_app. split; [reflexivity|apply Bool.orb_true_r].
Qed.
Print Assumptions C16_suffix_mapping.

Theorem C16_src_file_mapping :
  forall dir stem : list nat, dir <> [] ->
    noocc dir (slash :: stem ++ dot_go) = true ->
    tmp_name dir ((dir ++ slash :: stem) ++ co_go) = (dir ++ tmp_suffix) ++ slash :: stem ++ dot_go /\
    out_name dir ((dir ++ slash :: stem) ++ co_go) = (dir ++ slash :: stem) ++ dot_go.
Proof. exact src_file_mapping. Qed.
Print Assumptions C16_src_file_mapping.

Theorem C16_test_file_mapping :
  forall dir stem : list nat, dir <> [] ->
    noocc dir (slash :: stem ++ test_go) = true ->
    tmp_name dir ((dir ++ slash :: stem) ++ co_test_go) = (dir ++ tmp_suffix) ++ slash :: stem ++ test_go /\
    out_name dir ((dir ++ slash :: stem) ++ co_test_go) = (dir ++ slash :: stem) ++ test_go.
Proof. exact test_file_mapping. Qed.
Print Assumptions C16_test_file_mapping.

(* dir = "/w/m/genpkg", stem = "api_co.go.d/y" *)
Definition ex_dir : list nat := [47; 119; 47; 109; 47; 103; 101; 110; 112; 107; 103].
Definition ex_stem : list nat := [97; 112; 105; 95; 99; 111; 46; 103; 111; 46; 100; 47; 121].

Example C16_old_mapping_refuted :
  old_out_name ex_dir ((ex_dir ++ slash :: ex_stem) ++ co_go) <> (ex_dir ++ slash :: ex_stem) ++ dot_go.
Proof. vm_compute. discriminate. Qed.
Example C16_repaired_mapping_on_the_witness :
  out_name ex_dir ((ex_dir ++ slash :: ex_stem) ++ co_go) = (ex_dir ++ slash :: ex_stem) ++ dot_go.
Proof. vm_compute. reflexivity. Qed.
(* the hypothesis of the mapping theorems holds for ordinary names: "io_copy", "sub/a_co_b" *)
Example C16_hypothesis_holds :
  noocc ex_dir (slash :: [105; 111; 95; 99; 111; 112; 121] ++ dot_go) = true /\
  noocc ex_dir (slash :: [115; 117; 98; 47; 97; 95; 99; 111; 95; 98] ++ test_go) = true.
Proof. vm_compute. split; reflexivity. Qed.
