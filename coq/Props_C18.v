(* Props_C18.v — panics surface from the advance that ran the panicking statement.
   Runtime part: seq.go has no recover, and the machine propagates an oracle's
   Panic outcome unchanged; stated as refinement to the reference, in which a
   panic is by definition the outcome of the user-code call that raised it. *)
From Verif Require Import Base SeqMachine SeqRef SeqRefine SeqFrame Protocol ProtocolLaws Indep.

(* for every history: the machine reports RPanicked pv for exactly the operations
   for which the reference does, with the same value, the same earlier responses
   and the same world (a projection of C08_refinement, kept separate) *)
Theorem C18_panic_locality :
  forall (U V P : Type) (zeroV : V) (n : nat) (s : seqv U V P) (h : list (gop U V)) (u : U),
    match m_hist zeroV n (snd (start zeroV s (empty_st V P u))) h (fst (start zeroV s (empty_st V P u))) with
    | None => r_hist zeroV n h (r_fresh zeroV s) u = None
    | Some (m', l) => exists rg', r_hist zeroV n h (r_fresh zeroV s) u = Some (rg', world m', l)
    end.
Proof. exact generator_refines. Qed.
Print Assumptions C18_panic_locality.

(* in the reference, an advance panics with pv exactly when resuming the pending
   computation ends in that panic; the automaton state is then unchanged, so the
   values delivered before are unaffected and the same step can be retried *)
Theorem C18_reference_panic :
  forall (U V P : Type) (zeroV : V) n sent (rg rg' : rgen U V P) u u' pv,
    r_moveNext zeroV n sent rg u = Some (rg', u', inr pv) ->
    rg' = rg /\ exists r, r_pending rg = Some r /\ resume zeroV n r sent u = Some (RPanic u' pv).
Proof.
  intros U V P zeroV n sent rg rg' u u' pv H.
  pose proof (moveNext_spec zeroV n sent rg u) as S. rewrite H in S. exact S.
Qed.
Print Assumptions C18_reference_panic.

(* a panicking machine call leaves the generator record as it was (same pending
   continuation, same Current, same Result) and touches no other generator *)
Theorem C18_panic_leaves_state :
  forall (U V P : Type) (zeroV : V) n d sent (m : st U V P) c g rg m' pv,
    grel c g rg m -> gen_moveNext zeroV n d g sent m = Some (MPanic m' pv) ->
    grel c g rg m' /\ untouched c g m m'.
Proof.
  intros U V P zeroV n d sent m c g rg m' pv Hg H.
  pose proof (moveNext_refines zeroV n d sent Hg) as R. rewrite H in R. destruct R as [_ R]. exact R.
Qed.
Print Assumptions C18_panic_leaves_state.

(* with several generators in one heap, a panic of one is reported by the operation
   on that one and changes no other (C14's theorem covers panicking steps too) *)
Theorem C18_not_from_another_iterator :
  forall (U V P : Type) (zeroV : V) (n : nat) (ss : list (seqv U V P)) (h : list (nat * gop U V)) (u : U),
    let '(m0, _, gs) := start_all zeroV ss (empty_st V P u) in
    match mm_hist zeroV n gs h m0 with
    | None => rr_hist zeroV n (map (r_fresh zeroV) ss) h u = None
    | Some (m', l) => exists rgs', rr_hist zeroV n (map (r_fresh zeroV) ss) h u = Some (rgs', world m', l)
    end.
Proof. exact independent_generators. Qed.
Print Assumptions C18_not_from_another_iterator.

(* non-vacuity: the thunk after the first yield panics with 99: first advance fine,
   second advance panics with 99, Current still 1, retry panics again *)
Example C18_example :
  let s : seqv unit nat nat := SBind 1 (fun _ u => Some (Panic u 99)) in
  exists rg', r_hist 0 10 [OMoveNext; OMoveNext; OCurrent; OMoveNext] (r_fresh 0 s) tt
              = Some (rg', tt, [RBool true; RPanicked 99; RVal 1; RPanicked 99]).
Proof. eexists. vm_compute. reflexivity. Qed.

(* ---- compiled generators, end to end (rewriter model + machine model of seq.go) ----
   If the source coroutine, driven by a consumer, panics with value pv after k values have been
   delivered and in user world u (the world of Sem.v is (u, k)), then the consumer's MoveNext / Current
   loop over the generator object of the machine panics with the same value, after the same k
   deliveries — i.e. out of the advance that ran the panicking statement, not an earlier or later one —
   and in the same user world (nothing else of the body has run).  Fragment and side conditions as in
   Props_C01.v. *)
From Verif Require Import Syntax Sem Rewrite Side C01Main Link LinkMachine.
Theorem C18_compiled_panic_locality_partial :
  forall (U V P : Type)
         (aden : nat -> U -> outcome U P unit) (cden : nat -> U -> outcome U P bool)
         (tden : nat -> U -> outcome U P nat) (kval : nat -> nat) (yden : nat -> U -> outcome U P V)
         (env : nat -> V -> U -> U * bool) (zeroV : V)
         (body : list stmt),
    c01_hyps body = true ->
    exists out, rewrite body = OK out /\
      (forallb (lk KS) out = true ->
       forall n u0 u k pv,
         run_source aden cden tden kval yden env n body u0 = Some (FPanicked (u, k) pv) ->
         exists M, forall N F, M <= N -> M <= F ->
           machine_target U V P aden cden tden kval yden env zeroV KS out u0 N F = Some (FPanicked (u, k) pv)).
Proof.
  intros U V P aden cden tden kval yden env zeroV body Hh.
  destruct (compiler_correct_hyps U V P aden cden tden kval yden env body Hh) as [out [Ho Hsim]].
  exists out. split; [exact Ho|]. intros Hlk n u0 u k pv Hs.
  assert (Hns : FPanicked (u, k) pv <> (@FStuck U P)) by discriminate.
  destruct (Hsim n u0 (FPanicked (u, k) pv) Hs Hns) as [m Hm].
  exact (machine_link U V P aden cden tden kval yden env zeroV KS out m u0 (FPanicked (u, k) pv) Hlk Hm Hns).
Qed.
Print Assumptions C18_compiled_panic_locality_partial.
