(* Protocol.v — the generator object (Start / MoveNext / Current / Send / Result)
   on the machine and on the reference, and the refinement between them for
   every operation.  The reference generator [rgen] is the specification
   automaton of C09; [m_op] mirrors seq.go's generator methods. *)
From Verif Require Import Base SeqMachine SeqRef SeqRefine SeqFrame.

Set Implicit Arguments.

Section Protocol.
  Variables U V P : Type.
  Variable zeroV : V.

  Notation seqv := (seqv U V P).
  Notation st := (st U V P).
  Notation resumption := (resumption U V P).

  (* consumer operations; OWorld is any action of the consumer on the shared world *)
  Inductive gop := OMoveNext | OCurrent | OSend (v : V) | OResult | OWorld (f : U -> U).

  Inductive resp :=
  | RBool (b : bool)          (* MoveNext *)
  | RVal (v : V)              (* Current, Result *)
  | RSent (v : V) (ok : bool) (* Send *)
  | RPanicked (pv : P)        (* the call panicked with pv *)
  | RUnit.

  (* ---------- machine side: the Go methods ---------- *)
  Definition m_op (n d : nat) (g : loc) (o : gop) (m : st) : option (st * resp) :=
    match o with
    | OMoveNext =>
        match gen_MoveNext zeroV n d g m with
        | Some (MOk m' b) => Some (m', RBool b)
        | Some (MPanic m' pv) => Some (m', RPanicked pv)
        | Some MStuck | None => None
        end
    | OCurrent => Some (m, RVal (gen_current zeroV g m))
    | OSend v =>
        match gen_Send zeroV n d g v m with
        | Some (MOk m' (y, b)) => Some (m', RSent y b)
        | Some (MPanic m' pv) => Some (m', RPanicked pv)
        | Some MStuck | None => None
        end
    | OResult => Some (m, RVal (gen_result zeroV g m))
    | OWorld f => Some (set_world m (f (world m)), RUnit)
    end.

  (* ---------- reference side: the specification automaton ---------- *)
  Record rgen := { r_started : bool; r_pending : option resumption; r_current : V; r_result : V }.

  Definition r_fresh (s : seqv) : rgen :=
    {| r_started := false; r_pending := Some (RInit s); r_current := zeroV; r_result := zeroV |}.

  Definition r_setstarted (rg : rgen) : rgen :=
    {| r_started := true; r_pending := r_pending rg; r_current := r_current rg; r_result := r_result rg |}.

  (* advance once with [sent]; inl b = returned b, inr pv = panicked *)
  Definition r_moveNext (n : nat) (sent : V) (rg : rgen) (u : U) : option (rgen * U * (bool + P)) :=
    match r_pending rg with
    | None => Some (rg, u, inl false)
    | Some r =>
        match resume zeroV n r sent u with
        | None | Some RStuck => None
        | Some (RPanic u' pv) => Some (rg, u', inr pv)
        | Some (RYield v r' u') =>
            Some ({| r_started := r_started rg; r_pending := Some r'; r_current := v; r_result := r_result rg |}, u', inl true)
        | Some (RDone res u') =>
            Some ({| r_started := r_started rg; r_pending := None; r_current := zeroV; r_result := res |}, u', inl false)
        end
    end.

  Definition r_op (n : nat) (o : gop) (rg : rgen) (u : U) : option (rgen * U * resp) :=
    match o with
    | OMoveNext =>
        match r_moveNext n zeroV (r_setstarted rg) u with
        | None => None
        | Some (rg', u', inl b) => Some (rg', u', RBool b)
        | Some (rg', u', inr pv) => Some (rg', u', RPanicked pv)
        end
    | OCurrent => Some (rg, u, RVal (r_current rg))
    | OSend v =>
        let first := if r_started rg then Some (rg, u, inl true) else r_moveNext n zeroV (r_setstarted rg) u in
        match first with
        | None => None
        | Some (rg1, u1, inr pv) => Some (rg1, u1, RPanicked pv)
        | Some (rg1, u1, inl false) => Some (rg1, u1, RSent zeroV false)
        | Some (rg1, u1, inl true) =>
            match r_moveNext n v rg1 u1 with
            | None => None
            | Some (rg2, u2, inr pv) => Some (rg2, u2, RPanicked pv)
            | Some (rg2, u2, inl true) => Some (rg2, u2, RSent (r_current rg2) true)
            | Some (rg2, u2, inl false) => Some (rg2, u2, RSent zeroV false)
            end
        end
    | OResult => Some (rg, u, RVal (r_result rg))
    | OWorld f => Some (rg, f u, RUnit)
    end.

  (* ---------- histories ---------- *)
  Fixpoint m_hist (n : nat) (g : loc) (h : list gop) (m : st) : option (st * list resp) :=
    match h with
    | [] => Some (m, [])
    | o :: rest =>
        match m_op n 1 g o m with
        | None => None
        | Some (m', a) => match m_hist n g rest m' with
                          | None => None
                          | Some (m'', l) => Some (m'', a :: l)
                          end
        end
    end.

  Fixpoint r_hist (n : nat) (h : list gop) (rg : rgen) (u : U) : option (rgen * U * list resp) :=
    match h with
    | [] => Some (rg, u, [])
    | o :: rest =>
        match r_op n o rg u with
        | None => None
        | Some (rg', u', a) => match r_hist n rest rg' u' with
                               | None => None
                               | Some (rg'', u'', l) => Some (rg'', u'', a :: l)
                               end
        end
    end.

  (* ---------- refinement ---------- *)

  (* machine generator g (with co cell c) represents reference generator rg *)
  Definition grel (c g : loc) (rg : rgen) (m : st) : Prop :=
    get_step m c = None /\
    exists r, lookup (gens m) g = Some r /\
      started r = r_started rg /\ current r = r_current rg /\ result r = r_result rg /\
      option_map (@absNext U V P) (gnext r) = r_pending rg /\
      match gnext r with Some nx => nextOK c g nx | None => True end.

  Lemma get_step_bump (m : st) c c' : get_step (bump_epoch m c') c = get_step m c.
  Proof.
    unfold get_step, bump_epoch. cbn [cos].
    destruct (Nat.eq_dec c c') as [->|Hne].
    - rewrite lookup_update_same. reflexivity.
    - rewrite lookup_update_other by assumption. reflexivity.
  Qed.

  Lemma get_step_set_gen (m : st) g r c : get_step (set_gen m g r) c = get_step m c.
  Proof. reflexivity. Qed.

  Lemma get_step_set_other (m : st) c c' x : c <> c' -> get_step (set_step m c' x) c = get_step m c.
  Proof. intros H. unfold get_step, set_step. cbn [cos]. now rewrite lookup_update_other. Qed.

  Lemma gens_bump (m : st) c : gens (bump_epoch m c) = gens m.
  Proof. reflexivity. Qed.
  Lemma world_bump (m : st) c : world (bump_epoch m c) = world m.
  Proof. reflexivity. Qed.

  (* what the generator record of g looks like after a call that preserves it *)
  Definition same_gen (g : loc) (r0 : gen U V P) (m' : st) : Prop :=
    exists r1, lookup (gens m') g = Some r1 /\ started r1 = started r0 /\
               gnext r1 = gnext r0 /\ current r1 = current r0.

  Lemma same_gen_of_preserves c g r0 (m m' : st) :
    lookup (gens m) g = Some r0 -> preserves c g m m' -> same_gen g r0 m'.
  Proof. intros Hr [_ _ Hg _]. exact (Hg r0 Hr). Qed.

  Lemma call_user_step_eq A (f : oracle U P A) n d (m m' : st) c pv :
    call_user f n d m = Some (MPanic m' pv) -> get_step m' c = get_step m c.
  Proof.
    unfold call_user. destruct (f n (world m)) as [[u a|u pv'|]|]; intros H; inversion H; reflexivity.
  Qed.

  (* call_next against resume *)
  Lemma call_next_refines n d nx recv (m : st) c g r0 :
    nextOK c g nx -> get_step m c = None -> lookup (gens m) g = Some r0 ->
    match call_next zeroV n d nx recv m with
    | None => resume zeroV n (absNext nx) recv (world m) = None
    | Some MStuck => resume zeroV n (absNext nx) recv (world m) = Some RStuck
    | Some (MPanic m' pv) =>
        resume zeroV n (absNext nx) recv (world m) = Some (RPanic (world m') pv) /\ same_gen g r0 m'
        /\ keeps_result g m m' /\ get_step m' c = None
        /\ (forall g', g' <> g -> lookup (gens m') g' = lookup (gens m) g')
        /\ (forall c', c' <> c -> lookup (cos m') c' = lookup (cos m) c')
    | Some (MOk m' so) =>
        get_step m' c = None /\ same_gen g r0 m'
        /\ (forall g', g' <> g -> lookup (gens m') g' = lookup (gens m) g')
        /\ (forall c', c' <> c -> lookup (cos m') c' = lookup (cos m) c')
        /\ match so with
           | Some stp =>
               resume zeroV n (absNext nx) recv (world m) = Some (RYield (sval stp) (absNext (snext stp)) (world m'))
               /\ nextOK c g (snext stp) /\ keeps_result g m m'
           | None =>
               exists r1, lookup (gens m') g = Some r1 /\
                          resume zeroV n (absNext nx) recv (world m) = Some (RDone (result r1) (world m'))
           end
    end.
  Proof.
    intros Hn Hs Hr.
    (* common tail: running the term s' under k from a state m1 reached from m *)
    assert (Tail : forall s' k (m1 : st),
      cellsOK c k -> finalOf k = g -> preserves c g (bump_epoch m c) m1 -> keeps_result g m m1 -> get_step m1 c = None ->
      match (match call_seq zeroV n (S d) s' c k m1 with
             | None => None
             | Some (MPanic m'' pv) => Some (MPanic m'' pv)
             | Some MStuck => Some MStuck
             | Some (MOk m'' _) => Some (MOk (set_step m'' c None) (get_step m'' c))
             end) with
      | None => rrun zeroV n s' (absK k) (world m1) = None
      | Some MStuck => rrun zeroV n s' (absK k) (world m1) = Some RStuck
      | Some (MPanic m' pv) =>
          rrun zeroV n s' (absK k) (world m1) = Some (RPanic (world m') pv) /\ same_gen g r0 m'
          /\ keeps_result g m m' /\ get_step m' c = None
          /\ (forall g', g' <> g -> lookup (gens m') g' = lookup (gens m) g')
          /\ (forall c', c' <> c -> lookup (cos m') c' = lookup (cos m) c')
      | Some (MOk m' so) =>
          get_step m' c = None /\ same_gen g r0 m'
          /\ (forall g', g' <> g -> lookup (gens m') g' = lookup (gens m) g')
          /\ (forall c', c' <> c -> lookup (cos m') c' = lookup (cos m) c')
          /\ match so with
             | Some stp =>
                 rrun zeroV n s' (absK k) (world m1) = Some (RYield (sval stp) (absNext (snext stp)) (world m'))
                 /\ nextOK c g (snext stp) /\ keeps_result g m m'
             | None =>
                 exists r1, lookup (gens m') g = Some r1 /\
                            rrun zeroV n s' (absK k) (world m1) = Some (RDone (result r1) (world m'))
             end
      end).
    { intros s' k m1 Hck Hfk Hp1 Hk1 Hs1.
      destruct (@frame_keeps U V P zeroV n) as [FP _]. specialize (FP (S d) s' c k m1 g Hck).
      assert (Hg1 : same_gen g r0 m1).
      { eapply same_gen_of_preserves; [|exact Hp1]. rewrite gens_bump. exact Hr. }
      assert (Hi1 : inv c (finalOf k) m1).
      { rewrite Hfk. split; auto. destruct Hg1 as [r1 [H1 _]]. eauto. }
      destruct (@refine_all U V P zeroV n) as [R1 _]. specialize (R1 (S d) s' c k m1 Hck Hi1).
      destruct (@frame_all U V P zeroV n) as [F1 _]. specialize (F1 (S d) s' c k m1 Hck).
      rewrite Hfk in *. unfold res_preserves in F1.
      assert (Hcos0 : forall c', c' <> c -> lookup (cos (bump_epoch m c)) c' = lookup (cos m) c').
      { intros c' Hc'. unfold bump_epoch. cbn [cos]. now rewrite lookup_update_other. }
      unfold res_keeps in FP.
      destruct (call_seq zeroV n (S d) s' c k m1) as [[m2 ?|m2 pv|]|]; cbn [omap obs] in R1.
      - assert (Hp2 : preserves c g (bump_epoch m c) m2) by (eapply preserves_trans; eauto).
        assert (Hg2 : same_gen g r0 m2).
        { eapply same_gen_of_preserves; [|exact Hp2]. rewrite gens_bump. exact Hr. }
        split; [apply get_step_set_step|].
        split; [exact Hg2|].
        split; [intros g' Hg'; cbn [gens set_step]; rewrite (pr_gens Hp2 Hg'); reflexivity|].
        split; [intros c' Hc'; unfold set_step; cbn [cos]; rewrite lookup_update_other by assumption;
                rewrite (pr_cos Hp2 Hc'); apply Hcos0; assumption|].
        destruct (get_step m2 c) as [stp|] eqn:Hst.
        + split; [symmetry; exact R1|].
          split.
          * destruct (pr_step F1) as [Heq|[stp' [Hs' Hn']]].
            -- rewrite Hs1 in Heq. congruence.
            -- rewrite Hst in Hs'. inversion Hs'; subst. exact Hn'.
          * destruct FP as [FP|FP]; [|congruence].
            intros r Hr'. destruct (Hk1 r Hr') as [r' [Hl' E']]. destruct (FP r' Hl') as [r'' [Hl'' E'']].
            exists r''. split; [exact Hl''|congruence].
        + destruct Hg2 as [r2 [Hl2 _]]. exists r2. split; [exact Hl2|].
          rewrite Hl2 in R1. symmetry. exact R1.
      - assert (Hp2 : preserves c g (bump_epoch m c) m2) by (eapply preserves_trans; eauto).
        split; [symmetry; exact R1|].
        split; [eapply same_gen_of_preserves; [|exact Hp2]; rewrite gens_bump; exact Hr|].
        destruct FP as [FP FPs].
        split; [eapply keeps_result_trans; eauto|].
        split; [congruence|].
        split; [intros g' Hg'; rewrite (pr_gens Hp2 Hg'); reflexivity|].
        intros c' Hc'. rewrite (pr_cos Hp2 Hc'). apply Hcos0; assumption.
      - symmetry; exact R1.
      - symmetry; exact R1. }
    destruct nx as [wrapped f c' k|s c' k]; cbn [nextOK] in Hn.
    - destruct Hn as [-> [Hck Hfk]]. cbn [call_next absNext resume].
      assert (Hi0 : inv c g (bump_epoch m c)).
      { split; [rewrite get_step_bump; exact Hs|]. rewrite gens_bump. eauto. }
      pose proof (call_user_inv (f recv) n (if wrapped then S (S d) else S d) Hi0) as Hu.
      pose proof (call_user_preserves (f recv) n (if wrapped then S (S d) else S d) (bump_epoch m c) c g) as Hp.
      pose proof (call_user_keeps (f recv) n (if wrapped then S (S d) else S d) (bump_epoch m c) g) as Hk.
      rewrite world_bump in Hu.
      destruct (call_user (f recv) n (if wrapped then S (S d) else S d) (bump_epoch m c)) as [[m1 s'|m1 pv|]|] eqn:Ecu.
      + destruct Hu as [-> [Hs1 _]]. apply Tail; auto.
      + rewrite Hu. split; [reflexivity|].
        split; [eapply same_gen_of_preserves; [|exact Hp]; rewrite gens_bump; exact Hr|].
        split; [exact Hk|].
        split; [rewrite (call_user_step_eq (f recv) n (if wrapped then S (S d) else S d) (bump_epoch m c) c Ecu), get_step_bump; exact Hs|].
        split; [intros g' Hg'; rewrite (pr_gens Hp Hg'); reflexivity|].
        intros c' Hc'. rewrite (pr_cos Hp Hc'). unfold bump_epoch. cbn [cos]. now rewrite lookup_update_other.
      + rewrite Hu. reflexivity.
      + rewrite Hu. reflexivity.
    - destruct Hn as [-> ->]. cbn [call_next absNext resume].
      rewrite <- (world_bump m c). change (@nil (frame U V P)) with (absK (KFinal (U:=U) (V:=V) (P:=P) g)).
      apply Tail; cbn; auto using preserves_refl, keeps_result_refl; rewrite ?get_step_bump; auto.
      intros r Hr'. rewrite gens_bump. eauto.
  Qed.

  (* nothing but generator g and its co cell c is touched (C14) *)
  Definition untouched (c g : loc) (m m' : st) : Prop :=
    (forall g', g' <> g -> lookup (gens m') g' = lookup (gens m) g') /\
    (forall c', c' <> c -> lookup (cos m') c' = lookup (cos m) c').

  Lemma untouched_refl c g m : untouched c g m m.
  Proof. split; auto. Qed.
  Lemma untouched_trans c g m1 m2 m3 : untouched c g m1 m2 -> untouched c g m2 m3 -> untouched c g m1 m3.
  Proof. intros [A1 B1] [A2 B2]. split; intros x Hx; [rewrite A2, A1|rewrite B2, B1]; auto. Qed.

  Lemma untouched_set_gen c g (m : st) r : untouched c g m (set_gen m g r).
  Proof. split; auto. intros g' Hg'. unfold set_gen. cbn [gens]. now rewrite lookup_update_other. Qed.

  Lemma lookup_fun A (l : list (loc * A)) x a b : lookup l x = Some a -> lookup l x = Some b -> a = b.
  Proof. congruence. Qed.

  Lemma moveNext_refines n d sent (m : st) c g rg :
    grel c g rg m ->
    match gen_moveNext zeroV n d g sent m with
    | None | Some MStuck => r_moveNext n sent rg (world m) = None
    | Some (MOk m' b) =>
        exists rg', r_moveNext n sent rg (world m) = Some (rg', world m', inl b)
                    /\ grel c g rg' m' /\ untouched c g m m' /\ r_started rg' = r_started rg
    | Some (MPanic m' pv) =>
        r_moveNext n sent rg (world m) = Some (rg, world m', inr pv)
        /\ grel c g rg m' /\ untouched c g m m'
    end.
  Proof.
    intros [Hs [r [Hr [Est [Ecu [Ere [Epe Hnx]]]]]]].
    unfold gen_moveNext, r_moveNext. rewrite Hr.
    destruct (gnext r) as [nx|] eqn:Hgn; cbn [option_map] in Epe; rewrite <- Epe.
    2:{ exists rg. split; [reflexivity|]. split; [|split; [apply untouched_refl|reflexivity]].
        split; [exact Hs|]. exists r. rewrite Hgn. cbn. repeat split; auto. }
    pose proof (@call_next_refines n (S d) nx sent m c g r Hnx Hs Hr) as H.
    destruct (call_next zeroV n (S d) nx sent m) as [[m' so|m' pv|]|].
    - destruct H as [Hs' [[r1 [Hr1 [E1 [E2 E3]]]] [Hug [Huc Hso]]]].
      rewrite Hr1.
      destruct so as [stp|].
      + destruct Hso as [-> [Hn' Hk']].
        destruct (Hk' r Hr) as [r1' [Hr1' Eres]]. assert (r1' = r1) by congruence. subst r1'.
        eexists. split; [reflexivity|]. split; [|split; [|reflexivity]].
        * split; [rewrite get_step_set_gen; exact Hs'|].
          eexists. split; [unfold set_gen; cbn [gens]; apply lookup_update_same|].
          cbn. repeat split; auto; congruence.
        * eapply untouched_trans; [split; eassumption|apply untouched_set_gen].
      + destruct Hso as [r1' [Hr1' ->]]. assert (r1' = r1) by congruence. subst r1'.
        eexists. split; [reflexivity|]. split; [|split; [|reflexivity]].
        * split; [rewrite get_step_set_gen; exact Hs'|].
          eexists. split; [unfold set_gen; cbn [gens]; apply lookup_update_same|].
          cbn. repeat split; auto; congruence.
        * eapply untouched_trans; [split; eassumption|apply untouched_set_gen].
    - destruct H as [-> [[r1 [Hr1 [E1 [E2 E3]]]] [Hk' [Hs' [Hug Huc]]]]].
      split; [reflexivity|]. split; [|split; assumption].
      destruct (Hk' r Hr) as [r1' [Hr1' Eres]]. assert (r1' = r1) by congruence. subst r1'.
      split; [exact Hs'|]. exists r1. repeat split; try congruence.
      + rewrite E2, Hgn. cbn. exact Epe.
      + rewrite E2, Hgn. exact Hnx.
    - rewrite H. reflexivity.
    - rewrite H. reflexivity.
  Qed.

  Lemma grel_set_started c g rg (m : st) :
    grel c g rg m -> grel c g (r_setstarted rg) (set_started g m) /\ untouched c g m (set_started g m)
                     /\ world (set_started g m) = world m.
  Proof.
    intros [Hs [r [Hr [Est [Ecu [Ere [Epe Hnx]]]]]]]. unfold set_started. rewrite Hr.
    split; [|split; [apply untouched_set_gen|reflexivity]].
    split; [exact Hs|]. eexists. split; [unfold set_gen; cbn [gens]; apply lookup_update_same|].
    cbn. repeat split; auto.
  Qed.

  Lemma grel_set_world c g rg (m : st) u : grel c g rg m -> grel c g rg (set_world m u).
  Proof. intros H; exact H. Qed.

  Ltac close_op rg' Hg' :=
    exists rg'; split; [reflexivity|]; split; [exact Hg'|];
    first [assumption | apply untouched_refl | (eapply untouched_trans; eassumption)].

  Lemma op_refines n d o (m : st) c g rg :
    grel c g rg m ->
    match m_op n d g o m with
    | None => r_op n o rg (world m) = None
    | Some (m', a) =>
        exists rg', r_op n o rg (world m) = Some (rg', world m', a) /\ grel c g rg' m' /\ untouched c g m m'
    end.
  Proof.
    intros Hg. destruct o as [| |v| |f]; cbn [m_op r_op].
    - (* MoveNext *)
      destruct (grel_set_started Hg) as [Hg1 [Hu1 Hw1]]. unfold gen_MoveNext.
      pose proof (moveNext_refines n (S d) zeroV Hg1) as H. rewrite Hw1 in H.
      destruct (gen_moveNext zeroV n (S d) g zeroV (set_started g m)) as [[m' b|m' pv|]|].
      + destruct H as [rg' [-> [Hg' [Hu' _]]]]. close_op rg' Hg'.
      + destruct H as [-> [Hg' Hu']]. close_op (r_setstarted rg) Hg'.
      + rewrite H. reflexivity.
      + rewrite H. reflexivity.
    - (* Current *)
      assert (E : gen_current zeroV g m = r_current rg).
      { destruct Hg as [Hs [r [Hr [Est [Ecu _]]]]]. unfold gen_current. rewrite Hr, Ecu. reflexivity. }
      rewrite E. close_op rg Hg.
    - (* Send *)
      unfold gen_Send.
      assert (Est : match lookup (gens m) g with Some r => started r | None => false end = r_started rg).
      { destruct Hg as [Hs [r [Hr [Est _]]]]. rewrite Hr. exact Est. }
      rewrite Est.
      (* first phase: advance to the first yield unless already started *)
      assert (First :
        match (if r_started rg then Some (MOk m true) else gen_MoveNext zeroV n (S d) g m) with
        | None | Some MStuck =>
            (if r_started rg then Some (rg, world m, inl true) else r_moveNext n zeroV (r_setstarted rg) (world m)) = None
        | Some (MOk m1 b) =>
            exists rg1, (if r_started rg then Some (rg, world m, inl true)
                         else r_moveNext n zeroV (r_setstarted rg) (world m)) = Some (rg1, world m1, inl b)
                        /\ grel c g rg1 m1 /\ untouched c g m m1
        | Some (MPanic m1 pv) =>
            exists rg1, (if r_started rg then Some (rg, world m, inl true)
                         else r_moveNext n zeroV (r_setstarted rg) (world m)) = Some (rg1, world m1, inr pv)
                        /\ grel c g rg1 m1 /\ untouched c g m m1
        end).
      { destruct (r_started rg).
        - close_op rg Hg.
        - destruct (grel_set_started Hg) as [Hg1 [Hu1 Hw1]]. unfold gen_MoveNext.
          pose proof (moveNext_refines n (S (S d)) zeroV Hg1) as H. rewrite Hw1 in H.
          destruct (gen_moveNext zeroV n (S (S d)) g zeroV (set_started g m)) as [[m' b|m' pv|]|]; auto.
          + destruct H as [rg' [-> [Hg' [Hu' _]]]]. close_op rg' Hg'.
          + destruct H as [-> [Hg' Hu']]. close_op (r_setstarted rg) Hg'. }
      destruct (if r_started rg then Some (MOk m true) else gen_MoveNext zeroV n (S d) g m)
        as [[m1 [|]|m1 pv|]|].
      + destruct First as [rg1 [-> [Hg1 Hu1]]].
        pose proof (moveNext_refines n (S d) v Hg1) as H.
        destruct (gen_moveNext zeroV n (S d) g v m1) as [[m2 [|]|m2 pv|]|].
        * destruct H as [rg2 [-> [Hg2 [Hu2 _]]]].
          assert (E : gen_current zeroV g m2 = r_current rg2).
          { destruct Hg2 as [_ [r2 [Hr2 [_ [Ecu2 _]]]]]. unfold gen_current. rewrite Hr2, Ecu2. reflexivity. }
          rewrite E. close_op rg2 Hg2.
        * destruct H as [rg2 [-> [Hg2 [Hu2 _]]]]. close_op rg2 Hg2.
        * destruct H as [-> [Hg2 Hu2]]. close_op rg1 Hg2.
        * rewrite H. reflexivity.
        * rewrite H. reflexivity.
      + destruct First as [rg1 [-> [Hg1 Hu1]]]. close_op rg1 Hg1.
      + destruct First as [rg1 [-> [Hg1 Hu1]]]. close_op rg1 Hg1.
      + rewrite First. reflexivity.
      + rewrite First. reflexivity.
    - (* Result *)
      assert (E : gen_result zeroV g m = r_result rg).
      { destruct Hg as [Hs [r [Hr [Est [Ecu [Ere _]]]]]]. unfold gen_result. rewrite Hr, Ere. reflexivity. }
      rewrite E. close_op rg Hg.
    - (* consumer action on the world *)
      exists rg. split; [reflexivity|]. split; [exact Hg|]. split; auto.
  Qed.

  Lemma hist_refines n h : forall (m : st) c g rg,
    grel c g rg m ->
    match m_hist n g h m with
    | None => r_hist n h rg (world m) = None
    | Some (m', l) => exists rg', r_hist n h rg (world m) = Some (rg', world m', l)
                                  /\ grel c g rg' m' /\ untouched c g m m'
    end.
  Proof.
    induction h as [|o h IH]; intros m c g rg Hg; cbn [m_hist r_hist].
    - close_op rg Hg.
    - pose proof (op_refines n 1 o Hg) as H.
      destruct (m_op n 1 g o m) as [[m1 a]|].
      + destruct H as [rg1 [-> [Hg1 Hu1]]]. specialize (IH m1 c g rg1 Hg1).
        destruct (m_hist n g h m1) as [[m2 l]|].
        * destruct IH as [rg2 [-> [Hg2 Hu2]]]. close_op rg2 Hg2.
        * rewrite IH. reflexivity.
      + rewrite H. reflexivity.
  Qed.

  (* Start allocates fresh cells; the new generator represents the fresh reference generator *)
  Lemma fresh_not_in A (l : list (loc * A)) : lookup l (fresh l) = None.
  Proof.
    assert (H : forall x, lookup l x <> None -> x < fresh l).
    { unfold fresh. induction l as [|[y a] l IH]; cbn; intros x Hx; [congruence|].
      destruct (Nat.eqb x y) eqn:E.
      - apply Nat.eqb_eq in E. subst. lia.
      - specialize (IH x Hx). lia. }
    destruct (lookup l (fresh l)) eqn:E; auto.
    assert (fresh l < fresh l) by (apply H; congruence). lia.
  Qed.

  Lemma start_grel s (m : st) :
    let c := fresh (cos m) in
    grel c (snd (start zeroV s m)) (r_fresh s) (fst (start zeroV s m))
    /\ world (fst (start zeroV s m)) = world m
    /\ (forall g', g' <> snd (start zeroV s m) -> lookup (gens (fst (start zeroV s m))) g' = lookup (gens m) g')
    /\ (forall c', c' <> c -> lookup (cos (fst (start zeroV s m))) c' = lookup (cos m) c').
  Proof.
    cbn. split; [|split; [reflexivity|split]].
    - split.
      + unfold get_step. cbn [cos]. rewrite lookup_update_same. reflexivity.
      + eexists. split; [cbn [gens]; apply lookup_update_same|]. cbn. repeat split; auto.
    - intros g' Hg'. now rewrite lookup_update_other.
    - intros c' Hc'. now rewrite lookup_update_other.
  Qed.

  (* C08/C09 at the level of whole histories: Start(s) driven by any history of
     operations (including arbitrary consumer actions on the world in between)
     gives the responses and the world of the reference generator *)
  Theorem generator_refines n s h u :
    match m_hist n (snd (start zeroV s (empty_st V P u))) h (fst (start zeroV s (empty_st V P u))) with
    | None => r_hist n h (r_fresh s) u = None
    | Some (m', l) => exists rg', r_hist n h (r_fresh s) u = Some (rg', world m', l)
    end.
  Proof.
    destruct (start_grel s (empty_st V P u)) as [Hg [Hw _]].
    pose proof (hist_refines n h Hg) as H. rewrite Hw in H. cbn [world empty_st] in H.
    destruct (m_hist n (snd (start zeroV s (empty_st V P u))) h (fst (start zeroV s (empty_st V P u)))) as [[m' l]|].
    - destruct H as [rg' [H _]]. eauto.
    - exact H.
  Qed.
End Protocol.

Arguments OMoveNext {U V}.
Arguments OCurrent {U V}.
Arguments OSend {U V}.
Arguments OResult {U V}.
Arguments OWorld {U V}.
Arguments RBool {V P}.
Arguments RVal {V P}.
Arguments RSent {V P}.
Arguments RPanicked {V P}.
Arguments RUnit {V P}.
