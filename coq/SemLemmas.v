(* SemLemmas.v — unfolding and fuel-monotonicity lemmas for Sem.v. *)
From Coq Require Import List Arith Bool Lia.
From Verif Require Import Base Syntax Sem.
Import ListNotations.

Set Implicit Arguments.

Section L.
  Variables U V P : Type.
  Variable aden : nat -> U -> outcome U P unit.
  Variable cden : nat -> U -> outcome U P bool.
  Variable tden : nat -> U -> outcome U P nat.
  Variable kval : nat -> nat.
  Variable yden : nat -> U -> outcome U P V.
  Variable env : nat -> V -> U -> U * bool.
  Variable strict : bool.

  Notation compl := (compl U V P).
  Notation W := (W U).
  Notation exec := (exec aden cden tden kval yden env).
  Notation exec_list := (exec_list aden cden tden kval yden env).
  Notation exec_from := (exec_from aden cden tden kval yden env).
  Notation exec_pick := (exec_pick aden cden tden kval yden env).
  Notation exec_loop := (exec_loop aden cden tden kval yden env).
  Notation run := (run aden cden tden kval yden env strict).
  Notation call := (call aden cden tden kval yden env strict).
  Notation run_loop := (run_loop aden cden tden kval yden env strict).

  (* ---- one-step unfoldings with the recursive calls kept folded ---- *)
  Lemma exec_S n s w :
    exec (S n) s w =
      match s with
      | SAtom a => lift (aden a (fst w)) (snd w) (fun _ w' => Some (CDone GNormal w'))
      | SYield v =>
          lift (yden v (fst w)) (snd w) (fun x w' =>
            let '(u', more) := env (snd w') x (fst w') in
            if more then Some (CDone GNormal (u', S (snd w'))) else Some (CStop (u', S (snd w'))))
      | SBlock b => exec_list n b w
      | SIf i c t e =>
          after_normal (match i with None => Some (CDone GNormal w) | Some x => exec n x w end) (fun w1 =>
            lift (cden c (fst w1)) (snd w1) (fun b w2 =>
              if b then exec_list n t w2
              else match e with
                   | ENone => Some (CDone GNormal w2)
                   | EElse eb => exec_list n eb w2
                   | EElif x => exec n x w2
                   end))
      | SSwitch i tag cs =>
          after_normal (match i with None => Some (CDone GNormal w) | Some x => exec n x w end) (fun w1 =>
            match tag with
            | Some t =>
                lift (tden t (fst w1)) (snd w1) (fun tv w2 =>
                  match pick_clause kval tv cs with
                  | Some l => exec_from n l w2
                  | None => match default_from cs with Some l => exec_from n l w2 | None => Some (CDone GNormal w2) end
                  end)
            | None => exec_pick n cs cs w1
            end)
      | SFor i c p b =>
          after_normal (match i with None => Some (CDone GNormal w) | Some x => exec n x w end) (fun w1 =>
            exec_loop n c p b w1)
      | SBreak => Some (CDone GBreak w)
      | SContinue => Some (CDone GContinue w)
      | SReturn => Some (CDone GReturn w)
      | SFallthrough => Some (CDone GFallthrough w)
      | SRet e => match build yden e w with
                  | Ok u sv => Some (CRet sv (u, snd w))
                  | Panic u pv => Some (CPanic (u, snd w) pv)
                  | Stuck => Some CStuck
                  end
      end.
  Proof. reflexivity. Qed.

  Lemma exec_list_S n l w :
    exec_list (S n) l w = match l with
                          | [] => Some (CDone GNormal w)
                          | x :: r => after_normal (exec n x w) (fun w' => exec_list n r w')
                          end.
  Proof. reflexivity. Qed.

  Lemma exec_from_S n l w :
    exec_from (S n) l w =
      match l with
      | [] => Some (CDone GNormal w)
      | (_, b) :: r => match exec_list n b w with
                       | Some (CDone GFallthrough w') => match r with [] => Some CStuck | _ => exec_from n r w' end
                       | Some (CDone GBreak w') => Some (CDone GNormal w')
                       | other => other
                       end
      end.
  Proof. reflexivity. Qed.

  Lemma exec_pick_S n a l w :
    exec_pick (S n) a l w =
      match l with
      | [] => match default_from a with Some d => exec_from n d w | None => Some (CDone GNormal w) end
      | (LCond c, b) :: r =>
          lift (cden c (fst w)) (snd w) (fun bb w' => if bb then exec_from n ((LCond c, b) :: r) w' else exec_pick n a r w')
      | _ :: r => exec_pick n a r w
      end.
  Proof. reflexivity. Qed.

  Lemma exec_loop_S n c p b w :
    exec_loop (S n) c p b w =
      let body := fun (w2 : W) =>
        match exec_list n b w2 with
        | Some (CDone (GNormal | GContinue) w3) =>
            after_normal (match p with None => Some (CDone GNormal w3) | Some x => exec n x w3 end) (fun w4 => exec_loop n c p b w4)
        | Some (CDone GBreak w3) => Some (CDone GNormal w3)
        | other => other
        end in
      match c with
      | None => body w
      | Some cc => lift (cden cc (fst w)) (snd w) (fun bb w2 => if bb then body w2 else Some (CDone GNormal w2))
      end.
  Proof. reflexivity. Qed.

  Lemma run_S n sv w :
    run (S n) sv w =
      match sv with
      | VBind v t =>
          let '(u', more) := env (snd w) v (fst w) in
          if more then call n t (u', S (snd w)) else Some (CStop (u', S (snd w)))
      | VDelay t => call n t w
      | VCombine a b => after_normal (run n a w) (fun w' => run n b w')
      | VFor c p body => run_loop n c p body true w
      | VSig g => Some (CDone g w)
      end.
  Proof. reflexivity. Qed.

  Lemma call_S n t w :
    call (S n) t w =
      match t with
      | TLit body => match exec_list n body w with
                     | Some (CRet sv' w') => run n sv' w'
                     | Some (CDone g w') => if strict then Some CStuck else Some (CDone g w')
                     | other => other
                     end
      | TSig x => match build yden x w with
                  | Ok u sv' => run n sv' (u, snd w)
                  | Panic u pv => Some (CPanic (u, snd w) pv)
                  | Stuck => Some CStuck
                  end
      end.
  Proof. reflexivity. Qed.

  Lemma run_loop_S n c p body skipPost w :
    run_loop (S n) c p body skipPost w =
      let after_post := fun (w1 : W) =>
        let iter := fun (w2 : W) =>
          match run n body w2 with
          | Some (CDone (GNormal | GContinue) w3) => run_loop n c p body false w3
          | Some (CDone GBreak w3) => Some (CDone GNormal w3)
          | other => other
          end in
        match c with
        | None => iter w1
        | Some (CExp cc) | Some (CFun cc) =>
            lift (cden cc (fst w1)) (snd w1) (fun bb w2 => if bb then iter w2 else Some (CDone GNormal w2))
        end in
      if skipPost then after_post w
      else match p with
           | None => after_post w
           | Some ps => match exec n ps w with
                        | Some (CDone GNormal w1) => after_post w1
                        | Some (CDone _ _) | Some (CRet _ _) => Some CStuck
                        | other => other
                        end
           end.
  Proof. reflexivity. Qed.

  (* "x can be replaced by x' without losing a defined result" *)
  Definition le_res (x x' : option compl) : Prop := forall r, x = Some r -> x' = Some r.

  Lemma le_res_refl x : le_res x x.
  Proof. intros r H; exact H. Qed.

  Lemma after_normal_le x x' (f f' : W -> option compl) :
    le_res x x' -> (forall w, le_res (f w) (f' w)) -> le_res (after_normal x f) (after_normal x' f').
  Proof.
    intros Hx Hf r. unfold after_normal. destruct x as [c|]; [|discriminate].
    rewrite (Hx c eq_refl). destruct c as [g w| | | |]; auto. destruct g; auto. apply Hf.
  Qed.

  Lemma lift_le A (o : outcome U P A) k (f f' : A -> W -> option compl) :
    (forall a w, le_res (f a w) (f' a w)) -> le_res (lift o k f) (lift o k f').
  Proof. intros Hf r. unfold lift. destruct o; auto. apply Hf. Qed.

  Lemma exec_mono1 n :
    (forall s w, le_res (exec n s w) (exec (S n) s w)) /\
    (forall l w, le_res (exec_list n l w) (exec_list (S n) l w)) /\
    (forall l w, le_res (exec_from n l w) (exec_from (S n) l w)) /\
    (forall a l w, le_res (exec_pick n a l w) (exec_pick (S n) a l w)) /\
    (forall c p b w, le_res (exec_loop n c p b w) (exec_loop (S n) c p b w)).
  Proof.
    induction n as [|n [IH1 [IH2 [IH3 [IH4 IH5]]]]].
    { repeat split; intros; intros r H; discriminate. }
    assert (Hopt : forall (i : option stmt) w,
              le_res (match i with None => Some (CDone GNormal w) | Some x => exec n x w end)
                     (match i with None => Some (CDone GNormal w) | Some x => exec (S n) x w end)).
    { intros [x|] w; [apply IH1|apply le_res_refl]. }
    repeat split.
    - intros s w. destruct s; try apply le_res_refl.
      + (* block *) apply IH2.
      + (* if *)
        change (exec (S n) (SIf init c th el) w) with
          (after_normal (match init with None => Some (CDone GNormal w) | Some x => exec n x w end) (fun w1 =>
             lift (cden c (fst w1)) (snd w1) (fun b w2 =>
               if b then exec_list n th w2
               else match el with ENone => Some (CDone GNormal w2) | EElse eb => exec_list n eb w2 | EElif x => exec n x w2 end))).
        change (exec (S (S n)) (SIf init c th el) w) with
          (after_normal (match init with None => Some (CDone GNormal w) | Some x => exec (S n) x w end) (fun w1 =>
             lift (cden c (fst w1)) (snd w1) (fun b w2 =>
               if b then exec_list (S n) th w2
               else match el with ENone => Some (CDone GNormal w2) | EElse eb => exec_list (S n) eb w2 | EElif x => exec (S n) x w2 end))).
        apply after_normal_le; [apply Hopt|]. intros w1. apply lift_le. intros b w2.
        destruct b; [apply IH2|]. destruct el; [apply le_res_refl|apply IH2|apply IH1].
      + (* switch *)
        change (exec (S n) (SSwitch init tag cases) w) with
          (after_normal (match init with None => Some (CDone GNormal w) | Some x => exec n x w end) (fun w1 =>
             match tag with
             | Some t => lift (tden t (fst w1)) (snd w1) (fun tv w2 =>
                 match pick_clause kval tv cases with
                 | Some l => exec_from n l w2
                 | None => match default_from cases with Some l => exec_from n l w2 | None => Some (CDone GNormal w2) end
                 end)
             | None => exec_pick n cases cases w1
             end)).
        change (exec (S (S n)) (SSwitch init tag cases) w) with
          (after_normal (match init with None => Some (CDone GNormal w) | Some x => exec (S n) x w end) (fun w1 =>
             match tag with
             | Some t => lift (tden t (fst w1)) (snd w1) (fun tv w2 =>
                 match pick_clause kval tv cases with
                 | Some l => exec_from (S n) l w2
                 | None => match default_from cases with Some l => exec_from (S n) l w2 | None => Some (CDone GNormal w2) end
                 end)
             | None => exec_pick (S n) cases cases w1
             end)).
        apply after_normal_le; [apply Hopt|]. intros w1. destruct tag as [t|]; [|apply IH4].
        apply lift_le. intros tv w2. destruct (pick_clause kval tv cases); [apply IH3|].
        destruct (default_from cases); [apply IH3|apply le_res_refl].
      + (* for *)
        change (exec (S n) (SFor init c post b) w) with
          (after_normal (match init with None => Some (CDone GNormal w) | Some x => exec n x w end) (fun w1 => exec_loop n c post b w1)).
        change (exec (S (S n)) (SFor init c post b) w) with
          (after_normal (match init with None => Some (CDone GNormal w) | Some x => exec (S n) x w end) (fun w1 => exec_loop (S n) c post b w1)).
        apply after_normal_le; [apply Hopt|]. intros w1. apply IH5.
    - intros l w. destruct l as [|x r]; [apply le_res_refl|].
      change (exec_list (S n) (x :: r) w) with (after_normal (exec n x w) (fun w' => exec_list n r w')).
      change (exec_list (S (S n)) (x :: r) w) with (after_normal (exec (S n) x w) (fun w' => exec_list (S n) r w')).
      apply after_normal_le; [apply IH1|]. intros w'. apply IH2.
    - intros l w. destruct l as [|[lab b] r]; [apply le_res_refl|].
      change (exec_from (S n) ((lab, b) :: r) w) with
        (match exec_list n b w with
         | Some (CDone GFallthrough w') => match r with [] => Some CStuck | _ => exec_from n r w' end
         | Some (CDone GBreak w') => Some (CDone GNormal w')
         | other => other end).
      change (exec_from (S (S n)) ((lab, b) :: r) w) with
        (match exec_list (S n) b w with
         | Some (CDone GFallthrough w') => match r with [] => Some CStuck | _ => exec_from (S n) r w' end
         | Some (CDone GBreak w') => Some (CDone GNormal w')
         | other => other end).
      intros res H. destruct (exec_list n b w) as [c|] eqn:E; [|discriminate].
      rewrite (IH2 b w c E). destruct c as [g w'| | | |]; auto. destruct g; auto. destruct r; auto. apply IH3. exact H.
    - intros a l w. destruct l as [|[lab b] r].
      + change (exec_pick (S n) a [] w) with (match default_from a with Some d => exec_from n d w | None => Some (CDone GNormal w) end).
        change (exec_pick (S (S n)) a [] w) with (match default_from a with Some d => exec_from (S n) d w | None => Some (CDone GNormal w) end).
        destruct (default_from a); [apply IH3|apply le_res_refl].
      + destruct lab as [|vs|c].
        * change (exec_pick (S n) a ((LDefault, b) :: r) w) with (exec_pick n a r w).
          change (exec_pick (S (S n)) a ((LDefault, b) :: r) w) with (exec_pick (S n) a r w). apply IH4.
        * change (exec_pick (S n) a ((LVals vs, b) :: r) w) with (exec_pick n a r w).
          change (exec_pick (S (S n)) a ((LVals vs, b) :: r) w) with (exec_pick (S n) a r w). apply IH4.
        * change (exec_pick (S n) a ((LCond c, b) :: r) w) with
            (lift (cden c (fst w)) (snd w) (fun bb w' => if bb then exec_from n ((LCond c, b) :: r) w' else exec_pick n a r w')).
          change (exec_pick (S (S n)) a ((LCond c, b) :: r) w) with
            (lift (cden c (fst w)) (snd w) (fun bb w' => if bb then exec_from (S n) ((LCond c, b) :: r) w' else exec_pick (S n) a r w')).
          apply lift_le. intros bb w'. destruct bb; [apply IH3|apply IH4].
    - intros c p b w.
      set (body := fun k (w2 : W) =>
        match exec_list k b w2 with
        | Some (CDone (GNormal | GContinue) w3) =>
            after_normal (match p with None => Some (CDone GNormal w3) | Some x => exec k x w3 end) (fun w4 => exec_loop k c p b w4)
        | Some (CDone GBreak w3) => Some (CDone GNormal w3)
        | other => other
        end).
      assert (Hb : forall w2, le_res (body n w2) (body (S n) w2)).
      { intros w2 res H. unfold body in *. destruct (exec_list n b w2) as [cc|] eqn:E; [|discriminate].
        rewrite (IH2 b w2 cc E). destruct cc as [g w3| | | |]; auto.
        destruct g; auto; revert H; apply after_normal_le; try apply Hopt; intros w4; apply IH5. }
      change (exec_loop (S n) c p b w) with
        (match c with None => body n w
         | Some cc => lift (cden cc (fst w)) (snd w) (fun bb w2 => if bb then body n w2 else Some (CDone GNormal w2)) end).
      change (exec_loop (S (S n)) c p b w) with
        (match c with None => body (S n) w
         | Some cc => lift (cden cc (fst w)) (snd w) (fun bb w2 => if bb then body (S n) w2 else Some (CDone GNormal w2)) end).
      destruct c as [cc|]; [|apply Hb]. apply lift_le. intros bb w2. destruct bb; [apply Hb|apply le_res_refl].
  Qed.

  Lemma exec_list_mono n m l w r : n <= m -> exec_list n l w = Some r -> exec_list m l w = Some r.
  Proof.
    induction 1 as [|m Hle IH]; auto. intros H. apply (proj1 (proj2 (exec_mono1 m))). auto.
  Qed.
  Lemma exec_mono n m s w r : n <= m -> exec n s w = Some r -> exec m s w = Some r.
  Proof.
    induction 1 as [|m Hle IH]; auto. intros H. apply (proj1 (exec_mono1 m)). auto.
  Qed.

  Lemma run_mono1 n :
    (forall sv w, le_res (run n sv w) (run (S n) sv w)) /\
    (forall t w, le_res (call n t w) (call (S n) t w)) /\
    (forall c p body sk w, le_res (run_loop n c p body sk w) (run_loop (S n) c p body sk w)).
  Proof.
    induction n as [|n [IH1 [IH2 IH3]]].
    { repeat split; intros; intros r H; discriminate. }
    repeat split.
    - intros sv w. destruct sv as [v t|t|a b|c p body|g]; try apply le_res_refl.
      + change (run (S n) (VBind v t) w) with
          (let '(u', more) := env (snd w) v (fst w) in if more then call n t (u', S (snd w)) else Some (CStop (u', S (snd w)))).
        change (run (S (S n)) (VBind v t) w) with
          (let '(u', more) := env (snd w) v (fst w) in if more then call (S n) t (u', S (snd w)) else Some (CStop (u', S (snd w)))).
        destruct (env (snd w) v (fst w)) as [u' more]. destruct more; [apply IH2|apply le_res_refl].
      + apply IH2.
      + change (run (S n) (VCombine a b) w) with (after_normal (run n a w) (fun w' => run n b w')).
        change (run (S (S n)) (VCombine a b) w) with (after_normal (run (S n) a w) (fun w' => run (S n) b w')).
        apply after_normal_le; [apply IH1|intros w'; apply IH1].
      + apply IH3.
    - intros t w. destruct t as [body|x].
      + change (call (S n) (TLit body) w) with
          (match exec_list n body w with
           | Some (CRet sv' w') => run n sv' w'
           | Some (CDone g w') => if strict then Some CStuck else Some (CDone g w')
           | other => other end).
        change (call (S (S n)) (TLit body) w) with
          (match exec_list (S n) body w with
           | Some (CRet sv' w') => run (S n) sv' w'
           | Some (CDone g w') => if strict then Some CStuck else Some (CDone g w')
           | other => other end).
        intros res H. destruct (exec_list n body w) as [c|] eqn:E; [|discriminate].
        rewrite (proj1 (proj2 (exec_mono1 n)) body w c E). destruct c; auto. apply IH1. exact H.
      + change (call (S n) (TSig x) w) with
          (match build yden x w with Ok u sv' => run n sv' (u, snd w) | Panic u pv => Some (CPanic (u, snd w) pv) | Stuck => Some CStuck end).
        change (call (S (S n)) (TSig x) w) with
          (match build yden x w with Ok u sv' => run (S n) sv' (u, snd w) | Panic u pv => Some (CPanic (u, snd w) pv) | Stuck => Some CStuck end).
        destruct (build yden x w); try apply le_res_refl. apply IH1.
    - intros c p body sk w.
      set (iter := fun k (w2 : W) =>
        match run k body w2 with
        | Some (CDone (GNormal | GContinue) w3) => run_loop k c p body false w3
        | Some (CDone GBreak w3) => Some (CDone GNormal w3)
        | other => other
        end).
      set (after_post := fun k (w1 : W) =>
        match c with
        | None => iter k w1
        | Some (CExp cc) | Some (CFun cc) =>
            lift (cden cc (fst w1)) (snd w1) (fun bb w2 => if bb then iter k w2 else Some (CDone GNormal w2))
        end).
      assert (Hi : forall w2, le_res (iter n w2) (iter (S n) w2)).
      { intros w2 res H. unfold iter in *. destruct (run n body w2) as [cc|] eqn:E; [|discriminate].
        rewrite (IH1 body w2 cc E). destruct cc as [g w3| | | |]; auto. destruct g; auto; apply IH3; exact H. }
      assert (Ha : forall w1, le_res (after_post n w1) (after_post (S n) w1)).
      { intros w1. unfold after_post. destruct c as [[cc|cc]|]; [| |apply Hi];
          apply lift_le; intros bb w2; destruct bb; [apply Hi|apply le_res_refl|apply Hi|apply le_res_refl]. }
      change (run_loop (S n) c p body sk w) with
        (if sk then after_post n w
         else match p with
              | None => after_post n w
              | Some ps => match exec n ps w with
                           | Some (CDone GNormal w1) => after_post n w1
                           | Some (CDone _ _) | Some (CRet _ _) => Some CStuck
                           | other => other end end).
      change (run_loop (S (S n)) c p body sk w) with
        (if sk then after_post (S n) w
         else match p with
              | None => after_post (S n) w
              | Some ps => match exec (S n) ps w with
                           | Some (CDone GNormal w1) => after_post (S n) w1
                           | Some (CDone _ _) | Some (CRet _ _) => Some CStuck
                           | other => other end end).
      destruct sk; [apply Ha|]. destruct p as [ps|]; [|apply Ha].
      intros res H. destruct (exec n ps w) as [cc|] eqn:E; [|discriminate].
      rewrite (proj1 (exec_mono1 n) ps w cc E). destruct cc as [g w1| | | |]; auto. destruct g; auto. apply Ha. exact H.
  Qed.

  Lemma run_mono n m sv w r : n <= m -> run n sv w = Some r -> run m sv w = Some r.
  Proof. induction 1 as [|m Hle IH]; auto. intros H. apply (proj1 (run_mono1 m)). auto. Qed.
  Lemma call_mono n m t w r : n <= m -> call n t w = Some r -> call m t w = Some r.
  Proof. induction 1 as [|m Hle IH]; auto. intros H. apply (proj1 (proj2 (run_mono1 m))). auto. Qed.
End L.
