(* Props_C08.v — property C08: the runtime combinators implement the reference
   resumption-monad semantics.  Statements only; proofs are in the files named. *)
From Verif Require Import Base SeqMachine SeqRef SeqRefine Protocol SeqLaws.

(* For every term (all constructors, arbitrary user thunks / conditions / posts as
   oracles), every world and every history of MoveNext / Current / Send / Result
   calls interleaved with arbitrary consumer actions on the world, the machine
   (= seq.go) returns the same responses and ends in the same world as the
   reference interpreter, with exactly the same fuel; in particular the order and
   number of user-code evaluations agree, because every such evaluation is a world
   transition. *)
Theorem C08_refinement :
  forall (U V P : Type) (zeroV : V) (n : nat) (s : seqv U V P) (h : list (gop U V)) (u : U),
    match m_hist zeroV n (snd (start zeroV s (empty_st V P u))) h (fst (start zeroV s (empty_st V P u))) with
    | None => r_hist zeroV n h (r_fresh zeroV s) u = None
    | Some (m', l) => exists rg', r_hist zeroV n h (r_fresh zeroV s) u = Some (rg', world m', l)
    end.
Proof. exact generator_refines. Qed.
Print Assumptions C08_refinement.

(* one machine call of a term under a continuation = one run of the reference *)
Theorem C08_step_refinement :
  forall (U V P : Type) (zeroV : V) (n d : nat) (s : seqv U V P) (c : loc) (k : cont U V P) (m : st U V P),
    cellsOK c k -> inv c (finalOf k) m ->
    omap (obs c (finalOf k)) (call_seq zeroV n d s c k m) = rrun zeroV n s (absK k) (world m).
Proof. intros U V P zeroV n. exact (proj1 (@refine_all U V P zeroV n)). Qed.
Print Assumptions C08_step_refinement.

Theorem C08_normal_left_unit :
  forall (U V P : Type) (zeroV : V) n (s : seqv U V P) ks u,
    rrun zeroV (S (S (S n))) (SCombine (SOfK KNormal) s) ks u = rrun zeroV n s ks u.
Proof. exact combine_normal_l. Qed.
Print Assumptions C08_normal_left_unit.

Theorem C08_signals_skip_rest_of_combine :
  forall (U V P : Type) (zeroV : V) n t (s : seqv U V P) ks u, t <> KNormal ->
    rrun zeroV (S (S (S n))) (SCombine (SOfK t) s) ks u = rsig zeroV n t zeroV ks u.
Proof. exact combine_skip. Qed.
Print Assumptions C08_signals_skip_rest_of_combine.

Theorem C08_no_post_before_first_iteration :
  forall (U V P : Type) (zeroV : V) n c p (b : seqv U V P) ks u,
    rrun zeroV (S (S n)) (SFor c p b) ks u =
      match evalc c n u with
      | None => None
      | Some (Ok u' true) => rrun zeroV n b (KLoop c p b :: ks) u'
      | Some (Ok u' false) => rsig zeroV n KNormal zeroV ks u'
      | Some (Panic u' pv) => Some (RPanic u' pv)
      | Some Stuck => Some RStuck
      end.
Proof. exact for_first_iteration. Qed.
Print Assumptions C08_no_post_before_first_iteration.

Theorem C08_post_after_normal_and_continue :
  forall (U V P : Type) (zeroV : V) n t v c p (b : seqv U V P) ks u,
    t = KNormal \/ t = KContinue ->
    rsig zeroV (S (S n)) t v (KLoop c p b :: ks) u =
      match evalp p n u with
      | None => None
      | Some (Panic u1 pv) => Some (RPanic u1 pv)
      | Some Stuck => Some RStuck
      | Some (Ok u1 _) =>
          match evalc c n u1 with
          | None => None
          | Some (Ok u' true) => rrun zeroV n b (KLoop c p b :: ks) u'
          | Some (Ok u' false) => rsig zeroV n KNormal zeroV ks u'
          | Some (Panic u' pv) => Some (RPanic u' pv)
          | Some Stuck => Some RStuck
          end
      end.
Proof. exact loop_next_iteration. Qed.
Print Assumptions C08_post_after_normal_and_continue.

Theorem C08_break_becomes_normal_outside_loop :
  forall (U V P : Type) (zeroV : V) n v c p (b : seqv U V P) ks u,
    rsig zeroV (S n) KBreak v (KLoop c p b :: ks) u = rsig zeroV n KNormal zeroV ks u.
Proof. exact loop_break. Qed.
Print Assumptions C08_break_becomes_normal_outside_loop.

Theorem C08_return_carries_value :
  forall (U V P : Type) (zeroV : V) n v c p (b : seqv U V P) ks u,
    rsig zeroV (S n) KReturn v (KLoop c p b :: ks) u = rsig zeroV n KReturn v ks u.
Proof. exact loop_return. Qed.
Print Assumptions C08_return_carries_value.
