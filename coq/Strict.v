(* Strict.v — legality of generated code, and why the strict reading of callbacks
   (a func() Seq must return a seq value: anything else is not Go) coincides with the
   generalised reading used by the simulation proofs on legal code.
   [okb k il isw fall s]: s contains no native `return`, its free break / continue /
   fallthrough statements are caught natively (il: in a loop, isw: in a switch, fall:
   directly in a clause body), and every function literal in it has a body that is
   itself ok at top level and terminating (isTerminating), i.e. returns a seq value
   on every path. *)
From Coq Require Import List Arith Bool Lia.
From Verif Require Import Base Syntax Sem SemLemmas Rewrite Side RwBase Rel TermSound.
Import ListNotations.

Lemma okb_S k il isw fall s :
  okb (S k) il isw fall s =
    match s with
    | SAtom _ | SYield _ => true
    | SBlock b => forallb (okb k il isw false) b
    | SIf i _ t e => simple i && forallb (okb k il isw false) t &&
                     match e with ENone => true | EElse b => forallb (okb k il isw false) b | EElif x => okb k il isw false x end
    | SSwitch i _ cs => simple i && forallb (fun lb => forallb (okb k il true true) (snd lb)) cs
    | SFor i _ p b => simple i && simple p && forallb (okb k true isw false) b
    | SBreak => il || isw
    | SContinue => il
    | SReturn => false
    | SFallthrough => fall
    | SRet e => okx (forallb (okb k false false false)) e
    end.
Proof. reflexivity. Qed.

Definition allowed (g : sig) (il isw fall : bool) : bool :=
  match g with
  | GNormal => true
  | GBreak => il || isw
  | GContinue => il
  | GReturn => false
  | GFallthrough => fall
  end.

Section S.
  Variables U V P : Type.
  Variable aden : nat -> U -> outcome U P unit.
  Variable cden : nat -> U -> outcome U P bool.
  Variable tden : nat -> U -> outcome U P nat.
  Variable kval : nat -> nat.
  Variable yden : nat -> U -> outcome U P V.
  Variable env : nat -> V -> U -> U * bool.

  Notation compl := (compl U V P).
  Notation W := (W U).
  Notation exec := (exec aden cden tden kval yden env).
  Notation ex := (exec_list aden cden tden kval yden env).
  Notation exfrom := (exec_from aden cden tden kval yden env).
  Notation expick := (exec_pick aden cden tden kval yden env).
  Notation exloop := (exec_loop aden cden tden kval yden env).
  Notation run := (run aden cden tden kval yden env).
  Notation call := (call aden cden tden kval yden env).
  Notation run_loop := (run_loop aden cden tden kval yden env).

  Inductive OKT : thunk -> Prop :=
  | OKT_lit k l : forallb (okb k false false false) l = true -> is_term TFUEL (SBlock l) = true ->
                  fitsb TFUEL (SBlock l) = true -> OKT (TLit l)
  | OKT_sig x : is_sig x = true -> OKT (TSig x).

  Inductive OKV : sval V -> Prop :=
  | OKV_bind v t : OKT t -> OKV (VBind v t)
  | OKV_delay t : OKT t -> OKV (VDelay t)
  | OKV_combine a b : OKV a -> OKV b -> OKV (VCombine a b)
  | OKV_for c p body : simple p = true -> OKV body -> OKV (VFor c p body)
  | OKV_sig g : OKV (VSig g).

  Lemma okt_OKT k t : okt (forallb (okb k false false false)) t = true -> OKT t.
  Proof.
    destruct t as [l|x]; cbn [okt]; intros H.
    - apply andb_prop in H. destruct H as [H H3]. apply andb_prop in H. destruct H as [H1 H2]. eapply OKT_lit; eauto.
    - constructor. exact H.
  Qed.

  Lemma build_ok k e w u sv : okx (forallb (okb k false false false)) e = true -> build yden e w = Ok u sv -> OKV sv.
  Proof.
    revert w u sv. induction e as [v t|t|a IHa b IHb|c p body IHb| | | |]; intros w u sv H B; cbn [okx build] in *.
    - destruct (yden v (fst w)); inversion B; subst. constructor. eapply okt_OKT; eauto.
    - inversion B; subst. constructor. eapply okt_OKT; eauto.
    - apply andb_prop in H. destruct H as [H1 H2].
      destruct (build yden a w) as [u1 a1|u1 pv|] eqn:Ba; try discriminate.
      destruct (build yden b (u1, snd w)) as [u2 b1|u2 pv|] eqn:Bb; inversion B; subst.
      constructor; eauto.
    - apply andb_prop in H. destruct H as [H1 H2].
      destruct (build yden body w) as [u1 b1|u1 pv|] eqn:Bb; inversion B; subst. constructor; eauto.
    - inversion B; subst. constructor.
    - inversion B; subst. constructor.
    - inversion B; subst. constructor.
    - inversion B; subst. constructor.
  Qed.

  (* what a completion of ok code looks like *)
  Definition okc (il isw fall : bool) (x : compl) : Prop :=
    match x with
    | CDone g _ => allowed g il isw fall = true
    | CRet sv _ => OKV sv
    | _ => True
    end.

  Lemma okc_weaken il isw fall il' isw' fall' x :
    (il = true -> il' = true) -> (isw = true -> isw' = true) -> (fall = true -> fall' = true) ->
    okc il isw fall x -> okc il' isw' fall' x.
  Proof.
    intros Hl Hs Hf. destruct x as [g w| | | |]; cbn; auto. destruct g; cbn; auto.
    - intros H. apply orb_prop in H. destruct H as [H|H]; [rewrite (Hl H)|rewrite (Hs H)]; auto using orb_true_r.
  Qed.

  Lemma forallb_In {A} (f : A -> bool) l x : forallb f l = true -> In x l -> f x = true.
  Proof. intros H. rewrite forallb_forall in H. auto. Qed.

  Lemma pick_clause_forall (Pp : clabel * list stmt -> bool) tv cs d :
    forallb Pp cs = true -> pick_clause kval tv cs = Some d -> forallb Pp d = true.
  Proof.
    induction cs as [|[lab b] r IH]; cbn [pick_clause forallb]; [discriminate|]. intros H E.
    destruct (clause_matches kval lab tv); [inversion E; subst; exact H|]. apply andb_prop in H. apply IH; tauto.
  Qed.

  Lemma default_from_forall (Pp : clabel * list stmt -> bool) cs d :
    forallb Pp cs = true -> default_from cs = Some d -> forallb Pp d = true.
  Proof.
    induction cs as [|[lab b] r IH]; cbn [default_from forallb]; [discriminate|]. intros H E.
    destruct lab; try (apply andb_prop in H; apply IH; tauto). inversion E; subst. exact H.
  Qed.

  Lemma ok_exec n :
    (forall k il isw fall s w x, okb k il isw fall s = true -> exec n s w = Some x -> okc il isw fall x) /\
    (forall k il isw fall l w x, forallb (okb k il isw fall) l = true -> ex n l w = Some x -> okc il isw fall x) /\
    (forall k il cs w x, forallb (fun lb => forallb (okb k il true true) (snd lb)) cs = true ->
        exfrom n cs w = Some x -> okc il false false x) /\
    (forall k il a l w x, forallb (fun lb => forallb (okb k il true true) (snd lb)) a = true ->
        forallb (fun lb => forallb (okb k il true true) (snd lb)) l = true ->
        expick n a l w = Some x -> okc il false false x) /\
    (forall k isw c p b w x, simple p = true -> forallb (okb k true isw false) b = true ->
        exloop n c p b w = Some x -> okc false false false x).
  Proof.
    induction n as [|n [IHE [IHL [IHF [IHP IHLP]]]]].
    { repeat split; intros; discriminate. }
    assert (Hafter : forall il isw fall (r : option compl) (f : W -> option compl) y,
              (forall x, r = Some x -> okc il isw fall x) ->
              (forall w1 y1, f w1 = Some y1 -> okc il isw fall y1) ->
              after_normal r f = Some y -> okc il isw fall y).
    { intros il isw fall r f y Hr Hf Hy. destruct r as [x|]; [|discriminate].
      destruct x as [g w1| | | |]; cbn in Hy; try (inversion Hy; subst; apply Hr; reflexivity).
      destruct g; try (inversion Hy; subst; apply Hr; reflexivity). eapply Hf; eauto. }
    assert (Hlift : forall il isw fall A (o : outcome U P A) kk (f : A -> W -> option compl) y,
              (forall a w1 y1, f a w1 = Some y1 -> okc il isw fall y1) ->
              lift o kk f = Some y -> okc il isw fall y).
    { intros il isw fall A o kk f y Hf Hy. unfold lift in Hy. destruct o; [eapply Hf; eauto| |]; inversion Hy; exact I. }
    assert (Hsimple : forall il isw fall i w x, simple i = true ->
              match i with None => Some (CDone GNormal w) | Some s => exec n s w end = Some x -> okc il isw fall x).
    { intros il isw fall i w x Hi Hx. pose proof (@simple_exec _ _ _ aden cden tden kval yden env i n w x Hi Hx) as Hs.
      destruct x as [g w1| | | |]; cbn; auto; [subst g; reflexivity|contradiction]. }
    repeat split.
    - (* statements *)
      intros k il isw fall s w x Hs Hx. destruct k as [|k]; [discriminate|]. rewrite okb_S in Hs. rewrite exec_S in Hx.
      destruct s as [a|v|body|init c thn el|init tag cases|init c post body| | | | |e].
      + unfold lift in Hx. destruct (aden a (fst w)); inversion Hx; cbn; auto.
      + unfold lift in Hx. destruct (yden v (fst w)) as [u val|u pv|]; try (inversion Hx; cbn; auto; fail).
        cbn in Hx. destruct (env (snd w) val u) as [u' more]. destruct more; inversion Hx; cbn; auto.
      + eapply okc_weaken; [| | |eapply IHL; eauto]; auto; discriminate.
      + apply andb_prop in Hs. destruct Hs as [Hs He]. apply andb_prop in Hs. destruct Hs as [Hi Ht].
        eapply Hafter; [intros y Hy; exact (Hsimple il isw fall init w y Hi Hy)| |exact Hx].
        intros w1 y1 H1. eapply Hlift; [|exact H1]. intros bb w2 y2 H2. cbv beta in H2.
        destruct bb; [eapply okc_weaken; [| | |eapply IHL; eauto]; auto; discriminate|].
        destruct el as [|eb|x0]; [inversion H2; reflexivity|eapply okc_weaken; [| | |eapply IHL; eauto]; auto; discriminate|].
        eapply okc_weaken; [| | |eapply IHE; eauto]; auto; discriminate.
      + apply andb_prop in Hs. destruct Hs as [Hi Hc].
        eapply Hafter; [intros y Hy; exact (Hsimple il isw fall init w y Hi Hy)| |exact Hx].
        intros w1 y1 H1. destruct tag as [t|].
        * eapply Hlift; [|exact H1]. intros tv w2 y2 H2. cbv beta in H2.
          destruct (pick_clause kval tv cases) as [d|] eqn:Ep.
          -- eapply okc_weaken; [| | |eapply IHF; [eapply pick_clause_forall; eauto|exact H2]]; auto; discriminate.
          -- destruct (default_from cases) as [d|] eqn:Ed; [|inversion H2; reflexivity].
             eapply okc_weaken; [| | |eapply IHF; [eapply default_from_forall; eauto|exact H2]]; auto; discriminate.
        * eapply okc_weaken; [| | |eapply IHP; [exact Hc|exact Hc|exact H1]]; auto; discriminate.
      + apply andb_prop in Hs. destruct Hs as [Hs Hb]. apply andb_prop in Hs. destruct Hs as [Hi Hp].
        eapply Hafter; [intros y Hy; exact (Hsimple il isw fall init w y Hi Hy)| |exact Hx].
        intros w1 y1 H1. eapply okc_weaken; [| | |eapply IHLP; eauto]; discriminate.
      + injection Hx as <-. exact Hs.
      + injection Hx as <-. exact Hs.
      + discriminate.
      + injection Hx as <-. exact Hs.
      + destruct (build yden e w) as [u sv|u pv|] eqn:B; inversion Hx; subst; cbn; auto. eapply build_ok; eauto.
    - (* lists *)
      intros k il isw fall l w x Hl Hx. rewrite exec_list_S in Hx. destruct l as [|s r]; [inversion Hx; reflexivity|].
      cbn [forallb] in Hl. apply andb_prop in Hl. destruct Hl as [Hs Hr].
      eapply Hafter; [intros y Hy; eapply IHE; eauto| |exact Hx]. intros w1 y1 H1. eapply IHL; eauto.
    - (* clauses *)
      intros k il cs w x Hc Hx. rewrite exec_from_S in Hx. destruct cs as [|[lab b] r]; [inversion Hx; reflexivity|].
      cbn [forallb snd] in Hc. apply andb_prop in Hc. destruct Hc as [Hb Hr].
      destruct (ex n b w) as [yb|] eqn:Eb; [|discriminate].
      pose proof (IHL k il true true b w yb Hb Eb) as Hyb.
      destruct yb as [g w1|sv w1|w1|w1 pv|]; try (inversion Hx; subst; exact Hyb).
      destruct g; cbn in Hyb; try (inversion Hx; subst; cbn; auto; fail).
      destruct r as [|c2 r2]; [inversion Hx; exact I|]. eapply IHF; eauto.
    - (* tag-less switch *)
      intros k il a l w x Ha Hl Hx. rewrite exec_pick_S in Hx. destruct l as [|[lab b] r].
      + destruct (default_from a) as [d|] eqn:Ed; [|inversion Hx; reflexivity].
        eapply IHF; [eapply default_from_forall; [exact Ha|exact Ed]|exact Hx].
      + assert (Hr : forallb (fun lb => forallb (okb k il true true) (snd lb)) r = true)
          by (cbn [forallb] in Hl; apply andb_prop in Hl; tauto).
        destruct lab; try (exact (IHP k il a r w x Ha Hr Hx)).
        eapply Hlift; [|exact Hx]. intros bb w1 y1 H1. cbv beta in H1. destruct bb; [exact (IHF k il _ w1 y1 Hl H1)|exact (IHP k il a r w1 y1 Ha Hr H1)].
    - (* loops *)
      intros k isw c p b w x Hp Hb Hx. rewrite exec_loop_S in Hx. cbv beta zeta in Hx.
      assert (Hbody : forall w2 y,
        (match ex n b w2 with
         | Some (CDone (GNormal | GContinue) w3) =>
             after_normal (match p with None => Some (CDone GNormal w3) | Some x0 => exec n x0 w3 end) (fun w4 => exloop n c p b w4)
         | Some (CDone GBreak w3) => Some (CDone GNormal w3)
         | other => other end) = Some y -> okc false false false y).
      { intros w2 y Hy. destruct (ex n b w2) as [yb|] eqn:Eb; [|discriminate].
        pose proof (IHL k true isw false b w2 yb Hb Eb) as Hyb.
        destruct yb as [g w3|sv w3|w3|w3 pv|]; try (inversion Hy; subst; exact Hyb).
        destruct g; cbn in Hyb; try discriminate; try (inversion Hy; subst; reflexivity).
        - eapply Hafter; [intros y0 Hy0; exact (Hsimple false false false p w3 y0 Hp Hy0)| |exact Hy]. intros w4 y4 H4. eapply IHLP; eauto.
        - eapply Hafter; [intros y0 Hy0; exact (Hsimple false false false p w3 y0 Hp Hy0)| |exact Hy]. intros w4 y4 H4. eapply IHLP; eauto. }
      destruct c as [cc|]; [|eapply Hbody; eauto].
      eapply Hlift; [|exact Hx]. intros bb w2 y2 H2. cbv beta in H2. destruct bb; [eapply Hbody; eauto|inversion H2; reflexivity].
  Qed.

  Lemma sig_build x w : is_sig x = true -> exists g, build yden x w = Ok (fst w) (VSig g).
  Proof. destruct x; try discriminate; intros _; cbn; eauto. Qed.

  (* on legal code a callback never completes natively, so the two readings agree *)
  Lemma strict_eq n :
    (forall sv w, OKV sv -> run true n sv w = run false n sv w) /\
    (forall t w, OKT t -> call true n t w = call false n t w) /\
    (forall c p body sk w, OKV body -> run_loop true n c p body sk w = run_loop false n c p body sk w).
  Proof.
    induction n as [|n [IHR [IHC IHRL]]]; [repeat split; reflexivity|].
    repeat split.
    - intros sv w Hv. rewrite !run_S. inversion Hv; subst.
      + destruct (env (snd w) v (fst w)) as [u' more]. destruct more; auto.
      + auto.
      + rewrite IHR by assumption. unfold after_normal. destruct (run false n a w) as [[g w1| | | |]|]; auto. destruct g; auto.
      + auto.
      + reflexivity.
    - intros t w Ht. rewrite !call_S. inversion Ht as [k l Hok Hterm Hfits|x Hx]; subst.
      + destruct (ex n l w) as [x|] eqn:El; [|reflexivity].
        pose proof (proj1 (proj2 (ok_exec n)) k false false false l w x Hok El) as Hc.
        destruct x as [g w1|sv w1| | |]; auto. exfalso. cbn in Hc. destruct g; try discriminate.
        pose proof (@is_term_sound _ _ _ aden cden tden kval yden env TFUEL (SBlock l) (S n) w Hfits Hterm) as Hs.
        rewrite exec_S in Hs. eapply Hs; eauto.
      + destruct (sig_build x w Hx) as [g ->]. destruct n; reflexivity.
    - intros c p body sk w Hv. rewrite !run_loop_S. cbv beta zeta.
      assert (Hiter : forall w2,
        (match run true n body w2 with
         | Some (CDone (GNormal | GContinue) w3) => run_loop true n c p body false w3
         | Some (CDone GBreak w3) => Some (CDone GNormal w3)
         | other => other end) =
        (match run false n body w2 with
         | Some (CDone (GNormal | GContinue) w3) => run_loop false n c p body false w3
         | Some (CDone GBreak w3) => Some (CDone GNormal w3)
         | other => other end)).
      { intros w2. rewrite IHR by assumption. destruct (run false n body w2) as [[g w3| | | |]|]; auto. destruct g; auto. }
      assert (Hap : forall w1,
        (match c with
         | None => (match run true n body w1 with
                    | Some (CDone (GNormal | GContinue) w3) => run_loop true n c p body false w3
                    | Some (CDone GBreak w3) => Some (CDone GNormal w3)
                    | other => other end)
         | Some (CExp cc) | Some (CFun cc) =>
             lift (cden cc (fst w1)) (snd w1) (fun bb w2 => if bb then
                 match run true n body w2 with
                 | Some (CDone (GNormal | GContinue) w3) => run_loop true n c p body false w3
                 | Some (CDone GBreak w3) => Some (CDone GNormal w3)
                 | other => other end else Some (CDone GNormal w2))
         end) =
        (match c with
         | None => (match run false n body w1 with
                    | Some (CDone (GNormal | GContinue) w3) => run_loop false n c p body false w3
                    | Some (CDone GBreak w3) => Some (CDone GNormal w3)
                    | other => other end)
         | Some (CExp cc) | Some (CFun cc) =>
             lift (cden cc (fst w1)) (snd w1) (fun bb w2 => if bb then
                 match run false n body w2 with
                 | Some (CDone (GNormal | GContinue) w3) => run_loop false n c p body false w3
                 | Some (CDone GBreak w3) => Some (CDone GNormal w3)
                 | other => other end else Some (CDone GNormal w2))
         end)).
      { intros w1. destruct c as [[cc|cc]|]; [| |apply Hiter];
          unfold lift; destruct (cden cc (fst w1)) as [u bb|u pv|]; auto; destruct bb; auto. }
      destruct sk; [apply Hap|]. destruct p as [ps|]; [|apply Hap].
      destruct (exec n ps w) as [[g w1| | | |]|]; auto. destruct g; auto.
  Qed.
End S.
