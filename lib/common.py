"""Shared plumbing for /verif/bin/check: paths, environment, builds, evidence, verdicts."""
import fcntl
import hashlib
import json
import os
import re
import shutil
import subprocess
import sys
import time

VERIF = os.path.dirname(os.path.dirname(os.path.abspath(__file__)))
REPO = os.environ.get("VERIF_REPO", "/repo")
COQ = os.path.join(VERIF, "coq")
HARNESS = os.path.join(VERIF, "harness")
WORKROOT = os.path.join(VERIF, ".work")
CACHE = os.path.join(VERIF, ".cache")
EVIDENCE = os.path.join(VERIF, "evidence")
REPLAYS = os.path.join(VERIF, "replays")
KNOWN = os.path.join(VERIF, "known_findings.txt")

GOENV = dict(os.environ)
GOENV.update({
    "GOFLAGS": "-mod=mod", "GOPROXY": "off", "GOSUMDB": "off", "GOTOOLCHAIN": "local",
    "GONOSUMDB": "*", "GONOSUMCHECK": "1", "GOFLAGS_EXTRA": "",
})


def seed():
    try:
        return int(os.environ.get("VERIF_SEED", "1"))
    except ValueError:
        return 1


def log(*a):
    print(*a, file=sys.stderr, flush=True)


def run(cmd, cwd=None, env=None, timeout=None, input=None, check=False):
    """Run a command, return (rc, stdout, stderr)."""
    p = subprocess.run(cmd, cwd=cwd, env=env or GOENV, timeout=timeout, input=input,
                       stdout=subprocess.PIPE, stderr=subprocess.PIPE, text=True)
    if check and p.returncode != 0:
        raise RuntimeError("command failed: %s\n%s\n%s" % (cmd, p.stdout[-4000:], p.stderr[-4000:]))
    return p.returncode, p.stdout, p.stderr


class Lock:
    def __init__(self, name):
        os.makedirs(CACHE, exist_ok=True)
        self.path = os.path.join(CACHE, name + ".lock")

    def __enter__(self):
        self.f = open(self.path, "w")
        fcntl.flock(self.f, fcntl.LOCK_EX)
        return self

    def __exit__(self, *a):
        fcntl.flock(self.f, fcntl.LOCK_UN)
        self.f.close()


def workdir(name):
    d = os.path.join(WORKROOT, "%s.%d" % (name, os.getpid()))
    shutil.rmtree(d, ignore_errors=True)
    os.makedirs(d)
    return d


def rmtree(d):
    shutil.rmtree(d, ignore_errors=True)


# ---------------------------------------------------------------- Coq

EXEC_MODELS = ["RtExec.vo", "IterExec.vo", "StructExec.vo", "CExec.vo", "OptExec.vo"]


def coq_build(targets=None):
    """make the Coq development (no-op when current): the given .vo targets and everything they
    depend on, or the whole project.  Returns (ok, output)."""
    with Lock("coq"):
        mk = os.path.join(COQ, "Makefile")
        cp = os.path.join(COQ, "_CoqProject")
        if not os.path.exists(mk) or os.path.getmtime(mk) < os.path.getmtime(cp):
            run(["coq_makefile", "-f", "_CoqProject", "-o", "Makefile"], cwd=COQ, check=True)
        rc, out, err = run(["timeout", "3000", "make", "-j16"] + list(targets or []), cwd=COQ)
        return rc == 0, out + err


def coq_files():
    out = []
    for l in open(os.path.join(COQ, "_CoqProject")):
        l = l.strip()
        if l.endswith(".v"):
            out.append(l)
    return out


def coq_deps(vfile):
    """Transitive project-local dependencies of a .v file (names without .v), including itself."""
    seen = []

    def go(f):
        if f in seen:
            return
        path = os.path.join(COQ, f + ".v")
        if not os.path.exists(path):
            return
        src = open(path).read()
        for m in re.finditer(r"From\s+Verif\s+Require\s+(?:Import|Export)\s+([^.]*)\.", src):
            for d in m.group(1).split():
                go(d)
        seen.append(f)

    go(vfile)
    return seen


FORBIDDEN = re.compile(r"\b(Admitted|admit|Axiom|Parameter|Conjecture|Unset\s+Guard|bypass_check|Admit\s+Obligations)\b")


def strip_comments(src):
    out, depth, i = [], 0, 0
    while i < len(src):
        if src.startswith("(*", i):
            depth += 1
            i += 2
        elif src.startswith("*)", i) and depth > 0:
            depth -= 1
            i += 2
        else:
            if depth == 0:
                out.append(src[i])
            i += 1
    return "".join(out)


def coq_audit(files):
    """Count closed proofs and look for forbidden vernacular in the given files."""
    obligations = 0
    bad = []
    for f in files:
        src = strip_comments(open(os.path.join(COQ, f + ".v")).read())
        obligations += len(re.findall(r"\b(Qed|Defined)\s*\.", src))
        for m in FORBIDDEN.finditer(src):
            bad.append("%s.v: %s" % (f, m.group(0)))
    return obligations, bad


def coq_props(pid):
    """Compile Props_<pid>.v, return dict(ok, output, theorems, assumptions, obligations, bad)."""
    name = "Props_" + pid
    path = os.path.join(COQ, name + ".v")
    res = {"ok": False, "output": "", "theorems": [], "assumptions": [], "obligations": 0, "bad": []}
    if not os.path.exists(path):
        res["output"] = "missing " + path
        return res
    ok, out = coq_build([name + ".vo"] + EXEC_MODELS)
    if not ok:
        res["output"] = out[-6000:]
        return res
    # re-run coqc on the props file to capture Print Assumptions (cheap)
    rc, o, e = run(["timeout", "600", "coqc", "-Q", ".", "Verif", name + ".v"], cwd=COQ)
    res["output"] = (o + e)[-8000:]
    if rc != 0:
        return res
    src = strip_comments(open(path).read())
    res["theorems"] = re.findall(r"\b(?:Theorem|Example)\s+([A-Za-z0-9_']+)", src)
    res["assumptions"] = parse_assumptions(o)
    deps = coq_deps(name)
    res["obligations"], res["bad"] = coq_audit(deps)
    res["deps"] = deps
    res["ok"] = not res["bad"]
    # thorough tier: re-check the compiled theorems and everything they depend on with the independent checker
    if res["ok"] and os.environ.get("VERIF_TIER_EFFECTIVE") == "thorough":
        with Lock("coq"):
            rc, o, e = run(["timeout", "2400", "coqchk", "-silent", "-o", "-Q", ".", "Verif", "Verif." + name], cwd=COQ)
        txt = o + e
        m = re.search(r"\* Axioms:\s*(.*?)\n\s*\n", txt, re.S)
        res["coqchk"] = {"exit": rc, "axioms": (m.group(1).strip() if m else "?"), "summary": txt[-600:]}
        if rc != 0:
            res["ok"] = False
            res["output"] = "coqchk failed:\n" + txt[-4000:]
    return res


def parse_assumptions(out):
    """Collect the axioms reported by Print Assumptions (empty when all are closed)."""
    axioms = []
    blocks = out.split("Axioms:")
    for b in blocks[1:]:
        for line in b.splitlines():
            m = re.match(r"^([A-Za-z_][A-Za-z0-9_.']*)\s*:", line)
            if m:
                axioms.append(m.group(1))
            elif line.strip() == "" and axioms:
                pass
    return sorted(set(axioms))


def coq_eval(workdir_, name, text, timeout=1200):
    """Write <name>.v in workdir, compile it against the project, return (rc, stdout+stderr)."""
    path = os.path.join(workdir_, name + ".v")
    with open(path, "w") as f:
        f.write(text)
    rc, o, e = run(["timeout", str(timeout), "coqc", "-Q", COQ, "Verif", name + ".v"], cwd=workdir_)
    return rc, o + e


# ---------------------------------------------------------------- Go harness

def harness_prepare():
    """Point the harness module at REPO and make sure go.sum is present."""
    with Lock("harness"):
        gomod = os.path.join(HARNESS, "go.mod")
        src = open(gomod).read()
        new = re.sub(r"replace github.com/goghcrow/go-co => .*", "replace github.com/goghcrow/go-co => " + REPO, src)
        if new != src:
            open(gomod, "w").write(new)
        gosum = os.path.join(HARNESS, "go.sum")
        want = open(os.path.join(REPO, "go.sum")).read()
        if not os.path.exists(gosum) or open(gosum).read() != want:
            open(gosum, "w").write(want)


def go_build(pkg, out, tags="verif"):
    harness_prepare()
    rc, o, e = run(["go", "build", "-tags", tags, "-o", out, pkg], cwd=HARNESS, timeout=900)
    return rc == 0, o + e


# ---------------------------------------------------------------- known findings

def known_findings(pid):
    """Entries of known_findings.txt for a property: list of dict(kind, id, what)."""
    out = []
    if not os.path.exists(KNOWN):
        return out
    for line in open(KNOWN):
        line = line.strip()
        if not line or line.startswith("#"):
            continue
        m = re.match(r"^(finding|fixed):\s*property=(\S+)\s+(\S+)\s+(.*)$", line)
        if m and m.group(2) == pid:
            out.append({"kind": m.group(1), "id": m.group(3), "what": m.group(4)})
    return out


# ---------------------------------------------------------------- evidence and verdict

class Report:
    def __init__(self, pid, tier):
        self.pid = pid
        self.tier = tier
        self.t0 = time.time()
        self.coverage = {}
        self.assumptions = []
        self.violations = []      # list of (replay_path, note)
        self.known = []           # list of strings
        self.level = "proof"

    def add_proof(self, props):
        self.coverage["obligations"] = props["obligations"]
        self.coverage["discharged"] = props["obligations"] if props["ok"] else 0
        self.coverage["checker_cmd"] = "make -C coq (coqc 8.16.1, full .vo build) && coqc Props_%s.v" % self.pid
        self.coverage["theorems"] = props["theorems"]
        self.coverage["print_assumptions"] = props["assumptions"] or ["Closed under the global context"]
        self.coverage["proof_files"] = props.get("deps", [])
        if props.get("coqchk"):
            self.coverage["coqchk"] = {"cmd": "coqchk -silent -o -Q . Verif Verif.Props_%s" % self.pid, "exit": props["coqchk"]["exit"],
                                       "axioms": props["coqchk"]["axioms"]}

    def violation(self, replay, note=""):
        self.violations.append((replay, note))

    def write_replay(self, name, obj):
        os.makedirs(REPLAYS, exist_ok=True)
        path = os.path.join(REPLAYS, "%s_%s.json" % (self.pid, name))
        with open(path, "w") as f:
            json.dump(obj, f, indent=1, sort_keys=True)
        return path

    def finish(self):
        os.makedirs(EVIDENCE, exist_ok=True)
        ev = {
            "property_id": self.pid,
            "tier": self.tier,
            "seed": seed(),
            "level": self.level,
            "coverage": self.coverage,
            "assumptions": self.assumptions,
            "wall_s": round(time.time() - self.t0, 2),
            "violations": len(self.violations),
        }
        with open(os.path.join(EVIDENCE, self.pid + ".json"), "w") as f:
            json.dump(ev, f, indent=1, sort_keys=True)
        for k in self.known:
            print("KNOWN-FINDING: property=%s %s" % (self.pid, k))
        if self.violations:
            for replay, note in self.violations:
                print("VIOLATION property=%s replay=%s%s" % (self.pid, replay, (" " + note) if note else ""))
            return 1
        print("OK property=%s tier=%s wall=%.1fs" % (self.pid, self.tier, time.time() - self.t0))
        return 0


def digest(obj):
    return hashlib.sha1(json.dumps(obj, sort_keys=True).encode()).hexdigest()
