"""Generator and renderers for Layer-R cases (combinator terms + consumer histories).

One abstract term is rendered twice: as JSON for harness/rt (real seq package) and as
a Coq term of type RtExec.rt.  All randomness comes from the random.Random passed in."""
import itertools
import json

SIGS = ["normal", "break", "continue", "return"]
COQ_SIG = {"normal": "KNormal", "break": "KBreak", "continue": "KContinue", "return": "KReturn"}


class Gen:
    def __init__(self, rng, panics=True, recv=True, regs=(0, 1, 2, 3)):
        self.rng = rng
        self.nid = 0
        self.panics = panics
        self.recv = recv
        self.regs = list(regs)

    def fresh(self):
        self.nid += 1
        return self.nid

    def reg(self):
        return self.rng.choice(self.regs)

    def acts(self, in_recv=False):
        r = self.rng
        out = []
        for _ in range(r.choice([0, 0, 1, 1, 2, 3])):
            k = r.random()
            if k < 0.30:
                out.append(["log", r.randint(1, 99)])
            elif k < 0.50:
                out.append(["set", self.reg(), r.randint(-2, 6)])
            elif k < 0.85:
                out.append(["add", self.reg(), r.choice([1, 1, 1, 2, -1])])
            elif k < 0.93 and self.panics:
                out.append(["panicif", self.reg(), r.randint(0, 5), r.randint(100, 199)])
            elif in_recv and self.recv:
                out.append(["recvto", self.reg()])
        if in_recv and self.recv and r.random() < 0.6:
            out.insert(r.randint(0, len(out)), ["recvto", self.reg()])
        return out

    def vexp(self):
        r = self.rng
        k = r.random()
        if k < 0.4:
            return ["const", r.randint(-3, 50)]
        if k < 0.75:
            return ["reg", self.reg()]
        return ["regplus", self.reg(), r.randint(1, 100)]

    def cexp(self, r_):
        r = self.rng
        k = r.random()
        if k < 0.70:
            return ["lt", r_, r.randint(1, 5)]
        if k < 0.80:
            return ["ne", r_, r.randint(1, 4)]
        if k < 0.9:
            return ["true"]
        return ["false"]

    def cond(self):
        r = self.rng
        rg = self.reg()
        acts = self.acts()
        if r.random() < 0.6:
            acts.append(["add", rg, 1])
        return {"id": self.fresh(), "acts": acts, "e": self.cexp(rg)}

    def post(self):
        return {"id": self.fresh(), "acts": self.acts()}

    def productive(self, t):
        """A loop body that spends budget or suspends before it can complete."""
        k = t["k"]
        if k in ("bind", "bindrecv", "delay"):
            return True
        if k == "combine":
            return self.productive(t["a"])
        if k == "for":
            return t.get("c") is not None
        return False

    def term(self, size):
        r = self.rng
        if size <= 1:
            k = r.random()
            if k < 0.55:
                return {"k": "sig", "t": r.choice(["normal", "normal", "normal", "break", "continue", "return"])}
            if k < 0.65:
                return {"k": "retv", "v": self.vexp()}
            if k < 0.85:
                return {"k": "bind", "v": self.vexp(), "id": self.fresh(), "acts": self.acts(),
                        "body": {"k": "sig", "t": "normal"}}
            return {"k": "delay", "id": self.fresh(), "acts": self.acts(), "body": {"k": "sig", "t": "normal"}}
        k = r.random()
        if k < 0.22:
            return {"k": "bind", "v": self.vexp(), "id": self.fresh(), "acts": self.acts(), "body": self.term(size - 1)}
        if k < 0.30 and self.recv:
            return {"k": "bindrecv", "v": self.vexp(), "id": self.fresh(), "acts": self.acts(True),
                    "body": self.term(size - 1)}
        if k < 0.48:
            return {"k": "delay", "id": self.fresh(), "acts": self.acts(), "body": self.term(size - 1)}
        if k < 0.74:
            a = r.randint(1, size - 1)
            return {"k": "combine", "a": self.term(a), "b": self.term(size - 1 - a if size - 1 - a > 0 else 1)}
        # loop
        c = self.cond() if r.random() < 0.8 else None
        p = self.post() if r.random() < 0.5 else None
        b = self.term(size - 1)
        if c is None and not self.productive(b):
            b = {"k": "delay", "id": self.fresh(), "acts": self.acts(), "body": b}
        return {"k": "for", "c": c, "p": p, "b": b}

    def history(self, ngens, maxlen):
        r = self.rng
        n = r.randint(1, maxlen)
        h = []
        style = r.random()
        for _ in range(n):
            gi = r.randrange(ngens)
            k = r.random()
            if style < 0.5:      # plain iteration with Current after each advance
                h.append([gi, "mn"])
                if r.random() < 0.6:
                    h.append([gi, "cur"])
            elif k < 0.45:
                h.append([gi, "mn"])
            elif k < 0.65:
                h.append([gi, "cur"])
            elif k < 0.85:
                h.append([gi, "send", r.randint(-5, 60)])
            else:
                h.append([gi, "res"])
        if r.random() < 0.5:
            h.append([r.randrange(ngens), "res"])
        return h


def make_case(rng, size, ngens=1, histlen=8, budget=60, panics=True, disjoint=False):
    g = Gen(rng, panics=panics)
    terms = []
    for i in range(ngens):
        if disjoint:
            g.regs = [i % 4]
        terms.append(g.term(rng.randint(1, size)))
    g.regs = [0, 1, 2, 3]
    return {"terms": terms, "hist": g.history(ngens, histlen), "budget": budget}


# ----------------------------------------------------------------------------- exhaustive small terms

def small_terms(n, alphabet):
    """All terms with exactly n constructors over a reduced alphabet (ids assigned later)."""
    if n == 1:
        for t in ("normal", "break", "continue", "return"):
            yield {"k": "sig", "t": t}
        yield {"k": "retv", "v": ["const", 7]}
        return
    for body in small_terms(n - 1, alphabet):
        yield {"k": "bind", "v": ["reg", 0], "id": 0, "acts": [["add", 0, 1]], "body": body}
        yield {"k": "delay", "id": 0, "acts": [["add", 1, 1]], "body": body}
        if "recv" in alphabet:
            yield {"k": "bindrecv", "v": ["const", 3], "id": 0, "acts": [["recvto", 2]], "body": body}
        # loops: condition-only, with post, infinite (only with productive body)
        yield {"k": "for", "c": {"id": 0, "acts": [["add", 3, 1]], "e": ["lt", 3, 3]}, "p": None, "b": body}
        yield {"k": "for", "c": {"id": 0, "acts": [["add", 3, 1]], "e": ["lt", 3, 3]},
               "p": {"id": 0, "acts": [["log", 5]]}, "b": body}
        if body["k"] in ("bind", "delay", "bindrecv"):
            yield {"k": "for", "c": None, "p": None, "b": body}
    for a in range(1, n - 1):
        for x in small_terms(a, alphabet):
            for y in small_terms(n - 1 - a, alphabet):
                yield {"k": "combine", "a": x, "b": y}


def assign_ids(t, counter=None):
    """Give every thunk/cond/post of a term a distinct id (in place), return the term."""
    if counter is None:
        counter = itertools.count(1)
    k = t["k"]
    if k in ("bind", "bindrecv", "delay"):
        t["id"] = next(counter)
        assign_ids(t["body"], counter)
    elif k == "combine":
        assign_ids(t["a"], counter)
        assign_ids(t["b"], counter)
    elif k == "for":
        if t.get("c"):
            t["c"]["id"] = next(counter)
        if t.get("p"):
            t["p"]["id"] = next(counter)
        assign_ids(t["b"], counter)
    return t


def copy(t):
    return json.loads(json.dumps(t))


def size(t):
    k = t["k"]
    if k in ("bind", "bindrecv", "delay"):
        return 1 + size(t["body"])
    if k == "combine":
        return 1 + size(t["a"]) + size(t["b"])
    if k == "for":
        return 1 + size(t["b"])
    return 1


def kinds(t, acc=None):
    acc = acc if acc is not None else {}
    k = t["k"]
    name = k if k != "sig" else "sig:" + t["t"]
    if k == "for":
        name = "for:%s%s" % ("c" if t.get("c") else "-", "p" if t.get("p") else "-")
    acc[name] = acc.get(name, 0) + 1
    if k in ("bind", "bindrecv", "delay"):
        kinds(t["body"], acc)
    elif k == "combine":
        kinds(t["a"], acc)
        kinds(t["b"], acc)
    elif k == "for":
        kinds(t["b"], acc)
    return acc


# ----------------------------------------------------------------------------- shrinking

def shrinks(case):
    """One-step reductions of a case (smaller terms, shorter histories)."""
    out = []
    h = case["hist"]
    for i in range(len(h)):
        c = copy(case)
        del c["hist"][i]
        if c["hist"]:
            out.append(c)
    for gi, t in enumerate(case["terms"]):
        for t2 in term_shrinks(t):
            c = copy(case)
            c["terms"][gi] = t2
            out.append(c)
    return out


def term_shrinks(t):
    k = t["k"]
    out = []
    if k in ("bind", "bindrecv", "delay"):
        out.append(copy(t["body"]))
        for i in range(len(t["acts"])):
            c = copy(t)
            del c["acts"][i]
            out.append(c)
        for b in term_shrinks(t["body"]):
            c = copy(t)
            c["body"] = b
            out.append(c)
    elif k == "combine":
        out.append(copy(t["a"]))
        out.append(copy(t["b"]))
        for a in term_shrinks(t["a"]):
            c = copy(t)
            c["a"] = a
            out.append(c)
        for b in term_shrinks(t["b"]):
            c = copy(t)
            c["b"] = b
            out.append(c)
    elif k == "for":
        out.append(copy(t["b"]))
        if t.get("p"):
            c = copy(t)
            c["p"] = None
            out.append(c)
        for b in term_shrinks(t["b"]):
            c = copy(t)
            c["b"] = b
            if c.get("c") is None and not Gen(None).productive(b):
                continue
            out.append(c)
    elif k == "retv":
        out.append({"k": "sig", "t": "return"})
    return out


# ----------------------------------------------------------------------------- Coq rendering

def cz(n):
    return "(%d)%%Z" % n


def cn(n):
    return "%d%%nat" % n


def coq_act(a):
    t = a[0]
    if t == "log":
        return "ALog %s" % cz(a[1])
    if t == "set":
        return "ASet %s %s" % (cn(a[1]), cz(a[2]))
    if t == "add":
        return "AAdd %s %s" % (cn(a[1]), cz(a[2]))
    if t == "panicif":
        return "APanicIfEq %s %s %s" % (cn(a[1]), cz(a[2]), cz(a[3]))
    if t == "recvto":
        return "ARecvTo %s" % cn(a[1])
    raise ValueError(a)


def coq_acts(acts):
    return "[" + "; ".join(coq_act(a) for a in acts) + "]"


def coq_cexp(e):
    t = e[0]
    if t == "true":
        return "CTrue"
    if t == "false":
        return "CFalse"
    if t == "lt":
        return "(CLt %s %s)" % (cn(e[1]), cz(e[2]))
    if t == "ne":
        return "(CNe %s %s)" % (cn(e[1]), cz(e[2]))
    raise ValueError(e)


def coq_vexp(e):
    t = e[0]
    if t == "const":
        return "(VConst %s)" % cz(e[1])
    if t == "reg":
        return "(VReg %s)" % cn(e[1])
    if t == "regplus":
        return "(VRegPlus %s %s)" % (cn(e[1]), cz(e[2]))
    raise ValueError(e)


def coq_term(t):
    k = t["k"]
    if k == "bind":
        return "(TBind %s %s %s %s)" % (coq_vexp(t["v"]), cz(t["id"]), coq_acts(t["acts"]), coq_term(t["body"]))
    if k == "bindrecv":
        return "(TBindRecv %s %s %s %s)" % (coq_vexp(t["v"]), cz(t["id"]), coq_acts(t["acts"]), coq_term(t["body"]))
    if k == "delay":
        return "(TDelay %s %s %s)" % (cz(t["id"]), coq_acts(t["acts"]), coq_term(t["body"]))
    if k == "combine":
        return "(TCombine %s %s)" % (coq_term(t["a"]), coq_term(t["b"]))
    if k == "for":
        c = "None" if not t.get("c") else "(Some (%s, %s, %s))" % (cz(t["c"]["id"]), coq_acts(t["c"]["acts"]), coq_cexp(t["c"]["e"]))
        p = "None" if not t.get("p") else "(Some (%s, %s))" % (cz(t["p"]["id"]), coq_acts(t["p"]["acts"]))
        return "(TFor %s %s %s)" % (c, p, coq_term(t["b"]))
    if k == "sig":
        return "(TOfK %s)" % COQ_SIG[t["t"]]
    if k == "retv":
        return "(TRetV %s)" % coq_vexp(t["v"])
    raise ValueError(t)


def coq_op(o):
    gi, name = o[0], o[1]
    if name == "mn":
        return "(%s, OpMoveNext)" % cn(gi)
    if name == "cur":
        return "(%s, OpCurrent)" % cn(gi)
    if name == "send":
        return "(%s, OpSend %s)" % (cn(gi), cz(o[2]))
    if name == "res":
        return "(%s, OpResult)" % cn(gi)
    raise ValueError(o)


def coq_case(case, result):
    evs = "[" + "; ".join("(%s, %s, %s)" % (cz(e[0]), cz(e[1]), cz(e[2])) for e in result["events"]) + "]"
    ds = "[" + "; ".join(cn(d) for d in result["depths"]) + "]"
    return ("{| rc_terms := [%s]; rc_hist := [%s]; rc_budget := %s;\n   rc_events := %s;\n   rc_depths := %s |}"
            % ("; ".join(coq_term(t) for t in case["terms"]),
               "; ".join(coq_op(o) for o in case["hist"]),
               cn(case["budget"]), evs, ds))


def coq_cases_file(cases, results):
    body = ";\n".join(coq_case(c, r) for c, r in zip(cases, results))
    return ("From Verif Require Import Base SeqMachine RtExec.\n"
            "Definition cases : list rcase := [\n%s\n].\n"
            "Definition M := Eval vm_compute in mismatches cases.\n"
            "Print M.\n" % body)
