"""Structural correspondence for the optimiser model (coq/Opt.v): the Start argument found in the
optimised output <dst> must equal  optimise (the model's unoptimised Start argument)."""
import re
from concurrent.futures import ThreadPoolExecutor

import common as C
import pgen
import structcheck as S

LIT = re.compile(r"""^(\d[\d_]*(\.\d+)?([eE][+-]?\d+)?|0[xXbBoO][0-9a-fA-F_]+|"[^"\\]*"|'[^'\\]'|`[^`]*`)$""")
STABLE = re.compile(r"^(ɪʇ\w*\.\w+)\(\)$")
ZEROARG = re.compile(r"^[^()]*\(\)$")


def has_closure(src_abs):
    """user function literals are rewritten by eta reduction too, which changes the text of atoms: such
    programs are left to the differential check"""
    bad = [False]

    def walk(ss):
        for s in ss:
            for k, v in s.items():
                if isinstance(v, str) and "func(" in v:
                    bad[0] = True
                elif isinstance(v, list) and v and isinstance(v[0], dict):
                    walk(v)
                elif isinstance(v, dict):
                    walk([v])
    walk(src_abs)
    return bad[0]


def texts(src_abs, key):
    out = []

    def walk(ss):
        for s in ss:
            if s.get("s") == "yield" and key == "yield":
                out.append(S.norm(s["v"]))
            if s.get("s") == "for" and key == "cond" and s.get("c") is not None:
                out.append(S.norm(s["c"]))
            for v in s.values():
                if isinstance(v, list) and v and isinstance(v[0], dict):
                    walk(v)
                elif isinstance(v, dict) and "s" in v:
                    walk([v])
                elif isinstance(v, dict):
                    walk([x for x in v.values() if isinstance(x, dict) and "s" in x])
                    for x in v.values():
                        if isinstance(x, list) and x and isinstance(x[0], dict):
                            walk(x)
            if s.get("s") == "switch":
                for c in s["cases"]:
                    walk(c["b"])
    walk(src_abs)
    return out


def row(src_abs, opt_tree):
    """Coq text of one ocase, or raises structcheck.Unknown."""
    if has_closure(src_abs):
        raise S.Unknown("user closures")
    ids = S.Ids()
    src = S.cq_stmts(src_abs, ids)
    lits = sorted({ids(t) for t in texts(src_abs, "yield") if LIT.match(t)})
    eta = []
    for t in set(texts(src_abs, "cond")):
        m = STABLE.match(t)
        if m:
            eta.append((ids(t), ids(S.norm(m.group(1)))))
        elif ZEROARG.match(t):
            raise S.Unknown("zero-argument call as loop condition: stability is decided by the type checker")
    exp = S.cq_sexp(opt_tree, ids)
    return ("{| oc_src := %s; oc_lits := [%s]; oc_eta := [%s]; oc_expect := %s |}"
            % (src, "; ".join(map(str, lits)), "; ".join("(%d, %d)" % p for p in eta), exp))


def _shard(args):
    work, name, base, rows = args
    text = ("From Coq Require Import List.\nFrom Verif Require Import Syntax Rewrite Opt OptExec.\nImport ListNotations.\n"
            "Definition cases : list ocase := [\n%s\n].\nDefinition M := Eval vm_compute in omismatches cases.\nPrint M.\n"
            "Definition K := Eval vm_compute in length (filter ocase_ok cases).\nPrint K.\n"
            "Definition K2 := Eval vm_compute in length (filter ocase_e2e cases).\nPrint K2.\n" % ";\n".join(rows))
    rc, out = C.coq_eval(work, name, text)
    if rc != 0:
        raise RuntimeError("coqc failed on optimiser cases: " + out[-3000:])
    m = re.search(r"M\s*=\s*(\[.*?\])\s*:\s*list", out, re.S)
    k = re.search(r"\bK\s*=\s*(\d+)", out)
    k2 = re.search(r"\bK2\s*=\s*(\d+)", out)
    return [(base + int(a), int(b)) for a, b in re.findall(r"\((\d+),\s*(\d+)\)", m.group(1))], int(k.group(1)), int(k2.group(1))


def compare(work, rows, shard=120):
    jobs = [(work, "ocases_%d" % (i // shard), i, rows[i:i + shard]) for i in range(0, len(rows), shard)]
    mism, ok, ok2 = [], 0, 0
    with ThreadPoolExecutor(max_workers=12) as ex:
        for r, k, k2 in ex.map(_shard, jobs):
            mism.extend(r)
            ok += k
            ok2 += k2
    return sorted(mism), ok, ok2
