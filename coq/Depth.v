(* Depth.v — C17: stack depth of user-code calls.  [dlog] records the Go stack
   depth of every thunk / condition / post call.  Proved here:
   - a synchronous loop-back re-enters the loop at the trampoline's own depth;
   - for loops whose body completes without suspending (Normal or Continue, the
     shape of a filter that rejects elements), ANY number of iterations logs
     exactly the depth dl+1 for every condition and post evaluation. *)
From Verif Require Import Base SeqMachine.

Set Implicit Arguments.

Section Depth.
  Variables U V P : Type.
  Variable zeroV : V.
  Notation st := (st U V P).
  Notation seqv := (seqv U V P).

  (* the continuation of a loop body, invoked in the same advance, continues the
     loop at the depth dl of the loop frame, whatever the current depth d is *)
  Lemma loopback_same_depth n d cd p (b : seqv) c k dl t v (m : st) :
    t = KNormal \/ t = KContinue ->
    call_cont zeroV (S n) d (KFor cd p b c k dl (get_epoch m c)) t v m = loop zeroV n dl cd p b c k false m.
  Proof. intros [->| ->]; rewrite call_cont_S, Nat.eqb_refl; reflexivity. Qed.

  (* after a suspension (epoch changed) the loop restarts one frame below the caller *)
  Lemma loopback_after_yield n d cd p (b : seqv) c k dl ep t v (m : st) :
    t = KNormal \/ t = KContinue -> ep <> get_epoch m c ->
    call_cont zeroV (S n) d (KFor cd p b c k dl ep) t v m = loop zeroV n (S d) cd p b c k false m.
  Proof.
    intros Ht He. apply Nat.eqb_neq in He. destruct Ht as [->| ->]; rewrite call_cont_S, He; reflexivity.
  Qed.

  Lemma call_user_epoch A (f : oracle U P A) n d (m : st) c :
    match call_user f n d m with
    | Some (MOk m' _) | Some (MPanic m' _) => get_epoch m' c = get_epoch m c
    | _ => True
    end.
  Proof. unfold call_user. destruct (f n (world m)) as [[u a|u pv|]|]; auto. Qed.

  Lemma call_user_dlog A (f : oracle U P A) n d (m : st) :
    match call_user f n d m with
    | Some (MOk m' _) | Some (MPanic m' _) => dlog m' = d :: dlog m
    | _ => True
    end.
  Proof. unfold call_user. destruct (f n (world m)) as [[u a|u pv|]|]; auto. Qed.

  (* l2 extends l1 by entries that are all equal to x *)
  Definition extends_with (x : nat) (l1 l2 : list nat) : Prop :=
    exists j, l2 = repeat x j ++ l1.

  Lemma extends_refl x l : extends_with x l l.
  Proof. exists 0. reflexivity. Qed.
  Lemma extends_cons x l1 l2 : extends_with x l1 l2 -> extends_with x l1 (x :: l2).
  Proof. intros [j ->]. exists (S j). reflexivity. Qed.
  Lemma extends_trans x l1 l2 l3 : extends_with x l1 l2 -> extends_with x l2 l3 -> extends_with x l1 l3.
  Proof. intros [j ->] [i ->]. exists (i + j). rewrite repeat_app, app_assoc. reflexivity. Qed.

  (* a loop whose body is Normal or Continue, followed by nothing: however many
     iterations it runs, every user call it makes is at depth dl + 1 *)
  Theorem sync_loop_constant_depth n : forall dl cd p t c g sk (m : st) r,
    t = KNormal \/ t = KContinue ->
    loop zeroV n dl cd p (SOfK t) c (KFinal g) sk m = Some r ->
    match r with
    | MOk m' _ | MPanic m' _ => extends_with (S dl) (dlog m) (dlog m')
    | MStuck => True
    end.
  Proof.
    induction n as [n IH] using lt_wf_ind. intros dl cd p t c g sk m r Ht.
    destruct n as [|n]; [discriminate|]. rewrite loop_S.
    assert (Hpost : match (if sk then Some (MOk m tt)
                           else match p with None => Some (MOk m tt) | Some pf => call_user pf n (S dl) m end) with
                    | Some (MOk m1 _) | Some (MPanic m1 _) =>
                        extends_with (S dl) (dlog m) (dlog m1) /\ get_epoch m1 c = get_epoch m c
                    | _ => True end).
    { destruct sk; [split; auto using extends_refl|]. destruct p as [pf|]; [|split; auto using extends_refl].
      pose proof (call_user_dlog pf n (S dl) m) as Hd. pose proof (call_user_epoch pf n (S dl) m c) as He.
      destruct (call_user pf n (S dl) m) as [[m1 ?|m1 pv|]|]; auto;
        (split; [rewrite Hd; apply extends_cons, extends_refl|exact He]). }
    destruct (if sk then Some (MOk m tt)
              else match p with None => Some (MOk m tt) | Some pf => call_user pf n (S dl) m end)
      as [[m1 ?|m1 pv|]|]; try (intros H; inversion H; subst; tauto).
    destruct Hpost as [Hx1 He1].
    assert (Hcond : match (match cd with None => Some (MOk m1 true) | Some cf => call_user cf n (S dl) m1 end) with
                    | Some (MOk m2 _) | Some (MPanic m2 _) =>
                        extends_with (S dl) (dlog m1) (dlog m2) /\ get_epoch m2 c = get_epoch m1 c
                    | _ => True end).
    { destruct cd as [cf|]; [|split; auto using extends_refl].
      pose proof (call_user_dlog cf n (S dl) m1) as Hd. pose proof (call_user_epoch cf n (S dl) m1 c) as He.
      destruct (call_user cf n (S dl) m1) as [[m2 ?|m2 pv|]|]; auto;
        (split; [rewrite Hd; apply extends_cons, extends_refl|exact He]). }
    destruct (match cd with None => Some (MOk m1 true) | Some cf => call_user cf n (S dl) m1 end)
      as [[m2 [|]|m2 pv|]|]; try (intros H; inversion H; subst; auto; fail).
    - (* condition true: body (two Go calls), then the loop continues at depth dl *)
      destruct Hcond as [Hx2 He2].
      destruct n as [|n]; [discriminate|]. rewrite call_seq_S.
      destruct n as [|n]; [discriminate|].
      rewrite (@loopback_same_depth n (S (S dl)) cd p (SOfK t) c (KFinal g) dl t zeroV m2 Ht).
      intros H. apply IH in H; auto.
      assert (Hx : extends_with (S dl) (dlog m) (dlog m2)) by (eapply extends_trans; eauto).
      destruct r as [m' ?|m' pv|]; auto; eapply extends_trans; eauto.
    - (* condition false: the loop ends, Start's final continuation stores the result *)
      destruct Hcond as [Hx2 He2].
      destruct n as [|n]; [discriminate|]. rewrite call_cont_S.
      intros H; inversion H; subst. unfold set_result.
      destruct (lookup (gens m2) g); cbn [dlog set_gen]; eapply extends_trans; eauto.
    - destruct Hcond as [Hx2 He2]. intros H; inversion H; subst. eapply extends_trans; eauto.
  Qed.
End Depth.
