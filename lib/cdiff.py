"""Differential core for compiler properties: generate programs, compile, run co vs ref, compare."""
import random

import common as C
import cbatch
import pgen


def lib_funcs():
    """Helper generators available in every package for YieldFrom / range-over-iterator."""
    Y = lambda i: {"s": "yield", "id": i}
    E = lambda i: {"s": "atom", "id": i}
    return [
        ("L0", [{"s": "if", "init": None, "c": 9000, "then": [Y(9001)], "else": None}]),
        ("L1", [Y(9010), E(9011), Y(9012), Y(9013)]),
        ("L2", [{"s": "for", "init": None, "c": 9020, "post": None, "b": [Y(9021), E(9022)]}, E(9023)]),
        ("L3", [{"s": "if", "init": None, "c": 9030, "then": [{"s": "yieldfrom", "g": "L3"}], "else": None},
                Y(9031),
                {"s": "if", "init": None, "c": 9032, "then": [{"s": "yieldfrom", "g": "L3"}, E(9033)], "else": None}]),
    ]


def gen_programs(rng, n, size=6, feats=None, prefix="G"):
    progs = []
    for i in range(n):
        g = pgen.PGen(rng, feats or set())
        if feats and ("yieldfrom" in feats or "consumer" in feats):
            g.others = ["L0", "L1", "L2", "L3"]
        body = g.body(rng.choice([2, 3, 4, size]))
        if not pgen.has_yield(body):
            # a function without any Yield is not a generator at all
            body.insert(0, {"s": "yield", "id": g.fresh()})
        progs.append({"name": "%s%d" % (prefix, i), "body": body, "nid": g.nid})
    return progs


# when set (C11): the source files of a package import the API in different ways
IMPORT_STYLES = None


def make_batch(name, progs, per_file=6, files_per_pkg=8, gover="1.21"):
    b = cbatch.Batch(name, gover=gover)
    b.styles = {}
    for i, p in enumerate(progs):
        fi = i // per_file
        pkg = "p%d" % (fi // files_per_pkg)
        b.add(pkg, "f%d" % fi, p["name"], p["body"])
        if IMPORT_STYLES:
            b.styles[(pkg, "f%d" % fi)] = IMPORT_STYLES[fi % len(IMPORT_STYLES)]
        p["pkg"] = pkg
        p["file"] = "f%d" % fi
    for pkg in list(b.pkgs):
        for name, body in lib_funcs():
            b.add(pkg, "lib", name, body)
    return b


def make_cases(rng, progs, tapes=3, histlen=10, budget=120):
    cases = []
    for p in progs:
        fixed = p.get("tapes")
        for t in range(len(fixed) if fixed else tapes):
            tape = [rng.choice([0, 1, 1, 1, 2, 3, 7]) for _ in range(rng.randint(0, 24))]
            if t == 0:
                tape = [1] * 30
            if fixed:
                tape = fixed[t]
            hist = []
            for _ in range(histlen):
                hist.append("mn")
                hist.append("cur")
            cases.append({"g": "%s.%s" % (p["pkg"], p["name"]), "tape": tape, "budget": budget, "hist": hist, "prog": p["name"]})
    return cases


def compare(cases, out_res, ref_res):
    """Indices of cases where the compiled program's event log differs from the reference's."""
    diffs = []
    for i, (c, a, b) in enumerate(zip(cases, out_res, ref_res)):
        if a.get("err") == "missing":
            continue
        if a["events"] != b["events"]:
            diffs.append(i)
    return diffs


def run_batch(name, progs, rng, tapes=3, histlen=10, budget=120, want_tmp=False, per_file=6, gover="1.21", oc=False):
    """Compile and run programs (two rounds: files that fail are re-run one function per file).
    Returns dict(status={prog: 'ok'|reason}, cases=[...], out=[...], ref=[...], tmp=[...]|None)."""
    status, cases_all, out_all, ref_all = {}, [], [], []
    struct_entries = []
    import structcheck
    todo = list(progs)
    for rnd in range(2):
        if not todo:
            break
        b = make_batch("%s_r%d" % (name, rnd), todo, per_file=(per_file if rnd == 0 else 1),
                       files_per_pkg=(8 if rnd == 0 else 40), gover=gover)
        try:
            if oc and rnd == 0:
                import optcorpus
                b.extra_src[("oc", "oc.go")] = optcorpus.render("co")
            b.write()
            if oc and rnd == 0:
                import os
                os.makedirs(os.path.join(b.work, "ref", "oc"), exist_ok=True)
                open(os.path.join(b.work, "ref", "oc", "oc.go"), "w").write(optcorpus.render("ref"))
                b.pkgs["oc"] = {"oc": [(nm, None) for nm in optcorpus.GENS]}
            b.compile()
            # abstract trees of the unoptimised stage, for the structural correspondence with coq/Rewrite.v
            trees = {}
            tmpdir = __import__("os").path.join(b.work, "tmp")
            if __import__("os").path.isdir(tmpdir):
                for t in structcheck.abstract_dirs(b.work, [tmpdir]):
                    if "func" in t:
                        trees[(t["pkg"], t["func"])] = t["start"]
            compile_status = dict(b.status)
            b.build_out()
            xo = b.write_runner("runout", "out", True)
            xr = b.write_runner("runref", "ref", False)
            retry = []
            good = []
            for p in todo:
                key = "%s.%s" % (p["pkg"], p["name"])
                final = True
                if key in b.status:
                    if rnd == 0:
                        retry.append(p)
                        final = False
                    else:
                        status[p["name"]] = b.status[key]
                else:
                    good.append(p)
                    status[p["name"]] = "ok"
                if final and p.get("body") is not None and structcheck.eligible(p["body"]):
                    try:
                        src = structcheck.src_stmts(p["body"]) + [{"s": "return"}]   # render_func appends `return nil`
                        if (p["pkg"], p["name"]) in trees:
                            struct_entries.append((p["name"], src, ("tree", structcheck.tgt_sexp(structcheck.canon_iters(trees[(p["pkg"], p["name"])])))))
                        elif compile_status.get(key, "").startswith("compile-panic(rewrite)"):
                            struct_entries.append((p["name"], src, ("rejected",)))
                    except structcheck.Unknown as ex:
                        struct_entries.append((p["name"], None, ("unknown", str(ex))))
            cases = make_cases(rng, good, tapes=tapes, histlen=histlen, budget=budget)
            if oc and rnd == 0:
                for nm in optcorpus.GENS:
                    if "oc.%s" % nm in b.status:
                        status["oc." + nm] = b.status["oc.%s" % nm]
                        continue
                    for tape in ([1] * 30, [1, 1, 0, 1, 0], [0]):
                        cases.append({"g": "oc." + nm, "tape": tape, "budget": budget, "hist": ["mn", "cur"] * 8, "prog": "oc." + nm})
            if cases:
                out_all += b.run(xo, cases)
                ref_all += b.run(xr, cases)
                cases_all += cases
            todo = retry
        finally:
            b.close()
    return {"status": status, "cases": cases_all, "out": out_all, "ref": ref_all, "struct": struct_entries}
