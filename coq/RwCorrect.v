(* RwCorrect.v — forward simulation for pass2 of the rewriter model (Rewrite.v):
   whatever the source statement list does in tail position (Sem.exec, Yield
   executing natively), the rewritten block does under the generalised reading of
   callbacks (Sem.run with strict = false).  Proof by induction on the rewriter's
   fuel; the continuation [k] of the CPS-style model functions is specified by
   [Kspec]. *)
From Coq Require Import List Arith Bool Lia.
From Verif Require Import Base Syntax Sem SemLemmas Rewrite Side RwBase Rel TermSound Strict.
Import ListNotations.

Set Implicit Arguments.

Section C.
  Variables U V P : Type.
  Variable aden : nat -> U -> outcome U P unit.
  Variable cden : nat -> U -> outcome U P bool.
  Variable tden : nat -> U -> outcome U P nat.
  Variable kval : nat -> nat.
  Variable yden : nat -> U -> outcome U P V.
  Variable env : nat -> V -> U -> U * bool.

  Notation compl := (compl U V P).
  Notation W := (W U).
  Notation exec := (exec aden cden tden kval yden env).
  Notation ex := (exec_list aden cden tden kval yden env).
  Notation rung := (run aden cden tden kval yden env false).
  Notation callg := (call aden cden tden kval yden env false).
  Notation N := (N aden cden tden kval yden env).
  Notation norm := (norm aden cden tden kval yden env).

  (* target list [t] simulates source list [s] in tail position *)
  Definition sim (s t : list stmt) : Prop :=
    forall n w r, N n s w = Some r -> exists m, N m t w = Some r.

  Lemma sim_refl s : sim s s.
  Proof. intros n w r H. eauto. Qed.
  Lemma sim_trans a b c : sim a b -> sim b c -> sim a c.
  Proof. intros H1 H2 n w r H. destruct (H1 n w r H) as [m Hm]. eauto. Qed.

  (* ---- facts about the generalised call ---- *)
  Lemma callg_S n l w : callg (S n) (TLit l) w = N n l w.
  Proof.
    unfold RwBase.N, RwBase.norm. cbn [call]. destruct (ex n l w) as [[g w'|sv w'|w'|w' pv|]|]; reflexivity.
  Qed.

  Lemma run_delay_S n l w : rung (S (S n)) (VDelay (TLit l)) w = N n l w.
  Proof. cbn [run]. apply callg_S. Qed.

  (* ---- N over appended lists ---- *)
  (* a trailing `return Normal()` changes nothing in tail position *)
  Lemma sim_snoc_normal l : sim l (l ++ [SRet XNormal]).
  Proof.
    intros n w r H. unfold RwBase.N in *.
    destruct (ex n l w) as [c|] eqn:E; [|discriminate].
    assert (Hstop : (forall w', c <> CDone GNormal w') -> exists m, norm m (ex m (l ++ [SRet XNormal]) w) = Some r).
    { intros Hn. exists n. rewrite (@ex_app_stop _ _ _ aden cden tden kval yden env n l [SRet XNormal] w c E Hn). exact H. }
    destruct c as [g w'|sv w'|w'|w' pv|]; try (apply Hstop; discriminate).
    destruct g; try (apply Hstop; discriminate).
    exists (n + 3).
    assert (E3 : ex 3 [SRet XNormal] w' = Some (CRet (VSig GNormal) w')) by (destruct w'; reflexivity).
    rewrite (@ex_app_go _ _ _ aden cden tden kval yden env 3 n l [SRet XNormal] w w' _ E E3).
    cbn in H. inversion H; subst. replace (n + 3) with (S (n + 2)) by lia. reflexivity.
  Qed.

  (* replacing a suffix by a simulating suffix after a common native prefix *)
  Lemma sim_app pre s t : sim s t -> sim (pre ++ s) (pre ++ t).
  Proof.
    intros Hst n w r H. unfold RwBase.N in H.
    destruct (ex n (pre ++ s) w) as [c|] eqn:E; [|discriminate].
    destruct (@ex_app_fwd _ _ _ aden cden tden kval yden env n pre s w c E) as [[E1 Hn]|[w' [E1 [m [Hm E2]]]]].
    - exists n. unfold RwBase.N. rewrite (@ex_app_stop _ _ _ aden cden tden kval yden env n pre t w c E1 Hn). exact H.
    - assert (Hs : N n s w' = Some r).
      { unfold RwBase.N. rewrite (@exm _ _ _ aden cden tden kval yden env m n s w' c Hm E2). exact H. }
      destruct (Hst n w' r Hs) as [m2 H2]. unfold RwBase.N in H2.
      destruct (ex m2 t w') as [c2|] eqn:E3; [|discriminate].
      exists (n + m2). unfold RwBase.N. rewrite (@ex_app_go _ _ _ aden cden tden kval yden env m2 n pre t w w' c2 E1 E3).
      eapply norm_mono; [|exact H2]. lia.
  Qed.

  (* ---- the block record ---- *)
  Lemma push_stmts c s k c' : push c s k = OK c' -> bstmts c' = bstmts c ++ [s].
  Proof. unfold push. destruct (negb (checked c) || frozen c); [discriminate|]. intros H; inversion H; reflexivity. Qed.

  Lemma pushReturn_stmts c e k c' : pushReturn c e k = OK c' -> bstmts c' = bstmts c ++ [SRet e].
  Proof.
    unfold pushReturn. destruct (negb (is_ret_kind k)); [discriminate|].
    destruct (push c (SRet e) k) as [b|] eqn:E; cbn [bind]; [|discriminate].
    intros H; inversion H; subst. cbn. eapply push_stmts; eauto.
  Qed.

  Lemma last_some_app A (l : list A) x : last (map Some l) None = Some x -> l = removelast l ++ [x].
  Proof.
    induction l as [|a l IH]; [discriminate|].
    destruct l as [|b l'].
    - cbn. intros H. inversion H. reflexivity.
    - intros H. change (removelast (a :: b :: l')) with (a :: removelast (b :: l')).
      cbn [app]. f_equal. apply IH. exact H.
  Qed.

  Lemma pop_stmts c s k c' : pop c = OK (s, k, c') -> bstmts c = bstmts c' ++ [s].
  Proof.
    unfold pop. destruct (lastStmt c) as [s0|] eqn:E; [|discriminate]. destruct (lastKind c); [|discriminate].
    intros H; inversion H; subst. cbn. apply last_some_app. exact E.
  Qed.

  Lemma markCombined_stmts c : bstmts (markCombined c) = bstmts c.
  Proof. reflexivity. Qed.

  (* generateLastNormalIfNecessary only ever appends `return Normal()` *)
  Lemma gln_stmts c c' : gln c = OK c' -> bstmts c' = bstmts c \/ bstmts c' = bstmts c ++ [SRet XNormal].
  Proof.
    unfold gln. destruct (bkind c); try (intros H; inversion H; auto; fail).
    all: destruct (returnNormalRequired c) as [[|]|]; cbn [bind]; try discriminate;
      try (intros H; inversion H; auto; fail);
      intros H; right; erewrite pushReturn_stmts by eassumption; reflexivity.
  Qed.

  Lemma gln_sim c c' : gln c = OK c' -> sim (bstmts c) (bstmts c').
  Proof.
    intros H. destruct (gln_stmts _ H) as [-> | ->]; [apply sim_refl|apply sim_snoc_normal].
  Qed.

  (* ---- continuations ---- *)
  (* meaning of "block c, then the source statements rest" *)
  Definition Nseq (n : nat) (c : list stmt) (rest : list stmt) (w : W) : option compl :=
    match ex n c w with
    | Some (CDone GNormal w') => N n rest w'
    | Some (CRet sv w') => match rung n sv w' with
                           | Some (CDone GNormal w'') => N n rest w''
                           | other => other
                           end
    | other => other
    end.

  Definition Kspec (k : blk -> res blk) (rest : list stmt) : Prop :=
    forall c B, k c = OK B -> forall n w r, Nseq n (bstmts c) rest w = Some r -> exists m, N m (bstmts B) w = Some r.

  (* ---- source statements: the only seq expression they contain is the `return seq.Return()`
     that pass0 put in place of `return` ---- *)
  Inductive srcok : stmt -> Prop :=
  | ok_atom a : srcok (SAtom a)
  | ok_yield v : srcok (SYield v)
  | ok_block b : Forall srcok b -> srcok (SBlock b)
  | ok_if i c t e : (forall x, i = Some x -> srcok x) -> Forall srcok t -> elsok e -> srcok (SIf i c t e)
  | ok_switch i t cs : (forall x, i = Some x -> srcok x) -> Forall (fun lb => Forall srcok (snd lb)) cs -> srcok (SSwitch i t cs)
  | ok_for i c p b : (forall x, i = Some x -> srcok x) -> (forall x, p = Some x -> srcok x) -> Forall srcok b -> srcok (SFor i c p b)
  | ok_break : srcok SBreak
  | ok_continue : srcok SContinue
  | ok_fallthrough : srcok SFallthrough
  | ok_ret : srcok (SRet XReturn)
  with elsok : els -> Prop :=
  | ok_enone : elsok ENone
  | ok_eelse b : Forall srcok b -> elsok (EElse b)
  | ok_eelif s : srcok s -> elsok (EElif s).

  (* native execution of source statements returns a seq value only for `return seq.Return()` *)
  Definition retonly (r : option compl) : Prop :=
    forall sv w, r = Some (CRet sv w) -> sv = VSig GReturn.

  Lemma retonly_after x f : retonly x -> (forall w, retonly (f w)) -> retonly (after_normal x f).
  Proof.
    intros Hx Hf sv w. unfold after_normal. destruct x as [[g w1|sv1 w1|w1|w1 pv|]|]; try discriminate.
    - destruct g; try discriminate. apply Hf.
    - intros H. inversion H; subst. apply (Hx sv w). reflexivity.
  Qed.

  Lemma retonly_lift A (o : outcome U P A) k f : (forall a w, retonly (f a w)) -> retonly (lift o k f).
  Proof. intros Hf sv w. unfold lift. destruct o; try discriminate. apply Hf. Qed.

  Lemma retonly_done g w : retonly (Some (CDone g w)).
  Proof. intros sv w' H. discriminate. Qed.
  Lemma retonly_none : retonly None.
  Proof. intros sv w' H. discriminate. Qed.

  Lemma default_from_ok cs d : Forall (fun lb => Forall srcok (snd lb)) cs -> default_from cs = Some d ->
    Forall (fun lb : clabel * list stmt => Forall srcok (snd lb)) d.
  Proof.
    induction cs as [|[lab b] cs IH]; cbn; [discriminate|]. intros H. inversion H; subst.
    destruct lab; auto. intros E. inversion E; subst. constructor; auto.
  Qed.
  Lemma pick_clause_ok tv cs d : Forall (fun lb => Forall srcok (snd lb)) cs -> pick_clause kval tv cs = Some d ->
    Forall (fun lb : clabel * list stmt => Forall srcok (snd lb)) d.
  Proof.
    induction cs as [|[lab b] cs IH]; cbn; [discriminate|]. intros H. inversion H; subst.
    destruct (clause_matches kval lab tv); auto. intros E. inversion E; subst. constructor; auto.
  Qed.

  Lemma srcok_retonly n :
    (forall s w, srcok s -> retonly (exec n s w)) /\
    (forall l w, Forall srcok l -> retonly (ex n l w)) /\
    (forall l w, Forall (fun lb => Forall srcok (snd lb)) l -> retonly (exec_from aden cden tden kval yden env n l w)) /\
    (forall a l w, Forall (fun lb => Forall srcok (snd lb)) a -> Forall (fun lb => Forall srcok (snd lb)) l ->
                   retonly (exec_pick aden cden tden kval yden env n a l w)) /\
    (forall c p b w, (forall x, p = Some x -> srcok x) -> Forall srcok b -> retonly (exec_loop aden cden tden kval yden env n c p b w)).
  Proof.
    induction n as [|n [IH1 [IH2 [IH3 [IH4 IH5]]]]].
    { repeat split; intros; apply retonly_none. }
    assert (Hopt : forall (i : option stmt) w, (forall x, i = Some x -> srcok x) ->
              retonly (match i with None => Some (CDone GNormal w) | Some x => exec n x w end)).
    { intros [x|] w H; [apply IH1; auto|apply retonly_done]. }
    repeat split.
    - intros s w Hs. rewrite exec_S. inversion Hs; subst.
      + apply retonly_lift. intros; apply retonly_done.
      + apply retonly_lift. intros x w'. destruct (env (snd w') x (fst w')) as [u' more]. destruct more; intros sv w2 H; discriminate.
      + apply IH2; assumption.
      + apply retonly_after; [apply Hopt; assumption|]. intros w1. apply retonly_lift. intros b w2.
        destruct b; [apply IH2; assumption|].
        match goal with H : elsok _ |- _ => inversion H; subst end; [apply retonly_done|apply IH2; assumption|apply IH1; assumption].
      + apply retonly_after; [apply Hopt; assumption|]. intros w1. destruct t as [t|].
        * apply retonly_lift. intros tv w2. destruct (pick_clause kval tv cs) eqn:E.
          -- apply IH3. eapply pick_clause_ok; eauto.
          -- destruct (default_from cs) eqn:E2; [apply IH3; eapply default_from_ok; eauto|apply retonly_done].
        * apply IH4; assumption.
      + apply retonly_after; [apply Hopt; assumption|]. intros w1. apply IH5; assumption.
      + apply retonly_done.
      + apply retonly_done.
      + apply retonly_done.
      + intros sv w' H. cbn in H. inversion H; reflexivity.
    - intros l w Hl. destruct l as [|x r]; [apply retonly_done|]. inversion Hl; subst.
      rewrite ex_S. apply retonly_after; [apply IH1; assumption|]. intros w'. apply IH2; assumption.
    - intros l w Hl. destruct l as [|[lab b] r]; [apply retonly_done|]. inversion Hl; subst. cbn [snd] in *.
      rewrite exec_from_S. pose proof (IH2 b w H1) as Hb.
      destruct (ex n b w) as [[g w'|sv w'|w'|w' pv|]|]; try (intros sv0 w0 H; discriminate).
      * destruct g; try apply retonly_done. destruct r; [intros sv0 w0 H0; discriminate|]. apply IH3; assumption.
      * exact Hb.
    - intros a l w Ha Hl. destruct l as [|[lab b] r].
      + rewrite exec_pick_S. destruct (default_from a) eqn:E; [apply IH3; apply (default_from_ok Ha E)|apply retonly_done].
      + inversion Hl; subst. rewrite exec_pick_S. destruct lab; try (apply IH4; assumption).
        apply retonly_lift. intros bb w'. destruct bb; [apply IH3; assumption|apply IH4; assumption].
    - intros c p b w Hp Hb. rewrite exec_loop_S. cbv zeta.
      assert (Hbody : forall w2, retonly
        (match ex n b w2 with
         | Some (CDone (GNormal | GContinue) w3) =>
             after_normal (match p with None => Some (CDone GNormal w3) | Some x => exec n x w3 end)
               (fun w4 => exec_loop aden cden tden kval yden env n c p b w4)
         | Some (CDone GBreak w3) => Some (CDone GNormal w3)
         | other => other
         end)).
      { intros w2. pose proof (IH2 b w2 Hb) as H2.
        destruct (ex n b w2) as [[g w3|sv w3|w3|w3 pv|]|]; try (intros sv0 w0 H; discriminate); [|exact H2].
        destruct g; try apply retonly_done; (apply retonly_after; [apply Hopt; assumption|intros w4; apply IH5; assumption]). }
      destruct c as [cc|]; [|apply Hbody]. apply retonly_lift. intros bb w2. destruct bb; [apply Hbody|apply retonly_done].
  Qed.

  Lemma ex_srcok_ret n l w sv w' : Forall srcok l -> ex n l w = Some (CRet sv w') -> sv = VSig GReturn.
  Proof. intros Hl H. exact (proj1 (proj2 (srcok_retonly n)) l w Hl sv w' H). Qed.

  (* ---- small facts about N and Nseq ---- *)
  Lemma N_nil n w : N (S n) [] w = Some (CDone GNormal w).
  Proof. reflexivity. Qed.

  Lemma rung_sig n g w : rung (S n) (VSig g) w = Some (CDone g w).
  Proof. reflexivity. Qed.

  Lemma Nseq_mono n m c rest w r : n <= m -> Nseq n c rest w = Some r -> Nseq m c rest w = Some r.
  Proof.
    intros Hle. unfold Nseq. destruct (ex n c w) as [x|] eqn:E; [|discriminate].
    rewrite (@exm _ _ _ aden cden tden kval yden env n m c w x Hle E).
    destruct x as [g w'|sv w'|w'|w' pv|]; auto.
    - destruct g; auto. apply N_mono; assumption.
    - destruct (rung n sv w') as [y|] eqn:E2; [|discriminate].
      rewrite (@runm _ _ _ aden cden tden kval yden env n m sv w' y Hle E2).
      destruct y as [g w''| | | |]; auto. destruct g; auto. apply N_mono; assumption.
  Qed.

  (* a block followed by nothing means what the block means *)
  Lemma Nseq_nil n c w r : Nseq n c [] w = Some r -> exists m, N m c w = Some r.
  Proof.
    unfold Nseq, RwBase.N. intros H. exists (S n).
    destruct (ex n c w) as [x|] eqn:E; [|discriminate].
    rewrite (@exm _ _ _ aden cden tden kval yden env n (S n) c w x (le_S _ _ (le_n n)) E).
    destruct x as [g w'|sv w'|w'|w' pv|]; auto.
    - destruct g; auto. destruct n; [discriminate|]. cbn in H. exact H.
    - cbn [RwBase.norm]. destruct (rung n sv w') as [y|] eqn:E2; [|discriminate].
      rewrite (@runm _ _ _ aden cden tden kval yden env n (S n) sv w' y (le_S _ _ (le_n n)) E2).
      destruct y as [g w''| | | |]; auto. destruct g; auto. destruct n; [discriminate|]. cbn in H. exact H.
  Qed.

  (* the empty block followed by rest is rest *)
  Lemma Nseq_empty n rest w r : N n rest w = Some r -> Nseq (S n) [] rest w = Some r.
  Proof. intros H. unfold Nseq. cbn [Sem.exec_list]. apply N_mono with (n:=n); auto. Qed.

  Lemma exec_srcok_ret n s w sv w' : srcok s -> exec n s w = Some (CRet sv w') -> sv = VSig GReturn.
  Proof. intros Hs H. exact (proj1 (srcok_retonly n) s w Hs sv w' H). Qed.

  Lemma ex_single n s w : ex (S (S n)) [s] w = after_normal (exec (S n) s w) (fun w' => Some (CDone GNormal w')).
  Proof. rewrite ex_S. unfold after_normal. destruct (exec (S n) s w) as [[g w'| | | |]|]; auto; destruct g; auto. Qed.

  Lemma norm_ex_N a b m l w r : a <= m -> b <= m -> norm a (ex b l w) = Some r -> N m l w = Some r.
  Proof.
    intros Ha Hb H. unfold RwBase.N. destruct (ex b l w) as [x|] eqn:E; [|discriminate].
    rewrite (@exm _ _ _ aden cden tden kval yden env b m l w x Hb E). eapply norm_mono; [exact Ha|exact H].
  Qed.

  (* moving a source statement from "rest" to the end of a native-only block *)
  Lemma Nseq_shift n c s rest w r :
    Forall srcok c -> srcok s ->
    Nseq n c (s :: rest) w = Some r -> exists m, Nseq m (c ++ [s]) rest w = Some r.
  Proof.
    intros Hc Hs H. unfold Nseq in H.
    destruct (ex n c w) as [x|] eqn:E; [|discriminate].
    assert (Hstop : (forall w', x <> CDone GNormal w') ->
                    (match x with
                     | CRet sv w' => match rung n sv w' with Some (CDone GNormal w'') => N n (s :: rest) w'' | other => other end
                     | other => Some other end = Some r) ->
                    (forall sv w', x = CRet sv w' -> sv = VSig GReturn) ->
                    exists m, Nseq m (c ++ [s]) rest w = Some r).
    { intros Hn Hr Hsv. exists n. unfold Nseq.
      rewrite (@ex_app_stop _ _ _ aden cden tden kval yden env n c [s] w x E Hn).
      destruct x as [g w'|sv w'|w'|w' pv|]; auto.
      - destruct g; auto. exfalso. eapply Hn; reflexivity.
      - rewrite (Hsv sv w' eq_refl) in *. destruct n; [discriminate|]. rewrite rung_sig in *. exact Hr. }
    destruct x as [g w1|sv w1|w1|w1 pv|].
    2:{ apply Hstop; [discriminate|exact H|]. intros sv0 w0 E0. inversion E0; subst. eapply ex_srcok_ret; eauto. }
    2,3,4: apply Hstop; [discriminate|exact H|discriminate].
    destruct g; try (apply Hstop; [discriminate|exact H|discriminate]).
    (* the block fell through to s *)
    unfold RwBase.N in H. destruct n as [|n]; [discriminate|]. rewrite ex_S in H. unfold after_normal in H.
    destruct (exec n s w1) as [y|] eqn:Es; [|discriminate].
    assert (E1 : ex (S (S n)) [s] w1 = after_normal (Some y) (fun w' => Some (CDone GNormal w'))).
    { rewrite ex_single. rewrite (@exm1 _ _ _ aden cden tden kval yden env n (S n) s w1 y (le_S _ _ (le_n n)) Es). reflexivity. }
    destruct y as [g w2|sv w2|w2|w2 pv|].
    - destruct g.
      + (* s completed normally: the rest runs *)
        cbn [after_normal] in E1.
        exists (S n + S (S n)). unfold Nseq.
        rewrite (@ex_app_go _ _ _ aden cden tden kval yden env (S (S n)) (S n) c [s] w w1 _ E E1).
        eapply norm_ex_N; [| |exact H]; lia.
      + exists (S n + S (S n)). unfold Nseq. cbn [after_normal] in E1.
        rewrite (@ex_app_go _ _ _ aden cden tden kval yden env (S (S n)) (S n) c [s] w w1 _ E E1). cbn in H. exact H.
      + exists (S n + S (S n)). unfold Nseq. cbn [after_normal] in E1.
        rewrite (@ex_app_go _ _ _ aden cden tden kval yden env (S (S n)) (S n) c [s] w w1 _ E E1). cbn in H. exact H.
      + exists (S n + S (S n)). unfold Nseq. cbn [after_normal] in E1.
        rewrite (@ex_app_go _ _ _ aden cden tden kval yden env (S (S n)) (S n) c [s] w w1 _ E E1). cbn in H. exact H.
      + exists (S n + S (S n)). unfold Nseq. cbn [after_normal] in E1.
        rewrite (@ex_app_go _ _ _ aden cden tden kval yden env (S (S n)) (S n) c [s] w w1 _ E E1). cbn in H. exact H.
    - (* s returned a seq value: it is `return seq.Return()` *)
      assert (sv = VSig GReturn) by (eapply exec_srcok_ret; eauto). subst sv.
      cbn [after_normal] in E1. cbn [RwBase.norm] in H.
      exists (S n + S (S n)). unfold Nseq.
      rewrite (@ex_app_go _ _ _ aden cden tden kval yden env (S (S n)) (S n) c [s] w w1 _ E E1).
      rewrite rung_sig in H. replace (S n + S (S n)) with (S (n + S (S n))) by lia. rewrite rung_sig. exact H.
    - exists (S n + S (S n)). unfold Nseq. cbn [after_normal] in E1.
      rewrite (@ex_app_go _ _ _ aden cden tden kval yden env (S (S n)) (S n) c [s] w w1 _ E E1). cbn in H. exact H.
    - exists (S n + S (S n)). unfold Nseq. cbn [after_normal] in E1.
      rewrite (@ex_app_go _ _ _ aden cden tden kval yden env (S (S n)) (S n) c [s] w w1 _ E E1). cbn in H. exact H.
    - exists (S n + S (S n)). unfold Nseq. cbn [after_normal] in E1.
      rewrite (@ex_app_go _ _ _ aden cden tden kval yden env (S (S n)) (S n) c [s] w w1 _ E E1). cbn in H. exact H.
  Qed.

  (* ---- block invariant: native source statements, possibly one non-trivial statement at the end ---- *)
  Definition binv (c : blk) : Prop :=
    (Forall srcok (bstmts c) /\ combineRequired c = false) \/
    (exists pre s, bstmts c = pre ++ [s] /\ Forall srcok pre /\ combineRequired c = true /\ checked c = false).

  Definition Kspec' (k : blk -> res blk) (rest : list stmt) : Prop :=
    forall c B, binv c -> k c = OK B ->
      forall n w r, Nseq n (bstmts c) rest w = Some r -> exists m, N m (bstmts B) w = Some r.

  Lemma binv_mk k : binv (mkBlock k).
  Proof. left. split; [constructor|reflexivity]. Qed.

  Lemma combineRequired_mark c : combineRequired (markCombined c) = combineRequired c.
  Proof. reflexivity. Qed.

  Lemma checked_push c s k c' : push c s k = OK c' -> checked c' = false.
  Proof. unfold push. destruct (negb (checked c) || frozen c); [discriminate|]. intros H; inversion H; reflexivity. Qed.

  Lemma lastKind_push c s k c' : push c s k = OK c' -> lastKind c' = Some k.
  Proof.
    unfold push. destruct (negb (checked c) || frozen c); [discriminate|]. intros H; inversion H; subst.
    unfold lastKind. cbn. rewrite map_app. cbn. apply last_last.
  Qed.

  Lemma binv_push_triv c s c' : Forall srcok (bstmts c) -> srcok s -> push c s KTrivial = OK c' -> binv c'.
  Proof.
    intros Hc Hs H. left. split.
    - rewrite (push_stmts _ _ _ H). apply Forall_app. split; auto.
    - unfold combineRequired. rewrite (lastKind_push _ _ _ H). reflexivity.
  Qed.

  Lemma push_triv_srcok c s c' : Forall srcok (bstmts c) -> srcok s -> push c s KTrivial = OK c' -> Forall srcok (bstmts c').
  Proof. intros Hc Hs H. rewrite (push_stmts _ _ _ H). apply Forall_app. split; auto. Qed.

  Lemma binv_push_nontriv c s k c' : Forall srcok (bstmts c) -> k <> KTrivial -> push c s k = OK c' -> binv c'.
  Proof.
    intros Hc Hk H. right. exists (bstmts c), s. split; [apply (push_stmts _ _ _ H)|]. split; auto.
    split; [|apply (checked_push _ _ _ H)].
    unfold combineRequired. rewrite (lastKind_push _ _ _ H). destruct k; auto; congruence.
  Qed.

  Lemma lastKind_pushReturn c e k c' : pushReturn c e k = OK c' -> lastKind c' = Some k /\ is_ret_kind k = true.
  Proof.
    unfold pushReturn. destruct (is_ret_kind k) eqn:Ek; cbn [negb]; [|discriminate].
    destruct (push c (SRet e) k) as [b|] eqn:E; cbn [bind]; [|discriminate].
    intros H; inversion H; subst. split; auto. unfold lastKind. cbn. apply (lastKind_push _ _ _ E).
  Qed.

  Lemma binv_pushReturn c e k c' : Forall srcok (bstmts c) -> pushReturn c e k = OK c' -> binv c'.
  Proof.
    intros Hc H. right. exists (bstmts c), (SRet e). split; [apply (pushReturn_stmts _ _ _ H)|]. split; auto.
    destruct (lastKind_pushReturn _ _ _ H) as [Hl Hk]. split; [unfold combineRequired; rewrite Hl; destruct k; auto; discriminate|].
    unfold pushReturn in H. rewrite Hk in H. cbn [negb] in H. destruct (push c (SRet e) k) as [b|] eqn:E; cbn [bind] in H; [|discriminate].
    inversion H; subst. cbn [checked]. apply (checked_push _ _ _ E).
  Qed.

  (* what a block that is native-only does, followed by rest, when its last statement is appended *)
  Lemma Kspec_nil_gln (c B : blk) :
    (gln c = OK B \/ c = B) ->
    forall n w r, Nseq n (bstmts c) [] w = Some r -> exists m, N m (bstmts B) w = Some r.
  Proof.
    intros HB n w r H. destruct (Nseq_nil _ _ _ H) as [m Hm].
    destruct HB as [HB| <-]; [|eauto]. pose proof (@gln_sim c B HB) as S0. exact (S0 m w r Hm).
  Qed.

  (* ---- combineIfNecessary ---- *)
  Lemma build_combine_delay a b w :
    build yden (XCombine (XDelay (TLit a)) (XDelay (TLit b))) w = Ok (fst w) (VCombine (VDelay (TLit a)) (VDelay (TLit b))).
  Proof. reflexivity. Qed.

  Lemma ex_ret_single n e w sv u :
    build yden e w = Ok u sv -> ex (S (S n)) [SRet e] w = Some (CRet sv (u, snd w)).
  Proof. intros H. rewrite ex_S. cbn [Sem.exec after_normal]. rewrite H. reflexivity. Qed.

  (* continuations that are only ever called on native-only blocks *)
  Definition Kspec0 (k : blk -> res blk) (rest : list stmt) : Prop :=
    forall c B, Forall srcok (bstmts c) -> combineRequired c = false -> k c = OK B ->
      forall n w r, Nseq n (bstmts c) rest w = Some r -> exists m, N m (bstmts B) w = Some r.

  Lemma Kspec0_of k rest : Kspec' k rest -> Kspec0 k rest.
  Proof. intros H c B Hc Hr. apply H. left. auto. Qed.

  Lemma comb_spec k' rest :
    Kspec0 k' rest -> Kspec' (fun c => comb c k') rest.
  Proof.
    intros Hk c B Hinv HB n w r H. unfold comb in HB.
    rewrite combineRequired_mark in HB.
    destruct (combineRequired c) eqn:Ecr; cbn [negb] in HB.
    2:{ destruct Hinv as [[Hsrc _]|[pre [s [_ [_ [Hc _]]]]]]; [|congruence].
        eapply (Hk (markCombined c)); [exact Hsrc|exact Ecr|exact HB|exact H]. }
    destruct Hinv as [[_ Hc]|[pre [s [Es [Hpre _]]]]]; [congruence|].
    destruct (pop (markCombined c)) as [[[s' kd] c'']|] eqn:Ep; cbn [bind] in HB; [|discriminate].
    pose proof (pop_stmts _ Ep) as Es'. rewrite markCombined_stmts, Es in Es'.
    apply app_inj_tail in Es'. destruct Es' as [Epre Ess]. subst s'.
    destruct (push (mkBlock KDelay) s kd) as [c1|] eqn:E1; cbn [bind] in HB; [|discriminate].
    destruct (gln c1) as [c1'|] eqn:E1'; cbn [bind] in HB; [|discriminate].
    destruct (k' (mkBlock KDelay)) as [fol|] eqn:Ef; cbn [bind] in HB; [|discriminate].
    pose proof (pushReturn_stmts _ _ _ HB) as EB. rewrite <- Epre in EB.
    assert (S1 : sim [s] (bstmts c1')).
    { pose proof (push_stmts _ _ _ E1) as Ec1. cbn in Ec1. rewrite <- Ec1. apply (@gln_sim c1 c1' E1'). }
    rewrite EB, Es in *. clear EB Es.
    (* split the run of the block into its native prefix and the popped statement *)
    unfold Nseq in H. destruct (ex n (pre ++ [s]) w) as [x|] eqn:E; [|discriminate].
    destruct (@ex_app_fwd _ _ _ aden cden tden kval yden env n pre [s] w x E) as [[Ea Hn]|[w1 [Ea [m1 [Hm1 Eb]]]]].
    - (* the prefix did not fall through to s *)
      exists (S n). unfold RwBase.N.
      rewrite (@ex_app_stop _ _ _ aden cden tden kval yden env (S n) pre [SRet (XCombine (XDelay (TLit (bstmts c1'))) (XDelay (TLit (bstmts fol))))] w x);
        [| eapply exm; [|exact Ea]; lia | exact Hn].
      destruct x as [g w'|sv w'|w'|w' pv|]; auto.
      + destruct g; auto. exfalso. eapply Hn; reflexivity.
      + assert (sv = VSig GReturn) by (eapply ex_srcok_ret; eauto). subst sv.
        cbn [RwBase.norm]. destruct n; [discriminate|]. rewrite rung_sig in H. rewrite rung_sig. exact H.
    - (* prefix fell through; s ran from w1 *)
      assert (Hs : N n [s] w1 = Some (match x with CRet sv w' => match rung n sv w' with Some y => y | None => x end | _ => x end)
                   \/ exists sv w', x = CRet sv w' /\ rung n sv w' = None).
      { unfold RwBase.N. rewrite (@exm _ _ _ aden cden tden kval yden env m1 n [s] w1 x Hm1 Eb).
        destruct x as [g w'|sv w'|w'|w' pv|]; auto. cbn [RwBase.norm]. destruct (rung n sv w') eqn:Er; eauto. }
      destruct Hs as [Hs|[sv [w' [-> Er]]]]; [|rewrite Er in H; discriminate].
      destruct (S1 n w1 _ Hs) as [m2 H2].
      (* y: the outcome of s as a callback; after it, rest *)
      set (y := match x with CRet sv w' => match rung n sv w' with Some y => y | None => x end | _ => x end) in *.
      assert (Hrest : match y with CDone GNormal w2 => N n rest w2 = Some r | _ => Some y = Some r end).
      { unfold y. destruct x as [g w'|sv w'|w'|w' pv|]; try exact H.
        - destruct g; exact H.
        - destruct (rung n sv w') as [z|]; [|discriminate]. destruct z as [g w''| | | |]; try exact H. destruct g; exact H. }
      assert (Hfol : forall w2, N n rest w2 = Some r -> exists m, N m (bstmts fol) w2 = Some r).
      { intros w2 Hr. eapply (Hk (mkBlock KDelay)); [apply Forall_nil|reflexivity|exact Ef|]. apply Nseq_empty. exact Hr. }
      assert (Hcomb : forall m3, (match y with CDone GNormal w2 => N m3 (bstmts fol) w2 = Some r | _ => Some y = Some r end) ->
                exists m, N m (pre ++ [SRet (XCombine (XDelay (TLit (bstmts c1'))) (XDelay (TLit (bstmts fol))))]) w = Some r).
      { intros m3 H3. set (M := S (S (S (m2 + m3)))).
        exists (n + (M + 2)). unfold RwBase.N.
        assert (Eret : ex (M + 2) [SRet (XCombine (XDelay (TLit (bstmts c1'))) (XDelay (TLit (bstmts fol))))] w1
                       = Some (CRet (VCombine (VDelay (TLit (bstmts c1'))) (VDelay (TLit (bstmts fol)))) w1)).
        { replace (M + 2) with (S (S M)) by lia. rewrite (@ex_ret_single M _ w1 _ (fst w1) (build_combine_delay _ _ w1)).
          destruct w1; reflexivity. }
        rewrite (@ex_app_go _ _ _ aden cden tden kval yden env (M + 2) n pre _ w w1 _ Ea Eret).
        cbn [RwBase.norm]. eapply runm with (n := M); [lia|]. unfold M.
        rewrite run_S. rewrite run_delay_S.
        rewrite (@N_mono _ _ _ aden cden tden kval yden env m2 (m2 + m3) (bstmts c1') w1 y); [|lia|exact H2].
        unfold after_normal. destruct y as [g w2| | | |]; try exact H3. destruct g; try exact H3.
        rewrite run_delay_S. eapply N_mono; [|exact H3]. lia. }
      destruct y as [g w2|sv w2|w2|w2 pv|] eqn:Ey; try (apply (Hcomb 0); exact Hrest).
      destruct g; try (apply (Hcomb 0); exact Hrest).
      destruct (Hfol w2 Hrest) as [m3 H3]. apply (Hcomb m3). exact H3.
  Qed.

  (* ---- moving a statement into the block when the pushed statement only simulates the source one ---- *)
  Lemma Nseq_shift_sim n c s s' rest w r :
    Forall srcok c -> srcok s -> sim [s] [s'] ->
    Nseq n c (s :: rest) w = Some r -> exists m, Nseq m (c ++ [s']) rest w = Some r.
  Proof.
    intros Hc Hs Hsim H. unfold Nseq in H.
    destruct (ex n c w) as [x|] eqn:E; [|discriminate].
    assert (Hstop : (forall w', x <> CDone GNormal w') ->
                    (match x with
                     | CRet sv w' => match rung n sv w' with Some (CDone GNormal w'') => N n (s :: rest) w'' | other => other end
                     | other => Some other end = Some r) ->
                    (forall sv w', x = CRet sv w' -> sv = VSig GReturn) ->
                    exists m, Nseq m (c ++ [s']) rest w = Some r).
    { intros Hn Hr Hsv. exists n. unfold Nseq.
      rewrite (@ex_app_stop _ _ _ aden cden tden kval yden env n c [s'] w x E Hn).
      destruct x as [g w'|sv w'|w'|w' pv|]; auto.
      - destruct g; auto. exfalso. eapply Hn; reflexivity.
      - rewrite (Hsv sv w' eq_refl) in *. destruct n; [discriminate|]. rewrite rung_sig in *. exact Hr. }
    destruct x as [g w1|sv w1|w1|w1 pv|].
    2:{ apply Hstop; [discriminate|exact H|]. intros sv0 w0 E0. inversion E0; subst. eapply ex_srcok_ret; eauto. }
    2,3,4: apply Hstop; [discriminate|exact H|discriminate].
    destruct g; try (apply Hstop; [discriminate|exact H|discriminate]).
    (* the block fell through to s at w1 *)
    unfold RwBase.N in H. destruct n as [|n]; [discriminate|]. rewrite ex_S in H. unfold after_normal in H.
    destruct (exec n s w1) as [x|] eqn:Es; [|discriminate].
    (* y: what s does as a single-statement list in tail position *)
    set (y := match x with CRet _ w2 => CDone GReturn w2 | _ => x end).
    assert (Hy : N (S (S n)) [s] w1 = Some y).
    { unfold RwBase.N. rewrite ex_single.
      rewrite (@exm1 _ _ _ aden cden tden kval yden env n (S n) s w1 x (le_S _ _ (le_n n)) Es).
      unfold y. destruct x as [g w2|sv w2|w2|w2 pv|]; try reflexivity.
      - destruct g; reflexivity.
      - assert (sv = VSig GReturn) by (eapply exec_srcok_ret; eauto). subst sv. reflexivity. }
    assert (Hr : match y with CDone GNormal w2 => N (S n) rest w2 = Some r | _ => Some y = Some r end).
    { unfold y. destruct x as [g w2|sv w2|w2|w2 pv|]; try exact H.
      - destruct g; try exact H. eapply norm_ex_N; [| |exact H]; lia.
      - assert (sv = VSig GReturn) by (eapply exec_srcok_ret; eauto). subst sv. cbn [RwBase.norm] in H. rewrite rung_sig in H. exact H. }
    clearbody y. clear H Es x.
    destruct (Hsim _ _ _ Hy) as [m2 H2]. unfold RwBase.N in H2.
    destruct (ex m2 [s'] w1) as [x'|] eqn:E'; [|discriminate].
    set (M := S n + m2).
    exists (S n + M). unfold Nseq.
    assert (E'' : ex M [s'] w1 = Some x') by (eapply exm; [|exact E']; unfold M; lia).
    rewrite (@ex_app_go _ _ _ aden cden tden kval yden env M (S n) c [s'] w w1 _ E E'').
    destruct x' as [g w2|sv w2|w2|w2 pv|]; cbn [RwBase.norm] in H2.
    - inversion H2; subst y. destruct g; try exact Hr. eapply N_mono; [|exact Hr]. unfold M; lia.
    - rewrite (@runm _ _ _ aden cden tden kval yden env m2 (S n + M) sv w2 y); [|unfold M; lia|exact H2].
      destruct y as [g w3| | | |]; try exact Hr. destruct g; try exact Hr. eapply N_mono; [|exact Hr]. unfold M; lia.
    - inversion H2; subst y. exact Hr.
    - inversion H2; subst y. exact Hr.
    - inversion H2; subst y. exact Hr.
  Qed.

  (* a branch statement ends the block: what follows is dead code *)
  Lemma Nseq_branch n c s rest w r :
    Forall srcok c -> (s = SBreak \/ s = SContinue \/ s = SFallthrough) ->
    Nseq n c (s :: rest) w = Some r -> exists m, N m (c ++ [s]) w = Some r.
  Proof.
    intros Hc Hb H.
    assert (Hs : srcok s) by (destruct Hb as [->|[->| ->]]; constructor).
    destruct (@Nseq_shift n c s rest w r Hc Hs H) as [m Hm]. unfold Nseq in Hm.
    exists m. unfold RwBase.N. destruct (ex m (c ++ [s]) w) as [x|] eqn:E; [|discriminate].
    destruct x as [g w'|sv w'|w'|w' pv|]; auto.
    - destruct g; auto. exfalso.
      (* the list cannot complete normally: its last statement is a branch *)
      destruct (@ex_app_fwd _ _ _ aden cden tden kval yden env m c [s] w _ E) as [[_ Hn]|[w1 [_ [m1 [_ E1]]]]].
      + eapply Hn; reflexivity.
      + destruct m1 as [|[|m1]]; try discriminate. rewrite ex_single in E1.
        destruct Hb as [->|[->| ->]]; cbn in E1; discriminate.
    - cbn [RwBase.norm].
      destruct (@ex_app_fwd _ _ _ aden cden tden kval yden env m c [s] w _ E) as [[E0 _]|[w1 [_ [m1 [_ E1]]]]].
      + assert (sv = VSig GReturn) by (eapply ex_srcok_ret; eauto). subst sv.
        destruct m; [discriminate|]. rewrite rung_sig in *. exact Hm.
      + destruct m1 as [|[|m1]]; try discriminate. rewrite ex_single in E1.
        destruct Hb as [->|[->| ->]]; cbn in E1; discriminate.
  Qed.


  (* ================= relational reasoning (Rel.v) ================= *)
  Notation EXS := (EXS aden cden tden kval yden env).
  Notation EX := (EX aden cden tden kval yden env).
  Notation RUN := (RUN aden cden tden kval yden env).
  Notation CALL := (CALL aden cden tden kval yden env).
  Notation TM := (TM aden cden tden kval yden env).
  Notation normR := (normR aden cden tden kval yden env).

  Lemma sim_rel s t : sim s t <-> (forall w r, TM s w r -> TM t w r).
  Proof.
    split.
    - intros H w r [n Hn]. exact (H n w r Hn).
    - intros H n w r Hn. apply H. exists n. exact Hn.
  Qed.

  (* statements, relationally *)
  Lemma EXS_block b w x : EXS (SBlock b) w x <-> EX b w x.
  Proof.
    split.
    - intros [[|n] H]; [discriminate|]. rewrite exec_S in H. exists n. exact H.
    - intros [n H]. exists (S n). rewrite exec_S. exact H.
  Qed.

  Lemma EXS_ret e w x :
    EXS (SRet e) w x <->
    x = match build yden e w with
        | Ok u sv => CRet sv (u, snd w)
        | Panic u pv => CPanic (u, snd w) pv
        | Stuck => CStuck
        end.
  Proof.
    split.
    - intros [[|n] H]; [discriminate|]. rewrite exec_S in H. destruct (build yden e w); inversion H; reflexivity.
    - intros ->. exists 1. rewrite exec_S. destruct (build yden e w); reflexivity.
  Qed.

  (* init statement, condition, then one of the branches *)
  Definition liftR {A} (o : outcome U P A) (k : nat) (K : A -> W -> compl -> Prop) (x : compl) : Prop :=
    match o with
    | Ok u a => K a (u, k) x
    | Panic u pv => x = CPanic (u, k) pv
    | Stuck => x = CStuck
    end.

  Definition optR (i : option stmt) (w : W) (K : W -> compl -> Prop) (x : compl) : Prop :=
    match i with
    | None => K w x
    | Some s => exists y, EXS s w y /\ after y (fun w' => K w' x) (x = y)
    end.

  Definition elsR (e : els) (w : W) (x : compl) : Prop :=
    match e with
    | ENone => x = CDone GNormal w
    | EElse b => EX b w x
    | EElif s => EXS s w x
    end.

  Lemma EXS_if i c t e w x :
    EXS (SIf i c t e) w x <->
    optR i w (fun w1 x => liftR (cden c (fst w1)) (snd w1) (fun b w2 x => if b then EX t w2 x else elsR e w2 x) x) x.
  Proof.
    split.
    - intros [[|n] H]; [discriminate|]. rewrite exec_S in H. unfold after_normal in H. unfold optR.
      assert (Hc : forall w1, lift (cden c (fst w1)) (snd w1)
                     (fun b w2 => if b then ex n t w2 else match e with ENone => Some (CDone GNormal w2) | EElse eb => ex n eb w2 | EElif s => exec n s w2 end) = Some x ->
                   liftR (cden c (fst w1)) (snd w1) (fun b w2 x => if b then EX t w2 x else elsR e w2 x) x).
      { intros w1 Hl. unfold lift in Hl. unfold liftR. destruct (cden c (fst w1)) as [u b|u pv|]; try (inversion Hl; reflexivity).
        destruct b; [exists n; exact Hl|]. destruct e; cbn; [inversion Hl; reflexivity|exists n; exact Hl|exists n; exact Hl]. }
      destruct i as [s0|]; [|apply Hc; exact H].
      destruct (exec n s0 w) as [y|] eqn:E; [|discriminate]. exists y. split; [exists n; exact E|].
      destruct y as [g w'| | | |]; cbn; try (inversion H; reflexivity). destruct g; try (inversion H; reflexivity).
      apply Hc. exact H.
    - unfold optR.
      assert (Hc : forall w1, liftR (cden c (fst w1)) (snd w1) (fun b w2 x => if b then EX t w2 x else elsR e w2 x) x ->
                   exists n, lift (cden c (fst w1)) (snd w1)
                     (fun b w2 => if b then ex n t w2 else match e with ENone => Some (CDone GNormal w2) | EElse eb => ex n eb w2 | EElif s => exec n s w2 end) = Some x).
      { intros w1 Hl. unfold liftR in Hl. unfold lift. destruct (cden c (fst w1)) as [u b|u pv|]; try (subst x; exists 0; reflexivity).
        destruct b; [exact Hl|]. destruct e; cbn in Hl; [subst x; exists 0; reflexivity|exact Hl|exact Hl]. }
      destruct i as [s0|].
      + intros [y [[n1 H1] Ha]]. destruct y as [g w'|sv w'|w'|w' pv|]; cbn in Ha.
        1: destruct g.
        1: { destruct (Hc _ Ha) as [n2 H2]. exists (S (n1 + n2)). rewrite exec_S.
             rewrite (@exec_mono _ _ _ aden cden tden kval yden env n1 (n1 + n2) s0 w _ (Nat.le_add_r _ _) H1). cbn [after_normal].
             revert H2. unfold lift. destruct (cden c (fst w')) as [u b|u pv|]; auto.
             destruct b; [intros H2; eapply exec_list_mono; [|exact H2]; lia|].
             destruct e; auto; intros H2; [eapply exec_list_mono|eapply exec_mono]; try exact H2; lia. }
        all: subst x; exists (S n1); rewrite exec_S, H1; reflexivity.
      + intros Ha. destruct (Hc _ Ha) as [n2 H2]. exists (S n2). rewrite exec_S. exact H2.
  Qed.

  (* ---- sim lemmas ---- *)
  Lemma TM_single_inv s w r : TM [s] w r -> exists x, EXS s w x /\ normR x r.
  Proof.
    intros H. destruct (TM_inv H) as [x [Hx Hr]]. exists x. split; [apply EX_single_inv; exact Hx|exact Hr].
  Qed.
  Lemma TM_single s w x r : EXS s w x -> normR x r -> TM [s] w r.
  Proof. intros Hx Hr. eapply TM_intro; [apply EX_single; exact Hx|exact Hr]. Qed.

  Lemma sim_block_delay b fol : sim b fol -> sim [SBlock b] [SRet (XDelay (TLit fol))].
  Proof.
    rewrite !sim_rel. intros Hs w r H.
    destruct (TM_single_inv H) as [x [Hx Hr]]. apply EXS_block in Hx.
    assert (Hb : TM b w r) by (eapply TM_intro; eauto).
    eapply TM_single; [apply EXS_ret; reflexivity|]. cbn [build normR Rel.normR].
    destruct w as [u k]. cbn. apply RUN_delay. apply CALL_lit. apply Hs. exact Hb.
  Qed.

  Definition els_sim (e e' : els) : Prop :=
    match e, e' with
    | ENone, ENone => True
    | EElse b, EElse b' => sim b b'
    | EElse b, EElif s' => sim b [s']
    | EElif s, EElif s' => sim [s] [s']
    | _, _ => False
    end.

  (* in tail position, a native completion can be replaced by any completion with the same outcome *)
  Lemma sim_if i c t t' e e' : sim t t' -> els_sim e e' -> sim [SIf i c t e] [SIf i c t' e'].
  Proof.
    rewrite !sim_rel. intros Ht He w r H.
    destruct (TM_single_inv H) as [x [Hx Hr]]. apply EXS_if in Hx.
    (* branch outcome x (source) -> some x' (target) with the same normalised result *)
    assert (Hbr : forall (b : bool) (w2 : W) (x : compl), (if b then EX t w2 x else elsR e w2 x) -> normR x r ->
                    exists x', (if b then EX t' w2 x' else elsR e' w2 x') /\ normR x' r).
    { intros b w2 x0 Hb Hn. destruct b.
      - assert (TM t w2 r) by (eapply TM_intro; eauto). destruct (TM_inv (Ht _ _ H0)) as [x' [Hx' Hr']]. eauto.
      - destruct e as [|eb|es], e' as [|eb'|es']; cbn in He, Hb |- *; try contradiction.
        + eauto.
        + assert (TM eb w2 r) by (eapply TM_intro; eauto). rewrite sim_rel in He.
          destruct (TM_inv (He _ _ H0)) as [x' [Hx' Hr']]. eauto.
        + assert (TM eb w2 r) by (eapply TM_intro; eauto). rewrite sim_rel in He.
          destruct (TM_single_inv (He _ _ H0)) as [x' [Hx' Hr']]. eauto.
        + assert (TM [es] w2 r) by (eapply TM_single; eauto). rewrite sim_rel in He.
          destruct (TM_single_inv (He _ _ H0)) as [x' [Hx' Hr']]. eauto. }
    assert (Hcond : forall w1, liftR (cden c (fst w1)) (snd w1) (fun b w2 x => if b then EX t w2 x else elsR e w2 x) x ->
              exists x', liftR (cden c (fst w1)) (snd w1) (fun b w2 x => if b then EX t' w2 x else elsR e' w2 x) x' /\ normR x' r).
    { intros w1 Hl. unfold liftR in *. destruct (cden c (fst w1)) as [u b|u pv|].
      - eapply Hbr; eauto.
      - exists x. split; auto.
      - exists x. split; auto. }
    unfold optR in Hx.
    assert (exists x', EXS (SIf i c t' e') w x' /\ normR x' r) as [x' [Hx' Hr']].
    { destruct i as [s0|].
      - destruct Hx as [y [Hy Ha]]. destruct y as [g w'|sv w'|w'|w' pv|]; cbn in Ha.
        1: destruct g.
        1: { destruct (Hcond _ Ha) as [x' [Hl' Hr']]. exists x'. split; [|exact Hr'].
             apply EXS_if. cbn. exists (CDone GNormal w'). split; [exact Hy|exact Hl']. }
        all: subst x; eexists; split; [apply EXS_if; cbn; eexists; split; [exact Hy|reflexivity]|exact Hr].
      - destruct (Hcond _ Hx) as [x' [Hl' Hr']]. exists x'. split; [|exact Hr']. apply EXS_if. exact Hl'. }
    eapply TM_single; eauto.
  Qed.

  Lemma EXS_yield v w x :
    EXS (SYield v) w x <->
    liftR (yden v (fst w)) (snd w) (fun val w' x =>
      x = let '(u', more) := env (snd w') val (fst w') in
          if more then CDone GNormal (u', S (snd w')) else CStop (u', S (snd w'))) x.
  Proof.
    split.
    - intros [[|n] H]; [discriminate|]. rewrite exec_S in H. unfold lift in H. unfold liftR.
      destruct (yden v (fst w)) as [u val|u pv|]; try (inversion H; reflexivity).
      cbn [fst snd] in *. destruct (env (snd w) val u) as [u' more]. destruct more; inversion H; reflexivity.
    - intros H. exists 1. rewrite exec_S. unfold lift. unfold liftR in H.
      destruct (yden v (fst w)) as [u val|u pv|]; try (subst x; reflexivity).
      cbn [fst snd] in *. destruct (env (snd w) val u) as [u' more]. destruct more; subst x; reflexivity.
  Qed.

  Lemma sim_yield v rest fol : sim rest fol -> sim (SYield v :: rest) [SRet (XBind v (TLit fol))].
  Proof.
    rewrite !sim_rel. intros Hs w r H.
    destruct (TM_inv H) as [x [Hx Hr]]. destruct (EX_cons_inv Hx) as [y [Hy Ha]].
    apply EXS_yield in Hy. unfold liftR in Hy.
    eapply TM_single; [apply EXS_ret; reflexivity|]. cbn [build].
    destruct w as [u0 k]. cbn [fst snd] in *.
    destruct (yden v u0) as [u val|u pv|].
    - cbn [normR Rel.normR]. apply RUN_bind. cbn [fst snd].
      destruct (env k val u) as [u' more]. destruct more.
      + subst y. cbn in Ha. apply CALL_lit. apply Hs. eapply TM_intro; eauto.
      + subst y. cbn in Ha. subst x. cbn in Hr. exact Hr.
    - subst y. cbn in Ha. subst x. cbn in Hr |- *. exact Hr.
    - subst y. cbn in Ha. subst x. cbn in Hr |- *. exact Hr.
  Qed.

  Lemma EX_srcok_ret l w sv w' : Forall srcok l -> EX l w (CRet sv w') -> sv = VSig GReturn.
  Proof. intros Hl [n H]. eapply ex_srcok_ret; eauto. Qed.

  (* a native-only block followed by l, with l replaced by a simulating list *)
  Lemma Nseq_app_sim n c l t w r :
    Forall srcok c -> sim l t -> Nseq n c l w = Some r -> exists m, N m (c ++ t) w = Some r.
  Proof.
    intros Hc Hs H. rewrite sim_rel in Hs. unfold Nseq in H.
    destruct (ex n c w) as [x|] eqn:E; [|discriminate].
    assert (Hx : EX c w x) by (exists n; exact E).
    change (TM (c ++ t) w r).
    destruct x as [g w'|sv w'|w'|w' pv|].
    - destruct g.
      + assert (Ht : TM t w' r) by (apply Hs; exists n; exact H).
        destruct (TM_inv Ht) as [x' [Hx' Hr']]. eapply TM_intro; [eapply EX_app; [exact Hx|exact Hx']|exact Hr'].
      + inversion H; subst. eapply TM_intro; [eapply EX_app; [exact Hx|reflexivity]|reflexivity].
      + inversion H; subst. eapply TM_intro; [eapply EX_app; [exact Hx|reflexivity]|reflexivity].
      + inversion H; subst. eapply TM_intro; [eapply EX_app; [exact Hx|reflexivity]|reflexivity].
      + inversion H; subst. eapply TM_intro; [eapply EX_app; [exact Hx|reflexivity]|reflexivity].
    - assert (sv = VSig GReturn) by (eapply EX_srcok_ret; eauto). subst sv.
      destruct n; [discriminate|]. rewrite rung_sig in H. inversion H; subst.
      eapply TM_intro; [eapply EX_app; [exact Hx|reflexivity]|]. cbn. apply RUN_sig.
    - inversion H; subst. eapply TM_intro; [eapply EX_app; [exact Hx|reflexivity]|reflexivity].
    - inversion H; subst. eapply TM_intro; [eapply EX_app; [exact Hx|reflexivity]|reflexivity].
    - inversion H; subst. eapply TM_intro; [eapply EX_app; [exact Hx|reflexivity]|reflexivity].
  Qed.

  (* Kspec' at the empty block says: what k produces simulates rest *)
  Lemma Kspec_sim k rest kd fol : Kspec0 k rest -> k (mkBlock kd) = OK fol -> sim rest (bstmts fol).
  Proof.
    intros Hk Hf n w r H. eapply (Hk (mkBlock kd)); [apply Forall_nil|reflexivity|exact Hf|]. apply Nseq_empty. exact H.
  Qed.

  (* ================= loops ================= *)
  Notation exloop := (exec_loop aden cden tden kval yden env).
  Notation runloop := (run_loop aden cden tden kval yden env false).

  Lemma runloop_mono n m c p body sk w r : n <= m -> runloop n c p body sk w = Some r -> runloop m c p body sk w = Some r.
  Proof. induction 1 as [|m Hle IH]; auto. intros H. apply (proj2 (proj2 (run_mono1 aden cden tden kval yden env false m))). auto. Qed.

  (* a native completion as the outcome of a callback *)
  Definition flat (x : compl) : compl := match x with CRet _ w' => CDone GReturn w' | _ => x end.

  Lemma N_flat n l w x : Forall srcok l -> ex n l w = Some x -> N (S n) l w = Some (flat x).
  Proof.
    intros Hl E. unfold RwBase.N. rewrite (@exm _ _ _ aden cden tden kval yden env n (S n) l w x (le_S _ _ (le_n n)) E).
    destruct x as [g w'|sv w'|w'|w' pv|]; try reflexivity.
    assert (sv = VSig GReturn) by (eapply ex_srcok_ret; eauto). subst sv. cbn [RwBase.norm]. apply rung_sig.
  Qed.

  Lemma atom_exec n a w y : exec n (SAtom a) w = Some y ->
    match y with CDone g _ => g = GNormal | CRet _ _ | CStop _ => False | _ => True end.
  Proof.
    destruct n; [discriminate|]. rewrite exec_S. unfold lift. destruct (aden a (fst w)); intros H; inversion H; auto.
  Qed.

  (* the source loop over a native body and the seq loop over the rewritten body as a callback *)
  Lemma loop_sim c p b fol : sim b fol -> Forall srcok b -> init_ok p = true ->
    forall n w x, exloop n c p b w = Some x ->
      exists m, runloop m (option_map CExp c) p (VDelay (TLit fol)) true w = Some (flat x).
  Proof.
    intros Hsim Hb Hp. induction n as [|n IH]; intros w x H; [discriminate|].
    rewrite exec_loop_S in H. cbv beta zeta in H.
    (* one iteration from the body on *)
    assert (Hbody : forall w2 x2,
      (match ex n b w2 with
       | Some (CDone (GNormal | GContinue) w3) =>
           after_normal (match p with None => Some (CDone GNormal w3) | Some x0 => exec n x0 w3 end) (fun w4 => exloop n c p b w4)
       | Some (CDone GBreak w3) => Some (CDone GNormal w3)
       | other => other end) = Some x2 ->
      exists m, forall M, m <= M ->
        (match rung M (VDelay (TLit fol)) w2 with
         | Some (CDone (GNormal | GContinue) w3) => runloop M (option_map CExp c) p (VDelay (TLit fol)) false w3
         | Some (CDone GBreak w3) => Some (CDone GNormal w3)
         | other => other end) = Some (flat x2)).
    { intros w2 x2 H2. destruct (ex n b w2) as [xb|] eqn:Eb; [|discriminate].
      destruct (Hsim _ _ _ (N_flat _ _ Hb Eb)) as [m1 Hm1].
      assert (Hrun : forall M, S (S m1) <= M -> rung M (VDelay (TLit fol)) w2 = Some (flat xb)).
      { intros M HM. eapply runm; [exact HM|]. rewrite run_delay_S. exact Hm1. }
      (* the post statement and the following iterations *)
      assert (Hnext : forall w3, after_normal (match p with None => Some (CDone GNormal w3) | Some x0 => exec n x0 w3 end)
                                   (fun w4 => exloop n c p b w4) = Some x2 ->
                exists m, forall M, m <= M -> runloop M (option_map CExp c) p (VDelay (TLit fol)) false w3 = Some (flat x2)).
      { intros w3 H3. destruct p as [ps|].
        - destruct ps; try discriminate. destruct (exec n (SAtom a) w3) as [y|] eqn:Ey; [|discriminate].
          pose proof (atom_exec _ _ _ Ey) as Hy.
          destruct y as [g w4|sv w4|w4|w4 pv|]; try contradiction.
          + subst g. cbn [after_normal] in H3. destruct (IH w4 x2 H3) as [m2 Hm2].
            exists (S (n + m2)). intros M HM. destruct M as [|M]; [lia|]. rewrite run_loop_S. cbv beta zeta.
            rewrite (@exm1 _ _ _ aden cden tden kval yden env n M _ w3 _ ltac:(lia) Ey).
            pose proof (@runloop_mono m2 (S M) _ _ _ _ _ _ ltac:(lia) Hm2) as Hm. rewrite run_loop_S in Hm. exact Hm.
          + cbn [after_normal] in H3. inversion H3; subst. exists (S n). intros M HM. destruct M as [|M]; [lia|].
            rewrite run_loop_S. cbv beta zeta. rewrite (@exm1 _ _ _ aden cden tden kval yden env n M _ w3 _ ltac:(lia) Ey). reflexivity.
          + cbn [after_normal] in H3. inversion H3; subst. exists (S n). intros M HM. destruct M as [|M]; [lia|].
            rewrite run_loop_S. cbv beta zeta. rewrite (@exm1 _ _ _ aden cden tden kval yden env n M _ w3 _ ltac:(lia) Ey). reflexivity.
        - cbn [after_normal] in H3. destruct (IH w3 x2 H3) as [m2 Hm2].
          exists (S m2). intros M HM. destruct M as [|M]; [lia|].
          pose proof (@runloop_mono m2 (S M) _ _ _ _ _ _ ltac:(lia) Hm2) as Hm. rewrite run_loop_S in Hm. rewrite run_loop_S. exact Hm. }
      destruct xb as [g w3|sv w3|w3|w3 pv|].
      - destruct g.
        + destruct (Hnext w3 H2) as [m2 Hm2]. exists (S (S (m1 + m2))). intros M HM. rewrite (Hrun M ltac:(lia)). cbn [flat]. apply Hm2. lia.
        + inversion H2; subst. exists (S (S m1)). intros M HM. rewrite (Hrun M HM). reflexivity.
        + destruct (Hnext w3 H2) as [m2 Hm2]. exists (S (S (m1 + m2))). intros M HM. rewrite (Hrun M ltac:(lia)). cbn [flat]. apply Hm2. lia.
        + inversion H2; subst. exists (S (S m1)). intros M HM. rewrite (Hrun M HM). reflexivity.
        + inversion H2; subst. exists (S (S m1)). intros M HM. rewrite (Hrun M HM). reflexivity.
      - inversion H2; subst. exists (S (S m1)). intros M HM. rewrite (Hrun M HM). reflexivity.
      - inversion H2; subst. exists (S (S m1)). intros M HM. rewrite (Hrun M HM). reflexivity.
      - inversion H2; subst. exists (S (S m1)). intros M HM. rewrite (Hrun M HM). reflexivity.
      - inversion H2; subst. exists (S (S m1)). intros M HM. rewrite (Hrun M HM). reflexivity. }
    destruct c as [cc|]; cbn [option_map].
    - unfold lift in H. destruct (cden cc (fst w)) as [u bb|u pv|] eqn:Ec.
      + destruct bb.
        * destruct (Hbody _ _ H) as [m Hm]. exists (S m). rewrite run_loop_S. cbv beta zeta. unfold lift. rewrite Ec. apply Hm. lia.
        * inversion H; subst. exists 1. rewrite run_loop_S. cbv beta zeta. unfold lift. rewrite Ec. reflexivity.
      + inversion H; subst. exists 1. rewrite run_loop_S. cbv beta zeta. unfold lift. rewrite Ec. reflexivity.
      + inversion H; subst. exists 1. rewrite run_loop_S. cbv beta zeta. unfold lift. rewrite Ec. reflexivity.
    - destruct (Hbody _ _ H) as [m Hm]. exists (S m). rewrite run_loop_S. cbv beta zeta. apply Hm. lia.
  Qed.

  Lemma loop_retonly n c p b w sv w' : Forall srcok b -> init_ok p = true ->
    exloop n c p b w = Some (CRet sv w') -> sv = VSig GReturn.
  Proof.
    intros Hb Hp H. eapply (proj2 (proj2 (proj2 (proj2 (srcok_retonly n)))) c p b w); eauto.
    intros x ->. destruct x; try discriminate. constructor.
  Qed.

  Lemma sim_for c p b fol : sim b fol -> Forall srcok b -> init_ok p = true ->
    sim [SFor None c p b] [SRet (XFor (option_map CExp c) p (XDelay (TLit fol)))].
  Proof.
    intros Hs Hb Hp. rewrite sim_rel. intros w r H.
    destruct (TM_single_inv H) as [x [[n Hx] Hr]].
    destruct n as [|n]; [discriminate|]. rewrite exec_S in Hx. cbn [after_normal] in Hx.
    destruct (@loop_sim c p b fol Hs Hb Hp _ _ _ Hx) as [m Hm].
    assert (r = flat x).
    { destruct x as [g w'|sv w'|w'|w' pv|]; cbn in Hr; try exact Hr.
      assert (sv = VSig GReturn) by (eapply loop_retonly; eauto). subst sv.
      destruct Hr as [k Hk]. destruct k; [discriminate|]. rewrite rung_sig in Hk. inversion Hk. reflexivity. }
    subst r. eapply TM_single; [apply EXS_ret; reflexivity|]. cbn [build normR Rel.normR].
    destruct w as [u k]. cbn [fst snd]. exists (S m). rewrite run_S. exact Hm.
  Qed.

  (* the init statement of a loop runs first *)
  Lemma sim_for_init i c p b rest : sim (SFor (Some i) c p b :: rest) (i :: SFor None c p b :: rest).
  Proof.
    rewrite sim_rel. intros w r H. destruct (TM_inv H) as [x [Hx Hr]].
    eapply TM_intro; [|exact Hr]. clear Hr H.
    destruct (EX_cons_inv Hx) as [y [[n Hy] Ha]].
    destruct n as [|n]; [discriminate|]. rewrite exec_S in Hy. unfold after_normal in Hy.
    destruct (exec n i w) as [yi|] eqn:Ei; [|discriminate].
    eapply EX_cons; [exists n; exact Ei|].
    destruct yi as [g w1| | | |]; cbn; try (inversion Hy; subst; exact Ha).
    destruct g; try (inversion Hy; subst; exact Ha).
    eapply EX_cons; [|exact Ha]. exists (S n). rewrite exec_S. exact Hy.
  Qed.

  (* replacing the statements that follow a block by simulating ones *)
  Lemma Nseq_sim_rest n c l t w r : sim l t -> Nseq n c l w = Some r -> exists m, Nseq m c t w = Some r.
  Proof.
    intros Hs H. unfold Nseq in H. destruct (ex n c w) as [x|] eqn:E; [|discriminate].
    assert (Hgo : forall w', N n l w' = Some r ->
                  match x with
                  | CDone GNormal w0 => w0 = w' | CRet sv w0 => rung n sv w0 = Some (CDone GNormal w') | _ => False end ->
                  exists m, Nseq m c t w = Some r).
    { intros w' Hl Hy. destruct (Hs _ _ _ Hl) as [m Hm]. exists (n + m). unfold Nseq.
      rewrite (@exm _ _ _ aden cden tden kval yden env n (n + m) c w x ltac:(lia) E).
      destruct x as [g w0|sv w0| | |]; try contradiction.
      - destruct g; try contradiction. subst w0. eapply N_mono; [|exact Hm]. lia.
      - rewrite (@runm _ _ _ aden cden tden kval yden env n (n + m) sv w0 _ ltac:(lia) Hy). eapply N_mono; [|exact Hm]. lia. }
    destruct x as [g w0|sv w0|w0|w0 pv|].
    - destruct g; try (exists n; unfold Nseq; rewrite E; exact H).
      eapply (Hgo w0 H). reflexivity.
    - destruct (rung n sv w0) as [z|] eqn:Er; [|discriminate].
      destruct z as [g w1| | | |]; try (exists n; unfold Nseq; rewrite E, Er; exact H).
      destruct g; try (exists n; unfold Nseq; rewrite E, Er; exact H).
      eapply (Hgo w1 H). reflexivity.
    - exists n. unfold Nseq. rewrite E. exact H.
    - exists n. unfold Nseq. rewrite E. exact H.
    - exists n. unfold Nseq. rewrite E. exact H.
  Qed.

  (* ================= switches ================= *)
  Notation exfrom := (exec_from aden cden tden kval yden env).
  Notation expick := (exec_pick aden cden tden kval yden env).

  (* a clause body that never completes with break or fallthrough *)
  Definition nofb (b : list stmt) : Prop :=
    forall n w w', ex n b w <> Some (CDone GBreak w') /\ ex n b w <> Some (CDone GFallthrough w').

  Definition crelS (a a' : clabel * list stmt) : Prop :=
    fst a = fst a' /\ sim (snd a) (snd a') /\ Forall srcok (snd a) /\ (nofb (snd a) \/ Forall srcok (snd a')).

  Lemma flat_done x g w' : flat x = CDone g w' -> g <> GReturn -> x = CDone g w'.
  Proof. destruct x; cbn; intros H Hg; try exact H. inversion H; subst. congruence. Qed.

  Lemma norm_mono' n m (x : compl) r : n <= m -> norm n (Some x) = Some r -> norm m (Some x) = Some r.
  Proof. intros. eapply norm_mono; eauto. Qed.

  Lemma exfrom_mono n m l w x : n <= m -> exfrom n l w = Some x -> exfrom m l w = Some x.
  Proof.
    induction 1 as [|m Hle IH]; auto. intros H.
    apply (proj1 (proj2 (proj2 (exec_mono1 aden cden tden kval yden env m)))). auto.
  Qed.

  Lemma flat_inj_done x y g w' : flat x = flat y -> y = CDone g w' -> g <> GReturn -> x = CDone g w'.
  Proof. intros H -> Hg. cbn in H. apply flat_done in H; assumption. Qed.

  Lemma exfrom_sim n : forall d d' w x, Forall2 crelS d d' ->
    exfrom n d w = Some x -> exists m x', exfrom m d' w = Some x' /\ norm m (Some x') = Some (flat x).
  Proof.
    induction n as [|n IH]; intros d d' w x Hd H; [discriminate|]. rewrite exec_from_S in H.
    inversion Hd as [|[lab b] [lab' b'] r r' [Hl [Hsim [Hsrc Hdis]]] Hr]; subst.
    - inversion H; subst. exists 2, (CDone GNormal w). split; reflexivity.
    - cbn [fst snd] in *. subst lab'.
      destruct (ex n b w) as [xb|] eqn:Eb; [|discriminate].
      destruct (Hsim _ _ _ (N_flat _ _ Hsrc Eb)) as [m1 Hm1]. unfold RwBase.N in Hm1.
      destruct (ex m1 b' w) as [xb'|] eqn:Eb'; [|discriminate].
      destruct Hdis as [Hnofb|Hsrc'].
      + (* the clause never leaves by break or fallthrough *)
        assert (x = xb).
        { destruct xb as [g w'| | | |]; try (inversion H; reflexivity).
          destruct g; try (inversion H; reflexivity); exfalso; destruct (Hnofb n w w') as [Hb1 Hb2]; first [apply Hb1; exact Eb|apply Hb2; exact Eb]. }
        subst xb. clear H.
        exists (S m1), xb'. split.
        * rewrite exec_from_S, Eb'. destruct xb' as [g w'| | | |]; try reflexivity.
          destruct g; try reflexivity; exfalso; cbn in Hm1; inversion Hm1 as [Hf]; symmetry in Hf;
            apply flat_done in Hf; try discriminate; subst x; destruct (Hnofb n w w') as [Hb1 Hb2]; first [apply Hb1; exact Eb|apply Hb2; exact Eb].
        * eapply norm_mono'; [|exact Hm1]. lia.
      + (* both clause bodies are native code: they leave the clause the same way *)
        assert (Hflat : flat xb' = flat xb).
        { pose proof (N_flat _ _ Hsrc' Eb') as Hn. unfold RwBase.N in Hn.
          rewrite (@exm _ _ _ aden cden tden kval yden env m1 (S m1) b' w xb' ltac:(lia) Eb') in Hn.
          pose proof (@norm_mono' m1 (S m1) xb' _ ltac:(lia) Hm1) as Hn2. congruence. }
        assert (Hsame : forall g w', g <> GReturn -> (xb = CDone g w' <-> xb' = CDone g w')).
        { intros g w' Hg. split; intros E.
          - eapply flat_inj_done; [exact Hflat|exact E|exact Hg].
          - eapply flat_inj_done; [symmetry; exact Hflat|exact E|exact Hg]. }
        destruct xb as [g w1|sv w1|w1|w1 pv|].
        * destruct g.
          -- inversion H; subst. exists (S m1), xb'. split; [|eapply norm_mono'; [|exact Hm1]; lia].
             rewrite exec_from_S, Eb'. rewrite (proj1 (Hsame GNormal w1 ltac:(discriminate)) eq_refl). reflexivity.
          -- inversion H; subst. exists (S m1), (CDone GNormal w1). split; [|reflexivity].
             rewrite exec_from_S, Eb'. rewrite (proj1 (Hsame GBreak w1 ltac:(discriminate)) eq_refl). reflexivity.
          -- inversion H; subst. exists (S m1), xb'. split; [|eapply norm_mono'; [|exact Hm1]; lia].
             rewrite exec_from_S, Eb'. rewrite (proj1 (Hsame GContinue w1 ltac:(discriminate)) eq_refl). reflexivity.
          -- inversion H; subst. exists (S m1), xb'. split; [|eapply norm_mono'; [|exact Hm1]; lia].
             rewrite exec_from_S, Eb'. destruct xb' as [g' w'| | | |]; try reflexivity.
             destruct g'; try reflexivity; exfalso.
             ++ pose proof (proj2 (Hsame GBreak w' ltac:(discriminate)) eq_refl). discriminate.
             ++ pose proof (proj2 (Hsame GFallthrough w' ltac:(discriminate)) eq_refl). discriminate.
          -- pose proof (proj1 (Hsame GFallthrough w1 ltac:(discriminate)) eq_refl) as E'. subst xb'.
             inversion Hr as [|c2 c2' r2 r2' Hc2 Hr2]; subst.
             ++ inversion H; subst. exists (S m1), CStuck. split; [|reflexivity]. rewrite exec_from_S, Eb'. reflexivity.
             ++ destruct (IH _ _ w1 x Hr H) as [m2 [x' [Hx' Hn]]].
                exists (S (m1 + m2)), x'. split; [|eapply norm_mono'; [|exact Hn]; lia].
                rewrite exec_from_S. rewrite (@exm _ _ _ aden cden tden kval yden env m1 (m1 + m2) b' w _ ltac:(lia) Eb').
                eapply (@exfrom_mono m2 (m1 + m2)); [lia|exact Hx'].
        * inversion H; subst. exists (S m1), xb'. split; [|eapply norm_mono'; [|exact Hm1]; lia].
          rewrite exec_from_S, Eb'. destruct xb' as [g' w'| | | |]; try reflexivity.
          destruct g'; try reflexivity; exfalso.
          -- pose proof (proj2 (Hsame GBreak w' ltac:(discriminate)) eq_refl). discriminate.
          -- pose proof (proj2 (Hsame GFallthrough w' ltac:(discriminate)) eq_refl). discriminate.
        * inversion H; subst. exists (S m1), xb'. split; [|eapply norm_mono'; [|exact Hm1]; lia].
          rewrite exec_from_S, Eb'. destruct xb' as [g' w'| | | |]; try reflexivity.
          destruct g'; try reflexivity; exfalso.
          -- pose proof (proj2 (Hsame GBreak w' ltac:(discriminate)) eq_refl). discriminate.
          -- pose proof (proj2 (Hsame GFallthrough w' ltac:(discriminate)) eq_refl). discriminate.
        * inversion H; subst. exists (S m1), xb'. split; [|eapply norm_mono'; [|exact Hm1]; lia].
          rewrite exec_from_S, Eb'. destruct xb' as [g' w'| | | |]; try reflexivity.
          destruct g'; try reflexivity; exfalso.
          -- pose proof (proj2 (Hsame GBreak w' ltac:(discriminate)) eq_refl). discriminate.
          -- pose proof (proj2 (Hsame GFallthrough w' ltac:(discriminate)) eq_refl). discriminate.
        * inversion H; subst. exists (S m1), xb'. split; [|eapply norm_mono'; [|exact Hm1]; lia].
          rewrite exec_from_S, Eb'. destruct xb' as [g' w'| | | |]; try reflexivity.
          destruct g'; try reflexivity; exfalso.
          -- pose proof (proj2 (Hsame GBreak w' ltac:(discriminate)) eq_refl). discriminate.
          -- pose proof (proj2 (Hsame GFallthrough w' ltac:(discriminate)) eq_refl). discriminate.
  Qed.

  Lemma pick_clause_sim tv cs cs' : Forall2 crelS cs cs' ->
    match pick_clause kval tv cs, pick_clause kval tv cs' with
    | Some d, Some d' => Forall2 crelS d d'
    | None, None => True
    | _, _ => False
    end.
  Proof.
    induction 1 as [|[lab b] [lab' b'] r r' Hc Hr IH]; cbn; auto.
    pose proof Hc as [Hl _]. cbn in Hl. subst lab'.
    destruct (clause_matches kval lab tv); [constructor; assumption|exact IH].
  Qed.

  Lemma default_from_sim cs cs' : Forall2 crelS cs cs' ->
    match default_from cs, default_from cs' with
    | Some d, Some d' => Forall2 crelS d d'
    | None, None => True
    | _, _ => False
    end.
  Proof.
    induction 1 as [|[lab b] [lab' b'] r r' Hc Hr IH]; cbn; auto.
    pose proof Hc as [Hl _]. cbn in Hl. subst lab'.
    destruct lab; [constructor; assumption|exact IH|exact IH].
  Qed.

  Lemma expick_sim a a' : Forall2 crelS a a' -> forall n l l' w x, Forall2 crelS l l' ->
    expick n a l w = Some x -> exists m x', expick m a' l' w = Some x' /\ norm m (Some x') = Some (flat x).
  Proof.
    intros Ha. induction n as [|n IH]; intros l l' w x Hl H; [discriminate|]. rewrite exec_pick_S in H.
    inversion Hl as [|[lab b] [lab' b'] r r' Hc Hr]; subst.
    - pose proof (default_from_sim Ha) as Hd.
      destruct (default_from a) as [d|], (default_from a') as [d'|] eqn:Ed'; try contradiction.
      + destruct (@exfrom_sim _ _ _ _ _ Hd H) as [m [x' [Hx' Hn]]]. exists (S m), x'. split.
        * rewrite exec_pick_S, Ed'. exact Hx'.
        * eapply norm_mono'; [|exact Hn]. lia.
      + inversion H; subst. exists 1, (CDone GNormal w). split; [rewrite exec_pick_S, Ed'; reflexivity|reflexivity].
    - pose proof Hc as [Hlab _]. cbn in Hlab. subst lab'.
      assert (Hskip : expick n a r w = Some x -> exists m x', expick m a' ((lab, b') :: r') w = Some x' /\ norm m (Some x') = Some (flat x)
                                                   \/ True) by (intros; exists 0, x; right; exact I).
      clear Hskip.
      destruct lab as [|vs|cc].
      + destruct (IH _ _ _ _ Hr H) as [m [x' [Hx' Hn]]]. exists (S m), x'. split; [rewrite exec_pick_S; exact Hx'|eapply norm_mono'; [|exact Hn]; lia].
      + destruct (IH _ _ _ _ Hr H) as [m [x' [Hx' Hn]]]. exists (S m), x'. split; [rewrite exec_pick_S; exact Hx'|eapply norm_mono'; [|exact Hn]; lia].
      + unfold lift in H. destruct (cden cc (fst w)) as [u bb|u pv|] eqn:Ec.
        * destruct bb.
          -- destruct (@exfrom_sim _ ((LCond cc, b) :: r) ((LCond cc, b') :: r') _ _ ltac:(constructor; assumption) H) as [m [x' [Hx' Hn]]].
             exists (S m), x'. split; [rewrite exec_pick_S; unfold lift; rewrite Ec; exact Hx'|eapply norm_mono'; [|exact Hn]; lia].
          -- destruct (IH _ _ _ _ Hr H) as [m [x' [Hx' Hn]]].
             exists (S m), x'. split; [rewrite exec_pick_S; unfold lift; rewrite Ec; exact Hx'|eapply norm_mono'; [|exact Hn]; lia].
        * inversion H; subst. exists 1, (CPanic (u, snd w) pv). split; [rewrite exec_pick_S; unfold lift; rewrite Ec; reflexivity|reflexivity].
        * inversion H; subst. exists 1, CStuck. split; [rewrite exec_pick_S; unfold lift; rewrite Ec; reflexivity|reflexivity].
  Qed.

  Lemma norm_normR m x' r : norm m (Some x') = Some r -> normR x' r.
  Proof. destruct x' as [g w'|sv w'|w'|w' pv|]; cbn; intros H; try (inversion H; reflexivity). exists m. exact H. Qed.

  Lemma sim_switch tag cs cs' : Forall2 crelS cs cs' -> sim [SSwitch None tag cs] [SSwitch None tag cs'].
  Proof.
    intros Hc. rewrite sim_rel. intros w r H.
    destruct (TM_single_inv H) as [x [[n Hx] Hr]].
    assert (Hsrc : srcok (SSwitch None tag cs)).
    { constructor; [intros y Hy; discriminate|]. clear - Hc. induction Hc as [|a a' l l' [_ [_ [Hs _]]] _ IH]; constructor; assumption. }
    assert (r = flat x).
    { destruct x as [g w'|sv w'|w'|w' pv|]; cbn in Hr; try exact Hr.
      assert (sv = VSig GReturn) by (eapply exec_srcok_ret; eauto). subst sv.
      destruct Hr as [k Hk]. destruct k; [discriminate|]. rewrite rung_sig in Hk. inversion Hk. reflexivity. }
    subst r. destruct n as [|n]; [discriminate|]. rewrite exec_S in Hx. cbn [after_normal] in Hx.
    assert (Hgoal : exists m x', exec m (SSwitch None tag cs') w = Some x' /\ norm m (Some x') = Some (flat x)).
    { destruct tag as [t|].
      - unfold lift in Hx. destruct (tden t (fst w)) as [u tv|u pv|] eqn:Et.
        + pose proof (pick_clause_sim tv Hc) as Hp. pose proof (default_from_sim Hc) as Hd.
          destruct (pick_clause kval tv cs) as [d|], (pick_clause kval tv cs') as [d'|] eqn:Ep'; try contradiction.
          * destruct (@exfrom_sim _ _ _ _ _ Hp Hx) as [m [x' [Hx' Hn]]]. exists (S m), x'. split; [|eapply norm_mono'; [|exact Hn]; lia].
            rewrite exec_S. cbn [after_normal]. unfold lift. rewrite Et, Ep'. exact Hx'.
          * destruct (default_from cs) as [d|], (default_from cs') as [d'|] eqn:Ed'; try contradiction.
            -- destruct (@exfrom_sim _ _ _ _ _ Hd Hx) as [m [x' [Hx' Hn]]]. exists (S m), x'. split; [|eapply norm_mono'; [|exact Hn]; lia].
               rewrite exec_S. cbn [after_normal]. unfold lift. rewrite Et, Ep', Ed'. exact Hx'.
            -- inversion Hx; subst. exists 1, (CDone GNormal (u, snd w)). split; [|reflexivity].
               rewrite exec_S. cbn [after_normal]. unfold lift. rewrite Et, Ep', Ed'. reflexivity.
        + inversion Hx; subst. exists 1, (CPanic (u, snd w) pv). split; [|reflexivity].
          rewrite exec_S. cbn [after_normal]. unfold lift. rewrite Et. reflexivity.
        + inversion Hx; subst. exists 1, CStuck. split; [|reflexivity].
          rewrite exec_S. cbn [after_normal]. unfold lift. rewrite Et. reflexivity.
      - destruct (expick_sim Hc _ _ Hc Hx) as [m [x' [Hx' Hn]]]. exists (S m), x'. split; [|eapply norm_mono'; [|exact Hn]; lia].
        rewrite exec_S. cbn [after_normal]. exact Hx'. }
    destruct Hgoal as [m [x' [Hx' Hn]]].
    eapply TM_single; [exists m; exact Hx'|eapply norm_normR; exact Hn].
  Qed.

  Lemma sim_switch_init i tag cs rest : sim (SSwitch (Some i) tag cs :: rest) (i :: SSwitch None tag cs :: rest).
  Proof.
    rewrite sim_rel. intros w r H. destruct (TM_inv H) as [x [Hx Hr]].
    eapply TM_intro; [|exact Hr]. clear Hr H.
    destruct (EX_cons_inv Hx) as [y [[n Hy] Ha]].
    destruct n as [|n]; [discriminate|]. rewrite exec_S in Hy. unfold after_normal in Hy.
    destruct (exec n i w) as [yi|] eqn:Ei; [|discriminate].
    eapply EX_cons; [exists n; exact Ei|].
    destruct yi as [g w1| | | |]; cbn; try (inversion Hy; subst; exact Ha).
    destruct g; try (inversion Hy; subst; exact Ha).
    eapply EX_cons; [|exact Ha]. exists (S n). rewrite exec_S. exact Hy.
  Qed.

  (* ================= loops whose post statement yields ================= *)
  Notation LOOP := (LOOP aden cden tden kval yden env).

  Lemma exloop_mono n m c p b w x : n <= m -> exloop n c p b w = Some x -> exloop m c p b w = Some x.
  Proof.
    induction 1 as [|m Hle IH]; auto. intros H.
    apply (proj2 (proj2 (proj2 (proj2 (exec_mono1 aden cden tden kval yden env m))))). auto.
  Qed.

  (* one iteration of a loop without post statement, relationally *)
  Definition body0R c b (w2 : W) (x : compl) : Prop :=
    exists y, EX b w2 y /\
      match y with
      | CDone (GNormal | GContinue) w3 => LOOP c None b w3 x
      | CDone GBreak w3 => x = CDone GNormal w3
      | other => x = other
      end.

  Lemma LOOP_intro0 c b w x :
    match c with
    | None => body0R c b w x
    | Some cc => liftR (cden cc (fst w)) (snd w) (fun bb w2 x => if bb then body0R c b w2 x else x = CDone GNormal w2) x
    end -> LOOP c None b w x.
  Proof.
    assert (Hb : forall w2, body0R c b w2 x -> exists n, forall M, n <= M ->
              (match ex M b w2 with
               | Some (CDone (GNormal | GContinue) w3) => after_normal (Some (CDone GNormal w3)) (fun w4 => exloop M c None b w4)
               | Some (CDone GBreak w3) => Some (CDone GNormal w3)
               | other => other end) = Some x).
    { intros w2 [y [[n1 Hy] Hm]].
      destruct y as [g w3|sv w3|w3|w3 pv|]; try (subst x; exists n1; intros M HM; rewrite (@exm _ _ _ aden cden tden kval yden env n1 M b w2 _ HM Hy); reflexivity).
      destruct g; try (subst x; exists n1; intros M HM; rewrite (@exm _ _ _ aden cden tden kval yden env n1 M b w2 _ HM Hy); reflexivity).
      - destruct Hm as [n2 Hn2]. exists (n1 + n2). intros M HM. rewrite (@exm _ _ _ aden cden tden kval yden env n1 M b w2 _ ltac:(lia) Hy).
        cbn [after_normal]. eapply exloop_mono; [|exact Hn2]. lia.
      - destruct Hm as [n2 Hn2]. exists (n1 + n2). intros M HM. rewrite (@exm _ _ _ aden cden tden kval yden env n1 M b w2 _ ltac:(lia) Hy).
        cbn [after_normal]. eapply exloop_mono; [|exact Hn2]. lia. }
    intros H. destruct c as [cc|].
    - unfold liftR in H. destruct (cden cc (fst w)) as [u bb|u pv|] eqn:Ec.
      + destruct bb.
        * destruct (Hb _ H) as [n Hn]. exists (S n). rewrite exec_loop_S. cbv beta zeta. unfold lift. rewrite Ec. apply Hn. lia.
        * subst x. exists 1. rewrite exec_loop_S. cbv beta zeta. unfold lift. rewrite Ec. reflexivity.
      + subst x. exists 1. rewrite exec_loop_S. cbv beta zeta. unfold lift. rewrite Ec. reflexivity.
      + subst x. exists 1. rewrite exec_loop_S. cbv beta zeta. unfold lift. rewrite Ec. reflexivity.
    - destruct (Hb _ H) as [n Hn]. exists (S n). rewrite exec_loop_S. cbv beta zeta. apply Hn. lia.
  Qed.

  (* a body that never completes with continue *)
  Definition nocont (b : list stmt) : Prop := forall n w w', ex n b w <> Some (CDone GContinue w').

  (* the post statement can be run at the end of the body when nothing continues past it *)
  Lemma loop_post_shift c v b : nocont b ->
    forall n w x, exloop n c (Some (SYield v)) b w = Some x -> LOOP c None (b ++ [SYield v]) w x.
  Proof.
    intros Hnc. induction n as [|n IH]; intros w x H; [discriminate|].
    rewrite exec_loop_S in H. cbv beta zeta in H.
    assert (Hbody : forall w2 x2,
      (match ex n b w2 with
       | Some (CDone (GNormal | GContinue) w3) =>
           after_normal (exec n (SYield v) w3) (fun w4 => exloop n c (Some (SYield v)) b w4)
       | Some (CDone GBreak w3) => Some (CDone GNormal w3)
       | other => other end) = Some x2 -> body0R c (b ++ [SYield v]) w2 x2).
    { intros w2 x2 H2. destruct (ex n b w2) as [xb|] eqn:Eb; [|discriminate].
      assert (Hstop : (forall w', xb <> CDone GNormal w') -> (forall w', xb <> CDone GContinue w') ->
                match xb with CDone GBreak w3 => Some (CDone GNormal w3) | other => Some other end = Some x2 ->
                body0R c (b ++ [SYield v]) w2 x2).
      { intros Hn Hc Hx. exists xb. split.
        - eapply EX_app; [exists n; exact Eb|]. destruct xb as [g w3| | | |]; cbn; try reflexivity.
          destruct g; cbn; try reflexivity. exfalso. eapply Hn; reflexivity.
        - destruct xb as [g w3| | | |]; try (inversion Hx; reflexivity).
          destruct g; try (inversion Hx; reflexivity); exfalso; [eapply Hn|eapply Hc]; reflexivity. }
      destruct xb as [g w3|sv w3|w3|w3 pv|]; try (apply Hstop; [discriminate|discriminate|exact H2]).
      destruct g; try (apply Hstop; [discriminate|discriminate|exact H2]).
      - (* the body completed normally: the post statement runs *)
        destruct (exec n (SYield v) w3) as [yp|] eqn:Ep; [|discriminate].
        exists yp. split.
        + eapply EX_app; [exists n; exact Eb|]. cbn. apply EX_single. exists n. exact Ep.
        + destruct yp as [g w4|sv w4|w4|w4 pv|]; cbn [after_normal] in H2; try (inversion H2; reflexivity).
          destruct g; try (exfalso; destruct n as [|n']; [discriminate|]; rewrite exec_S in Ep; unfold lift in Ep;
                           destruct (yden v (fst w3)) as [u val|u pv|]; try discriminate; cbn in Ep;
                           destruct (env (snd w3) val u) as [u' more]; destruct more; discriminate).
          eapply IH. exact H2.
      - exfalso. eapply Hnc; exact Eb. }
    apply LOOP_intro0. destruct c as [cc|].
    - unfold lift in H. unfold liftR. destruct (cden cc (fst w)) as [u bb|u pv|].
      + destruct bb; [apply Hbody; exact H|inversion H; reflexivity].
      + inversion H; reflexivity.
      + inversion H; reflexivity.
    - apply Hbody. exact H.
  Qed.

  Lemma sim_for_post c v b : nocont b ->
    sim [SFor None c (Some (SYield v)) b] [SFor None c None (b ++ [SYield v])].
  Proof.
    intros Hnc. rewrite sim_rel. intros w r H.
    destruct (TM_single_inv H) as [x [[n Hx] Hr]].
    destruct n as [|n]; [discriminate|]. rewrite exec_S in Hx. cbn [after_normal] in Hx.
    destruct (@loop_post_shift c v b Hnc _ _ _ Hx) as [m Hm].
    eapply TM_single; [|exact Hr]. exists (S m). rewrite exec_S. cbn [after_normal]. exact Hm.
  Qed.

  (* two callbacks in sequence: seq.Combine(Delay(first half), Delay(second half)) *)
  Lemma sim_combine b p tb tp : Forall srcok b -> sim b tb -> sim p tp ->
    sim (b ++ p) [SRet (XCombine (XDelay (TLit tb)) (XDelay (TLit tp)))].
  Proof.
    intros Hsrc Hb Hp. rewrite sim_rel in Hb, Hp. rewrite sim_rel. intros w r H.
    destruct (TM_inv H) as [x [Hx Hr]]. destruct (EX_app_inv _ _ Hx) as [y [Hy Ha]].
    eapply TM_single; [apply EXS_ret; reflexivity|]. cbn [build normR Rel.normR]. destruct w as [u k]. cbn [fst snd].
    assert (Hfirst : forall rb, TM b (u, k) rb -> RUN (VDelay (TLit tb)) (u, k) rb).
    { intros rb Hrb. apply RUN_delay. apply CALL_lit. apply Hb. exact Hrb. }
    destruct y as [g w'|sv w'|w'|w' pv|]; cbn in Ha.
    - destruct g; try (subst x; cbn in Hr; subst r;
                       eapply RUN_combine; [apply Hfirst; eapply TM_intro; [exact Hy|reflexivity]|reflexivity]).
      eapply RUN_combine; [apply Hfirst; eapply TM_intro; [exact Hy|reflexivity]|]. cbn.
      apply RUN_delay. apply CALL_lit. apply Hp. eapply TM_intro; eauto.
    - subst x. cbn in Hr. assert (sv = VSig GReturn) by (eapply EX_srcok_ret; eauto). subst sv.
      apply RUN_sig_inv in Hr. subst r.
      eapply RUN_combine; [apply Hfirst; eapply TM_intro; [exact Hy|apply RUN_sig]|reflexivity].
    - subst x. cbn in Hr. subst r. eapply RUN_combine; [apply Hfirst; eapply TM_intro; [exact Hy|reflexivity]|reflexivity].
    - subst x. cbn in Hr. subst r. eapply RUN_combine; [apply Hfirst; eapply TM_intro; [exact Hy|reflexivity]|reflexivity].
    - subst x. cbn in Hr. subst r. eapply RUN_combine; [apply Hfirst; eapply TM_intro; [exact Hy|reflexivity]|reflexivity].
  Qed.

  (* a native-only target prefix that simulates a native-only source prefix falls through exactly when it does *)
  Lemma sim_prefix_Nseq b tb l : Forall srcok b -> Forall srcok tb -> sim b tb ->
    forall n w r, N n (b ++ l) w = Some r -> exists m, Nseq m tb l w = Some r.
  Proof.
    intros Hb Htb Hs n w r H. unfold RwBase.N in H.
    destruct (ex n (b ++ l) w) as [x|] eqn:E; [|discriminate].
    destruct (@ex_app_fwd _ _ _ aden cden tden kval yden env n b l w x E) as [[Eb Hn]|[w' [Eb [m1 [Hm1 El]]]]].
    - (* the prefix did not fall through *)
      assert (Hb' : N n b w = Some r) by (unfold RwBase.N; rewrite Eb; exact H).
      destruct (Hs _ _ _ Hb') as [m Hm]. exists (S m). unfold Nseq. unfold RwBase.N in Hm.
      destruct (ex m tb w) as [y|] eqn:Ey; [|discriminate].
      rewrite (@exm _ _ _ aden cden tden kval yden env m (S m) tb w y ltac:(lia) Ey).
      assert (Hr : forall w0, r <> CDone GNormal w0).
      { intros w0 Hr0. subst r. destruct x as [g w1|sv w1| | |]; cbn in H; try discriminate.
        - inversion H; subst. eapply Hn; reflexivity.
        - assert (sv = VSig GReturn) by (eapply (@ex_srcok_ret n b w sv w1); [exact Hb|exact Eb]). subst sv. destruct n; [discriminate|]. rewrite rung_sig in H. discriminate. }
      destruct y as [g w1|sv w1|w1|w1 pv|]; cbn in Hm; try exact Hm.
      + destruct g; try exact Hm. exfalso. inversion Hm; subst. eapply Hr; reflexivity.
      + assert (sv = VSig GReturn) by (eapply (@ex_srcok_ret m tb w sv w1); [exact Htb|exact Ey]). subst sv.
        destruct m; [discriminate|]. rewrite rung_sig in Hm. rewrite rung_sig. exact Hm.
    - (* the prefix fell through to l *)
      assert (Hb' : N n b w = Some (CDone GNormal w')) by (unfold RwBase.N; rewrite Eb; reflexivity).
      destruct (Hs _ _ _ Hb') as [m Hm]. unfold RwBase.N in Hm.
      destruct (ex m tb w) as [y|] eqn:Ey; [|discriminate].
      assert (y = CDone GNormal w').
      { destruct y as [g w1|sv w1|w1|w1 pv|]; cbn in Hm; try (inversion Hm; reflexivity).
        assert (sv = VSig GReturn) by (eapply (@ex_srcok_ret m tb w sv w1); [exact Htb|exact Ey]). subst sv. destruct m; [discriminate|]. rewrite rung_sig in Hm. discriminate. }
      subst y. exists (m + n). unfold Nseq.
      rewrite (@exm _ _ _ aden cden tden kval yden env m (m + n) tb w _ ltac:(lia) Ey).
      unfold RwBase.N. rewrite (@exm _ _ _ aden cden tden kval yden env m1 (m + n) l w' x ltac:(lia) El).
      eapply norm_mono'; [|exact H]. lia.
  Qed.

  (* blocks that end in a trivial statement consist of source statements only *)
  Definition trivQ (B : blk) : Prop := combineRequired B = false -> Forall srcok (bstmts B).
  Definition chk (c : blk) : Prop := combineRequired c = true -> checked c = false.
  Definition KQ (kk : blk -> res blk) : Prop := forall c B, trivQ c -> chk c -> kk c = OK B -> trivQ B.
  Definition KQ0 (k' : blk -> res blk) : Prop :=
    forall c B, combineRequired c = false -> Forall srcok (bstmts c) -> k' c = OK B -> trivQ B.

  Lemma combineRequired_pushReturn c e k c' : pushReturn c e k = OK c' -> combineRequired c' = true.
  Proof. intros H. destruct (lastKind_pushReturn _ _ _ H) as [Hl Hk]. unfold combineRequired. rewrite Hl. destruct k; auto; discriminate. Qed.

  Lemma trivQ_ret c e k c' : pushReturn c e k = OK c' -> trivQ c' /\ chk c'.
  Proof.
    intros H. split; [intros Hcr; rewrite (combineRequired_pushReturn _ _ _ H) in Hcr; discriminate|].
    intros _. unfold pushReturn in H. destruct (negb (is_ret_kind k)); [discriminate|].
    destruct (push c (SRet e) k) as [b|] eqn:E; cbn [bind] in H; [|discriminate]. inversion H; subst. cbn [checked]. apply (checked_push _ _ _ E).
  Qed.

  Lemma trivQ_push c s k c' : Forall srcok (bstmts c) -> (k = KTrivial -> srcok s) -> push c s k = OK c' -> trivQ c' /\ chk c'.
  Proof.
    intros Hc Hs H. split; [|intros _; apply (checked_push _ _ _ H)].
    intros Hcr'. rewrite (push_stmts _ _ _ H). apply Forall_app. split; [exact Hc|].
    constructor; [|constructor]. apply Hs. unfold combineRequired in Hcr'. rewrite (lastKind_push _ _ _ H) in Hcr'. destruct k; try discriminate; reflexivity.
  Qed.

  Lemma trivQ_gln c c' : trivQ c -> gln c = OK c' -> trivQ c'.
  Proof.
    intros Hc H. unfold gln in H. destruct (bkind c); try (inversion H; subst; exact Hc).
    all: destruct (returnNormalRequired c) as [[|]|]; cbn [bind] in H; try discriminate; try (inversion H; subst; exact Hc).
    all: intros Hcr; rewrite (combineRequired_pushReturn _ _ _ H) in Hcr; discriminate.
  Qed.

  Lemma comb_KQ c k' B : trivQ c -> KQ0 k' -> comb c k' = OK B -> trivQ B.
  Proof.
    intros Hc Hk H. unfold comb in H. rewrite combineRequired_mark in H.
    destruct (combineRequired c) eqn:Ecr; cbn [negb] in H.
    - destruct (pop (markCombined c)) as [[[s kd] c'']|]; cbn [bind] in H; [|discriminate].
      destruct (push (mkBlock KDelay) s kd) as [c1|]; cbn [bind] in H; [|discriminate].
      destruct (gln c1) as [c1'|]; cbn [bind] in H; [|discriminate].
      destruct (k' (mkBlock KDelay)) as [fol|]; cbn [bind] in H; [|discriminate].
      intros Hcr. rewrite (combineRequired_pushReturn _ _ _ H) in Hcr. discriminate.
    - eapply (Hk (markCombined c) B); [exact Ecr|apply Hc; exact Ecr|exact H].
  Qed.

  (* a continuation is only handed blocks it could have been handed by push *)
  Lemma KQ_push_triv kk c s B : KQ kk -> trivQ c -> chk c -> srcok s -> (c1 <- push c s KTrivial ;; kk c1) = OK B -> trivQ B.
  Proof.
    intros Hk Hc Hchk Hs H. destruct (push c s KTrivial) as [c1|] eqn:E; cbn [bind] in H; [|discriminate].
    assert (Hcr : combineRequired c = false).
    { destruct (combineRequired c) eqn:Ecr; [|reflexivity]. unfold push in E. rewrite (Hchk Ecr) in E. discriminate. }
    destruct (@trivQ_push c s KTrivial c1 (Hc Hcr) (fun _ => Hs) E) as [H1 H2]. eapply (Hk c1 B); eauto.
  Qed.

  (* ================= supported statements (boolean, by fuel) ================= *)
  Lemma supp_S k s :
    supp (S k) s =
      match s with
      | SAtom _ | SYield _ | SBreak | SContinue | SFallthrough => true
      | SRet XReturn => true
      | SBlock b => forallb (supp k) b
      | SIf i c t e =>
          init_ok i && forallb (supp k) t &&
          match e with
          | ENone => true
          | EElse b => forallb (supp k) b
          | EElif x => is_if x && supp k x
          end
      | SFor i c p b => init_ok2 i && post_okb k p b && forallb (supp k) b
      | SSwitch i t cs => init_ok2 i && forallb (fun lb => clause_ok (supp k) k (snd lb)) cs
      | _ => false
      end.
  Proof. reflexivity. Qed.

  Lemma clause_ok_inv sup k b : clause_ok sup k b = true ->
    forallb sup b = true /\
    (forallb (ny k) b = true \/
     (forallb (fitsb k) b = true /\ has_break (S k) (SBlock b) = false /\ forallb (okb k true true false) b = true)).
  Proof.
    unfold clause_ok. intros H. apply andb_prop in H. destruct H as [H1 H]. split; [exact H1|].
    apply orb_prop in H. destruct H as [H|H]; [left; exact H|right].
    apply andb_prop in H. destruct H as [H H4]. apply andb_prop in H. destruct H as [H2 H3]. apply negb_true_iff in H3. auto.
  Qed.

  Lemma init_ok_srcok i : init_ok i = true -> forall x, i = Some x -> srcok x.
  Proof. intros H x ->. destruct x; try discriminate. constructor. Qed.
  Lemma init_ok2_srcok i : init_ok2 i = true -> forall x, i = Some x -> srcok x.
  Proof. intros H x ->. destruct x; try discriminate; constructor. Qed.
  Lemma init_ok2_supp i x k : init_ok2 i = true -> i = Some x -> supp (S k) x = true.
  Proof. intros H ->. destruct x; try discriminate; reflexivity. Qed.

  Lemma supp_srcok k : forall s, supp k s = true -> srcok s.
  Proof.
    induction k as [|k IH]; intros s H; [discriminate|].
    assert (HL : forall l, forallb (supp k) l = true -> Forall srcok l).
    { intros l Hl. apply Forall_forall. intros x Hx. apply IH. rewrite forallb_forall in Hl. auto. }
    rewrite supp_S in H. destruct s; try discriminate; try constructor.
    - apply HL; exact H.
    - apply andb_prop in H. destruct H as [H He]. apply andb_prop in H. destruct H as [Hi Ht]. apply init_ok_srcok; exact Hi.
    - apply andb_prop in H. destruct H as [H He]. apply andb_prop in H. destruct H as [Hi Ht]. apply HL; exact Ht.
    - apply andb_prop in H. destruct H as [H He]. destruct el; constructor.
      + apply HL; exact He.
      + apply andb_prop in He. destruct He as [_ He]. apply IH; exact He.
    - apply andb_prop in H. destruct H as [Hi Hc]. apply init_ok2_srcok; exact Hi.
    - apply andb_prop in H. destruct H as [Hi Hc]. apply Forall_forall. intros lb Hlb.
      rewrite forallb_forall in Hc. specialize (Hc lb Hlb). apply clause_ok_inv in Hc. apply HL. apply (proj1 Hc).
    - apply andb_prop in H. destruct H as [H Hb]. apply andb_prop in H. destruct H as [Hi Hp]. apply init_ok2_srcok; exact Hi.
    - apply andb_prop in H. destruct H as [H Hb]. apply andb_prop in H. destruct H as [Hi Hp].
      intros x ->. unfold post_okb in Hp. destruct x; try discriminate; constructor.
    - apply andb_prop in H. destruct H as [H Hb]. apply HL; exact Hb.
    - destruct e; try discriminate. constructor.
  Qed.

  Lemma supps_srcok k l : supps k l = true -> Forall srcok l.
  Proof. intros H. apply Forall_forall. intros x Hx. eapply supp_srcok. unfold supps in H. rewrite forallb_forall in H. eauto. Qed.

  (* ================= pass2 is a forward simulation ================= *)
  Lemma rw_stmts_S f ss cur :
    rw_stmts (S f) ss cur =
      match ss with
      | [] => match bkind cur with KDelay => gln cur | _ => OK cur end
      | s :: rest =>
          let isLast := match rest with [] => true | _ => false end in
          rw_stmt f s isLast cur (fun fol =>
            if isLast then match bkind fol with KDelay => gln fol | _ => OK fol end
            else comb fol (fun f2 => rw_stmts f rest f2))
      end.
  Proof. reflexivity. Qed.

  Lemma rw_stmt_S f s isLast cur k :
    rw_stmt (S f) s isLast cur k =
      match s with
      | SBlock b =>
          fol <- rw_stmts f b (mkBlock KDelay) ;;
          if mustNoYield fol then c <- push cur s KTrivial ;; k c
          else c <- pushReturn cur (XDelay (TLit (bstmts fol))) KYield ;; k c
      | SYield v =>
          if isLast then
            fol <- gln (mkBlock KDelay) ;;
            pushReturn cur (XBind v (TLit (bstmts fol))) KYield
          else
            fol <- k (mkBlock KDelay) ;;
            pushReturn cur (XBind v (TLit (bstmts fol))) KYield
      | SBreak | SContinue | SFallthrough => push cur s KTrivial
      | SIf _ _ _ _ =>
          c <- rw_if f s cur ;;
          if isLast then gln c else k c
      | SSwitch init tag cases =>
          rw_switch f s init tag cases cur (fun c =>
            match isLast, lastKind c with
            | true, Some KSwitch => gln c
            | _, _ => k c
            end)
      | SFor init c post b => rw_for f s init c post b cur k
      | SAtom _ | SRet _ | SReturn => c <- push cur s KTrivial ;; k c
      end.
  Proof. reflexivity. Qed.

  Lemma rw_if_S f s cur :
    rw_if (S f) s cur =
      match s with
      | SIf init c th el =>
          if hasYo init then Err E_YIELD_IN_INIT else
          body <- rw_stmts f th (mkBlock KIf) ;;
          match el with
          | ENone =>
              if mustNoYield body then push cur s KTrivial
              else push cur (SIf init c (bstmts body) ENone) KIf
          | EElse b =>
              els <- rw_stmts f b (mkBlock KIf) ;;
              if mustNoYield body && mustNoYield els then push cur s KTrivial
              else push cur (SIf init c (bstmts body) (unwrapIf (bstmts els))) KIf
          | EElif alt =>
              els <- rw_if f alt (mkBlock KIf) ;;
              if mustNoYield body && mustNoYield els then push cur s KTrivial
              else push cur (SIf init c (bstmts body) (unwrapIf (bstmts els))) KIf
          end
      | _ => Err E_UNSUPPORTED
      end.
  Proof. reflexivity. Qed.

  Lemma rw_for_S f s init c post b cur k :
    rw_for (S f) s init c post b cur k =
      (body <- rw_stmts f b (mkBlock KFor) ;;
       let trivialBody := mustNoYield body in
       if negb (hasYo init) && negb (hasYo post) && trivialBody then c1 <- push cur s KTrivial ;; k c1 else
       let after := fun (c2 : blk) =>
         if trivialBody && negb (hasYo post) then
           comb c2 (fun c3 => c4 <- push c3 (SFor None c post b) KTrivial ;; k c4)
         else if negb (hasYo post) then
           comb c2 (fun c3 => c4 <- pushReturn c3 (XFor (option_map CExp c) post (XDelay (TLit (bstmts body)))) KFor ;; k c4)
         else
           match post with
           | None => Err E_UNSUPPORTED
           | Some p =>
               body' <-
                 (if combineRequired body then
                    pb <- rw_stmt f p true (mkBlock KDelay) (fun x => OK x) ;;
                    match lastStmt pb with
                    | Some (SRet _) =>
                        b1 <- gln body ;;
                        pushReturn (mkBlock (bkind body)) (XCombine (XDelay (TLit (bstmts b1))) (XDelay (TLit (bstmts pb)))) KCombine
                    | _ => Err E_POST_NOT_RETURN
                    end
                  else rw_stmt f p true (markCombined body) (fun x => OK x)) ;;
               comb c2 (fun c3 => c4 <- pushReturn c3 (XFor (option_map CExp c) None (XDelay (TLit (bstmts body')))) KFor ;; k c4)
           end in
       match init with
       | None => after cur
       | Some i => rw_stmt f i false cur after
       end).
  Proof. reflexivity. Qed.

  Definition rw_cases (f : nat) : list (clabel * list stmt) -> res (list (clabel * list stmt) * bool) :=
    fix go (l : list (clabel * list stmt)) : res (list (clabel * list stmt) * bool) :=
      match l with
      | [] => OK ([], true)
      | (lab, b) :: r =>
          cb <- rw_stmts f b (mkBlock KSwitch) ;;
          rr <- go r ;;
          OK ((lab, bstmts cb) :: fst rr, mustNoYield cb && snd rr)
      end.

  Lemma rw_switch_S f s init tag cases cur k :
    rw_switch (S f) s init tag cases cur k =
      (cs <- rw_cases f cases ;;
       let '(cases', allTrivial) := cs in
       if negb (hasYo init) && allTrivial then c <- push cur s KTrivial ;; k c else
       let after := fun (c2 : blk) =>
         if allTrivial then c3 <- push c2 (SSwitch None tag cases) KTrivial ;; k c3
         else comb c2 (fun c3 => c4 <- push c3 (SSwitch None tag cases') KSwitch ;; k c4) in
       match init with
       | None => after cur
       | Some i => rw_stmt f i false cur after
       end).
  Proof. reflexivity. Qed.

  Lemma init_ok_hasYo i : init_ok i = true -> hasYo i = false.
  Proof. destruct i as [[]|]; try discriminate; reflexivity. Qed.

  Lemma bind_ok A B (m : res A) (f : A -> res B) b : bind m f = OK b -> exists a, m = OK a /\ f a = OK b.
  Proof. destruct m; cbn; [eauto|discriminate]. Qed.

  (* the continuation rw_stmts hands to rw_stmt *)
  Lemma K_stmts f rest :
    (forall cur B, Forall srcok (bstmts cur) -> combineRequired cur = false -> rw_stmts f rest cur = OK B ->
        forall n w r, Nseq n (bstmts cur) rest w = Some r -> exists m, N m (bstmts B) w = Some r) ->
    Kspec' (fun fol =>
      if match rest with [] => true | _ => false end
      then match bkind fol with KDelay => gln fol | _ => OK fol end
      else comb fol (fun f2 => rw_stmts f rest f2)) rest.
  Proof.
    intros IH. destruct rest as [|s2 rest2].
    - intros c B _ HB n w r H. eapply Kspec_nil_gln; [|exact H].
      destruct (bkind c); auto; inversion HB; auto.
    - apply comb_spec. intros c B Hc Hcr HB. eapply IH; eauto.
  Qed.

  Lemma els_sim_trans_else b b' : sim b b' -> els_sim (EElse b) (unwrapIf b').
  Proof.
    intros H. unfold unwrapIf. destruct b' as [|s [|s2 r]]; cbn; try exact H; destruct s; cbn; exact H.
  Qed.

  (* blocks whose last statement is trivial hold source statements only: the rewriter re-emits the
     original statement on every trivial path *)
  Lemma rw_triv f :
    (forall ss cur B, Forall srcok ss -> Forall srcok (bstmts cur) -> combineRequired cur = false ->
        rw_stmts f ss cur = OK B -> trivQ B) /\
    (forall s isLast cur kk B, srcok s -> Forall srcok (bstmts cur) -> combineRequired cur = false -> KQ kk ->
        rw_stmt f s isLast cur kk = OK B -> trivQ B) /\
    (forall s cur c', srcok s -> Forall srcok (bstmts cur) -> rw_if f s cur = OK c' -> trivQ c' /\ chk c') /\
    (forall init c post b cur kk B, srcok (SFor init c post b) -> Forall srcok (bstmts cur) -> combineRequired cur = false -> KQ kk ->
        rw_for f (SFor init c post b) init c post b cur kk = OK B -> trivQ B) /\
    (forall init tag cases cur kk B, srcok (SSwitch init tag cases) -> Forall srcok (bstmts cur) -> combineRequired cur = false -> KQ kk ->
        rw_switch f (SSwitch init tag cases) init tag cases cur kk = OK B -> trivQ B).
  Proof.
    induction f as [|f [IH1 [IH2 [IH3 [IH4 IH5]]]]]; [repeat split; intros; discriminate|].
    assert (Hcur2 : forall cur, Forall srcok (bstmts cur) -> combineRequired cur = false -> trivQ cur /\ chk cur).
    { intros cur Hc Hcr. split; [intros _; exact Hc|intros E; congruence]. }
    assert (Hinit : forall (init : option stmt) cur after B, (forall x, init = Some x -> srcok x) ->
              Forall srcok (bstmts cur) -> combineRequired cur = false -> KQ after ->
              match init with None => after cur | Some i => rw_stmt f i false cur after end = OK B -> trivQ B).
    { intros init cur after B Hi Hc Hcr Ha H. destruct init as [i|].
      - eapply IH2; [apply Hi; reflexivity|exact Hc|exact Hcr|exact Ha|exact H].
      - destruct (Hcur2 cur Hc Hcr) as [H1 H2]. eapply Ha; eauto. }
    split; [|split; [|split; [|split]]].
    - intros ss cur B Hss Hc Hcr H. rewrite rw_stmts_S in H. destruct ss as [|s rest].
      + destruct (bkind cur); try (inversion H; subst; intros _; exact Hc). eapply trivQ_gln; [|exact H]. intros _; exact Hc.
      + inversion Hss as [|s0 r0 Hs Hrest]; subst. cbv zeta in H.
        eapply IH2; [exact Hs|exact Hc|exact Hcr| |exact H].
        intros fol B' Hfol _ HB'. destruct rest as [|s2 rest2].
        * destruct (bkind fol); try (inversion HB'; subst; exact Hfol). eapply trivQ_gln; eauto.
        * eapply comb_KQ; [exact Hfol| |exact HB']. intros c2 B2 Hcr2 Hc2 H2. eapply (IH1 (s2 :: rest2) c2 B2); [exact Hrest|exact Hc2|exact Hcr2|exact H2].
    - intros s isLast cur kk B Hs Hc Hcr Hk H. rewrite rw_stmt_S in H. destruct (Hcur2 cur Hc Hcr) as [Hq Hchk].
      destruct s as [a|v|b|ini cnd th el|ini tag cases|ini cnd post b| | | | |e].
      + eapply KQ_push_triv; eauto.
      + destruct isLast.
        * destruct (bind_ok _ _ H) as [fol [_ H']]. apply (proj1 (@trivQ_ret _ _ _ _ H')).
        * destruct (bind_ok _ _ H) as [fol [_ H']]. apply (proj1 (@trivQ_ret _ _ _ _ H')).
      + destruct (bind_ok _ _ H) as [fol [_ H']]. destruct (mustNoYield fol).
        * eapply KQ_push_triv; eauto.
        * destruct (bind_ok _ _ H') as [c [Hc' Hk']]. destruct (@trivQ_ret _ _ _ _ Hc') as [H1 H2]. eapply Hk; eauto.
      + destruct (bind_ok _ _ H) as [c [Hc' H']]. destruct (IH3 _ _ _ Hs Hc Hc') as [H1 H2].
        destruct isLast; [eapply trivQ_gln; eauto|eapply Hk; eauto].
      + eapply IH5; [exact Hs|exact Hc|exact Hcr| |exact H]. intros c0 B0 H1 H2 H0.
        destruct isLast; [|eapply Hk; eauto]. destruct (lastKind c0) as [[]|]; try (eapply Hk; eauto; fail). eapply trivQ_gln; eauto.
      + eapply IH4; eauto.
      + apply (proj1 (@trivQ_push cur _ KTrivial B Hc (fun _ => Hs) H)).
      + apply (proj1 (@trivQ_push cur _ KTrivial B Hc (fun _ => Hs) H)).
      + eapply KQ_push_triv; eauto.
      + apply (proj1 (@trivQ_push cur _ KTrivial B Hc (fun _ => Hs) H)).
      + eapply KQ_push_triv; eauto.
    - intros s cur c' Hs Hc H. rewrite rw_if_S in H. destruct s as [a|v|b|init c th el|ini tag cases|ini cnd post b| | | | |e]; try discriminate.
      destruct (hasYo init); [discriminate|]. destruct (bind_ok _ _ H) as [body [_ H']].
      assert (Hp : forall s0 kd c1, (kd = KTrivial -> s0 = SIf init c th el) -> push cur s0 kd = OK c1 -> trivQ c1 /\ chk c1).
      { intros s0 kd c1 Hkd Hpu. eapply trivQ_push; [exact Hc| |exact Hpu]. intros E. rewrite (Hkd E). exact Hs. }
      destruct el as [|eb|alt].
      + destruct (mustNoYield body); eapply Hp; try exact H'; try reflexivity; discriminate.
      + destruct (bind_ok _ _ H') as [els [_ H'']]. destruct (mustNoYield body && mustNoYield els); eapply Hp; try exact H''; try reflexivity; discriminate.
      + destruct (bind_ok _ _ H') as [els [_ H'']]. destruct (mustNoYield body && mustNoYield els); eapply Hp; try exact H''; try reflexivity; discriminate.
    - intros init c post b cur kk B Hs Hc Hcr Hk H. rewrite rw_for_S in H. destruct (bind_ok _ _ H) as [body [_ H']]. clear H. cbv zeta in H'.
      destruct (Hcur2 cur Hc Hcr) as [Hq Hchk].
      assert (Hsrc0 : srcok (SFor None c post b)).
      { inversion Hs; subst. constructor; auto. intros x Hx; discriminate. }
      assert (Hi : forall x, init = Some x -> srcok x) by (inversion Hs; subst; assumption).
      destruct (negb (hasYo init) && negb (hasYo post) && mustNoYield body); [exact (@KQ_push_triv kk cur _ B Hk Hq Hchk Hs H')|].
      eapply Hinit; [exact Hi|exact Hc|exact Hcr| |exact H'].
      intros c2 B2 Hc2 Hchk2 H2.
      assert (Hpushk : KQ0 (fun c3 => c4 <- push c3 (SFor None c post b) KTrivial ;; kk c4)).
      { intros c3 B3 Hcr3 Hc3 H3. destruct (bind_ok _ _ H3) as [c4 [Hc4 Hk4]].
        destruct (@trivQ_push c3 _ KTrivial c4 Hc3 (fun _ => Hsrc0) Hc4) as [H5 H6]. eapply Hk; eauto. }
      assert (Hretk : forall e, KQ0 (fun c3 => c4 <- pushReturn c3 e KFor ;; kk c4)).
      { intros e c3 B3 Hcr3 Hc3 H3. destruct (bind_ok _ _ H3) as [c4 [Hc4 Hk4]].
        destruct (@trivQ_ret _ _ _ _ Hc4) as [H5 H6]. eapply Hk; eauto. }
      destruct (mustNoYield body && negb (hasYo post)); [eapply comb_KQ; eauto|].
      destruct (negb (hasYo post)); [eapply comb_KQ; [exact Hc2|apply Hretk|exact H2]|].
      destruct post as [p|]; [|discriminate]. destruct (bind_ok _ _ H2) as [body' [_ H2']].
      eapply comb_KQ; [exact Hc2|apply Hretk|exact H2'].
    - intros init tag cases cur kk B Hs Hc Hcr Hk H. rewrite rw_switch_S in H. destruct (bind_ok _ _ H) as [[cases' allTrivial] [_ H']]. clear H.
      destruct (Hcur2 cur Hc Hcr) as [Hq Hchk].
      assert (Hsrc0 : srcok (SSwitch None tag cases)).
      { inversion Hs; subst. constructor; auto. intros x Hx; discriminate. }
      assert (Hi : forall x, init = Some x -> srcok x) by (inversion Hs; subst; assumption).
      destruct (negb (hasYo init) && allTrivial); [exact (@KQ_push_triv kk cur _ B Hk Hq Hchk Hs H')|].
      eapply Hinit; [exact Hi|exact Hc|exact Hcr| |exact H'].
      intros c2 B2 Hc2 Hchk2 H2. destruct allTrivial.
      + exact (@KQ_push_triv kk c2 _ B2 Hk Hc2 Hchk2 Hsrc0 H2).
      + eapply comb_KQ; [exact Hc2| |exact H2]. intros c3 B3 Hcr3 Hc3 H3. destruct (bind_ok _ _ H3) as [c4 [Hc4 Hk4]].
        destruct (@trivQ_push c3 (SSwitch None tag cases') KSwitch c4 Hc3 ltac:(discriminate) Hc4) as [H5 H6]. eapply Hk; eauto.
  Qed.

  (* a statement list without Yield is re-emitted as it is: every kind stays trivial *)
  Definition is_triv (k : kind) : bool := match k with KTrivial => true | _ => false end.
  Definition alltrivK (c : blk) (kd : kind) : Prop := forallb is_triv (bkinds c) = true /\ bkind c = kd.
  Definition goodK (B : blk) (kd : kind) : Prop :=
    mustNoYield B = true /\ bkind B = kd /\ (kd = KSwitch -> combineRequired B = false).
  Definition KT (kk : blk -> res blk) (kd : kind) : Prop := forall c B, alltrivK c kd -> kk c = OK B -> goodK B kd.

  Lemma last_triv (ks : list kind) : forallb is_triv ks = true ->
    match last (map Some ks) None with Some KTrivial | None => True | _ => False end.
  Proof.
    induction ks as [|k r IH]; [intros _; exact I|]. cbn [forallb]. intros H. apply andb_prop in H. destruct H as [Hk Hr].
    destruct r as [|k2 r2]; [destruct k; try discriminate; exact I|]. exact (IH Hr).
  Qed.

  Lemma alltriv_good c kd : alltrivK c kd -> goodK c kd.
  Proof.
    intros [Ht Hk]. pose proof (last_triv _ Ht) as Hl.
    assert (He : existsb (fun k => match k with KIf | KSwitch => true | _ => false end) (bkinds c) = false).
    { clear Hl. induction (bkinds c) as [|k r IH]; [reflexivity|]. cbn [forallb] in Ht. apply andb_prop in Ht. destruct Ht as [H1 H2].
      cbn [existsb]. rewrite (IH H2). destruct k; try discriminate; reflexivity. }
    split; [|split; [exact Hk|]].
    - unfold mustNoYield, mayContainsYield, lastKind in *. destruct (last (map Some (bkinds c)) None) as [[]|]; try contradiction; try reflexivity. rewrite He. reflexivity.
    - intros _. unfold combineRequired, lastKind in *. destruct (last (map Some (bkinds c)) None) as [[]|]; try contradiction; reflexivity.
  Qed.

  Lemma alltriv_push c s kd c' : alltrivK c kd -> push c s KTrivial = OK c' -> alltrivK c' kd.
  Proof.
    intros [Ht Hk] H. unfold push in H. destruct (negb (checked c) || frozen c); [discriminate|]. inversion H; subst. split; cbn [bkinds bkind]; [|reflexivity].
    rewrite forallb_app, Ht. reflexivity.
  Qed.

  Lemma gln_cases c B : gln c = OK B -> B = c \/ pushReturn (markCombined c) XNormal KNormal = OK B.
  Proof.
    unfold gln. destruct (bkind c); try (intros H; inversion H; auto; fail).
    all: destruct (returnNormalRequired c) as [[|]|]; cbn [bind]; intros H; try discriminate; try (inversion H; auto; fail); auto.
  Qed.

  Lemma pushReturn_kinds c e k c' : pushReturn c e k = OK c' -> bkinds c' = bkinds c ++ [k] /\ bkind c' = bkind c.
  Proof.
    unfold pushReturn, push. destruct (negb (is_ret_kind k)); [discriminate|].
    destruct (negb (checked c) || frozen c); cbn [bind]; [discriminate|]. intros H; inversion H; subst. split; reflexivity.
  Qed.

  Lemma noifsw_triv (ks : list kind) : forallb is_triv ks = true ->
    existsb (fun k => match k with KIf | KSwitch => true | _ => false end) ks = false.
  Proof.
    induction ks as [|k r IH]; [reflexivity|]. cbn [forallb]. intros H. apply andb_prop in H. destruct H as [H1 H2].
    cbn [existsb]. rewrite (IH H2). destruct k; try discriminate; reflexivity.
  Qed.

  Lemma gln_good c kd B : alltrivK c kd -> gln c = OK B -> goodK B kd.
  Proof.
    intros Hc H. destruct (gln_cases _ H) as [->|H2]; [apply alltriv_good; exact Hc|].
    pose proof Hc as [Ht Hkd]. destruct (pushReturn_kinds _ _ _ H2) as [Ek Eb]. cbn [markCombined bkinds bkind] in Ek, Eb.
    split; [|split; [rewrite Eb; exact Hkd|]].
    - unfold mustNoYield, mayContainsYield. destruct (lastKind_pushReturn _ _ _ H2) as [El _]. rewrite El, Ek, existsb_app, (noifsw_triv _ Ht). reflexivity.
    - intros E. unfold gln in H. rewrite Hkd, E in H. inversion H; subst. apply (proj2 (proj2 (alltriv_good Hc))). assumption.
  Qed.

  Lemma rw_ny f :
    (forall k ss cur kd B, forallb (ny k) ss = true -> alltrivK cur kd -> rw_stmts f ss cur = OK B -> goodK B kd) /\
    (forall k s isLast cur kd kk B, ny k s = true -> alltrivK cur kd -> KT kk kd -> rw_stmt f s isLast cur kk = OK B -> goodK B kd) /\
    (forall k s cur kd c', ny k s = true -> alltrivK cur kd -> rw_if f s cur = OK c' -> alltrivK c' kd) /\
    (forall k init c post b cur kd kk B, ny k (SFor init c post b) = true -> alltrivK cur kd -> KT kk kd ->
        rw_for f (SFor init c post b) init c post b cur kk = OK B -> goodK B kd) /\
    (forall k init tag cases cur kd kk B, ny k (SSwitch init tag cases) = true -> alltrivK cur kd -> KT kk kd ->
        rw_switch f (SSwitch init tag cases) init tag cases cur kk = OK B -> goodK B kd).
  Proof.
    induction f as [|f [IH1 [IH2 [IH3 [IH4 IH5]]]]]; [repeat split; intros; discriminate|].
    assert (Hpushk : forall cur s kd kk B, alltrivK cur kd -> KT kk kd -> (c <- push cur s KTrivial ;; kk c) = OK B -> goodK B kd).
    { intros cur s kd kk B Hc Hk H. destruct (bind_ok _ _ H) as [c [Hp Hkc]]. eapply Hk; [eapply alltriv_push; eauto|exact Hkc]. }
    assert (Hsub : forall k l kd2 B, forallb (ny k) l = true -> rw_stmts f l (mkBlock kd2) = OK B -> mustNoYield B = true).
    { intros k l kd2 B Hl H. destruct (IH1 k l (mkBlock kd2) kd2 B Hl (conj eq_refl eq_refl) H) as [Hm _]. exact Hm. }
    split; [|split; [|split; [|split]]].
    - intros k ss cur kd B Hss Hc H. rewrite rw_stmts_S in H. destruct ss as [|s rest].
      + destruct Hc as [Ht Hkd]. subst kd. destruct (bkind cur) eqn:Ek; try (inversion H; subst; apply alltriv_good; split; [exact Ht|exact Ek]).
        eapply gln_good; [split; [exact Ht|exact Ek]|exact H].
      + cbn [forallb] in Hss. apply andb_prop in Hss. destruct Hss as [Hs Hrest]. cbv zeta in H.
        eapply IH2; [exact Hs|exact Hc| |exact H].
        intros fol B' Hfol HB'. destruct rest as [|s2 rest2].
        * destruct Hfol as [Ht Hkd]. subst kd. destruct (bkind fol) eqn:Ek; try (inversion HB'; subst; apply alltriv_good; split; [exact Ht|exact Ek]).
          eapply gln_good; [split; [exact Ht|exact Ek]|exact HB'].
        * unfold comb in HB'. rewrite combineRequired_mark in HB'.
          destruct (alltriv_good Hfol) as [_ [_ Hsw]]. assert (Hcr : combineRequired fol = false).
          { destruct Hfol as [Ht _]. pose proof (last_triv _ Ht) as Hl. unfold combineRequired, lastKind.
            destruct (last (map Some (bkinds fol)) None) as [[]|]; try contradiction; reflexivity. }
          rewrite Hcr in HB'. cbn [negb] in HB'. eapply (IH1 k (s2 :: rest2) (markCombined fol) kd B'); [exact Hrest|exact Hfol|exact HB'].
    - intros k s isLast cur kd kk B Hs Hc Hk H. destruct k as [|k]; [discriminate|]. cbn [ny] in Hs. rewrite rw_stmt_S in H.
      destruct s as [a|v|b|ini cnd th el|ini tag cases|ini cnd post b| | | | |e]; try discriminate.
      + eapply Hpushk; eauto.
      + destruct (bind_ok _ _ H) as [fol [Hf H']]. rewrite (Hsub k b KDelay fol Hs Hf) in H'. eapply Hpushk; eauto.
      + destruct (bind_ok _ _ H) as [c [Hc' H']]. pose proof (IH3 (S k) (SIf ini cnd th el) cur kd c Hs Hc Hc') as Hc2.
        destruct isLast; [eapply gln_good; eauto|eapply Hk; eauto].
      + eapply (IH5 (S k)); [exact Hs|exact Hc| |exact H]. intros c0 B0 Hc0 H0.
        destruct isLast; [|eapply Hk; eauto].
        pose proof Hc0 as [Ht0 Hk0]. pose proof (last_triv _ Ht0) as Hl. unfold lastKind in H0.
        destruct (last (map Some (bkinds c0)) None) as [[]|]; try contradiction; exact (Hk c0 B0 Hc0 H0).
      + eapply (IH4 (S k)); eauto.
      + apply alltriv_good. eapply alltriv_push; eauto.
      + apply alltriv_good. eapply alltriv_push; eauto.
      + eapply Hpushk; eauto.
      + apply alltriv_good. eapply alltriv_push; eauto.
      + eapply Hpushk; eauto.
    - intros k s cur kd c' Hs Hc H. destruct k as [|k]; [discriminate|]. cbn [ny] in Hs. rewrite rw_if_S in H.
      destruct s as [a|v|b|init c th el|ini tag cases|ini cnd post b| | | | |e]; try discriminate.
      apply andb_prop in Hs. destruct Hs as [Hs He]. apply andb_prop in Hs. destruct Hs as [Hi Ht].
      rewrite (init_ok_hasYo _ Hi) in H. destruct (bind_ok _ _ H) as [body [Hb H']].
      rewrite (Hsub k th KIf body Ht Hb) in H'.
      destruct el as [|eb|alt].
      + eapply alltriv_push; eauto.
      + destruct (bind_ok _ _ H') as [els [Hels H'']]. rewrite (Hsub k eb KIf els He Hels) in H''. cbn [andb] in H''. eapply alltriv_push; eauto.
      + destruct (bind_ok _ _ H') as [els [Hels H'']].
        pose proof (IH3 k alt (mkBlock KIf) KIf els He (conj eq_refl eq_refl) Hels) as Hals.
        destruct (alltriv_good Hals) as [Hm _]. rewrite Hm in H''. cbn [andb] in H''. eapply alltriv_push; eauto.
    - intros k init c post b cur kd kk B Hs Hc Hk H. destruct k as [|k]; [discriminate|]. cbn [ny] in Hs.
      apply andb_prop in Hs. destruct Hs as [Hs Hb]. apply andb_prop in Hs. destruct Hs as [Hi Hp].
      rewrite rw_for_S in H. destruct (bind_ok _ _ H) as [body [Hbody H']]. cbv zeta in H'.
      rewrite (init_ok_hasYo _ Hi), (init_ok_hasYo _ Hp), (Hsub k b KFor body Hb Hbody) in H'. cbn [negb andb] in H'.
      eapply Hpushk; eauto.
    - intros k init tag cases cur kd kk B Hs Hc Hk H. destruct k as [|k]; [discriminate|]. cbn [ny] in Hs.
      apply andb_prop in Hs. destruct Hs as [Hi Hcs].
      rewrite rw_switch_S in H. destruct (bind_ok _ _ H) as [[cases' allTrivial] [Hrc H']].
      assert (allTrivial = true).
      { clear - Hcs Hrc Hsub. revert cases' allTrivial Hrc. induction cases as [|[lab b] r IHr]; intros cases' allTrivial Hrc.
        - cbn in Hrc. inversion Hrc; reflexivity.
        - cbn [rw_cases] in Hrc. fold (rw_cases f) in Hrc. cbn [forallb snd] in Hcs. apply andb_prop in Hcs. destruct Hcs as [Hb Hr].
          destruct (bind_ok _ _ Hrc) as [cb [Hcb Hrc']]. destruct (bind_ok _ _ Hrc') as [[r' tr] [Hr' Hrc'']].
          inversion Hrc''; subst. rewrite (Hsub k b KSwitch cb Hb Hcb), (IHr Hr r' tr Hr'). reflexivity. }
      subst allTrivial. rewrite (init_ok_hasYo _ Hi) in H'. cbn [negb andb] in H'. eapply Hpushk; eauto.
  Qed.

  Lemma pass2_correct f :
    (forall k ss cur B, supps k ss = true -> Forall srcok (bstmts cur) -> combineRequired cur = false ->
        rw_stmts f ss cur = OK B ->
        forall n w r, Nseq n (bstmts cur) ss w = Some r -> exists m, N m (bstmts B) w = Some r) /\
    (forall k s isLast cur kk rest B, supp k s = true -> supps k rest = true -> Forall srcok (bstmts cur) -> combineRequired cur = false ->
        (isLast = true -> rest = []) -> Kspec' kk rest -> rw_stmt f s isLast cur kk = OK B ->
        forall n w r, Nseq n (bstmts cur) (s :: rest) w = Some r -> exists m, N m (bstmts B) w = Some r) /\
    (forall k s cur c', supp k s = true -> is_if s = true -> Forall srcok (bstmts cur) ->
        rw_if f s cur = OK c' ->
        exists s', bstmts c' = bstmts cur ++ [s'] /\ sim [s] [s'] /\ binv c' /\ is_if s' = true) /\
    (forall k init c post b cur kk rest B, supp k (SFor init c post b) = true -> supps k rest = true ->
        Forall srcok (bstmts cur) -> combineRequired cur = false -> Kspec' kk rest ->
        rw_for f (SFor init c post b) init c post b cur kk = OK B ->
        forall n w r, Nseq n (bstmts cur) (SFor init c post b :: rest) w = Some r -> exists m, N m (bstmts B) w = Some r) /\
    (forall k init tag cases cur kk rest B, supp k (SSwitch init tag cases) = true -> supps k rest = true ->
        Forall srcok (bstmts cur) -> combineRequired cur = false -> Kspec' kk rest ->
        rw_switch f (SSwitch init tag cases) init tag cases cur kk = OK B ->
        forall n w r, Nseq n (bstmts cur) (SSwitch init tag cases :: rest) w = Some r -> exists m, N m (bstmts B) w = Some r).
  Proof.
    induction f as [|f [IH1 [IH2 [IH3 [IH4 IH5]]]]]; [repeat split; intros; discriminate|].
    (* sub-blocks: a rewritten statement list simulates the source list *)
    assert (Hsub : forall k l kd B, supps k l = true -> rw_stmts f l (mkBlock kd) = OK B -> sim l (bstmts B)).
    { intros k l kd B Hl HB n w r H. eapply (IH1 k l (mkBlock kd)); [exact Hl|apply Forall_nil|reflexivity|exact HB|]. apply Nseq_empty. exact H. }
    repeat split.
    - (* rw_stmts *)
      intros k ss cur B Hss Hcur Hcr HB. rewrite rw_stmts_S in HB. destruct ss as [|s rest].
      + intros n w r H. eapply Kspec_nil_gln; [|exact H]. destruct (bkind cur); auto; inversion HB; auto.
      + unfold supps in Hss. cbn [forallb] in Hss. apply andb_prop in Hss. destruct Hss as [Hs Hrest].
        eapply IH2; [exact Hs|exact Hrest|exact Hcur|exact Hcr| |apply K_stmts|exact HB].
        * destruct rest; [reflexivity|discriminate].
        * intros c B' Hc Hcr' HB'. eapply IH1; eauto.
    - (* rw_stmt *)
      intros k s isLast cur kk rest B Hs Hrest Hcur Hcr Hlast Hk HB.
      destruct k as [|k]; [discriminate|]. rewrite supp_S in Hs. rewrite rw_stmt_S in HB.
      assert (Hsrc : srcok s) by (eapply supp_srcok with (k:=S k); rewrite supp_S; exact Hs).
      assert (Hrsrc : Forall srcok rest) by (eapply supps_srcok; eauto).
      (* a statement pushed as it is *)
      assert (Htriv : forall c, push cur s KTrivial = OK c -> kk c = OK B ->
                forall n w r, Nseq n (bstmts cur) (s :: rest) w = Some r -> exists m, N m (bstmts B) w = Some r).
      { intros c Hc HkB n w r H. destruct (@Nseq_shift _ _ _ _ _ _ Hcur Hsrc H) as [m Hm].
        eapply Hk; [eapply binv_push_triv; eauto|exact HkB|]. rewrite (push_stmts _ _ _ Hc). exact Hm. }
      destruct s as [a|v|b|ini cnd th el|ini tag cases|ini cnd post b| | | | |e]; try discriminate.
      + (* atom *)
        destruct (bind_ok _ _ HB) as [c [Hc HkB]]. eapply Htriv; eauto.
      + (* yield *)
        destruct isLast.
        * rewrite (Hlast eq_refl) in *.
          destruct (bind_ok _ _ HB) as [fol [Hf HB']].
          intros n w r H. rewrite (pushReturn_stmts _ _ _ HB').
          eapply Nseq_app_sim; [exact Hcur| |exact H].
          apply sim_yield. pose proof (@gln_sim _ _ Hf) as S0. exact S0.
        * destruct (bind_ok _ _ HB) as [fol [Hf HB']].
          intros n w r H. rewrite (pushReturn_stmts _ _ _ HB').
          eapply Nseq_app_sim; [exact Hcur| |exact H].
          apply sim_yield. eapply Kspec_sim; [apply Kspec0_of; exact Hk|exact Hf].
      + (* block *)
        destruct (bind_ok _ _ HB) as [fol [Hf HB']].
        destruct (mustNoYield fol).
        * destruct (bind_ok _ _ HB') as [c [Hc HkB]]. eapply Htriv; eauto.
        * destruct (bind_ok _ _ HB') as [c [Hc HkB]].
          intros n w r H.
          assert (S1 : sim [SBlock b] [SRet (XDelay (TLit (bstmts fol)))]).
          { apply sim_block_delay. eapply Hsub; [|exact Hf]. exact Hs. }
          destruct (@Nseq_shift_sim _ _ _ _ _ _ _ Hcur Hsrc S1 H) as [m Hm].
          eapply Hk; [eapply binv_pushReturn; eauto|exact HkB|]. rewrite (pushReturn_stmts _ _ _ Hc). exact Hm.
      + (* if *)
        destruct (bind_ok _ _ HB) as [c [Hc HB']].
        destruct (IH3 (S k) (SIf ini cnd th el) cur c) as [s' [Es [Ssim [Hbinv _]]]]; auto; try (rewrite supp_S; exact Hs).
        intros n w r H.
        destruct (@Nseq_shift_sim _ _ _ _ _ _ _ Hcur Hsrc Ssim H) as [m Hm]. rewrite <- Es in Hm.
        destruct isLast.
        -- rewrite (Hlast eq_refl) in *. eapply Kspec_nil_gln; [left; exact HB'|exact Hm].
        -- eapply Hk; [exact Hbinv|exact HB'|exact Hm].
      + (* switch *)
        eapply (IH5 (S k) ini tag cases cur _ rest B); [rewrite supp_S; exact Hs|exact Hrest|exact Hcur|exact Hcr| |exact HB].
        intros c0 B0 Hinv HB0 n w r H.
        destruct isLast; [|eapply Hk; eauto].
        destruct (lastKind c0) as [[]|]; try (eapply Hk; eauto; fail).
        rewrite (Hlast eq_refl) in *. eapply Kspec_nil_gln; [left; exact HB0|exact H].
      + (* for *)
        eapply (IH4 (S k)); eauto.
      + (* break *)
        intros n w r H. rewrite (push_stmts _ _ _ HB). eapply Nseq_branch; eauto.
      + (* continue *)
        intros n w r H. rewrite (push_stmts _ _ _ HB). eapply Nseq_branch; eauto.
      + (* fallthrough *)
        intros n w r H. rewrite (push_stmts _ _ _ HB). eapply Nseq_branch; eauto.
      + (* return seq.Return(): a trivial statement for pass2 *)
        destruct (bind_ok _ _ HB) as [c [Hc HkB]]. eapply Htriv; eauto.
    - (* rw_if *)
      intros k s cur c' Hs Hif Hcur HB.
      destruct k as [|k]; [discriminate|]. rewrite supp_S in Hs.
      destruct s as [a|v|b|init c th el|ini tag cases|ini cnd post b| | | | |e]; try discriminate. rewrite rw_if_S in HB.
      apply andb_prop in Hs. destruct Hs as [Hs He]. apply andb_prop in Hs. destruct Hs as [Hi Ht].
      assert (Hsrc : srcok (SIf init c th el)).
      { eapply supp_srcok with (k:=S k). rewrite supp_S. rewrite Hi, Ht, He. reflexivity. }
      destruct (hasYo init); [discriminate|].
      destruct (bind_ok _ _ HB) as [body [Hb HB']].
      assert (Sb : sim th (bstmts body)) by (eapply Hsub; eauto).
      assert (Hsame : forall c1, push cur (SIf init c th el) KTrivial = OK c1 ->
                exists s', bstmts c1 = bstmts cur ++ [s'] /\ sim [SIf init c th el] [s'] /\ binv c1 /\ is_if s' = true).
      { intros c1 Hc1. exists (SIf init c th el). split; [apply (push_stmts _ _ _ Hc1)|]. split; [apply sim_refl|].
        split; [eapply binv_push_triv; eauto|reflexivity]. }
      assert (Hnew : forall c1 e', push cur (SIf init c (bstmts body) e') KIf = OK c1 -> els_sim el e' ->
                exists s', bstmts c1 = bstmts cur ++ [s'] /\ sim [SIf init c th el] [s'] /\ binv c1 /\ is_if s' = true).
      { intros c1 e' Hc1 Hes. exists (SIf init c (bstmts body) e'). split; [apply (push_stmts _ _ _ Hc1)|].
        split; [apply sim_if; assumption|]. split; [eapply binv_push_nontriv; eauto; discriminate|reflexivity]. }
      destruct el as [|eb|alt].
      + destruct (mustNoYield body); [apply Hsame; exact HB'|]. eapply Hnew; [exact HB'|exact I].
      + destruct (bind_ok _ _ HB') as [els [Hels HB'']].
        destruct (mustNoYield body && mustNoYield els); [apply Hsame; exact HB''|].
        eapply Hnew; [exact HB''|]. apply els_sim_trans_else. eapply Hsub; eauto.
      + destruct (bind_ok _ _ HB') as [els [Hels HB'']].
        apply andb_prop in He. destruct He as [Hisif Halt].
        destruct (IH3 k alt (mkBlock KIf) els) as [alt' [Ea [Sa [_ Hif']]]]; auto; [apply Forall_nil|].
        destruct (mustNoYield body && mustNoYield els); [apply Hsame; exact HB''|].
        eapply Hnew; [exact HB''|]. cbn in Ea. rewrite Ea. unfold unwrapIf.
        destruct alt'; try discriminate. cbn. exact Sa.
    - (* rw_for *)
      intros k init c post b cur kk rest B Hs Hrest Hcur Hcr Hk HB.
      destruct k as [|k]; [discriminate|]. pose proof Hs as Hs0. rewrite supp_S in Hs.
      apply andb_prop in Hs. destruct Hs as [Hs Hb]. apply andb_prop in Hs. destruct Hs as [Hi Hp].
      assert (Hsrc : srcok (SFor init c post b)) by (eapply supp_srcok; exact Hs0).
      assert (Hbsrc : Forall srcok b) by (eapply supps_srcok; exact Hb).
      assert (Hsrc0 : srcok (SFor None c post b)).
      { inversion Hsrc; subst. constructor; auto. intros x Hx; discriminate. }
      assert (Hs1 : supp (S k) (SFor None c post b) = true) by (rewrite supp_S, Hp, Hb; reflexivity).
      rewrite rw_for_S in HB. destruct (bind_ok _ _ HB) as [body [Hbody HB']]. clear HB. cbv zeta in HB'.
      assert (Sb : sim b (bstmts body)) by (eapply Hsub; eauto).
      (* the common end: given what follows the (hoisted) init statement *)
      assert (Hend : forall after, Kspec' after (SFor None c post b :: rest) ->
                match init with None => after cur | Some i => rw_stmt f i false cur after end = OK B ->
                forall n w r, Nseq n (bstmts cur) (SFor init c post b :: rest) w = Some r -> exists m, N m (bstmts B) w = Some r).
      { intros after Hafter HB2. destruct init as [i|].
        - intros n w r H. destruct (@Nseq_sim_rest _ _ _ _ _ _ (sim_for_init i c post b rest) H) as [n1 H1].
          eapply (IH2 (S k) i false cur after (SFor None c post b :: rest) B);
            [eapply init_ok2_supp; eauto| |exact Hcur|exact Hcr|discriminate|exact Hafter|exact HB2|exact H1].
          unfold supps. cbn [forallb]. rewrite Hs1. exact Hrest.
        - intros n w r H. eapply (Hafter cur B); [left; split; assumption|exact HB2|exact H]. }
      destruct (init_ok post) eqn:Hpo.
      + (* the post statement does not yield *)
        rewrite (init_ok_hasYo _ Hpo) in HB'. cbn [negb] in HB'. rewrite !andb_true_r in HB'.
        set (after := fun c2 : blk =>
               if mustNoYield body then comb c2 (fun c3 => c4 <- push c3 (SFor None c post b) KTrivial ;; kk c4)
               else comb c2 (fun c3 => c4 <- pushReturn c3 (XFor (option_map CExp c) post (XDelay (TLit (bstmts body)))) KFor ;; kk c4)) in HB'.
        assert (Hafter : Kspec' after (SFor None c post b :: rest)).
        { unfold after. destruct (mustNoYield body).
          - apply comb_spec. intros c3 B3 Hc3 _ HB3 n w r H. destruct (bind_ok _ _ HB3) as [c4 [Hc4 HkB]].
            destruct (@Nseq_shift _ _ _ _ _ _ Hc3 Hsrc0 H) as [m Hm].
            eapply (Hk c4 B3); [eapply binv_push_triv; [exact Hc3|exact Hsrc0|exact Hc4]|exact HkB|]. rewrite (push_stmts _ _ _ Hc4). exact Hm.
          - apply comb_spec. intros c3 B3 Hc3 _ HB3 n w r H. destruct (bind_ok _ _ HB3) as [c4 [Hc4 HkB]].
            destruct (@Nseq_shift_sim _ _ _ _ _ _ _ Hc3 Hsrc0 (@sim_for c post b (bstmts body) Sb Hbsrc Hpo) H) as [m Hm].
            eapply Hk; [eapply binv_pushReturn; eauto|exact HkB|]. rewrite (pushReturn_stmts _ _ _ Hc4). exact Hm. }
        destruct (negb (hasYo init) && mustNoYield body) eqn:Etriv.
        * destruct (bind_ok _ _ HB') as [c1 [Hc1 HkB]]. intros n w r H.
          destruct (@Nseq_shift _ _ _ _ _ _ Hcur Hsrc H) as [m Hm].
          eapply (Hk c1 B); [eapply binv_push_triv; [exact Hcur|exact Hsrc|exact Hc1]|exact HkB|]. rewrite (push_stmts _ _ _ Hc1). exact Hm.
        * exact (Hend after Hafter HB').
      + (* the post statement is a Yield: it becomes the end of the body callback *)
        unfold post_okb in Hp. destruct post as [[a|v|? |? ? ? ?|? ? ?|? ? ? ?| | | | |?]|]; try discriminate.
        change (hasYo (Some (SYield v))) with true in HB'. cbn [negb andb] in HB'. rewrite !andb_false_r in HB'. cbn [negb] in HB'.
        assert (Hnc : nocont b).
        { intros n w w' E. pose proof (proj1 (proj2 (ok_exec U V P aden cden tden kval yden env n)) k false true false b w _ Hp E) as Hok.
          cbn in Hok. discriminate. }
        set (E := if combineRequired body
                  then pb <- rw_stmt f (SYield v) true (mkBlock KDelay) (fun x => OK x) ;;
                       match lastStmt pb with
                       | Some (SRet _) => b1 <- gln body ;;
                           pushReturn (mkBlock (bkind body)) (XCombine (XDelay (TLit (bstmts b1))) (XDelay (TLit (bstmts pb)))) KCombine
                       | _ => Err E_POST_NOT_RETURN
                       end
                  else rw_stmt f (SYield v) true (markCombined body) (fun x => OK x)) in HB'.
        set (after := fun c2 : blk =>
               body' <- E ;;
               comb c2 (fun c3 => c4 <- pushReturn c3 (XFor (option_map CExp c) None (XDelay (TLit (bstmts body')))) KFor ;; kk c4)) in HB'.
        assert (Hks : Kspec' (fun x : blk => OK x) []).
        { intros c0 B0 _ H0 n w r H. inversion H0; subst. exact (Nseq_nil _ _ _ H). }
        assert (HE : forall body', E = OK body' -> sim (b ++ [SYield v]) (bstmts body')).
        { intros body' HE. unfold E in HE. destruct (combineRequired body) eqn:Ecr.
          - destruct (bind_ok _ _ HE) as [pb [Hpb HE2]].
            assert (Sp : sim [SYield v] (bstmts pb)).
            { intros n w r H. eapply (IH2 1 (SYield v) true (mkBlock KDelay) (fun x => OK x) [] pb);
                [reflexivity|reflexivity|apply Forall_nil|reflexivity|reflexivity|exact Hks|exact Hpb|]. apply Nseq_empty. exact H. }
            destruct (lastStmt pb) as [[]|]; try discriminate.
            destruct (bind_ok _ _ HE2) as [b1 [Hb1 HE3]]. rewrite (pushReturn_stmts _ _ _ HE3). cbn [mkBlock bstmts app].
            apply sim_combine; [exact Hbsrc| |exact Sp]. eapply sim_trans; [exact Sb|]. apply (@gln_sim body b1 Hb1).
          - assert (Hq : Forall srcok (bstmts body)).
            { eapply (proj1 (rw_triv f) b (mkBlock KFor) body Hbsrc (Forall_nil _) eq_refl Hbody). exact Ecr. }
            intros n w r H. destruct (@sim_prefix_Nseq b (bstmts body) [SYield v] Hbsrc Hq Sb n w r H) as [m Hm].
            eapply (IH2 1 (SYield v) true (markCombined body) (fun x => OK x) [] body');
              [reflexivity|reflexivity|exact Hq|exact Ecr|reflexivity|exact Hks|exact HE|exact Hm]. }
        assert (Hafter : Kspec' after (SFor None c (Some (SYield v)) b :: rest)).
        { intros c2 B2 Hc2 HB2 n w r H. unfold after in HB2. destruct (bind_ok _ _ HB2) as [body' [HE' HB3]].
          assert (S1 : sim [SFor None c (Some (SYield v)) b] [SRet (XFor (option_map CExp c) None (XDelay (TLit (bstmts body'))))]).
          { eapply sim_trans; [apply (sim_for_post c v Hnc)|].
            apply (@sim_for c None (b ++ [SYield v]) (bstmts body') (HE body' HE')); [|reflexivity].
            apply Forall_app. split; [exact Hbsrc|constructor; [constructor|constructor]]. }
          revert n w r H. change (Kspec' (fun c2 => comb c2 (fun c3 => c4 <- pushReturn c3 (XFor (option_map CExp c) None (XDelay (TLit (bstmts body')))) KFor ;; kk c4)) (SFor None c (Some (SYield v)) b :: rest) c2 B2 Hc2 HB3) || idtac.
          eapply (@comb_spec (fun c3 => c4 <- pushReturn c3 (XFor (option_map CExp c) None (XDelay (TLit (bstmts body')))) KFor ;; kk c4) (SFor None c (Some (SYield v)) b :: rest)); [|exact Hc2|exact HB3].
          intros c3 B3 Hc3 _ HB4 n w r H. destruct (bind_ok _ _ HB4) as [c4 [Hc4 HkB]].
          destruct (@Nseq_shift_sim _ _ _ _ _ _ _ Hc3 Hsrc0 S1 H) as [m Hm].
          eapply Hk; [eapply binv_pushReturn; eauto|exact HkB|]. rewrite (pushReturn_stmts _ _ _ Hc4). exact Hm. }
        exact (Hend after Hafter HB').
    - (* rw_switch *)
      intros k init tag cases cur kk rest B Hs Hrest Hcur Hcr Hk HB.
      destruct k as [|k]; [discriminate|]. pose proof Hs as Hs0. rewrite supp_S in Hs.
      apply andb_prop in Hs. destruct Hs as [Hi Hc].
      assert (Hsrc : srcok (SSwitch init tag cases)) by (eapply supp_srcok; exact Hs0).
      rewrite rw_switch_S in HB. destruct (bind_ok _ _ HB) as [[cases' allTrivial] [Hcs HB']]. clear HB.
      assert (Hsrc0 : srcok (SSwitch None tag cases)).
      { inversion Hsrc; subst. constructor; auto. intros x Hx; discriminate. }
      assert (Hs1 : supp (S k) (SSwitch None tag cases) = true) by (rewrite supp_S, Hc; reflexivity).
      (* clause by clause *)
      assert (Hrel : Forall2 crelS cases cases').
      { clear - Hc Hcs Hsub. revert cases' allTrivial Hcs. induction cases as [|[lab b] r IHr]; intros cases' allTrivial Hcs.
        - cbn in Hcs. inversion Hcs; subst. constructor.
        - cbn [rw_cases] in Hcs. fold (rw_cases f) in Hcs.
          destruct (bind_ok _ _ Hcs) as [cb [Hcb Hcs']]. destruct (bind_ok _ _ Hcs') as [[r' tr] [Hr' Hcs'']].
          inversion Hcs''; subst. cbn [forallb snd] in Hc. apply andb_prop in Hc. destruct Hc as [Hb Hr].
          apply clause_ok_inv in Hb. destruct Hb as [Hb1 Hb2].
          constructor; [|eapply IHr; eauto]. cbn [fst].
          assert (Hbsrc : Forall srcok b) by (eapply supps_srcok; exact Hb1).
          split; [reflexivity|]. split; [eapply Hsub; eauto|]. split; [exact Hbsrc|].
          destruct Hb2 as [Hny|[Hf2 [Hb3 Hb4]]].
          + (* no Yield in the clause: the rewriter re-emitted its statements *)
            right. cbn [snd].
            destruct (proj1 (rw_ny f) k b (mkBlock KSwitch) KSwitch cb Hny (conj eq_refl eq_refl) Hcb) as [_ [_ Hcr]].
            eapply (proj1 (rw_triv f) b (mkBlock KSwitch) cb Hbsrc (Forall_nil _) eq_refl Hcb). apply Hcr. reflexivity.
          + left. intros n w w'. split.
            * intros E. assert (Hf : fitsb (S k) (SBlock b) = true) by exact Hf2.
              pose proof (@has_break_sound _ _ _ aden cden tden kval yden env (S k) (SBlock b) (S n) w Hf Hb3) as Hnb.
              rewrite exec_S in Hnb. eapply Hnb; eauto.
            * intros E. pose proof (proj1 (proj2 (ok_exec U V P aden cden tden kval yden env n)) k true true false b w _ Hb4 E) as Hok.
              cbn in Hok. discriminate. }
      set (after := fun c2 : blk =>
             if allTrivial then c3 <- push c2 (SSwitch None tag cases) KTrivial ;; kk c3
             else comb c2 (fun c3 => c4 <- push c3 (SSwitch None tag cases') KSwitch ;; kk c4)) in HB'.
      assert (Hafter : Kspec' after (SSwitch None tag cases :: rest)).
      { unfold after. destruct allTrivial.
        - intros c3 B3 Hinv HB3 n w r H. destruct (bind_ok _ _ HB3) as [c4 [Hc4 HkB]].
          destruct Hinv as [[Hc3 _]|[pre [s0 [_ [_ [_ Hchk]]]]]].
          + destruct (@Nseq_shift _ _ _ _ _ _ Hc3 Hsrc0 H) as [m Hm].
            eapply (Hk c4 B3); [eapply binv_push_triv; [exact Hc3|exact Hsrc0|exact Hc4]|exact HkB|]. rewrite (push_stmts _ _ _ Hc4). exact Hm.
          + exfalso. unfold push in Hc4. rewrite Hchk in Hc4. cbn in Hc4. discriminate.
        - apply comb_spec. intros c3 B3 Hc3 _ HB3 n w r H. destruct (bind_ok _ _ HB3) as [c4 [Hc4 HkB]].
          destruct (@Nseq_shift_sim _ _ _ _ _ _ _ Hc3 Hsrc0 (@sim_switch tag cases cases' Hrel) H) as [m Hm].
          eapply Hk; [eapply binv_push_nontriv; eauto; discriminate|exact HkB|]. rewrite (push_stmts _ _ _ Hc4). exact Hm. }
      destruct (negb (hasYo init) && allTrivial) eqn:Etriv.
      + destruct (bind_ok _ _ HB') as [c1 [Hc1 HkB]]. intros n w r H.
        destruct (@Nseq_shift _ _ _ _ _ _ Hcur Hsrc H) as [m Hm].
        eapply (Hk c1 B); [eapply binv_push_triv; [exact Hcur|exact Hsrc|exact Hc1]|exact HkB|]. rewrite (push_stmts _ _ _ Hc1). exact Hm.
      + destruct init as [i|].
        * intros n w r H. destruct (@Nseq_sim_rest _ _ _ _ _ _ (sim_switch_init i tag cases rest) H) as [n1 H1].
          eapply (IH2 (S k) i false cur after (SSwitch None tag cases :: rest) B);
            [eapply init_ok2_supp; eauto| |exact Hcur|exact Hcr|discriminate|exact Hafter|exact HB'|exact H1].
          unfold supps. cbn [forallb]. rewrite Hs1. exact Hrest.
        * intros n w r H. cbn [hasYo negb andb] in Etriv. subst allTrivial.
          eapply (Hafter cur B); [left; split; assumption|exact HB'|exact H].
  Qed.
End C.
