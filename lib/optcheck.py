"""C07 / C13: optimised output vs unoptimised intermediate stage vs source."""
import json
import os
import random
import re

import common as C
import cbatch
import cdiff
import optcorpus
import pgen

BY_MAIN = """package main

import (
	"encoding/json"
	"fmt"
	"os"

	"genmod/tr"
	src "genmod/src/oc"
	tmp "genmod/tmp/oc"
	out "genmod/out/oc"
)

func call(f func() []int) (r []int, p string) {
	defer func() {
		if e := recover(); e != nil {
			p = fmt.Sprint(e)
		}
	}()
	return f(), ""
}

func main() {
	res := map[string]map[string]any{}
	add := func(name, stage string, f func() []int) {
		tr.Reset(nil, 1000)
		r, p := call(f)
		if res[name] == nil {
			res[name] = map[string]any{}
		}
		if p != "" {
			res[name][stage] = "panic: " + p
		} else {
			res[name][stage] = r
		}
	}
%s
	json.NewEncoder(os.Stdout).Encode(res)
}
"""


def strip_unused_co_import(path):
    """The unoptimised stage still imports go-co although nothing uses it any more
    (imports are cleaned by the optimiser): drop that import so the stage builds."""
    src = open(path).read()
    body = re.sub(r'//[^\n]*', '', re.sub(r'"[^"\n]*"', '""', src))   # string literals blanked, then comments (also trailing ones) dropped
    if re.search(r"\b(Yield|YieldFrom|Iter)\b", body.split(")", 1)[-1] if "import (" in body else body):
        return False
    new = re.sub(r'\n\s*(?:[.\w]+\s+)?"github.com/goghcrow/go-co"[^\n]*', "", src, count=1)
    open(path, "w").write(new)
    return True


def opt_structure(b, progs):
    """Optimiser model vs real optimiser: optimise(model's unoptimised Start argument) = Start argument in <dst>."""
    import structcheck
    import optstruct
    trees = {}
    for stage in ("tmp", "out"):
        d = os.path.join(b.work, stage)
        if os.path.isdir(d):
            for t in structcheck.abstract_dirs(b.work, [d]):
                if "func" in t:
                    trees[(stage, t["pkg"], t["func"])] = t["start"]
    rows, names, unknown, why = [], [], 0, {}
    for p in progs:
        if p.get("body") is None or not structcheck.eligible(p["body"], allow_range=False):
            continue
        ko, kt = ("out", p["pkg"], p["name"]), ("tmp", p["pkg"], p["name"])
        if ko not in trees or kt not in trees:
            continue
        try:
            src = structcheck.src_stmts(p["body"]) + [{"s": "return"}]
            rows.append(optstruct.row(src, structcheck.tgt_sexp(trees[ko])))
            names.append(p["name"])
        except structcheck.Unknown as ex:
            unknown += 1
            why[str(ex)[:40]] = why.get(str(ex)[:40], 0) + 1
    mism, okc, okc2 = [], 0, 0
    if rows:
        w = C.workdir("optst")
        try:
            mm, okc, okc2 = optstruct.compare(w, rows)
            mism = [(names[i], code) for i, code in mm]
        finally:
            C.rmtree(w)
    changed = sum(1 for p in progs if ("out", p.get("pkg"), p["name"]) in trees and trees.get(("out", p["pkg"], p["name"])) != trees.get(("tmp", p["pkg"], p["name"])))
    return {"compared": len(rows), "mismatches": mism, "not_comparable": unknown, "not_comparable_why": why, "satisfy_opt_ok_side_condition": okc,
            "within_end_to_end_machine_theorem": okc2, "programs_changed_by_the_optimiser": changed}


def run(rep, tier, pid, gover="1.21", n=None):
    rng = random.Random(C.seed() * 86028121 + int(pid[1:]))
    if n is None:
        n = 150 if tier == "quick" else 400   # one Compile run: the real optimiser is quadratic in the number of files
    progs = cdiff.gen_programs(rng, n, feats={"postyield", "vars", "closures", "range", "yieldfrom"})
    # control-flow-only programs for the structural correspondence of the optimiser model (coq/Opt.v);
    # a third of their yields become yields of a literal (the Delay around Bind(<literal>, ..) is elided)
    plain = cdiff.gen_programs(random.Random(rng.random()), n, feats={"postyield", "yieldfrom", "consumer"})
    for k, p in enumerate(plain):
        p["name"] = "Q%d" % k
        lit = random.Random(k)

        def litify(st, p_):
            if st["s"] == "yield" and lit.random() < 0.35:
                st["s"], st["x"] = "yieldx", str(st.pop("id"))
        if p.get("body") is not None:
            pgen.walk(p["body"], litify)
    progs = progs + plain
    b = cdiff.make_batch(pid + gover.replace(".", ""), progs, gover=gover)
    res = {"progs": progs}
    try:
        b.extra_src[("oc", "oc.go")] = optcorpus.render("co")
        b.write()
        os.makedirs(os.path.join(b.work, "ref", "oc"), exist_ok=True)
        open(os.path.join(b.work, "ref", "oc", "oc.go"), "w").write(optcorpus.render("ref"))
        b.pkgs["oc"] = {"oc": [(name, None) for name in optcorpus.GENS]}
        b.compile()
        res["opt_struct"] = opt_structure(b, progs)
        for root, _, files in os.walk(os.path.join(b.work, "tmp")):
            for f in files:
                if f.endswith(".go"):
                    strip_unused_co_import(os.path.join(root, f))
        b.build_out("out")
        st_after_out = dict(b.status)
        b.build_out("tmp")
        xo = b.write_runner("runout", "out", True)
        xt = b.write_runner("runtmp", "tmp", True)
        xr = b.write_runner("runref", "ref", True)
        good = [p for p in progs if "%s.%s" % (p["pkg"], p["name"]) not in b.status]
        cases = cdiff.make_cases(rng, good, tapes=3)
        for name in optcorpus.GENS:
            if "oc.%s" % name in b.status:
                continue
            for tape in ([1] * 30, [1, 1, 0, 1, 0], [0]):
                cases.append({"g": "oc." + name, "tape": tape, "budget": 120, "hist": ["mn", "cur"] * 8, "prog": "oc." + name})
        res.update(cases=cases, out=b.run(xo, cases), tmp=b.run(xt, cases), ref=b.run(xr, cases), status=dict(b.status))
        # bystanders
        regs = []
        for name in optcorpus.BYSTANDERS:
            for stage in ("src", "tmp", "out"):
                regs.append('\tadd("%s", "%s", %s.%s)' % (name, stage, stage, name))
        d = os.path.join(b.work, "cmd", "runby")
        os.makedirs(d)
        open(os.path.join(d, "main.go"), "w").write(BY_MAIN % "\n".join(regs))
        exe = os.path.join(b.work, "runby.bin")
        rc, o, e = C.run(["go", "build", "-o", exe, "./cmd/runby"], cwd=b.work, timeout=900)
        if rc != 0:
            res["bystander_build_error"] = (o + e)[-3000:]
        else:
            rc, o, e = C.run([exe], cwd=b.work, timeout=300)
            res["bystanders"] = json.loads(o) if rc == 0 else {"_error": e[-2000:]}
        # text of the optimised corpus file, for replays
        p = os.path.join(b.work, "out", "oc", "oc.go")
        res["oc_out_text"] = open(p).read() if os.path.exists(p) else ""
    finally:
        b.close()
    return res
