(* Props_C15.v — generated output is deterministic and independent of unrelated inputs.

   Full statement (C15): compiling the same sources always produces byte-identical files — across
   runs, whatever other files and packages are processed in the same invocation, whatever earlier
   outputs are on disk — and generated helper identifiers are unique within a file.

   What is proved (PARTIAL).  The technique reaches one clause of this property: the helper
   identifiers.  Gensym.v models rewriter/range.go's gensym (counter of one rewriter instance, decimal
   rendering as strconv.Itoa) and proves that the names produced for one file are pairwise different,
   whatever the prefix and however many are produced, and that a numbered name never equals the bare
   prefix (which range-over-iterator loops use un-numbered, in nested scopes).  The check compares the
   numbered identifiers found in every generated file with the model's names on every run.
   The rewriter and optimiser models are Coq functions of the function body alone, so for the modelled
   part determinism and independence of placement are what the structural correspondence establishes
   (real output = model output, for every placement the check tries); run-to-run identity of bytes,
   file order of the loader, stale outputs on disk are decided by the differential check only. *)
From Coq Require Import List.
From Verif Require Import Gensym.
Import ListNotations.

Theorem C15_helper_identifiers_unique_partial :
  forall (prefix : list nat) (start n : nat), NoDup (gensyms prefix start n).
Proof. exact gensyms_nodup. Qed.
Print Assumptions C15_helper_identifiers_unique_partial.

Theorem C15_helper_identifiers_are_numbered :
  forall (prefix : list nat) (n start : nat),
    gensyms prefix start n = map (fun i => prefix ++ itoa i) (seq (S start) n).
Proof. exact gensyms_spec. Qed.
Print Assumptions C15_helper_identifiers_are_numbered.

Theorem C15_numbered_differs_from_bare_prefix :
  forall (prefix : list nat) (cnt : nat), fst (gensym prefix cnt) <> prefix.
Proof. exact gensym_not_prefix. Qed.
Print Assumptions C15_numbered_differs_from_bare_prefix.

(* "ɪʇ" is C9 AA CA 87 in UTF-8; twelve loops in one file *)
Example C15_names_example :
  map (fun l => skipn 4 l) (gensyms [201; 170; 202; 135] 0 12) =
    [[49]; [50]; [51]; [52]; [53]; [54]; [55]; [56]; [57]; [49; 48]; [49; 49]; [49; 50]].
Proof. vm_compute. reflexivity. Qed.
