"""C13 — code that is not a generator is behaviourally unchanged."""
import common as C
import cprops
import optcheck
import optcorpus


def check(rep, tier):
    if not cprops.proof_part(rep, "C13"):
        return
    R = optcheck.run(rep, tier, "C13")
    # the same corpus in a user module that says go 1.22 (per-iteration loop variables)
    R22 = optcheck.run(rep, tier, "C13", gover="1.22", n=6)
    by = R.get("bystanders", {})
    diffs = []
    for tag, res in (("", by), ("@go1.22", R22.get("bystanders", {}))):
        for name, st in sorted(res.items()):
            if name.startswith("_"):
                continue
            if st.get("src") != st.get("out") or st.get("src") != st.get("tmp"):
                diffs.append((name, dict(st, go=tag or "@go1.21")))
    for i, (a, b) in enumerate(zip(R22["out"], R22["ref"])):
        if R22["cases"][i]["g"].startswith("oc.") and a.get("events") != b.get("events"):
            diffs.append((R22["cases"][i]["g"].split(".")[1], {"go": "@go1.22", "compiled_events": a["events"], "reference_events": b["events"]}))
    if R22.get("bystander_build_error") and not R.get("bystander_build_error"):
        R["bystander_build_error"] = R22["bystander_build_error"]
    # ordinary closures inside generator bodies: compiled vs reference for the closure-heavy corpus generators
    cases = R["cases"]
    gdiff = [i for i, (a, b) in enumerate(zip(R["out"], R["ref"])) if cases[i]["g"].startswith("oc.") and a.get("events") != b.get("events")]
    rep.coverage.update({
        "evaluations": len(by) * 3 + len([c for c in cases if c["g"].startswith("oc.")]),
        "programs": len(optcorpus.BYSTANDERS) + len(optcorpus.GENS),
        "distinct_nontrivial": len(by) + len(optcorpus.GENS),
        "disagreements_checked": len(diffs) + len(gdiff),
        "bystander_results": by,
        "rule": "plain functions, methods, constants, variable initialisers and closures of the shape func(ps) { return f(ps) } (f a mutable "
                "function variable, a pointer/value/interface method value, a builtin, a conversion, a generic or variadic function, a call "
                "result, a package-level function) placed in the same file as generators: results of the SOURCE package (stub API, native Go) "
                "vs the unoptimised stage vs the generated package; plus closures inside generator bodies (compiled vs reference)",
        "samples": [{"bystander": k, "source": "\n".join(optcorpus.BYSTANDERS[k])} for k in list(optcorpus.BYSTANDERS)[:2]],
    })
    if R.get("bystander_build_error"):
        rep.violation(rep.write_replay("generated_package_does_not_build", {
            "what": "the package generated from the corpus file does not build (or a stage of it)", "go_build": R["bystander_build_error"],
            "generated_text": R.get("oc_out_text", "")[:6000]}))
    elif diffs:
        name, st = diffs[0]
        rep.violation(rep.write_replay("bystander_changed", {
            "what": "a function that is not a generator behaves differently in the generated file",
            "function": name, "source_text": optcorpus.BYSTANDERS.get(name) or optcorpus.GENS.get(name), "results": st, "others": [d[0] for d in diffs[1:]]}))
    elif gdiff:
        i = gdiff[0]
        rep.violation(rep.write_replay("closure_in_generator_changed", {
            "what": "an ordinary closure inside a generator body changed its meaning",
            "generator": cases[i]["g"], "source_text": optcorpus.GENS[cases[i]["g"].split(".")[1]], "tape": cases[i]["tape"],
            "compiled_events": R["out"][i]["events"], "reference_events": R["ref"][i]["events"]}))
    rep.assumptions = ["the source package is built natively with the real go-co stub API (Yield is a no-op there), so only non-generator functions are compared against it"]


def replay(rep, path):
    print("re-run: bin/check C13 (fixed corpus)")
    return 0
