(* Props_C06.v — consumer-side range / pull code sees exactly what the generator yields.

   Full statement (C06): `for w (:)= range x { B }` over an iterator visits exactly the successive
   elements of x, binds them per form, advances the iterator once per iteration started plus once
   for the advance that reports exhaustion, and never advances it after break / return; range code
   and hand-written MoveNext/Current code on the same iterator see consecutive segments of one
   sequence; `co.Iter[T]` in any type position is replaced so that the file builds.

   What is proved.  [consume] (Delegate.v) is the specification of the loop for an ARBITRARY
   iterator (any function [mn] on the world: so the iterator may be a compiled generator, may have
   been pulled by hand before, and the body B may pull it by hand in between — whatever B does to
   the world is what the next MoveNext sees) and an arbitrary body B of the statement syntax
   (break / continue / return, nested loops, yields when the loop is inside a generator).
   - C06_range_is_consume: the statement the rewriter puts in place of the range loop does exactly
     what the specification says under the native semantics — both directions, any position.
   - C06_compiled_range_partial: the same loop inside a generator body, compiled (PARTIAL as C01:
     fragment, depth bounds, rewriter model).
   The interop sentence follows from the iterator automaton of C09 (Props_C09.v: an iterator is a
   state machine; who calls MoveNext is irrelevant).  The type replacement clause is not modelled
   (it is go/types); it is checked by building generated packages.  The lowering is tied to the
   code by the structural correspondence and the differential check against the explicit pull loop. *)
From Coq Require Import List.
From Verif Require Import Base Syntax Sem Rewrite Side Delegate DelegateMain Link LinkMachine.
Import ListNotations.

Theorem C06_range_is_consume :
  forall (U V P : Type)
         (aden : nat -> U -> outcome U P unit) (cden : nat -> U -> outcome U P bool)
         (tden : nat -> U -> outcome U P nat) (kval : nat -> nat) (yden : nat -> U -> outcome U P V)
         (env : nat -> V -> U -> U * bool)
         (a_init c_mn : nat)
         (start : U -> outcome U P unit) (mn : U -> outcome U P bool),
    (forall u, aden a_init u = start u) ->
    (forall u, cden c_mn u = mn u) ->
    forall (a_bind : nat) (B : list stmt) (w : W U) (r : compl U V P),
      (forall n, rg_spec aden cden tden kval yden env start mn a_bind B n w = Some r ->
                 exists m, exec aden cden tden kval yden env m (rg_stmt a_init c_mn a_bind B) w = Some r) /\
      (forall m, exec aden cden tden kval yden env m (rg_stmt a_init c_mn a_bind B) w = Some r ->
                 rg_spec aden cden tden kval yden env start mn a_bind B m w = Some r).
Proof.
  intros U V P aden cden tden kval yden env a_init c_mn start mn H1 H2 a_bind B w r. split.
  - intros n. exact (@range_iter_meets_spec U V P aden cden tden kval yden env a_init c_mn start mn H1 H2 a_bind B n w r).
  - intros m. exact (@range_iter_only_spec U V P aden cden tden kval yden env a_init c_mn start mn H1 H2 a_bind B m w r).
Qed.
Print Assumptions C06_range_is_consume.

Theorem C06_compiled_range_partial :
  forall (U V P : Type)
         (aden : nat -> U -> outcome U P unit) (cden : nat -> U -> outcome U P bool)
         (tden : nat -> U -> outcome U P nat) (kval : nat -> nat) (yden : nat -> U -> outcome U P V)
         (env : nat -> V -> U -> U * bool)
         (a_init c_mn : nat)
         (start : U -> outcome U P unit) (mn : U -> outcome U P bool),
    (forall u, aden a_init u = start u) ->
    (forall u, cden c_mn u = mn u) ->
    forall (a_bind : nat) (B rest : list stmt),
      c01_hyps (rg_stmt a_init c_mn a_bind B :: rest) = true ->
      exists out, rewrite (rg_stmt a_init c_mn a_bind B :: rest) = OK out /\
        forall n u c,
          rg_then U V P aden cden tden kval yden env start mn a_bind B rest n u = Some c -> final_of c <> FStuck ->
          exists m, run_target aden cden tden kval yden env true m out u = Some (final_of c).
Proof. exact compiled_range_iter. Qed.
Print Assumptions C06_compiled_range_partial.

(* no pull after break: iterator with three elements, body breaks at the second — two MoveNext calls *)
Example C06_no_pull_after_break :
  let U := (list nat * nat * list nat)%type in      (* remaining elements, number of MoveNext calls, log *)
  let mn := fun u : U => match u with (xs, c, l) => match xs with [] => Ok ([], S c, l) false | x :: r => Ok (r, S c, l ++ [x]) true end end in
  consume (U:=U) (V:=nat) (P:=unit)
          (fun _ u => Ok u tt)
          (fun c u => if Nat.eqb c 9 then mn u else match u with (_, _, l) => Ok u (Nat.eqb (length l) 2) end)
          (fun _ u => Ok u 0) (fun x => x) (fun _ u => Ok u 0) (fun _ _ u => (u, true))
          mn 1 [SIf None 3 [SBreak] ENone] 20 (([5; 6; 7], 0, []), 0)
  = Some (CDone GNormal (([7], 2, [5; 6]), 0)).
Proof. vm_compute. reflexivity. Qed.

Example C06_hyps_hold_1 :
  c01_hyps (rg_stmt 1 2 3 [SAtom 4; SIf None 5 [SContinue] ENone; SYield 6; SIf None 7 [SBreak] ENone] :: [SYield 8]) = true.
Proof. vm_compute. reflexivity. Qed.

(* ... and on the machine model of seq/seq.go (range over an iterator inside a generator) *)
Theorem C06_machine_range_partial :
  forall (U V P : Type)
         (aden : nat -> U -> outcome U P unit) (cden : nat -> U -> outcome U P bool)
         (tden : nat -> U -> outcome U P nat) (kval : nat -> nat) (yden : nat -> U -> outcome U P V)
         (env : nat -> V -> U -> U * bool) (zeroV : V)
         (a_init c_mn : nat)
         (start : U -> outcome U P unit) (mn : U -> outcome U P bool),
    (forall u, aden a_init u = start u) ->
    (forall u, cden c_mn u = mn u) ->
    forall (a_bind : nat) (B rest : list stmt),
      c01_hyps (rg_stmt a_init c_mn a_bind B :: rest) = true ->
      exists out, rewrite (rg_stmt a_init c_mn a_bind B :: rest) = OK out /\
        (forallb (lk KS) out = true ->
         forall n u c,
           rg_then U V P aden cden tden kval yden env start mn a_bind B rest n u = Some c -> final_of c <> FStuck ->
           exists M, forall N F, M <= N -> M <= F ->
             machine_target U V P aden cden tden kval yden env zeroV KS out u N F = Some (final_of c)).
Proof.
  intros U V P aden cden tden kval yden env zeroV a_init c_mn start mn H1 H2 a_bind B rest Hh.
  destruct (compiled_range_iter U V P aden cden tden kval yden env a_init c_mn start mn H1 H2 a_bind B rest Hh) as [out [Ho Hc]].
  exists out. split; [exact Ho|]. intros Hlk n u c Hy Hns.
  destruct (Hc n u c Hy Hns) as [m Hm].
  exact (machine_link U V P aden cden tden kval yden env zeroV KS out m u (final_of c) Hlk Hm Hns).
Qed.
Print Assumptions C06_machine_range_partial.
