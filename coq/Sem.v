(* Sem.v — one big-step semantics for the abstract syntax of Syntax.v, covering
   source generator bodies (Yield executes natively: it hands the value to the
   consumer and goes on when the consumer asks for more) and target bodies
   (function-literal bodies that natively run to `return <seq expression>`, whose
   value is then run by [run], the big-step reading of Layer R's reference
   interpreter).  DESIGN.md §3.4.

   User code is shallow: atoms, conditions, switch tags and yielded expressions
   are total functions on an abstract world U (they may panic; divergence of user
   simple statements is not modelled in this layer — Layer R does model it).
   The consumer is [env k v u]: its action on the k-th delivered value and whether it
   then asks for the next one.  Because [env] may record u and may stop at any index, equality
   of results for all [env] is lock-step equality of values, effects and stop
   points. *)
From Coq Require Import List Arith Bool.
From Verif Require Import Base Syntax.
Import ListNotations.

Set Implicit Arguments.

Inductive sig := GNormal | GBreak | GContinue | GReturn | GFallthrough.

Section Sem.
  Variables U V P : Type.
  Variable aden : nat -> U -> outcome U P unit.      (* simple statements *)
  Variable cden : nat -> U -> outcome U P bool.      (* conditions *)
  Variable tden : nat -> U -> outcome U P nat.       (* switch tags *)
  Variable kval : nat -> nat.                        (* case constants *)
  Variable yden : nat -> U -> outcome U P V.         (* yielded expressions *)
  Variable env : nat -> V -> U -> U * bool.          (* the consumer: new world, and whether it asks for more *)

  Definition W := (U * nat)%type.                    (* world, number of values delivered *)

  (* a seq VALUE: the result of evaluating a seq expression (Bind's first argument
     is evaluated when the expression is, thunks stay closures) *)
  Inductive sval :=
  | VBind (v : V) (t : thunk)
  | VDelay (t : thunk)
  | VCombine (a b : sval)
  | VFor (c : option cnd) (p : option stmt) (body : sval)
  | VSig (g : sig).

  Inductive compl :=
  | CDone (g : sig) (w : W)        (* completed natively with signal g (GNormal: fell off the end) *)
  | CRet (sv : sval) (w : W)       (* return <seq value> *)
  | CStop (w : W)                  (* the consumer stopped at a yield *)
  | CPanic (w : W) (pv : P)
  | CStuck.                        (* code that go build rejects (missing return, stray break) or stuck user code *)

  Definition lift {A} (o : outcome U P A) (k : nat) (f : A -> W -> option compl) : option compl :=
    match o with
    | Ok u a => f a (u, k)
    | Panic u pv => Some (CPanic (u, k) pv)
    | Stuck => Some CStuck
    end.

  (* evaluate a seq expression to a seq value: only Bind's value argument runs user code *)
  Fixpoint build (e : sexp) (w : W) : outcome U P sval :=
    match e with
    | XBind v t => match yden v (fst w) with
                   | Ok u x => Ok u (VBind x t)
                   | Panic u pv => Panic u pv
                   | Stuck => Stuck
                   end
    | XDelay t => Ok (fst w) (VDelay t)
    | XCombine a b =>
        match build a w with
        | Ok u a' => match build b (u, snd w) with
                     | Ok u' b' => Ok u' (VCombine a' b')
                     | Panic u' pv => Panic u' pv
                     | Stuck => Stuck
                     end
        | Panic u pv => Panic u pv
        | Stuck => Stuck
        end
    | XFor c p body => match build body w with
                       | Ok u b' => Ok u (VFor c p b')
                       | Panic u pv => Panic u pv
                       | Stuck => Stuck
                       end
    | XNormal => Ok (fst w) (VSig GNormal)
    | XBreak => Ok (fst w) (VSig GBreak)
    | XContinue => Ok (fst w) (VSig GContinue)
    | XReturn => Ok (fst w) (VSig GReturn)
    end.

  Definition clause_matches (lab : clabel) (tagv : nat) : bool :=
    match lab with
    | LVals vs => existsb (fun v => Nat.eqb (kval v) tagv) vs
    | _ => false
    end.

  Fixpoint default_from (l : list (clabel * list stmt)) : option (list (clabel * list stmt)) :=
    match l with
    | [] => None
    | (LDefault, b) :: r => Some ((LDefault, b) :: r)
    | _ :: r => default_from r
    end.

  Fixpoint pick_clause (tv : nat) (l : list (clabel * list stmt)) : option (list (clabel * list stmt)) :=
    match l with
    | [] => None
    | (lab, b) :: r => if clause_matches lab tv then Some ((lab, b) :: r) else pick_clause tv r
    end.

  (* continue with [f] when the (optional) simple statement completed normally *)
  Definition after_normal (r : option compl) (f : W -> option compl) : option compl :=
    match r with
    | Some (CDone GNormal w') => f w'
    | other => other
    end.

  (* native execution; every recursive call spends one unit of fuel *)
  Fixpoint exec (n : nat) (s : stmt) (w : W) {struct n} : option compl :=
    match n with 0 => None | S n =>
      match s with
      | SAtom a => lift (aden a (fst w)) (snd w) (fun _ w' => Some (CDone GNormal w'))
      | SYield v =>
          lift (yden v (fst w)) (snd w) (fun x w' =>
            let '(u', more) := env (snd w') x (fst w') in
            if more then Some (CDone GNormal (u', S (snd w'))) else Some (CStop (u', S (snd w'))))
      | SBlock b => exec_list n b w
      | SIf i c t e =>
          after_normal (match i with None => Some (CDone GNormal w) | Some x => exec n x w end) (fun w1 =>
            lift (cden c (fst w1)) (snd w1) (fun b w2 =>
              if b then exec_list n t w2
              else match e with
                   | ENone => Some (CDone GNormal w2)
                   | EElse eb => exec_list n eb w2
                   | EElif x => exec n x w2
                   end))
      | SSwitch i tag cs =>
          after_normal (match i with None => Some (CDone GNormal w) | Some x => exec n x w end) (fun w1 =>
            match tag with
            | Some t =>
                lift (tden t (fst w1)) (snd w1) (fun tv w2 =>
                  match pick_clause tv cs with
                  | Some l => exec_from n l w2
                  | None => match default_from cs with Some l => exec_from n l w2 | None => Some (CDone GNormal w2) end
                  end)
            | None => exec_pick n cs cs w1
            end)
      | SFor i c p b =>
          after_normal (match i with None => Some (CDone GNormal w) | Some x => exec n x w end) (fun w1 =>
            exec_loop n c p b w1)
      | SBreak => Some (CDone GBreak w)
      | SContinue => Some (CDone GContinue w)
      | SReturn => Some (CDone GReturn w)
      | SFallthrough => Some (CDone GFallthrough w)
      | SRet e => match build e w with
                  | Ok u sv => Some (CRet sv (u, snd w))
                  | Panic u pv => Some (CPanic (u, snd w) pv)
                  | Stuck => Some CStuck
                  end
      end
    end
  with exec_list (n : nat) (l : list stmt) (w : W) {struct n} : option compl :=
    match n with 0 => None | S n =>
      match l with
      | [] => Some (CDone GNormal w)
      | x :: r => after_normal (exec n x w) (fun w' => exec_list n r w')
      end
    end
  (* run the clause bodies from the chosen clause on: fallthrough chains to the next body *)
  with exec_from (n : nat) (l : list (clabel * list stmt)) (w : W) {struct n} : option compl :=
    match n with 0 => None | S n =>
      match l with
      | [] => Some (CDone GNormal w)
      | (_, b) :: r => match exec_list n b w with
                       | Some (CDone GFallthrough w') =>
                           (* Go rejects a fallthrough in the last clause *)
                           match r with [] => Some CStuck | _ => exec_from n r w' end
                       | Some (CDone GBreak w') => Some (CDone GNormal w')
                       | other => other
                       end
      end
    end
  (* tag-less switch: case conditions are evaluated in order until one holds *)
  with exec_pick (n : nat) (all l : list (clabel * list stmt)) (w : W) {struct n} : option compl :=
    match n with 0 => None | S n =>
      match l with
      | [] => match default_from all with Some d => exec_from n d w | None => Some (CDone GNormal w) end
      | (LCond c, b) :: r =>
          lift (cden c (fst w)) (snd w) (fun bb w' => if bb then exec_from n ((LCond c, b) :: r) w' else exec_pick n all r w')
      | _ :: r => exec_pick n all r w
      end
    end
  with exec_loop (n : nat) (c : option nat) (p : option stmt) (b : list stmt) (w : W) {struct n} : option compl :=
    match n with 0 => None | S n =>
      let body := fun (w2 : W) =>
        match exec_list n b w2 with
        | Some (CDone (GNormal | GContinue) w3) =>
            after_normal (match p with None => Some (CDone GNormal w3) | Some x => exec n x w3 end) (fun w4 => exec_loop n c p b w4)
        | Some (CDone GBreak w3) => Some (CDone GNormal w3)
        | other => other
        end in
      match c with
      | None => body w
      | Some cc => lift (cden cc (fst w)) (snd w) (fun bb w2 => if bb then body w2 else Some (CDone GNormal w2))
      end
    end.

  (* running a seq value: the big-step reading of the reference interpreter.
     [strict] = true is Go: a function literal body that completes without
     `return` does not exist (go build rejects it), modelled as CStuck.
     [strict] = false is the generalised reading used between pass2 and pass3 of
     the rewriter: a native break / continue (or falling off the end) that leaves a
     callback body means the signal of the same name. *)
  Variable strict : bool.

  Fixpoint run (n : nat) (sv : sval) (w : W) {struct n} : option compl :=
    match n with 0 => None | S n =>
      match sv with
      | VBind v t =>
          let '(u', more) := env (snd w) v (fst w) in
          if more then call n t (u', S (snd w)) else Some (CStop (u', S (snd w)))
      | VDelay t => call n t w
      | VCombine a b => after_normal (run n a w) (fun w' => run n b w')
      | VFor c p body => run_loop n c p body true w
      | VSig g => Some (CDone g w)
      end
    end
  with call (n : nat) (t : thunk) (w : W) {struct n} : option compl :=
    match n with 0 => None | S n =>
      match t with
      | TLit body => match exec_list n body w with
                     | Some (CRet sv' w') => run n sv' w'
                     | Some (CDone g w') =>
                         if strict then Some CStuck else Some (CDone g w')
                     | other => other
                     end
      | TSig x => match build x w with
                  | Ok u sv' => run n sv' (u, snd w)
                  | Panic u pv => Some (CPanic (u, snd w) pv)
                  | Stuck => Some CStuck
                  end
      end
    end
  with run_loop (n : nat) (c : option cnd) (p : option stmt) (body : sval) (skipPost : bool) (w : W) {struct n} : option compl :=
    match n with 0 => None | S n =>
      let after_post := fun (w1 : W) =>
        let iter := fun (w2 : W) =>
          match run n body w2 with
          | Some (CDone (GNormal | GContinue) w3) => run_loop n c p body false w3
          | Some (CDone GBreak w3) => Some (CDone GNormal w3)
          | other => other
          end in
        match c with
        | None => iter w1
        | Some (CExp cc) | Some (CFun cc) =>
            lift (cden cc (fst w1)) (snd w1) (fun bb w2 => if bb then iter w2 else Some (CDone GNormal w2))
        end in
      if skipPost then after_post w
      else match p with
           | None => after_post w
           | Some ps => match exec n ps w with
                        | Some (CDone GNormal w1) => after_post w1
                        | Some (CDone _ _) | Some (CRet _ _) => Some CStuck
                        | other => other
                        end
           end
    end.

  (* what the consumer of the whole generator observes *)
  Inductive final := FFinished (w : W) | FStopped (w : W) | FPanicked (w : W) (pv : P) | FStuck.

  Definition final_of (c : compl) : final :=
    match c with
    | CDone _ w => FFinished w
    | CRet _ _ => FStuck
    | CStop w => FStopped w
    | CPanic w pv => FPanicked w pv
    | CStuck => FStuck
    end.

  (* the source body as a coroutine driven to the end (or to the consumer's stop) *)
  Definition run_source (n : nat) (body : list stmt) (u : U) : option final :=
    option_map final_of (exec_list n body (u, 0)).

  (* the compiled body: Start(Delay(func() Seq { tbody })) driven the same way *)
  Definition run_target (n : nat) (tbody : list stmt) (u : U) : option final :=
    option_map final_of (run n (VDelay (TLit tbody)) (u, 0)).
End Sem.

Arguments FFinished {U P}.
Arguments FStopped {U P}.
Arguments FPanicked {U P}.
Arguments FStuck {U P}.
Arguments CDone {U V P}.
Arguments CRet {U V P}.
Arguments CStop {U V P}.
Arguments CPanic {U V P}.
Arguments CStuck {U V P}.
Arguments VBind {V}.
Arguments VDelay {V}.
Arguments VCombine {V}.
Arguments VFor {V}.
Arguments VSig {V}.
