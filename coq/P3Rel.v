(* P3Rel.v — pass0 and pass3 of the rewriter model produce [srel]-related code
   (SigRel.v): they only replace native signal statements that nothing native
   would catch, and drop redundant trailing `return Normal()`s. *)
From Coq Require Import List Arith Bool Lia.
From Verif Require Import Base Syntax Sem SemLemmas Rewrite Side RwBase Rel TermSound SigRel.
Import ListNotations.

(* ---- named versions of p3's local functions, and its unfolding ---- *)
Definition p3_list (n : nat) (il isw : bool) : list stmt -> list stmt * bool :=
  fix go (l : list stmt) : list stmt * bool :=
    match l with
    | [] => ([], false)
    | x :: r => let '(x', a) := p3 n il isw x in let '(r', b) := go r in (x' :: r', a || b)
    end.
Definition p3_fbody (n : nat) (l : list stmt) : list stmt :=
  let '(l', rep) := p3_list n false false l in if rep then rm_redundant l' else l'.
Definition p3_opt (n : nat) (il isw : bool) (o : option stmt) : option stmt * bool :=
  match o with None => (None, false) | Some x => let '(x', a) := p3 n il isw x in (Some x', a) end.
Definition p3_clauses (n : nat) (il : bool) : list (clabel * list stmt) -> list (clabel * list stmt) * bool :=
  fix go (l : list (clabel * list stmt)) : list (clabel * list stmt) * bool :=
    match l with
    | [] => ([], false)
    | (lab, b) :: r => let '(b', a) := p3_list n il true b in let '(r', a') := go r in ((lab, b') :: r', a || a')
    end.
Definition p3_th (n : nat) (t : thunk) : thunk :=
  match t with TLit body => TLit (p3_fbody n body) | TSig x => TSig x end.
Definition p3_px (n : nat) : nat -> sexp -> sexp :=
  fix px (m : nat) (e : sexp) {struct m} : sexp :=
  match m with 0 => e | S m =>
    match e with
    | XBind v t => XBind v (p3_th n t)
    | XDelay t => XDelay (p3_th n t)
    | XCombine a b => XCombine (px m a) (px m b)
    | XFor c p body => XFor c (match p with None => None | Some x => Some (fst (p3 n false false x)) end) (px m body)
    | _ => e
    end
  end.
Lemma p3_px_S n m e :
  p3_px n (S m) e =
    match e with
    | XBind v t => XBind v (p3_th n t)
    | XDelay t => XDelay (p3_th n t)
    | XCombine a b => XCombine (p3_px n m a) (p3_px n m b)
    | XFor c p body => XFor c (match p with None => None | Some x => Some (fst (p3 n false false x)) end) (p3_px n m body)
    | _ => e
    end.
Proof. reflexivity. Qed.

Lemma p3_S n il isw s :
  p3 (S n) il isw s =
    match s with
    | SBreak => if il || isw then (s, false) else (SRet XBreak, true)
    | SContinue => if il then (s, false) else (SRet XContinue, true)
    | SBlock b => let '(b', a) := p3_list n il isw b in (SBlock b', a)
    | SIf i c t e =>
        let '(i', a0) := p3_opt n il isw i in
        let '(t', a1) := p3_list n il isw t in
        let '(e', a2) := match e with
                         | ENone => (ENone, false)
                         | EElse b => let '(b', a) := p3_list n il isw b in (EElse b', a)
                         | EElif x => let '(x', a) := p3 n il isw x in (EElif x', a)
                         end in
        (SIf i' c t' e', a0 || a1 || a2)
    | SSwitch i t cs =>
        let '(i', a0) := p3_opt n il true i in
        let '(cs', a1) := p3_clauses n il cs in
        (SSwitch i' t cs', a0 || a1)
    | SFor i c p b =>
        let '(i', a0) := p3_opt n true isw i in
        let '(p', a1) := p3_opt n true isw p in
        let '(b', a2) := p3_list n true isw b in
        (SFor i' c p' b', a0 || a1 || a2)
    | SRet e => (SRet (p3_px n n e), false)
    | _ => (s, false)
    end.
Proof. reflexivity. Qed.

(* ---- fitsb ---- *)
Definition fits_th (k : nat) (t : thunk) : bool := match t with TLit l => forallb (fitsb k) l | TSig _ => true end.
Definition fits_x (k : nat) : nat -> sexp -> bool :=
  fix fx (m : nat) (e : sexp) {struct m} : bool :=
  match m with 0 => false | S m =>
    match e with
    | XBind _ t | XDelay t => fits_th k t
    | XCombine a b => fx m a && fx m b
    | XFor _ p body => simple p && fx m body
    | _ => true
    end
  end.
Lemma fits_x_S k m e :
  fits_x k (S m) e =
    match e with
    | XBind _ t | XDelay t => fits_th k t
    | XCombine a b => fits_x k m a && fits_x k m b
    | XFor _ p body => simple p && fits_x k m body
    | _ => true
    end.
Proof. reflexivity. Qed.
Lemma fitsb_S k s :
  fitsb (S k) s =
    match s with
    | SBlock b => forallb (fitsb k) b
    | SIf i _ t e => simple i && forallb (fitsb k) t &&
                     match e with ENone => true | EElse b => forallb (fitsb k) b | EElif x => fitsb k x end
    | SSwitch i _ cs => simple i && forallb (fun lb => forallb (fitsb k) (snd lb)) cs
    | SFor i _ p b => simple i && simple p && forallb (fitsb k) b
    | SRet e => fits_x k (S k) e
    | _ => true
    end.
Proof. reflexivity. Qed.

Lemma forallb_imp {A} (f g : A -> bool) l : (forall x, f x = true -> g x = true) -> forallb f l = true -> forallb g l = true.
Proof. intros H. induction l as [|x r IH]; cbn; auto. intros Hf. apply andb_prop in Hf. destruct Hf as [H1 H2]. rewrite (H x H1). auto. Qed.

Lemma fits_x_mono k k' : (forall s, fitsb k s = true -> fitsb k' s = true) ->
  forall m m' e, m <= m' -> fits_x k m e = true -> fits_x k' m' e = true.
Proof.
  intros Hk. induction m as [|m IH]; intros m' e Hle H; [discriminate|].
  destruct m' as [|m']; [lia|]. assert (Hm : m <= m') by lia.
  rewrite fits_x_S in H. rewrite fits_x_S. destruct e; auto.
  - destruct t; cbn in *; auto. eapply forallb_imp; eauto.
  - destruct t; cbn in *; auto. eapply forallb_imp; eauto.
  - apply andb_prop in H. destruct H as [H1 H2]. rewrite (IH m' e1 Hm H1), (IH m' e2 Hm H2). reflexivity.
  - apply andb_prop in H. destruct H as [H1 H2]. rewrite H1, (IH m' e Hm H2). reflexivity.
Qed.

Lemma fitsb_mono1 k : forall s, fitsb k s = true -> fitsb (S k) s = true.
Proof.
  induction k as [|k IH]; intros s H; [discriminate|].
  assert (HL : forall l, forallb (fitsb k) l = true -> forallb (fitsb (S k)) l = true) by (intros l; apply forallb_imp; exact IH).
  rewrite fitsb_S in H. rewrite fitsb_S. destruct s; auto.
  - apply andb_prop in H. destruct H as [H He]. apply andb_prop in H. destruct H as [Hi Ht].
    rewrite Hi, (HL _ Ht). cbn [andb]. destruct el; auto.
  - apply andb_prop in H. destruct H as [Hi Hc]. rewrite Hi. cbn [andb].
    eapply forallb_imp; [|exact Hc]. intros lb Hlb. apply HL. exact Hlb.
  - apply andb_prop in H. destruct H as [H Hb]. apply andb_prop in H. destruct H as [Hi Hp].
    rewrite Hi, Hp, (HL _ Hb). reflexivity.
  - eapply fits_x_mono; [exact IH| |exact H]. lia.
Qed.

Lemma fitsb_mono k k' s : k <= k' -> fitsb k s = true -> fitsb k' s = true.
Proof. induction 1; auto. intros Hf. apply fitsb_mono1. auto. Qed.

(* ---- reflexivity of the relations (on statements of bounded depth) ---- *)
Lemma simple_orel il isw o : simple o = true -> orel (srel il isw) o o.
Proof. destruct o as [[]|]; cbn; try discriminate; intros _; constructor; constructor. Qed.

Lemma Forall2_refl_In {A} (R : A -> A -> Prop) l : (forall x, In x l -> R x x) -> Forall2 R l l.
Proof. induction l; constructor; cbn in *; auto. Qed.

Lemma srel_refl k : forall s il isw, fitsb k s = true -> srel il isw s s.
Proof.
  induction k as [|k IH]; intros s il isw H; [discriminate|].
  assert (HL : forall l il isw, forallb (fitsb k) l = true -> Forall2 (srel il isw) l l).
  { intros l il0 isw0 Hl. apply Forall2_refl_In. intros x Hx. apply IH. rewrite forallb_forall in Hl. auto. }
  rewrite fitsb_S in H. destruct s; try (constructor; fail).
  - constructor. apply HL. exact H.
  - apply andb_prop in H. destruct H as [H He]. apply andb_prop in H. destruct H as [Hi Ht].
    constructor; [apply simple_orel; exact Hi|apply HL; exact Ht|].
    destruct el; constructor; [apply HL; exact He|apply IH; exact He].
  - apply andb_prop in H. destruct H as [Hi Hc]. constructor; [apply simple_orel; exact Hi|].
    apply Forall2_refl_In. intros lb Hlb. split; [reflexivity|]. apply HL. rewrite forallb_forall in Hc. auto.
  - apply andb_prop in H. destruct H as [H Hb]. apply andb_prop in H. destruct H as [Hi Hp].
    constructor; [apply simple_orel; exact Hi|apply simple_orel; exact Hp|apply HL; exact Hb].
  - constructor. revert H. generalize (S k) as m. intros m. revert e.
    induction m as [|m IHm]; intros e H; [discriminate|].
    rewrite fits_x_S in H. destruct e; try (constructor; fail).
    + constructor. destruct t; cbn in H; constructor. apply HL. exact H.
    + constructor. destruct t; cbn in H; constructor. apply HL. exact H.
    + apply andb_prop in H. destruct H as [H1 H2]. constructor; auto.
    + apply andb_prop in H. destruct H as [H1 H2]. constructor; [apply simple_orel; exact H1|auto].
Qed.

Lemma xrel_refl k : forall m e, fits_x k m e = true -> xrel e e.
Proof.
  induction m as [|m IHm]; intros e H; [discriminate|].
  assert (HL : forall l, forallb (fitsb k) l = true -> Forall2 (srel false false) l l).
  { intros l Hl. apply Forall2_refl_In. intros x Hx. apply (srel_refl k). rewrite forallb_forall in Hl. auto. }
  rewrite fits_x_S in H. destruct e; try (constructor; fail).
  - constructor. destruct t; cbn in H; constructor. apply HL. exact H.
  - constructor. destruct t; cbn in H; constructor. apply HL. exact H.
  - apply andb_prop in H. destruct H as [H1 H2]. constructor; auto.
  - apply andb_prop in H. destruct H as [H1 H2]. constructor; [apply simple_orel; exact H1|auto].
Qed.

(* ---- rmRedundantReturn ---- *)
Lemma last_map_some {A} (l : list A) x : last (map Some l) None = Some x -> l = removelast l ++ [x].
Proof.
  induction l as [|a r IH]; [discriminate|]. destruct r as [|b r'].
  - cbn. intros H. inversion H. reflexivity.
  - intros H. change (last (map Some (b :: r')) None = Some x) in H. specialize (IH H).
    change (removelast (a :: b :: r')) with (a :: removelast (b :: r')). cbn [app]. f_equal. exact IH.
Qed.

Lemma rm_redundant_spec l :
  rm_redundant l = l \/
  exists pre, l = pre ++ [SRet XNormal] /\ rm_redundant l = pre /\ is_term TFUEL (SBlock pre) = true.
Proof.
  unfold rm_redundant, isTerminating. destruct (last (map Some l) None) as [x|] eqn:E; auto.
  destruct x; auto. destruct e; auto.
  destruct (is_term TFUEL (SBlock (removelast l))) eqn:T; auto.
  right. exists (removelast l). split; [apply last_map_some; exact E|]. split; [reflexivity|exact T].
Qed.

(* ---- pass3 ---- *)
Lemma p3_simple n il isw o : simple o = true -> p3_opt n il isw o = (o, false).
Proof. destruct o as [[]|]; cbn; try discriminate; intros _; destruct n; reflexivity. Qed.

Lemma p3_srel n : forall k il isw s, S k <= TFUEL -> fitsb k s = true ->
  srel il isw s (fst (p3 n il isw s)) /\ fitsb k (fst (p3 n il isw s)) = true.
Proof.
  induction n as [|n IH]; intros k il isw s Hk H.
  { cbn. split; [eapply srel_refl; eauto|exact H]. }
  destruct k as [|k]; [discriminate|]. assert (Hk' : S k <= TFUEL) by lia.
  assert (HL : forall il isw l, forallb (fitsb k) l = true ->
             Forall2 (srel il isw) l (fst (p3_list n il isw l)) /\ forallb (fitsb k) (fst (p3_list n il isw l)) = true).
  { intros il0 isw0 l. induction l as [|x r IHl]; cbn [p3_list forallb]; intros Hl; [split; [constructor|reflexivity]|].
    apply andb_prop in Hl. destruct Hl as [Hx Hr]. destruct (IH k il0 isw0 x Hk' Hx) as [Sx Fx]. destruct (IHl Hr) as [Sr Fr].
    fold (p3_list n il0 isw0). destruct (p3 n il0 isw0 x) as [x' a]. destruct (p3_list n il0 isw0 r) as [r' b]. cbn in *.
    split; [constructor; assumption|]. rewrite Fx, Fr. reflexivity. }
  assert (HF : forall l, forallb (fitsb k) l = true ->
             trel (TLit l) (TLit (p3_fbody n l)) /\ forallb (fitsb k) (p3_fbody n l) = true).
  { intros l Hl. destruct (HL false false l Hl) as [Sl Fl]. unfold p3_fbody.
    destruct (p3_list n false false l) as [l' rep]. cbn [fst] in *. destruct rep; [|split; [constructor; exact Sl|exact Fl]].
    destruct (rm_redundant_spec l') as [->|[pre [E [-> T]]]]; [split; [constructor; exact Sl|exact Fl]|].
    subst l'. rewrite forallb_app in Fl. apply andb_prop in Fl. destruct Fl as [Fp _].
    split; [|exact Fp]. apply tr_rm; [exact Sl|exact T|].
    apply fitsb_mono with (k := S k); [exact Hk'|]. rewrite fitsb_S. exact Fp. }
  assert (HT : forall t, fits_th k t = true -> trel t (p3_th n t) /\ fits_th k (p3_th n t) = true).
  { intros [l|x] Ht; cbn in *; [apply HF; exact Ht|split; [constructor|reflexivity]]. }
  assert (HX : forall m' m e, fits_x k m' e = true -> xrel e (p3_px n m e) /\ fits_x k m' (p3_px n m e) = true).
  { induction m' as [|m' IHm]; intros m e He; [discriminate|].
    destruct m as [|m]; [split; [eapply xrel_refl; eauto|exact He]|].
    rewrite p3_px_S. rewrite fits_x_S in He. destruct e as [v t|t|e1 e2|c post e| | | |]; try (split; [constructor|rewrite fits_x_S; exact He]; fail).
    - destruct (HT t He) as [Tt Ft]. split; [constructor; exact Tt|rewrite fits_x_S; exact Ft].
    - destruct (HT t He) as [Tt Ft]. split; [constructor; exact Tt|rewrite fits_x_S; exact Ft].
    - apply andb_prop in He. destruct He as [H1 H2]. destruct (IHm m e1 H1) as [X1 F1]. destruct (IHm m e2 H2) as [X2 F2].
      split; [constructor; assumption|rewrite fits_x_S, F1, F2; reflexivity].
    - apply andb_prop in He. destruct He as [H1 H2]. destruct (IHm m e H2) as [X2 F2].
      assert (Ep : match post with None => None | Some x => Some (fst (p3 n false false x)) end = post).
      { pose proof (p3_simple n false false post H1) as Hp. unfold p3_opt in Hp. destruct post as [x|]; [|reflexivity].
        destruct (p3 n false false x) as [x' a]. inversion Hp. reflexivity. }
      rewrite Ep. split; [constructor; [apply simple_orel; exact H1|exact X2]|rewrite fits_x_S, H1, F2; reflexivity]. }
  rewrite p3_S. rewrite fitsb_S in H. destruct s as [a|v|body|init c thn el|init tag cases|init c post body| | | | |e]; try (split; [constructor|reflexivity]; fail).
  - (* block *)
    destruct (HL il isw body H) as [Sb Fb]. destruct (p3_list n il isw body) as [b' a]. cbn [fst] in *.
    split; [constructor; exact Sb|rewrite fitsb_S; exact Fb].
  - (* if *)
    apply andb_prop in H. destruct H as [H He]. apply andb_prop in H. destruct H as [Hi Ht].
    rewrite (p3_simple n il isw init Hi). destruct (HL il isw thn Ht) as [St Ft]. destruct (p3_list n il isw thn) as [t' a1]. cbn [fst] in *.
    destruct el as [|eb|x].
    + cbn [fst]. split; [constructor; [apply simple_orel; exact Hi|exact St|constructor]|rewrite fitsb_S, Hi, Ft; reflexivity].
    + destruct (HL il isw eb He) as [Se Fe]. destruct (p3_list n il isw eb) as [e' a2]. cbn [fst] in *.
      split; [constructor; [apply simple_orel; exact Hi|exact St|constructor; exact Se]|rewrite fitsb_S, Hi, Ft, Fe; reflexivity].
    + destruct (IH k il isw x Hk' He) as [Se Fe]. destruct (p3 n il isw x) as [x' a2]. cbn [fst] in *.
      split; [constructor; [apply simple_orel; exact Hi|exact St|constructor; exact Se]|rewrite fitsb_S, Hi, Ft, Fe; reflexivity].
  - (* switch *)
    apply andb_prop in H. destruct H as [Hi Hc]. rewrite (p3_simple n il true init Hi).
    assert (HC : Forall2 (crel_clauses (Forall2 (srel il true))) cases (fst (p3_clauses n il cases)) /\
                 forallb (fun lb => forallb (fitsb k) (snd lb)) (fst (p3_clauses n il cases)) = true).
    { clear - HL Hc. induction cases as [|[lab b] r IHc]; cbn [p3_clauses forallb]; [split; [constructor|reflexivity]|].
      cbn [forallb snd] in Hc. apply andb_prop in Hc. destruct Hc as [Hb Hr]. destruct (HL il true b Hb) as [Sb Fb]. destruct (IHc Hr) as [Sr Fr].
      fold (p3_clauses n il). destruct (p3_list n il true b) as [b' a]. destruct (p3_clauses n il r) as [r' a']. cbn in *.
      split; [constructor; [split; [reflexivity|exact Sb]|exact Sr]|rewrite Fb, Fr; reflexivity]. }
    destruct HC as [Sc Fc]. destruct (p3_clauses n il cases) as [cs' a1]. cbn [fst] in *.
    split; [constructor; [apply simple_orel; exact Hi|exact Sc]|rewrite fitsb_S, Hi, Fc; reflexivity].
  - (* for *)
    apply andb_prop in H. destruct H as [H Hb]. apply andb_prop in H. destruct H as [Hi Hp].
    rewrite (p3_simple n true isw init Hi), (p3_simple n true isw post Hp).
    destruct (HL true isw body Hb) as [Sb Fb]. destruct (p3_list n true isw body) as [b' a2]. cbn [fst] in *.
    split; [constructor; [apply simple_orel; exact Hi|apply simple_orel; exact Hp|exact Sb]|rewrite fitsb_S, Hi, Hp, Fb; reflexivity].
  - (* break *)
    destruct il, isw; cbn [orb fst]; (split; [constructor|reflexivity]).
  - (* continue *)
    destruct il; cbn [fst]; (split; [constructor|reflexivity]).
  - (* return seq *)
    destruct (HX (S k) n e H) as [Xe Fe]. cbn [fst]. split; [constructor; exact Xe|rewrite fitsb_S; exact Fe].
Qed.

(* ---- pass0 ---- *)
Lemma pass0_S n s :
  pass0 (S n) s =
    match s with
    | SReturn => SRet XReturn
    | SBlock b => SBlock (map (pass0 n) b)
    | SIf i c t e => SIf (option_map (pass0 n) i) c (map (pass0 n) t)
                       (match e with ENone => ENone | EElse b => EElse (map (pass0 n) b) | EElif x => EElif (pass0 n x) end)
    | SSwitch i t cs => SSwitch (option_map (pass0 n) i) t (map (fun lb => (fst lb, map (pass0 n) (snd lb))) cs)
    | SFor i c p b => SFor (option_map (pass0 n) i) c (option_map (pass0 n) p) (map (pass0 n) b)
    | _ => s
    end.
Proof. reflexivity. Qed.

Lemma pass0_simple n o : simple o = true -> option_map (pass0 n) o = o.
Proof. destruct o as [[]|]; cbn; try discriminate; intros _; destruct n; reflexivity. Qed.

Lemma pass0_srel n : forall k il isw s, fitsb k s = true -> srel il isw s (pass0 n s).
Proof.
  induction n as [|n IH]; intros k il isw s H; [eapply srel_refl; eauto|].
  destruct k as [|k]; [discriminate|].
  assert (HL : forall il isw l, forallb (fitsb k) l = true -> Forall2 (srel il isw) l (map (pass0 n) l)).
  { intros il0 isw0 l. induction l as [|x r IHl]; cbn [map forallb]; intros Hl; constructor.
    - apply andb_prop in Hl. apply (IH k). tauto.
    - apply andb_prop in Hl. apply IHl. tauto. }
  rewrite pass0_S. pose proof H as H0. rewrite fitsb_S in H.
  destruct s as [a|v|body|init c thn el|init tag cases|init c post body| | | | |e]; try (constructor; fail).
  - constructor. apply HL. exact H.
  - apply andb_prop in H. destruct H as [H He]. apply andb_prop in H. destruct H as [Hi Ht].
    rewrite (pass0_simple n init Hi). constructor; [apply simple_orel; exact Hi|apply HL; exact Ht|].
    destruct el; constructor; [apply HL; exact He|apply (IH k); exact He].
  - apply andb_prop in H. destruct H as [Hi Hc]. rewrite (pass0_simple n init Hi).
    constructor; [apply simple_orel; exact Hi|].
    clear H0. induction cases as [|[lab b] r IHc]; cbn [map forallb]; constructor.
    + cbn [forallb snd] in Hc. apply andb_prop in Hc. split; [reflexivity|]. cbn [snd]. apply HL. tauto.
    + cbn [forallb] in Hc. apply andb_prop in Hc. apply IHc. tauto.
  - apply andb_prop in H. destruct H as [H Hb]. apply andb_prop in H. destruct H as [Hi Hp].
    rewrite (pass0_simple n init Hi), (pass0_simple n post Hp).
    constructor; [apply simple_orel; exact Hi|apply simple_orel; exact Hp|apply HL; exact Hb].
  - eapply srel_refl; eauto.
Qed.

Lemma pass0_list_srel n k l : forallb (fitsb k) l = true -> Forall2 (srel false false) l (map (pass0 n) l).
Proof.
  induction l as [|x r IHl]; cbn [map forallb]; intros Hl; constructor.
  - apply andb_prop in Hl. apply (pass0_srel n k). tauto.
  - apply andb_prop in Hl. apply IHl. tauto.
Qed.

(* pass3 applied to the whole callback body *)
Lemma pass3_body_rel k l : S (S (S k)) <= TFUEL -> forallb (fitsb k) l = true -> trel (TLit l) (TLit (pass3_body l)).
Proof.
  intros Hk Hl. unfold pass3_body.
  assert (Hf : fitsb (S (S k)) (SRet (XDelay (TLit l))) = true) by (rewrite fitsb_S, fits_x_S; cbn; apply forallb_imp with (f := fitsb k); [apply fitsb_mono1|exact Hl]).
  destruct (p3_srel P3FUEL (S (S k)) false false (SRet (XDelay (TLit l))) ltac:(lia) Hf) as [Hs _].
  unfold P3FUEL in *. change 400 with (S 399) in *. rewrite p3_S in *. cbn [fst] in Hs.
  change 399 with (S 398) in *. rewrite p3_px_S in *. cbn [p3_th] in *.
  inversion Hs as [| | | | | | | | | | | | |il isw e e' Hx]; subst. inversion Hx as [|t t' Ht| | | | | |]; subst. exact Ht.
Qed.
