(* Placement.v — after pass3 of the rewriter model no break / continue statement is left
   where Go would reject it: every remaining `break` sits in a native loop or switch of the same
   function literal, every remaining `continue` in a native loop (whatever the input was). *)
From Coq Require Import List Arith Bool Lia.
From Verif Require Import Base Syntax Rewrite Side P3Rel.
Import ListNotations.

Definition bplx (bl : list stmt -> bool) (bo : option stmt -> bool) : sexp -> bool :=
  fix bx (e : sexp) : bool :=
    match e with
    | XBind _ (TLit l) | XDelay (TLit l) => bl l
    | XCombine a b => bx a && bx b
    | XFor _ p body => bo p && bx body
    | _ => true
    end.

(* break / continue placement, by nesting depth k *)
Fixpoint bpl (k : nat) (il isw : bool) (s : stmt) {struct k} : bool :=
  match k with 0 => false | S k =>
    let o := fun (il isw : bool) (x : option stmt) => match x with None | Some (SAtom _) | Some (SYield _) => true | Some y => bpl k il isw y end in
    match s with
    | SBreak => il || isw
    | SContinue => il
    | SBlock b => forallb (bpl k il isw) b
    | SIf i _ t e => o il isw i && forallb (bpl k il isw) t &&
                     match e with ENone => true | EElse b => forallb (bpl k il isw) b | EElif x => bpl k il isw x end
    | SSwitch i _ cs => o il true i && forallb (fun lb => forallb (bpl k il true) (snd lb)) cs
    | SFor i _ p b => o true isw i && o true isw p && forallb (bpl k true isw) b
    | SRet e => bplx (forallb (bpl k false false)) (o false false) e
    | _ => true
    end
  end.

Lemma bpl_S k il isw s :
  bpl (S k) il isw s =
    let o := fun (il isw : bool) (x : option stmt) => match x with None | Some (SAtom _) | Some (SYield _) => true | Some y => bpl k il isw y end in
    match s with
    | SBreak => il || isw
    | SContinue => il
    | SBlock b => forallb (bpl k il isw) b
    | SIf i _ t e => o il isw i && forallb (bpl k il isw) t &&
                     match e with ENone => true | EElse b => forallb (bpl k il isw) b | EElif x => bpl k il isw x end
    | SSwitch i _ cs => o il true i && forallb (fun lb => forallb (bpl k il true) (snd lb)) cs
    | SFor i _ p b => o true isw i && o true isw p && forallb (bpl k true isw) b
    | SRet e => bplx (forallb (bpl k false false)) (o false false) e
    | _ => true
    end.
Proof. reflexivity. Qed.

Lemma p3_placement n : forall k il isw s, k < n -> fitsb k s = true -> bpl k il isw (fst (p3 n il isw s)) = true.
Proof.
  induction n as [|n IH]; intros k il isw s Hk Hf; [lia|].
  destruct k as [|k]; [discriminate|]. assert (Hk' : k < n) by lia.
  assert (HL : forall il isw l, forallb (fitsb k) l = true -> forallb (bpl k il isw) (fst (p3_list n il isw l)) = true).
  { intros il0 isw0 l. induction l as [|x r IHl]; cbn [p3_list forallb]; intros Hl; [reflexivity|].
    apply andb_prop in Hl. destruct Hl as [Hx Hr]. pose proof (IH k il0 isw0 x Hk' Hx) as Fx. pose proof (IHl Hr) as Fr.
    fold (p3_list n il0 isw0). destruct (p3 n il0 isw0 x) as [x' a]. destruct (p3_list n il0 isw0 r) as [r' b]. cbn in *.
    rewrite Fx, Fr. reflexivity. }
  assert (HO : forall il isw o, simple o = true ->
            match fst (p3_opt n il isw o) with None | Some (SAtom _) | Some (SYield _) => true | Some y => bpl k il isw y end = true).
  { intros il0 isw0 o Ho. rewrite (p3_simple n il0 isw0 o Ho). cbn [fst]. destruct o as [[]|]; try discriminate; reflexivity. }
  assert (HF : forall l, forallb (fitsb k) l = true -> forallb (bpl k false false) (p3_fbody n l) = true).
  { intros l Hl. pose proof (HL false false l Hl) as Fl. unfold p3_fbody.
    destruct (p3_list n false false l) as [l' rep]. cbn [fst] in Fl. destruct rep; [|exact Fl].
    destruct (rm_redundant_spec l') as [->|[pre [E [-> _]]]]; [exact Fl|].
    subst l'. rewrite forallb_app in Fl. apply andb_prop in Fl. tauto. }
  assert (HX : forall m' m e, m' <= m -> fits_x k m' e = true ->
            bplx (forallb (bpl k false false))
                 (fun x => match x with None | Some (SAtom _) | Some (SYield _) => true | Some y => bpl k false false y end)
                 (p3_px n m e) = true).
  { induction m' as [|m' IHm]; intros m e Hle He; [discriminate|].
    rewrite fits_x_S in He. destruct m as [|m]; [lia|]. assert (Hle' : m' <= m) by lia.
    rewrite p3_px_S. destruct e as [v t|t|e1 e2|c post e| | | |]; try reflexivity.
    + destruct t as [l|x]; cbn [p3_th bplx]; [apply HF; exact He|reflexivity].
    + destruct t as [l|x]; cbn [p3_th bplx]; [apply HF; exact He|reflexivity].
    + apply andb_prop in He. destruct He as [H1 H2]. cbn [bplx]. rewrite (IHm m e1 Hle' H1), (IHm m e2 Hle' H2). reflexivity.
    + apply andb_prop in He. destruct He as [H1 H2]. cbn [bplx]. rewrite (IHm m e Hle' H2).
      pose proof (HO false false post H1) as Hp. unfold p3_opt in Hp. destruct post as [x|]; [|reflexivity].
      destruct (p3 n false false x) as [x' a]. cbn [fst] in *. rewrite Hp. reflexivity. }
  rewrite p3_S. rewrite fitsb_S in Hf. rewrite bpl_S. cbv zeta.
  destruct s as [a|v|body|init c thn el|init tag cases|init c post body| | | | |e]; try reflexivity.
  - destruct (p3_list n il isw body) as [b' a] eqn:E. cbn [fst]. pose proof (HL il isw body Hf) as Hb. rewrite E in Hb. exact Hb.
  - apply andb_prop in Hf. destruct Hf as [Hf He]. apply andb_prop in Hf. destruct Hf as [Hi Ht].
    pose proof (HO il isw init Hi) as Hio. destruct (p3_opt n il isw init) as [i' a0]. cbn [fst] in Hio.
    pose proof (HL il isw thn Ht) as Htl. destruct (p3_list n il isw thn) as [t' a1]. cbn [fst] in Htl.
    destruct el as [|eb|x].
    + cbn [fst]. rewrite Hio, Htl. reflexivity.
    + pose proof (HL il isw eb He) as Hel. destruct (p3_list n il isw eb) as [e' a2]. cbn [fst] in *. rewrite Hio, Htl, Hel. reflexivity.
    + pose proof (IH k il isw x Hk' He) as Hel. destruct (p3 n il isw x) as [x' a2]. cbn [fst] in *. rewrite Hio, Htl, Hel. reflexivity.
  - apply andb_prop in Hf. destruct Hf as [Hi Hc].
    pose proof (HO il true init Hi) as Hio. destruct (p3_opt n il true init) as [i' a0]. cbn [fst] in Hio.
    assert (HC : forallb (fun lb => forallb (bpl k il true) (snd lb)) (fst (p3_clauses n il cases)) = true).
    { clear - HL Hc. induction cases as [|[lab b] r IHc]; cbn [p3_clauses forallb]; [reflexivity|].
      cbn [forallb snd] in Hc. apply andb_prop in Hc. destruct Hc as [Hb Hr]. pose proof (HL il true b Hb) as Fb. pose proof (IHc Hr) as Fr.
      fold (p3_clauses n il). destruct (p3_list n il true b) as [b' a]. destruct (p3_clauses n il r) as [r' a']. cbn in *. rewrite Fb, Fr. reflexivity. }
    destruct (p3_clauses n il cases) as [cs' a1]. cbn [fst] in *. rewrite Hio, HC. reflexivity.
  - apply andb_prop in Hf. destruct Hf as [Hf Hb]. apply andb_prop in Hf. destruct Hf as [Hi Hp].
    pose proof (HO true isw init Hi) as Hio. destruct (p3_opt n true isw init) as [i' a0]. cbn [fst] in Hio.
    pose proof (HO true isw post Hp) as Hpo. destruct (p3_opt n true isw post) as [p' a1]. cbn [fst] in Hpo.
    pose proof (HL true isw body Hb) as Hbl. destruct (p3_list n true isw body) as [b' a2]. cbn [fst] in *.
    rewrite Hio, Hpo, Hbl. reflexivity.
  - destruct il, isw; reflexivity.
  - destruct il; reflexivity.
  - cbn [fst]. apply (HX (S k) n e); [lia|exact Hf].
Qed.

(* pass3 applied to the whole callback body *)
Theorem pass3_placement k l : S (S (S k)) < P3FUEL -> forallb (fitsb k) l = true ->
  forallb (bpl (S (S k)) false false) (pass3_body l) = true.
Proof.
  intros Hk Hl. unfold pass3_body.
  assert (Hf : fitsb (S (S (S k))) (SRet (XDelay (TLit l))) = true).
  { rewrite fitsb_S, fits_x_S. cbn [fits_th]. apply forallb_imp with (f := fitsb k); [|exact Hl].
    intros x Hx. apply fitsb_mono1. apply fitsb_mono1. exact Hx. }
  pose proof (p3_placement P3FUEL (S (S (S k))) false false (SRet (XDelay (TLit l))) Hk Hf) as H.
  unfold P3FUEL in *. change 400 with (S 399) in *. rewrite p3_S in *. cbn [fst] in H.
  change 399 with (S 398) in *. rewrite p3_px_S in *. cbn [p3_th] in *.
  rewrite bpl_S in H. cbv zeta in H. cbn [bplx] in H. exact H.
Qed.
