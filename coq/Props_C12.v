(* Props_C12.v — unsupported constructs are rejected or preserved, never silently mistranslated.

   Full statement (C12): a generator that uses a construct outside the supported subset (goto,
   labels, labelled break/continue, select, defer, fallthrough out of a yielding case, range
   over func / pointer-to-array / type parameter, a yield in an if initialiser, a wrong result
   signature) either fails to compile with a diagnostic or still behaves like the source.

   What is proved (PARTIAL): the abstract syntax of the rewriter model can express one of these
   constructs, a Yield in the init statement of an `if`.  For it: whatever the surrounding
   program, if such an `if` occurs at a position that can execute — in any nesting of blocks,
   branches, case clauses and loop bodies, before or after any number of other statements, not
   after a break / continue / fallthrough of the same list (the rewriter drops such dead code) —
   the model rejects the whole body, for any fuel: the error cannot be lost in a sub-block that
   is later re-emitted as trivial, nor behind the continuation of an earlier statement
   (rw_calls_k: every non-branch statement runs its continuation).  Together with Props_C01.v
   (accepted bodies of the fragment behave like the source) this is the rejected-or-preserved
   dichotomy on the model's syntax.  The other constructs are not expressible in the model;
   for them the check injects the construct into generated programs and compares the real
   compiler's verdict and the behaviour of what it produces (13 constructs x random positions,
   5 negative controls). *)
From Coq Require Import List.
From Verif Require Import Base Syntax Rewrite Side Reject.
Import ListNotations.

Theorem C12_yield_in_if_init_rejected_partial :
  forall (k : nat) (body : list stmt),
    forallb (fitsb k) (map (pass0 400) body) = true ->
    badl k (map (pass0 400) body) = true ->
    exists e, rewrite body = Err e.
Proof. exact rewrite_rejects. Qed.
Print Assumptions C12_yield_in_if_init_rejected_partial.

(* for any fuel and any block the rewriter is working on *)
Theorem C12_rejected_any_fuel_partial :
  forall (f k : nat) (ss : list stmt) (cur : blk),
    forallb (fitsb k) ss = true -> badl k ss = true -> exists e, rw_stmts f ss cur = Err e.
Proof. intros f k ss cur Hf Hb. exact (proj1 (reject f) k ss cur Hf Hb). Qed.
Print Assumptions C12_rejected_any_fuel_partial.

(* non-vacuity: the offending `if` sits in a case clause inside a loop, after statements that are
   kept as they are and before others; the model answers "yield in if-init" *)
Example C12_example :
  let body := [SAtom 1; SFor None (Some 2) None
                 [SYield 3; SSwitch None (Some 4) [(LVals [5], [SAtom 6; SIf (Some (SYield 7)) 8 [SAtom 9] ENone; SYield 10]); (LDefault, [SAtom 11])]];
               SYield 12] in
  forallb (fitsb 6) (map (pass0 400) body) = true /\ badl 6 (map (pass0 400) body) = true /\
  rewrite body = Err E_YIELD_IN_INIT.
Proof. cbv zeta. repeat split; vm_compute; reflexivity. Qed.
