(* CExec.v — concrete instantiation of Sem.v that mirrors harness/genmod/tr (events,
   tape, budget) and the drivers of lib/cbatch.py, so that the Coq semantics of a
   source program can be compared with the run of its reference rendering (refco)
   and the Coq semantics of the model's rewriter output with the run of the really
   compiled program.  Programs are restricted to the atoms tr.E / tr.P, conditions
   tr.C, tags tr.T and yielded expressions tr.V. *)
From Coq Require Import List Arith Bool ZArith.
From Verif Require Import Base Syntax Rewrite Sem.
Import ListNotations.

Definition ev3 := (Z * Z * Z)%type.
Record CW := { clog : list ev3; ctape : list Z; cbudget : nat }.

Inductive adesc := DE (id : Z) | DP (id : Z).

Definition logev (w : CW) (e : ev3) : CW := {| clog := e :: clog w; ctape := ctape w; cbudget := cbudget w |}.
Definition pop (w : CW) : Z * CW :=
  match ctape w with
  | [] => (0%Z, w)
  | x :: r => (x, {| clog := clog w; ctape := r; cbudget := cbudget w |})
  end.
(* tr.spend: panics with PanicVal{-1} when the budget is exhausted *)
Definition spend (w : CW) : CW + CW :=
  match cbudget w with
  | 0 => inr (logev w (9, -1, 0)%Z)
  | S b => inl {| clog := clog w; ctape := ctape w; cbudget := b |}
  end.

Section Conc.
  Variable atab : nat -> adesc.        (* what each atom id is *)
  Variable idof : nat -> Z.            (* numeric id of the tr.C / tr.T / tr.V call, or the case constant *)

  Definition c_aden (a : nat) (w : CW) : outcome CW Z unit :=
    match spend w with
    | inr w' => Panic w' (-1)%Z
    | inl w' =>
        match atab a with
        | DE id => Ok (logev w' (1, id, 0)%Z) tt
        | DP id => let '(x, w'') := pop w' in
                   if Z.eqb x 7 then Panic (logev w'' (9, id, 0)%Z) id else Ok (logev w'' (8, id, 0)%Z) tt
        end
    end.

  Definition c_cden (c : nat) (w : CW) : outcome CW Z bool :=
    match spend w with
    | inr w' => Panic w' (-1)%Z
    | inl w' => let '(x, w'') := pop w' in
                let b := Z.eqb (x mod 2) 1 in
                Ok (logev w'' (2, idof c, if b then 1 else 0)%Z) b
    end.

  Definition c_tden (t : nat) (w : CW) : outcome CW Z nat :=
    match spend w with
    | inr w' => Panic w' (-1)%Z
    | inl w' => let '(x, w'') := pop w' in
                let v := (Z.abs (Z.rem x 3))%Z in
                Ok (logev w'' (3, idof t, v)%Z) (Z.to_nat v)
    end.

  Definition c_kval (k : nat) : nat := Z.to_nat (idof k).

  Definition c_yden (v : nat) (w : CW) : outcome CW Z Z :=
    match spend w with
    | inr w' => Panic w' (-1)%Z
    | inl w' => Ok (logev w' (4, idof v, 0)%Z) (idof v)
    end.

  (* the consumer of lib/cbatch.py: hist = (mn, cur) * nops; after each successful
     advance it logs the response and Current, then asks again if operations remain *)
  Definition c_env (nops : nat) (k : nat) (v : Z) (w : CW) : CW * bool :=
    let w1 := logev (logev (logev w (20, 1, 0)%Z) (11, 0, 0)%Z) (21, v, 0)%Z in
    if Nat.ltb (S k) nops then (logev w1 (10, 0, 0)%Z, true) else (w1, false).

  Definition start_w (tape : list Z) (budget : nat) : CW :=
    {| clog := [(10, 0, 0); (22, 0, 0); (12, 0, 0)]%Z; ctape := tape; cbudget := budget |}.

  (* the tail of the log after the generator finished with k values delivered: the
     advance that reports false, Current, then the remaining (mn, cur) pairs *)
  Fixpoint exhausted_tail (m : nat) : list ev3 :=
    match m with
    | 0 => []
    | S m => [(10, 0, 0); (20, 0, 0); (11, 0, 0); (21, 0, 0)]%Z ++ exhausted_tail m
    end.

  Definition finish (nops : nat) (f : final CW Z) : option (list ev3) :=
    match f with
    | FFinished (w, k) => Some (rev (clog w) ++ [(20, 0, 0); (11, 0, 0); (21, 0, 0)]%Z ++ exhausted_tail (nops - S k))
    | FStopped (w, k) => Some (rev (clog w))
    | FPanicked (w, k) pv => Some (rev (clog w) ++ [(30, pv, 0)%Z])
    | FStuck => None
    end.

  Definition CFUEL := 150 * 20.

  Definition sim_source (body : list stmt) (tape : list Z) (budget nops : nat) : option (list ev3) :=
    match run_source c_aden c_cden c_tden c_kval c_yden (c_env nops) CFUEL body (start_w tape budget) with
    | Some f => finish nops f
    | None => None
    end.

  Definition sim_target (tbody : list stmt) (tape : list Z) (budget nops : nat) : option (list ev3) :=
    match run_target c_aden c_cden c_tden c_kval c_yden (c_env nops) true CFUEL tbody (start_w tape budget) with
    | Some f => finish nops f
    | None => None
    end.
End Conc.

(* ---- cases ---- *)
Fixpoint ev3_list_eqb (a b : list ev3) : bool :=
  match a, b with
  | [], [] => true
  | (x1, x2, x3) :: r, (y1, y2, y3) :: s => Z.eqb x1 y1 && Z.eqb x2 y2 && Z.eqb x3 y3 && ev3_list_eqb r s
  | _, _ => false
  end.

Fixpoint lookup_def {A} (l : list (nat * A)) (d : A) (x : nat) : A :=
  match l with
  | [] => d
  | (y, a) :: r => if Nat.eqb x y then a else lookup_def r d x
  end.

Record bcase := {
  bc_src : list stmt; bc_atoms : list (nat * adesc); bc_ids : list (nat * Z);
  bc_tape : list Z; bc_budget : nat; bc_nops : nat;
  bc_ref_events : list ev3;           (* observed: reference rendering on refco *)
  bc_out_events : option (list ev3)   (* observed: really compiled program (None: rejected / not built) *)
}.

(* 0 agree; 1 source semantics differs from the reference run; 2 target semantics (of the model's
   rewriter output) differs from the compiled run; 3 semantics stuck / out of fuel; 4 model rejects *)
Definition check_bcase (c : bcase) : nat :=
  let atab := lookup_def (bc_atoms c) (DE 0%Z) in
  let idof := lookup_def (bc_ids c) 0%Z in
  match sim_source atab idof (bc_src c) (bc_tape c) (bc_budget c) (bc_nops c) with
  | None => 3
  | Some evs =>
      if negb (ev3_list_eqb evs (bc_ref_events c)) then 1 else
      match bc_out_events c with
      | None => 0
      | Some oevs =>
          match rewrite (bc_src c) with
          | Err _ => 4
          | OK t => match sim_target atab idof t (bc_tape c) (bc_budget c) (bc_nops c) with
                    | None => 3
                    | Some tevs => if ev3_list_eqb tevs oevs then 0 else 2
                    end
          end
      end
  end.

Fixpoint bmismatches_from (i : nat) (cs : list bcase) : list (nat * nat) :=
  match cs with
  | [] => []
  | c :: rest => match check_bcase c with
                 | 0 => bmismatches_from (S i) rest
                 | k => (i, k) :: bmismatches_from (S i) rest
                 end
  end.
Definition bmismatches (cs : list bcase) := bmismatches_from 0 cs.
