(* Link.v — the two layers meet: the big-step reading of seq values used by the compiler proof
   (Sem.run / call / run_loop, with the consumer as a callback) is an execution of the reference
   interpreter of Layer R (SeqRef.rrun over frame stacks, which the machine model of seq/seq.go
   refines: Props_C08.v) driven by the same consumer.

   A seq value of Sem.v has syntactic thunks; [Tv] turns it into a term of Layer R whose thunks,
   conditions and post statements are oracles that execute the thunk's statements with Sem.exec.
   The world of Layer R is instantiated with (user world, number of values delivered so far).

   [drive] is the consumer loop over the reference interpreter: run to the next yield, hand the value
   to the consumer, resume unless it stops.  Theorem [link_target]: whatever Sem.run_target (strict
   reading) returns for a compiled body, [drive] over the reference interpreter returns too, for all
   large enough fuels.  Hypotheses: nesting depth below the bound used for the translation, and no
   native Yield statement left in the target code (a Yield has no meaning in compiled Go code; the
   rewriter turns every one into a Bind). *)
From Coq Require Import List Arith Bool Lia.
From Verif Require Import Base Syntax Sem SemLemmas SeqMachine SeqRef Rewrite Side P3Rel.
Import ListNotations.


Lemma lk_S k s :
  lk (S k) s =
    match s with
    | SYield _ => false
    | SBlock b => forallb (lk k) b
    | SIf i _ t e => lko i && forallb (lk k) t &&
                     match e with ENone => true | EElse b => forallb (lk k) b | EElif x => lk k x end
    | SSwitch i _ cs => lko i && forallb (fun lb => forallb (lk k) (snd lb)) cs
    | Syntax.SFor i _ p b => lko i && lko p && forallb (lk k) b
    | SRet e => lkx (forallb (lk k)) e
    | _ => true
    end.
Proof. reflexivity. Qed.

Lemma lkx_imp (f g : list stmt -> bool) : (forall l, f l = true -> g l = true) -> forall e, lkx f e = true -> lkx g e = true.
Proof.
  intros H. induction e as [v t|t|a IHa b IHb|c p body IHb| | | |]; cbn [lkx]; intros He; try reflexivity.
  - destruct t; auto.
  - destruct t; auto.
  - apply andb_prop in He. destruct He as [H1 H2]. rewrite (IHa H1), (IHb H2). reflexivity.
  - apply andb_prop in He. destruct He as [H1 H2]. rewrite H1, (IHb H2). reflexivity.
Qed.

Lemma lk_mono1 k : forall s, lk k s = true -> lk (S k) s = true.
Proof.
  induction k as [|k IH]; intros s H; [discriminate|].
  assert (HL : forall l, forallb (lk k) l = true -> forallb (lk (S k)) l = true) by (intros l; apply forallb_imp; exact IH).
  rewrite lk_S in H. rewrite lk_S.
  destruct s as [a|v|b|i c t e|i tag cs|i c p b| | | | |e]; try exact H.
  - apply HL. exact H.
  - apply andb_prop in H. destruct H as [H He]. apply andb_prop in H. destruct H as [Hi Ht].
    rewrite Hi, (HL t Ht). destruct e as [|eb|x]; [reflexivity|rewrite (HL eb He); reflexivity|rewrite (IH x He); reflexivity].
  - apply andb_prop in H. destruct H as [Hi Hc]. rewrite Hi. cbn [andb].
    apply forallb_imp with (f := fun lb => forallb (lk k) (snd lb)); [|exact Hc]. intros lb. apply HL.
  - apply andb_prop in H. destruct H as [H Hb]. apply andb_prop in H. destruct H as [Hi Hp]. rewrite Hi, Hp, (HL b Hb). reflexivity.
  - apply lkx_imp with (f := forallb (lk k)); [exact HL|exact H].
Qed.

Section Link.
  Variables U V P : Type.
  Variable aden : nat -> U -> outcome U P unit.
  Variable cden : nat -> U -> outcome U P bool.
  Variable tden : nat -> U -> outcome U P nat.
  Variable kval : nat -> nat.
  Variable yden : nat -> U -> outcome U P V.
  Variable env : nat -> V -> U -> U * bool.
  Variable zeroV : V.

  Notation W := (W U).
  Notation compl := (compl U V P).
  Notation exec := (exec aden cden tden kval yden env).
  Notation exec_list := (exec_list aden cden tden kval yden env).
  Notation run := (run aden cden tden kval yden env true).
  Notation call := (call aden cden tden kval yden env true).
  Notation run_loop := (run_loop aden cden tden kval yden env true).
  Notation seqv := (seqv W V P).
  Notation orc := (Base.oracle W P).

  (* ---------- translation ---------- *)
  Definition sig_ctype (g : sig) : ctype :=
    match g with GNormal => SeqMachine.KNormal | GBreak => SeqMachine.KBreak | GContinue => SeqMachine.KContinue | GReturn => SeqMachine.KReturn | GFallthrough => SeqMachine.KNormal end.

  Definition Tc (c : option cnd) : option (orc bool) :=
    match c with
    | None => None
    | Some (CExp cc) | Some (CFun cc) =>
        Some (fun (_ : nat) (w : W) =>
                Some (match cden cc (fst w) with
                      | Ok u b => Ok (u, snd w) b
                      | Panic u pv => Panic (u, snd w) pv
                      | Stuck => Stuck
                      end))
    end.

  Definition Tp (p : option stmt) : option (orc unit) :=
    match p with
    | None => None
    | Some ps =>
        Some (fun (n : nat) (w : W) =>
                match exec n ps w with
                | None => None
                | Some (CDone GNormal w1) => Some (Ok w1 tt)
                | Some (CPanic w1 pv) => Some (Panic w1 pv)
                | Some _ => Some Stuck
                end)
    end.

  Fixpoint Tv (tt : thunk -> orc seqv) (sv : Sem.sval V) : seqv :=
    match sv with
    | VBind v t => SBind v (tt t)
    | VDelay t => SDelay (tt t)
    | VCombine a b => SCombine (Tv tt a) (Tv tt b)
    | VFor c p body => SeqMachine.SFor (Tc c) (Tp p) (Tv tt body)
    | VSig g => SOfK (sig_ctype g)
    end.

  (* thunks, by nesting depth *)
  Fixpoint Tt (k : nat) (t : thunk) : orc seqv :=
    match k with
    | 0 => fun _ _ => Some Stuck
    | S k => fun (n : nat) (w : W) =>
        match t with
        | TLit body =>
            match exec_list n body w with
            | None => None
            | Some (CRet sv w') => Some (Ok w' (Tv (Tt k) sv))
            | Some (CPanic w' pv) => Some (Panic w' pv)
            | Some _ => Some Stuck
            end
        | TSig x =>
            Some (match build yden x w with
                  | Ok u sv => Ok (u, snd w) (Tv (Tt k) sv)
                  | Panic u pv => Panic (u, snd w) pv
                  | Stuck => Stuck
                  end)
        end
    end.


  (* ---------- executing link-ok code gives link-ok seq values and never stops at a native yield ---------- *)
  Definition lkt (k : nat) (t : thunk) : bool := match t with TLit l => forallb (lk k) l | TSig x => is_sig x end.
  Fixpoint lkv (k : nat) (sv : Sem.sval V) : bool :=
    match sv with
    | VBind _ t | VDelay t => lkt k t
    | VCombine a b => lkv k a && lkv k b
    | VFor _ p body => lko p && lkv k body
    | VSig g => match g with GFallthrough => false | _ => true end
    end.
  Definition lkc (k : nat) (x : compl) : Prop :=
    match x with CStop _ => False | CRet sv _ => lkv k sv = true | _ => True end.

  Lemma lkt_mono1 k t : lkt k t = true -> lkt (S k) t = true.
  Proof. destruct t as [l|x]; cbn [lkt]; [apply forallb_imp; apply lk_mono1|auto]. Qed.
  Lemma lkv_mono1 k sv : lkv k sv = true -> lkv (S k) sv = true.
  Proof.
    induction sv as [v t|t|a IHa b IHb|c p body IHb|g]; cbn [lkv]; intros H; try (apply lkt_mono1; exact H); try exact H.
    - apply andb_prop in H. destruct H as [H1 H2]. rewrite (IHa H1), (IHb H2). reflexivity.
    - apply andb_prop in H. destruct H as [H1 H2]. rewrite H1, (IHb H2). reflexivity.
  Qed.
  Lemma lkc_mono1 k x : lkc k x -> lkc (S k) x.
  Proof. destruct x; cbn [lkc]; auto. apply lkv_mono1. Qed.
  Lemma lkc_pred k x : lkc (pred k) x -> lkc k x.
  Proof. destruct k; [auto|apply lkc_mono1]. Qed.

  Lemma build_lk k e : forall w u sv, lkx (forallb (lk k)) e = true -> build yden e w = Ok u sv -> lkv k sv = true.
  Proof.
    induction e as [v t|t|a IHa b IHb|c p body IHb| | | |]; intros w u sv H B; cbn [lkx build] in *.
    - destruct (yden v (fst w)); inversion B; subst. cbn [lkv]. destruct t; exact H.
    - inversion B; subst. cbn [lkv]. destruct t; exact H.
    - apply andb_prop in H. destruct H as [H1 H2].
      destruct (build yden a w) as [u1 a1|u1 pv|] eqn:Ba; try discriminate.
      destruct (build yden b (u1, snd w)) as [u2 b1|u2 pv|] eqn:Bb; inversion B; subst.
      cbn [lkv]. rewrite (IHa _ _ _ H1 Ba), (IHb _ _ _ H2 Bb). reflexivity.
    - apply andb_prop in H. destruct H as [H1 H2].
      destruct (build yden body w) as [u1 b1|u1 pv|] eqn:Bb; inversion B; subst. cbn [lkv]. rewrite H1, (IHb _ _ _ H2 Bb). reflexivity.
    - inversion B; subst. reflexivity.
    - inversion B; subst. reflexivity.
    - inversion B; subst. reflexivity.
    - inversion B; subst. reflexivity.
  Qed.

  Notation exec_from := (Sem.exec_from aden cden tden kval yden env).
  Notation exec_pick := (Sem.exec_pick aden cden tden kval yden env).
  Notation exec_loop := (Sem.exec_loop aden cden tden kval yden env).

  Lemma lko_exec o n w x : lko o = true ->
    match o with None => Some (CDone GNormal w) | Some s => exec n s w end = Some x ->
    match x with CDone g _ => g = GNormal | CRet _ _ | CStop _ => False | _ => True end.
  Proof.
    destruct o as [[a| | | | | | | | | |]|]; try discriminate; intros _ H.
    - destruct n; [discriminate|]. rewrite exec_S in H. unfold lift in H. destruct (aden a (fst w)); inversion H; auto.
    - inversion H. reflexivity.
  Qed.

  Lemma lkc_after k r f x :
    (forall y, r = Some y -> lkc k y) -> (forall w' y, f w' = Some y -> lkc k y) ->
    after_normal r f = Some x -> lkc k x.
  Proof.
    intros Hr Hf H. destruct r as [[g w1|sv w1|w1|w1 pv|]|]; try discriminate.
    - destruct g; cbn [after_normal] in H; try (inversion H; subst; exact I). eapply Hf; eauto.
    - cbn in H. apply Hr. exact H.
    - cbn in H. apply Hr. exact H.
    - inversion H. exact I.
    - inversion H. exact I.
  Qed.

  Lemma lkc_lift A k (o : outcome U P A) cnt f x :
    (forall a w' y, f a w' = Some y -> lkc k y) -> lift o cnt f = Some x -> lkc k x.
  Proof. intros Hf H. destruct o; cbn in H; [eapply Hf; eauto|inversion H; exact I|inversion H; exact I]. Qed.

  Definition lkcs (k : nat) (cs : list (clabel * list stmt)) : bool := forallb (fun lb => forallb (lk k) (snd lb)) cs.

  Lemma lkcs_default k cs d : lkcs k cs = true -> default_from cs = Some d -> lkcs k d = true.
  Proof.
    unfold lkcs. induction cs as [|[lab b] r IH]; cbn [default_from forallb]; [discriminate|]. intros H E.
    destruct lab; try (apply andb_prop in H; apply IH; tauto). inversion E; subst. exact H.
  Qed.
  Lemma lkcs_pick k tv cs d : lkcs k cs = true -> pick_clause kval tv cs = Some d -> lkcs k d = true.
  Proof.
    unfold lkcs. induction cs as [|[lab b] r IH]; cbn [pick_clause forallb]; [discriminate|]. intros H E.
    destruct (clause_matches kval lab tv); [inversion E; subst; exact H|]. apply andb_prop in H. apply IH; tauto.
  Qed.

  Lemma lk_exec n :
    (forall k s w x, lk k s = true -> exec n s w = Some x -> lkc (pred k) x) /\
    (forall k l w x, forallb (lk k) l = true -> exec_list n l w = Some x -> lkc (pred k) x) /\
    (forall k l w x, lkcs k l = true -> exec_from n l w = Some x -> lkc (pred k) x) /\
    (forall k a l w x, lkcs k a = true -> lkcs k l = true -> exec_pick n a l w = Some x -> lkc (pred k) x) /\
    (forall k c p b w x, lko p = true -> forallb (lk k) b = true -> exec_loop n c p b w = Some x -> lkc (pred k) x).
  Proof.
    induction n as [|n [IH1 [IH2 [IH3 [IH4 IH5]]]]]; [repeat split; intros; discriminate|].
    assert (Hinit : forall k o w y, lko o = true -> match o with None => Some (CDone GNormal w) | Some s => exec n s w end = Some y -> lkc k y).
    { intros k o w y Ho Hy. pose proof (lko_exec o n w y Ho Hy) as Q. destruct y; cbn [lkc]; auto. }
    repeat split.
    - intros k s w x Hs H. destruct k as [|k]; [discriminate|]. rewrite lk_S in Hs. rewrite exec_S in H. cbn [pred].
      destruct s as [a|v|b|i c t e|i tag cs|i c p b| | | | |e]; try discriminate.
      + eapply lkc_lift; [|exact H]. intros [] w' y Hy. inversion Hy. exact I.
      + apply lkc_pred. eapply IH2; eauto.
      + apply andb_prop in Hs. destruct Hs as [Hs He]. apply andb_prop in Hs. destruct Hs as [Hi Ht].
        eapply lkc_after; [| |exact H]; [intros y; apply Hinit; exact Hi|].
        intros w1 y Hy. eapply lkc_lift; [|exact Hy]. intros bb w2 z Hz. destruct bb; [apply lkc_pred; eapply IH2; eauto|].
        destruct e as [|eb|x0]; [inversion Hz; exact I|apply lkc_pred; eapply IH2; eauto|apply lkc_pred; eapply IH1; eauto].
      + apply andb_prop in Hs. destruct Hs as [Hi Hc].
        eapply lkc_after; [| |exact H]; [intros y; apply Hinit; exact Hi|].
        intros w1 y Hy. destruct tag as [t|].
        * eapply lkc_lift; [|exact Hy]. intros tv w2 z Hz. cbv beta in Hz.
          revert Hz. destruct (pick_clause kval tv cs) as [l|] eqn:Ep; intros Hz; [apply lkc_pred; eapply IH3; [exact (lkcs_pick k tv cs l Hc Ep)|exact Hz]|].
          revert Hz. destruct (default_from cs) as [l|] eqn:Ed; intros Hz; [apply lkc_pred; eapply IH3; [exact (lkcs_default k cs l Hc Ed)|exact Hz]|inversion Hz; exact I].
        * apply lkc_pred. eapply IH4; eauto.
      + apply andb_prop in Hs. destruct Hs as [Hs Hb]. apply andb_prop in Hs. destruct Hs as [Hi Hp].
        eapply lkc_after; [| |exact H]; [intros y; apply Hinit; exact Hi|].
        intros w1 y Hy. apply lkc_pred. eapply IH5; eauto.
      + inversion H. exact I.
      + inversion H. exact I.
      + inversion H. exact I.
      + inversion H. exact I.
      + revert H. destruct (build yden e w) as [u sv|u pv|] eqn:B; intros H; inversion H; subst; try exact I.
        cbn [lkc]. eapply build_lk; eauto.
    - intros k l w x Hl H. rewrite exec_list_S in H. destruct l as [|s r]; [inversion H; exact I|].
      cbn [forallb] in Hl. apply andb_prop in Hl. destruct Hl as [Hs Hr].
      eapply lkc_after; [| |exact H]; [intros y Hy; eapply IH1; eauto|intros w' y Hy; eapply IH2; eauto].
    - intros k l w x Hl H. rewrite exec_from_S in H. destruct l as [|[lab b] r]; [inversion H; exact I|].
      unfold lkcs in Hl. cbn [forallb snd] in Hl. apply andb_prop in Hl. destruct Hl as [Hb Hr].
      revert H. destruct (exec_list n b w) as [[g w1|sv w1|w1|w1 pv|]|] eqn:E; intros H; try discriminate.
      + destruct g; try (inversion H; exact I). destruct r as [|y r']; [inversion H; exact I|]. eapply IH3; [exact Hr|exact H].
      + inversion H; subst. eapply (IH2 k b w _ Hb E).
      + exfalso. exact (IH2 k b w _ Hb E).
      + inversion H. exact I.
      + inversion H. exact I.
    - intros k a l w x Ha Hl H. rewrite exec_pick_S in H. destruct l as [|[lab b] r].
      + revert H. destruct (default_from a) as [d|] eqn:Ed; intros H; [eapply IH3; [exact (lkcs_default k a d Ha Ed)|exact H]|inversion H; exact I].
      + pose proof Hl as Hl'. unfold lkcs in Hl. cbn [forallb snd] in Hl. apply andb_prop in Hl. destruct Hl as [Hb Hr].
        destruct lab as [|vs|c].
        * eapply IH4; [exact Ha|exact Hr|exact H].
        * eapply IH4; [exact Ha|exact Hr|exact H].
        * eapply lkc_lift; [|exact H]. intros bb w' y Hy. destruct bb; [eapply IH3; [exact Hl'|exact Hy]|eapply IH4; [exact Ha|exact Hr|exact Hy]].
    - intros k c p b w x Hp Hb H. rewrite exec_loop_S in H. cbv zeta in H.
      assert (Hbody : forall w2 y,
        match exec_list n b w2 with
        | Some (CDone (GNormal | GContinue) w3) =>
            after_normal (match p with None => Some (CDone GNormal w3) | Some x => exec n x w3 end) (fun w4 => exec_loop n c p b w4)
        | Some (CDone GBreak w3) => Some (CDone GNormal w3)
        | other => other
        end = Some y -> lkc (pred k) y).
      { intros w2 y. destruct (exec_list n b w2) as [[g w3|sv w3|w3|w3 pv|]|] eqn:E; intros Hy; try discriminate.
        - destruct g; try (inversion Hy; exact I);
            (eapply lkc_after; [| |exact Hy]; [intros z; apply Hinit; exact Hp|intros w4 z Hz; eapply IH5; eauto]).
        - inversion Hy; subst. eapply (IH2 k b w2 _ Hb E).
        - exfalso. exact (IH2 k b w2 _ Hb E).
        - inversion Hy. exact I.
        - inversion Hy. exact I. }
      destruct c as [cc|]; [|eapply Hbody; exact H].
      eapply lkc_lift; [|exact H]. intros bb w2 y Hy. destruct bb; [eapply Hbody; exact Hy|inversion Hy; exact I].
  Qed.

  (* ---------- the consumer loop over the reference interpreter ---------- *)
  Notation rres := (rres W V P).
  Notation frame := (frame W V P).

  (* N: the fuel of each advance of the iterator; n: how many values the consumer may still take *)
  Fixpoint drive (N n : nat) (x : rres) {struct n} : option (final U P) :=
    match n with 0 => None | S n =>
      match x with
      | RYield v r w =>
          let '(u', more) := env (snd w) v (fst w) in
          if more then match SeqRef.resume zeroV N r zeroV (u', S (snd w)) with None => None | Some x' => drive N n x' end
          else Some (FStopped (u', S (snd w)))
      | RDone _ w => Some (FFinished w)
      | RPanic w pv => Some (FPanicked w pv)
      | RStuck => Some FStuck
      end
    end.

  Definition odrive (N n : nat) (x : option rres) : option (final U P) :=
    match x with None => None | Some r => drive N n r end.

  (* "for all large enough fuels" (the fuel of the consumer loop and the fuel of one run are independent) *)
  Definition Ev {A} (f : nat -> nat -> nat -> option A) (a : A) : Prop :=
    exists M, forall m1 N m2, M <= m1 -> M <= N -> M <= m2 -> f m1 N m2 = Some a.

  Lemma Ev_step {A} (f g : nat -> nat -> nat -> option A) a :
    (forall m1 N m2, g m1 N (S m2) = f m1 N m2) -> Ev f a -> Ev g a.
  Proof.
    intros H [M HM]. exists (S M). intros m1 N m2 H1 HN H2. destruct m2 as [|m2]; [lia|]. rewrite H. apply HM; lia.
  Qed.

  Lemma Ev_ext {A} (f g : nat -> nat -> nat -> option A) a M0 :
    (forall m1 N m2, M0 <= m1 -> M0 <= m2 -> g m1 N m2 = f m1 N m2) -> Ev f a -> Ev g a.
  Proof.
    intros H [M HM]. exists (max M M0). intros m1 N m2 H1 HN H2. rewrite H by lia. apply HM; lia.
  Qed.

  Lemma Ev_step_ext {A} (f g : nat -> nat -> nat -> option A) a M0 :
    (forall m1 N m2, M0 <= m2 -> g m1 N (S m2) = f m1 N m2) -> Ev f a -> Ev g a.
  Proof.
    intros H [M HM]. exists (S (max M M0)). intros m1 N m2 H1 HN H2. destruct m2 as [|m2]; [lia|]. rewrite H by lia. apply HM; lia.
  Qed.

  Lemma Ev_const {A} (a : A) : Ev (fun _ _ _ => Some a) a.
  Proof. exists 0. reflexivity. Qed.

  (* run an oracle-produced term (the Delay / resume-after-Bind step of the reference interpreter) *)
  Definition orun (m : nat) (f : orc seqv) (ks : list frame) (w : W) : option rres :=
    match f m w with
    | None => None
    | Some (Ok w1 s) => rrun zeroV m s ks w1
    | Some (Panic w1 pv) => Some (@RPanic W V P w1 pv)
    | Some Stuck => Some (@RStuck W V P)
    end.

  Lemma rrun_delay m (f : orc seqv) (ks : list frame) (w : W) : rrun zeroV (S m) (SDelay f) ks w = orun m f ks w.
  Proof. reflexivity. Qed.
  Lemma rrun_bind m (v : V) (f : orc seqv) (ks : list frame) (w : W) : rrun zeroV (S m) (SBind v f) ks w = Some (@RYield W V P v (RAfter (fun _ => f) ks) w).
  Proof. reflexivity. Qed.
  Lemma rrun_combine m (a b : seqv) (ks : list frame) (w : W) : rrun zeroV (S m) (SCombine a b) ks w = rrun zeroV m a (KComb b :: ks) w.
  Proof. reflexivity. Qed.
  Lemma rrun_for m (c : option (orc bool)) (p : option (orc unit)) (b : seqv) (ks : list frame) (w : W) : rrun zeroV (S m) (SeqMachine.SFor c p b) ks w = rloop zeroV m c p b ks true w.
  Proof. reflexivity. Qed.
  Lemma rrun_sig m (t : ctype) (ks : list frame) (w : W) : rrun zeroV (S m) (SOfK t) ks w = rsig zeroV m t zeroV ks w.
  Proof. reflexivity. Qed.
  Lemma rsig_nil m (t : ctype) (v : V) (w : W) : rsig zeroV (S m) t v (@nil frame) w = Some (@RDone W V P v w).
  Proof. reflexivity. Qed.
  Lemma rsig_comb m (t : ctype) (v : V) (b : seqv) (ks : list frame) (w : W) :
    rsig zeroV (S m) t v (KComb b :: ks) w = match t with SeqMachine.KNormal => rrun zeroV m b ks w | _ => rsig zeroV m t v ks w end.
  Proof. reflexivity. Qed.
  Lemma rsig_loop m (t : ctype) (v : V) (c : option (orc bool)) (p : option (orc unit)) (b : seqv) (ks : list frame) (w : W) :
    rsig zeroV (S m) t v (KLoop c p b :: ks) w =
      match t with
      | SeqMachine.KNormal | SeqMachine.KContinue => rloop zeroV m c p b ks false w
      | SeqMachine.KBreak => rsig zeroV m SeqMachine.KNormal zeroV ks w
      | SeqMachine.KReturn => rsig zeroV m SeqMachine.KReturn v ks w
      end.
  Proof. reflexivity. Qed.
  Lemma rloop_S m (c : option (orc bool)) (p : option (orc unit)) (b : seqv) (ks : list frame) (sk : bool) (w : W) :
    rloop zeroV (S m) c p b ks sk w =
      match (if sk then Some (Ok w tt) else evalp p m w) with
      | None => None
      | Some (Panic u1 pv) => Some (@RPanic W V P u1 pv)
      | Some Stuck => Some (@RStuck W V P)
      | Some (Ok u1 _) =>
          match evalc c m u1 with
          | None => None
          | Some (Ok u' true) => rrun zeroV m b (KLoop c p b :: ks) u'
          | Some (Ok u' false) => rsig zeroV m SeqMachine.KNormal zeroV ks u'
          | Some (Panic u' pv) => Some (@RPanic W V P u' pv)
          | Some Stuck => Some (@RStuck W V P)
          end
      end.
  Proof. reflexivity. Qed.

  Lemma drive_yield N m (v : V) (r : resumption W V P) (w : W) :
    drive N (S m) (@RYield W V P v r w) =
      let '(u', more) := env (snd w) v (fst w) in
      if more then odrive N m (SeqRef.resume zeroV N r zeroV (u', S (snd w))) else Some (FStopped (u', S (snd w))).
  Proof. cbn [drive]. destruct (env (snd w) v (fst w)) as [u' more]. destruct more; reflexivity. Qed.

  (* ---------- the link ---------- *)
  Notation final := (Sem.final U P).
  Definition Dr (ks : list frame) (s : seqv) (w : W) : nat -> nat -> nat -> option final := fun m1 N m2 => odrive N m1 (rrun zeroV m2 s ks w).
  Definition Ds (ks : list frame) (t : ctype) (w : W) : nat -> nat -> nat -> option final := fun m1 N m2 => odrive N m1 (rsig zeroV m2 t zeroV ks w).
  Definition Do (ks : list frame) (f : orc seqv) (w : W) : nat -> nat -> nat -> option final := fun m1 N m2 => odrive N m1 (orun m2 f ks w).
  Definition Dl (ks : list frame) c p (b : seqv) (sk : bool) (w : W) : nat -> nat -> nat -> option final :=
    fun m1 N m2 => odrive N m1 (rloop zeroV m2 c p b ks sk w).

  (* what the reference computation F must do when its Sem counterpart returned c (ks: the frames F runs under) *)
  Definition Claim (c : compl) (ks : list frame) (F : nat -> nat -> nat -> option final) : Prop :=
    match c with
    | CDone g w' => g <> GFallthrough /\ forall a, Ev (Ds ks (sig_ctype g) w') a -> Ev F a
    | CStop w' => Ev F (FStopped w')
    | CPanic w' pv => Ev F (FPanicked w' pv)
    | CStuck => Ev F FStuck
    | CRet _ _ => False
    end.

  Lemma Claim_mono c ks F G : (forall a, Ev F a -> Ev G a) -> Claim c ks F -> Claim c ks G.
  Proof. intros H. destruct c as [g w'|sv w'|w'|w' pv|]; cbn [Claim]; auto. intros [Hg Hc]. split; auto. Qed.

  Lemma Ev_diag {A} (f g : nat -> nat -> nat -> option A) a :
    (forall m1 N m2, g (S m1) N (S m2) = f m1 N N) -> Ev f a -> Ev g a.
  Proof.
    intros H [M HM]. exists (S M). intros m1 N m2 H1 HN H2. destruct m1 as [|m1]; [lia|]. destruct m2 as [|m2]; [lia|].
    rewrite H. apply HM; lia.
  Qed.

  Lemma odrive_stuck N m1 : odrive N (S m1) (Some (@RStuck W V P)) = Some FStuck.
  Proof. reflexivity. Qed.
  Lemma odrive_panic N m1 w pv : odrive N (S m1) (Some (@RPanic W V P w pv)) = Some (FPanicked w pv).
  Proof. reflexivity. Qed.
  Lemma odrive_done N m1 v w : odrive N (S m1) (Some (@RDone W V P v w)) = Some (FFinished w).
  Proof. reflexivity. Qed.

  Lemma Ev_stuck (F : nat -> nat -> nat -> option final) M0 :
    (forall m1 N m2, M0 <= m2 -> F (S m1) N m2 = Some FStuck) -> Ev F FStuck.
  Proof. intros H. exists (S M0). intros m1 N m2 H1 HN H2. destruct m1; [lia|]. apply H. lia. Qed.
  Lemma Ev_panic (F : nat -> nat -> nat -> option final) M0 w pv :
    (forall m1 N m2, M0 <= m2 -> F (S m1) N m2 = Some (FPanicked w pv)) -> Ev F (FPanicked w pv).
  Proof. intros H. exists (S M0). intros m1 N m2 H1 HN H2. destruct m1; [lia|]. apply H. lia. Qed.

  Lemma sig_ctype_nn g : g <> GFallthrough -> g <> GNormal -> sig_ctype g <> SeqMachine.KNormal.
  Proof. destruct g; cbn; congruence. Qed.

  (* leaving a Combine frame *)
  Lemma Ds_comb_normal (b : seqv) (ks : list frame) (w : W) a : Ev (Dr ks b w) a -> Ev (Ds (KComb b :: ks) SeqMachine.KNormal w) a.
  Proof. apply Ev_step. intros m1 N m2. reflexivity. Qed.
  Lemma Ds_comb_other (b : seqv) (ks : list frame) t (w : W) a : t <> SeqMachine.KNormal -> Ev (Ds ks t w) a -> Ev (Ds (KComb b :: ks) t w) a.
  Proof. intros Ht. apply Ev_step. intros m1 N m2. unfold Ds. rewrite rsig_comb. destruct t; congruence. Qed.

  Lemma link n :
    (forall k sv w c ks, lkv k sv = true -> run n sv w = Some c -> Claim c ks (Dr ks (Tv (Tt (S k)) sv) w)) /\
    (forall k t w c ks, lkt k t = true -> call n t w = Some c -> Claim c ks (Do ks (Tt (S k) t) w)) /\
    (forall k cc p body sk w c ks, lko p = true -> lkv k body = true -> run_loop n cc p body sk w = Some c ->
                                   Claim c ks (Dl ks (Tc cc) (Tp p) (Tv (Tt (S k)) body) sk w)).
  Proof.
    induction n as [|n [IH1 [IH2 IH3]]]; [repeat split; intros; discriminate|].
    repeat split.
    - (* run *)
      intros k sv w c ks Hk H. rewrite run_S in H.
      destruct sv as [v t|t|a b|cc p body|g]; cbn [lkv Tv] in *.
      + (* Bind *)
        destruct (env (snd w) v (fst w)) as [u' more] eqn:Ee. destruct more.
        * apply Claim_mono with (F := Do ks (Tt (S k) t) (u', S (snd w))); [|exact (IH2 k t _ c ks Hk H)].
          intros a0. apply Ev_diag. intros m1 N m2. unfold Dr, Do. rewrite rrun_bind. cbn [odrive]. rewrite drive_yield, Ee. reflexivity.
        * inversion H; subst. cbn [Claim]. exists 1. intros m1 N m2 H1 HN H2. destruct m1; [lia|]. destruct m2; [lia|].
          unfold Dr. rewrite rrun_bind. cbn [odrive]. rewrite drive_yield, Ee. reflexivity.
      + (* Delay *)
        apply Claim_mono with (F := Do ks (Tt (S k) t) w); [|exact (IH2 k t w c ks Hk H)].
        intros a0. apply Ev_step. intros m1 N m2. reflexivity.
      + (* Combine *)
        apply andb_prop in Hk. destruct Hk as [Ha Hb].
        apply Claim_mono with (F := Dr (KComb (Tv (Tt (S k)) b) :: ks) (Tv (Tt (S k)) a) w);
          [intros a0; apply Ev_step; intros m1 m2; reflexivity|].
        destruct (run n a w) as [ca|] eqn:Ea; [|discriminate].
        pose proof (IH1 k a w ca (KComb (Tv (Tt (S k)) b) :: ks) Ha Ea) as Ca.
        destruct ca as [g w1|sv1 w1|w1|w1 pv|]; cbn [after_normal] in H.
        * destruct Ca as [Hg Ca]. destruct g; cbn [after_normal] in H; try (inversion H; subst; cbn [Claim]; split; [exact Hg|];
            intros a0 Ha0; apply Ca; apply Ds_comb_other; [cbn; congruence|exact Ha0]).
          (* Normal: go on with b *)
          apply Claim_mono with (F := Dr ks (Tv (Tt (S k)) b) w1); [|exact (IH1 k b w1 c ks Hb H)].
          intros a0 Ha0. apply Ca. apply Ds_comb_normal. exact Ha0.
        * destruct Ca.
        * inversion H; subst. exact Ca.
        * inversion H; subst. exact Ca.
        * inversion H; subst. exact Ca.
      + (* For *)
        apply andb_prop in Hk. destruct Hk as [Hp Hb].
        apply Claim_mono with (F := Dl ks (Tc cc) (Tp p) (Tv (Tt (S k)) body) true w); [|exact (IH3 k cc p body true w c ks Hp Hb H)].
        intros a0. apply Ev_step. intros m1 N m2. reflexivity.
      + (* signal *)
        inversion H; subst. cbn [Claim]. split; [destruct g; congruence|].
        intros a0. apply Ev_step. intros m1 N m2. reflexivity.
    - (* call *)
      intros k t w c ks Hk H. rewrite call_S in H. destruct t as [body|x]; cbn [lkt] in Hk.
      + (* literal *)
        destruct (exec_list n body w) as [r|] eqn:Er; [|discriminate].
        pose proof (proj1 (proj2 (lk_exec n)) k body w r Hk Er) as Hr.
        assert (Hm : forall m2, n <= m2 -> exec_list m2 body w = Some r).
        { intros m2 Hm2. exact (exec_list_mono aden cden tden kval yden env body w Hm2 Er). }
        destruct r as [g w1|sv1 w1|w1|w1 pv|]; cbn [lkc] in Hr.
        * inversion H; subst. cbn [Claim]. apply (Ev_stuck _ n). intros m1 N m2 Hm2. unfold Do, orun. cbn [Tt]. rewrite (Hm m2 Hm2). reflexivity.
        * destruct k as [|k']; [destruct body; [destruct n; discriminate|discriminate]|]. cbn [pred] in Hr.
          apply Claim_mono with (F := Dr ks (Tv (Tt (S k')) sv1) w1); [|exact (IH1 k' sv1 w1 c ks Hr H)].
          intros a0. apply Ev_ext with (M0 := n). intros m1 N m2 _ Hm2. unfold Do, Dr, orun. cbn [Tt]. rewrite (Hm m2 Hm2). reflexivity.
        * destruct Hr.
        * inversion H; subst. cbn [Claim]. apply (Ev_panic _ n). intros m1 N m2 Hm2. unfold Do, orun. cbn [Tt]. rewrite (Hm m2 Hm2). reflexivity.
        * inversion H; subst. cbn [Claim]. apply (Ev_stuck _ n). intros m1 N m2 Hm2. unfold Do, orun. cbn [Tt]. rewrite (Hm m2 Hm2). reflexivity.
      + (* a signal function value *)
        destruct x; try discriminate; cbn [build] in H; (destruct n as [|n']; [discriminate|]); rewrite run_S in H; inversion H; subst;
          cbn [Claim]; (split; [congruence|]); intros a0; apply Ev_step; intros m1 m2; reflexivity.
    - (* run_loop *)
      intros k cc p body sk w c ks Hp Hb H. rewrite run_loop_S in H. cbv zeta in H.
      set (C := Tc cc). set (Pp := Tp p). set (B := Tv (Tt (S k)) body).
      (* one iteration, then the loop again *)
      assert (Hiter : forall w2 c0,
        match run n body w2 with
        | Some (CDone (GNormal | GContinue) w3) => run_loop n cc p body false w3
        | Some (CDone GBreak w3) => Some (CDone GNormal w3)
        | other => other
        end = Some c0 -> Claim c0 ks (Dr (KLoop C Pp B :: ks) B w2)).
      { intros w2 c0. destruct (run n body w2) as [cb|] eqn:Eb; [|discriminate]. intros H0.
        pose proof (IH1 k body w2 cb (KLoop C Pp B :: ks) Hb Eb) as Cb.
        destruct cb as [g w3|sv3 w3|w3|w3 pv|].
        - destruct Cb as [Hg Cb]. destruct g.
          + apply Claim_mono with (F := Dl ks C Pp B false w3); [|exact (IH3 k cc p body false w3 c0 ks Hp Hb H0)].
            intros a0 Ha0. apply Cb. revert Ha0. apply Ev_step. intros m1 N m2. reflexivity.
          + inversion H0; subst. cbn [Claim]. split; [congruence|]. intros a0 Ha0. apply Cb. revert Ha0. apply Ev_step. intros m1 N m2. reflexivity.
          + apply Claim_mono with (F := Dl ks C Pp B false w3); [|exact (IH3 k cc p body false w3 c0 ks Hp Hb H0)].
            intros a0 Ha0. apply Cb. revert Ha0. apply Ev_step. intros m1 N m2. reflexivity.
          + inversion H0; subst. cbn [Claim]. split; [congruence|]. intros a0 Ha0. apply Cb. revert Ha0. apply Ev_step. intros m1 N m2. reflexivity.
          + congruence.
        - destruct Cb.
        - inversion H0; subst. exact Cb.
        - inversion H0; subst. exact Cb.
        - inversion H0; subst. exact Cb. }
      (* condition, then an iteration *)
      assert (Hafter : forall w1 c0,
        match cc with
        | None =>
            match run n body w1 with
            | Some (CDone (GNormal | GContinue) w3) => run_loop n cc p body false w3
            | Some (CDone GBreak w3) => Some (CDone GNormal w3)
            | other => other
            end
        | Some (CExp c1) | Some (CFun c1) =>
            lift (cden c1 (fst w1)) (snd w1) (fun bb w2 =>
              if bb then match run n body w2 with
                         | Some (CDone (GNormal | GContinue) w3) => run_loop n cc p body false w3
                         | Some (CDone GBreak w3) => Some (CDone GNormal w3)
                         | other => other
                         end
              else Some (CDone GNormal w2))
        end = Some c0 ->
        Claim c0 ks (fun m1 N m2 => odrive N m1
          match evalc C m2 w1 with
          | None => None
          | Some (Ok u' true) => rrun zeroV m2 B (KLoop C Pp B :: ks) u'
          | Some (Ok u' false) => rsig zeroV m2 SeqMachine.KNormal zeroV ks u'
          | Some (Panic u' pv) => Some (@RPanic W V P u' pv)
          | Some Stuck => Some (@RStuck W V P)
          end)).
      { intros w1 c0 H0.
        assert (Hcond : forall c1, lift (cden c1 (fst w1)) (snd w1) (fun bb w2 =>
              if bb then match run n body w2 with
                         | Some (CDone (GNormal | GContinue) w3) => run_loop n cc p body false w3
                         | Some (CDone GBreak w3) => Some (CDone GNormal w3)
                         | other => other
                         end
              else Some (CDone GNormal w2)) = Some c0 ->
          Claim c0 ks (fun m1 N m2 => odrive N m1
            match (match cden c1 (fst w1) with Ok u b => Ok (u, snd w1) b | Panic u pv => Panic (u, snd w1) pv | Stuck => Stuck end) with
            | Ok u' true => rrun zeroV m2 B (KLoop C Pp B :: ks) u'
            | Ok u' false => rsig zeroV m2 SeqMachine.KNormal zeroV ks u'
            | Panic u' pv => Some (@RPanic W V P u' pv)
            | Stuck => Some (@RStuck W V P)
            end)).
        { intros c1 H1. destruct (cden c1 (fst w1)) as [u bb|u pv|]; cbn [lift] in H1.
          - destruct bb; [exact (Hiter _ _ H1)|]. inversion H1; subst. cbn [Claim]. split; [congruence|]. intros a0 Ha0. exact Ha0.
          - inversion H1; subst. cbn [Claim]. apply (Ev_panic _ 0). intros m1 N m2 _. reflexivity.
          - inversion H1; subst. cbn [Claim]. apply (Ev_stuck _ 0). intros m1 N m2 _. reflexivity. }
        unfold C. destruct cc as [[c1|c1]|]; cbn [Tc evalc]; [exact (Hcond c1 H0)|exact (Hcond c1 H0)|exact (Hiter _ _ H0)]. }
      (* the post statement *)
      destruct sk.
      + apply Claim_mono with (2 := Hafter w c H). intros a0. apply Ev_step. intros m1 N m2. unfold Dl. rewrite rloop_S. reflexivity.
      + destruct p as [ps|].
        * destruct (exec n ps w) as [r|] eqn:Er; [|discriminate].
          pose proof (lko_exec (Some ps) n w r Hp Er) as Hr.
          assert (Hm : forall m2, n <= m2 -> exec m2 ps w = Some r).
          { intros m2 Hm2. exact (exec_mono aden cden tden kval yden env ps w Hm2 Er). }
          destruct r as [g w1|sv1 w1|w1|w1 pv|]; [subst g|destruct Hr|destruct Hr| |].
          -- apply Claim_mono with (2 := Hafter w1 c H). intros a0 Ha0.
             revert Ha0. apply Ev_step_ext with (M0 := n). intros m1 N m2 Hm2. unfold Dl. rewrite rloop_S. unfold Pp. cbn [Tp evalp].
             rewrite (Hm m2 Hm2). reflexivity.
          -- inversion H; subst. cbn [Claim]. apply (Ev_panic _ (S n)). intros m1 N m2 Hm2. destruct m2 as [|m2]; [lia|].
             unfold Dl. rewrite rloop_S. unfold Pp. cbn [Tp evalp]. rewrite (Hm m2) by lia. reflexivity.
          -- inversion H; subst. cbn [Claim]. apply (Ev_stuck _ (S n)). intros m1 N m2 Hm2. destruct m2 as [|m2]; [lia|].
             unfold Dl. rewrite rloop_S. unfold Pp. cbn [Tp evalp]. rewrite (Hm m2) by lia. reflexivity.
        * apply Claim_mono with (2 := Hafter w c H). intros a0. apply Ev_step. intros m1 N m2. unfold Dl. rewrite rloop_S. reflexivity.
  Qed.

  (* the compiled generator on the reference interpreter of Layer R, driven by the consumer:
     Start(Delay(func() Seq { out })) *)
  Definition ref_target (k : nat) (out : list stmt) (u : U) (m1 N m2 : nat) : option final :=
    odrive N m1 (rrun zeroV m2 (SDelay (Tt (S k) (TLit out))) [] (u, 0)).

  Theorem link_target k out n u f :
    forallb (lk k) out = true ->
    run_target aden cden tden kval yden env true n out u = Some f ->
    exists M, forall m1 N m2, M <= m1 -> M <= N -> M <= m2 -> ref_target k out u m1 N m2 = Some f.
  Proof.
    intros Hk H. unfold run_target in H.
    destruct (run n (VDelay (TLit out)) (u, 0)) as [c|] eqn:E; [|discriminate]. cbn [option_map] in H. inversion H; subst f.
    pose proof (proj1 (link n) k (VDelay (TLit out)) (u, 0) c [] Hk E) as Cl. cbn [Tv] in Cl.
    change (Ev (Dr [] (SDelay (Tt (S k) (TLit out))) (u, 0)) (final_of c)).
    destruct c as [g w'|sv w'|w'|w' pv|]; cbn [Claim final_of] in *.
    - destruct Cl as [_ Cl]. apply Cl. exists 1. intros m1 N m2 H1 HN H2. destruct m1; [lia|]. destruct m2; [lia|]. reflexivity.
    - destruct Cl.
    - exact Cl.
    - exact Cl.
    - exact Cl.
  Qed.

  (* any seq value (e.g. the optimised argument of Start) *)
  Definition ref_sval (k : nat) (sv : Sem.sval V) (w : W) (m1 N m2 : nat) : option final :=
    odrive N m1 (rrun zeroV m2 (Tv (Tt (S k)) sv) [] w).

  Theorem link_sval k sv n w c :
    lkv k sv = true -> run n sv w = Some c ->
    exists M, forall m1 N m2, M <= m1 -> M <= N -> M <= m2 -> ref_sval k sv w m1 N m2 = Some (final_of c).
  Proof.
    intros Hk E.
    pose proof (proj1 (link n) k sv w c [] Hk E) as Cl.
    change (Ev (Dr [] (Tv (Tt (S k)) sv) w) (final_of c)).
    destruct c as [g w'|sv' w'|w'|w' pv|]; cbn [Claim final_of] in *.
    - destruct Cl as [_ Cl]. apply Cl. exists 1. intros m1 N m2 H1 HN H2. destruct m1; [lia|]. destruct m2; [lia|]. reflexivity.
    - destruct Cl.
    - exact Cl.
    - exact Cl.
    - exact Cl.
  Qed.
End Link.
