// rtdrive: reads a JSON array of cases (see harness/rt), runs each on the real
// seq package and writes a JSON array of results.
package main

import (
	"encoding/json"
	"os"

	"verif/harness/rt"
)

func main() {
	var cases []*rt.Case
	if err := json.NewDecoder(os.Stdin).Decode(&cases); err != nil {
		panic(err)
	}
	out := make([]rt.Result, len(cases))
	for i, c := range cases {
		out[i] = rt.Run(c)
	}
	if err := json.NewEncoder(os.Stdout).Encode(out); err != nil {
		panic(err)
	}
}
