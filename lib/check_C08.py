"""C08 — runtime combinators implement the reference resumption-monad semantics."""
import random

import common as C
import rtcheck
import rtgen

TRUSTED = [
    "Coq 8.16.1 kernel; vm_compute for evaluating the models on generated cases (no native_compute)",
    "SeqMachine.v is a hand-written model of seq/seq.go (modelled, not verified); tied to the code by this run's correspondence check on harness/rt",
    "the For trampoline is modelled by an epoch test instead of step-by-step unwinding (DESIGN §3.2)",
    "harness/rt (Go interpreter of the term syntax), lib/rtgen.py renderers (JSON and Coq renderings of one term)",
]


def gen_cases(tier, rng):
    cases = []
    n = 300 if tier == "quick" else 3000
    for i in range(n):
        size = rng.choice([2, 3, 4, 6, 8, 12])
        cases.append(rtgen.make_case(rng, size, ngens=1, histlen=rng.choice([3, 6, 10]),
                                     budget=rng.choice([25, 60]), panics=(i % 3 == 0)))
    # exhaustive small terms (all terms with up to N constructors over the reduced alphabet),
    # each driven far enough to finish, plus a Send-driven history
    maxn = 4 if tier == "quick" else 5
    small = []
    for k in range(1, maxn + 1):
        for t in rtgen.small_terms(k, {"recv"} if k <= 3 else set()):
            small.append(rtgen.assign_ids(rtgen.copy(t)))
    for t in small:
        cases.append({"terms": [t], "hist": [[0, "mn"], [0, "cur"]] * 6 + [[0, "res"]], "budget": 40})
    for t in small[::3]:
        cases.append({"terms": [rtgen.copy(t)], "hist": [[0, "send", 9], [0, "cur"], [0, "send", 8], [0, "mn"], [0, "res"], [0, "mn"]],
                      "budget": 40})
    # targeted terms: one inner loop VALUE with a post statement, run once per outer iteration and left by break / return
    # (state that a For value keeps between two of its runs shows here)
    N_ = {"k": "sig", "t": "normal"}
    for leave in ({"k": "sig", "t": "break"}, {"k": "sig", "t": "continue"}):
        inner = {"k": "for", "c": {"id": 0, "acts": [], "e": ["lt", 1, 9]}, "p": {"id": 0, "acts": [["add", 1, 1], ["log", 3]]},
                 "b": {"k": "combine", "a": {"k": "bind", "v": ["reg", 1], "id": 0, "acts": [["log", 2]], "body": N_}, "b": leave if leave["t"] == "break" else
                       {"k": "combine", "a": {"k": "for", "c": {"id": 0, "acts": [], "e": ["lt", 1, 2]}, "p": None, "b": leave}, "b": {"k": "sig", "t": "break"}}}}
        outer = {"k": "for", "c": {"id": 0, "acts": [["add", 0, 1]], "e": ["lt", 0, 4]}, "p": None, "b": inner}
        cases.append({"terms": [rtgen.assign_ids(rtgen.copy(outer))], "hist": [[0, "mn"], [0, "cur"]] * 8 + [[0, "res"]], "budget": 80})
    inner = {"k": "for", "c": {"id": 0, "acts": [], "e": ["lt", 1, 9]}, "p": {"id": 0, "acts": [["add", 1, 1], ["log", 3]]},
             "b": {"k": "delay", "id": 0, "acts": [["log", 5]], "body": {"k": "sig", "t": "break"}}}
    outer = {"k": "for", "c": {"id": 0, "acts": [["add", 0, 1]], "e": ["lt", 0, 4]}, "p": {"id": 0, "acts": [["log", 6]]},
             "b": {"k": "combine", "a": inner, "b": {"k": "bind", "v": ["reg", 0], "id": 0, "acts": [], "body": N_}}}
    cases.append({"terms": [rtgen.assign_ids(rtgen.copy(outer))], "hist": [[0, "mn"], [0, "cur"]] * 8 + [[0, "res"]], "budget": 80})
    return cases, len(small)


def check(rep, tier):
    props = C.coq_props("C08")
    rep.add_proof(props)
    rep.coverage["trusted_base"] = TRUSTED
    rep.assumptions = ["user thunks/conditions/posts are deterministic functions of the world (they may diverge or panic)",
                       "generators are not re-entered from their own thunks"]
    if not props["ok"]:
        path = rep.write_replay("proof_broken", {"what": "Props_C08.v or a file it depends on no longer checks",
                                                 "forbidden": props["bad"], "coqc_output": props["output"]})
        rep.violation(path, "no-failing-input-found")
        return
    work = C.workdir("C08")
    try:
        rng = random.Random(C.seed() * 1000003 + 8)
        exe = rtcheck.build_driver(work)
        cases, nsmall = gen_cases(tier, rng)
        results, mism = rtcheck.evaluate(work, exe, "cases", cases)
        cov = rtcheck.summarize(cases, results)
        rep.coverage.update(cov)
        rep.coverage["exhaustive_small_terms"] = nsmall
        rep.coverage["rule"] = ("random combinator terms (size<=12, 1/3 with panicking thunks) under random histories of "
                                "MoveNext/Current/Send/Result, plus every term with <=%d constructors over a reduced alphabet; "
                                "each case is run on the real seq package and on both Coq models; non-trivial = at least one "
                                "advance yielded and some user code ran; distinct = distinct (term, history)" % (4 if tier == "quick" else 5))
        rep.coverage["samples"] = [{"case": cases[i], "events": results[i]["events"][:40]} for i in (0, len(cases) // 2, len(cases) - 1)]
        rep.coverage["mismatches"] = len(mism)
        ev_mism = [(i, k) for i, k in mism if k in (1, 2, 4)]
        if ev_mism:
            i, k = ev_mism[0]
            case, res, code = rtcheck.shrink(work, exe, cases[i], lambda c: c in (1, 2, 4))
            path = rep.write_replay("seq_vs_reference", {
                "what": "real seq package disagrees with the reference interpreter (C08 is violated on this input): " + rtcheck.CODE.get(code, str(code)),
                "case": case, "implementation_events": res["events"],
                "how_to_replay": "bin/check C08 --replay <this file>",
                "other_mismatching_cases": len(ev_mism) - 1})
            rep.violation(path)
    finally:
        C.rmtree(work)


def replay(rep, path):
    import json
    data = json.load(open(path))
    work = C.workdir("C08r")
    try:
        exe = rtcheck.build_driver(work)
        results, mism = rtcheck.evaluate(work, exe, "replay", [data["case"]])
        print("implementation events:", results[0]["events"])
        print("mismatch codes:", mism)
        return 1 if mism else 0
    finally:
        C.rmtree(work)
