import ccheck
import cprops


def check(rep, tier):
    cprops.check(rep, tier, "C01")


replay = ccheck.replay
