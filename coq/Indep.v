(* Indep.v — C14: any number of generators started in ONE machine heap and driven
   by ANY schedule behave like independent reference generators that share
   nothing but the user-visible world.  (No runtime state is shared: every
   machine step of generator i touches only the cells allocated by its Start.) *)
From Verif Require Import Base SeqMachine SeqRef SeqRefine SeqFrame Protocol.

Set Implicit Arguments.

Section Indep.
  Variables U V P : Type.
  Variable zeroV : V.
  Notation seqv := (seqv U V P).
  Notation st := (st U V P).
  Notation rgen := (rgen U V P).
  Notation gop := (gop U V).
  Notation resp := (resp V P).

  (* ---- drivers: a schedule is a list of (generator index, operation) ---- *)
  Fixpoint mm_hist (n : nat) (gs : list loc) (h : list (nat * gop)) (m : st) : option (st * list resp) :=
    match h with
    | [] => Some (m, [])
    | (i, o) :: rest =>
        match nth_error gs i with
        | None => None
        | Some g =>
            match m_op zeroV n 1 g o m with
            | None => None
            | Some (m', a) => match mm_hist n gs rest m' with
                              | None => None
                              | Some (m'', l) => Some (m'', a :: l)
                              end
            end
        end
    end.

  Fixpoint upd {A} (l : list A) (i : nat) (x : A) : list A :=
    match l, i with
    | [], _ => []
    | _ :: t, 0 => x :: t
    | h :: t, S i' => h :: upd t i' x
    end.

  Fixpoint rr_hist (n : nat) (rgs : list rgen) (h : list (nat * gop)) (u : U) : option (list rgen * U * list resp) :=
    match h with
    | [] => Some (rgs, u, [])
    | (i, o) :: rest =>
        match nth_error rgs i with
        | None => None
        | Some rg =>
            match r_op zeroV n o rg u with
            | None => None
            | Some (rg', u', a) => match rr_hist n (upd rgs i rg') rest u' with
                                   | None => None
                                   | Some (rgs'', u'', l) => Some (rgs'', u'', a :: l)
                                   end
            end
        end
    end.

  Fixpoint start_all (ss : list seqv) (m : st) : st * list loc * list loc :=
    match ss with
    | [] => (m, [], [])
    | s :: rest =>
        let c := fresh (cos m) in
        let '(m1, g) := start zeroV s m in
        let '(m2, cs, gs) := start_all rest m1 in
        (m2, c :: cs, g :: gs)
    end.

  (* ---- the relation: position-wise grel, with pairwise distinct cells ---- *)
  Inductive allrel : list loc -> list loc -> list rgen -> st -> Prop :=
  | AR_nil m : allrel [] [] [] m
  | AR_cons c g rg cs gs rgs m :
      grel c g rg m -> ~ In c cs -> ~ In g gs -> allrel cs gs rgs m ->
      allrel (c :: cs) (g :: gs) (rg :: rgs) m.

  Lemma grel_stable c g rg c' g' (m m' : st) :
    grel c g rg m -> untouched c' g' m m' -> c <> c' -> g <> g' -> grel c g rg m'.
  Proof.
    intros [Hs [r [Hr Rest]]] [Ug Uc] Hc Hg. split.
    - unfold get_step in *. rewrite (Uc c Hc). exact Hs.
    - exists r. split; [rewrite (Ug g Hg); exact Hr|exact Rest].
  Qed.

  Lemma allrel_stable cs gs rgs c' g' (m m' : st) :
    allrel cs gs rgs m -> untouched c' g' m m' -> ~ In c' cs -> ~ In g' gs -> allrel cs gs rgs m'.
  Proof.
    induction 1 as [|c g rg cs gs rgs m Hg Hc Hgn Hall IH]; intros Hu Hc' Hg'; constructor; auto.
    - eapply grel_stable; eauto; intros E; subst; [apply Hc'|apply Hg']; left; reflexivity.
    - apply IH; auto; intros E; [apply Hc'|apply Hg']; right; exact E.
  Qed.

  Lemma allrel_op n i o : forall cs gs rgs (m : st) g,
    allrel cs gs rgs m -> nth_error gs i = Some g ->
    exists c rg, nth_error cs i = Some c /\ nth_error rgs i = Some rg /\
      match m_op zeroV n 1 g o m with
      | None => r_op zeroV n o rg (world m) = None
      | Some (m', a) => exists rg', r_op zeroV n o rg (world m) = Some (rg', world m', a) /\
                                   allrel cs gs (upd rgs i rg') m' /\ untouched c g m m'
      end.
  Proof.
    induction i as [|i IH]; intros cs gs rgs m g Hall Hn.
    - destruct Hall as [|c g0 rg cs gs rgs m Hg Hc Hgn Hall]; [discriminate|].
      cbn in Hn. inversion Hn; subst g0. exists c, rg. split; [reflexivity|split; [reflexivity|]].
      pose proof (op_refines zeroV n 1 o Hg) as H.
      destruct (m_op zeroV n 1 g o m) as [[m' a]|]; [|exact H].
      destruct H as [rg' [E [Hg' Hu]]]. exists rg'. split; [exact E|]. split; [|exact Hu].
      cbn [upd]. constructor; auto. eapply allrel_stable; eauto.
    - destruct Hall as [|c g0 rg cs gs rgs m Hg Hc Hgn Hall]; [discriminate|].
      cbn in Hn. destruct (IH cs gs rgs m g Hall Hn) as [c' [rg' [E1 [E2 H]]]].
      exists c', rg'. split; [exact E1|split; [exact E2|]].
      destruct (m_op zeroV n 1 g o m) as [[m' a]|]; [|exact H].
      destruct H as [rg'' [E [Hall' Hu]]]. exists rg''. split; [exact E|]. split; [|exact Hu].
      cbn [upd]. constructor; auto.
      eapply grel_stable; eauto; intros Eq; subst.
      + apply Hc. eapply nth_error_In; eauto.
      + apply Hgn. eapply nth_error_In; eauto.
  Qed.

  Theorem interleaving_refines n h : forall cs gs rgs (m : st),
    allrel cs gs rgs m ->
    match mm_hist n gs h m with
    | None => rr_hist n rgs h (world m) = None
    | Some (m', l) => exists rgs', rr_hist n rgs h (world m) = Some (rgs', world m', l) /\ allrel cs gs rgs' m'
    end.
  Proof.
    induction h as [|[i o] h IH]; intros cs gs rgs m Hall; cbn [mm_hist rr_hist].
    - exists rgs. auto.
    - destruct (nth_error gs i) as [g|] eqn:Eg.
      + destruct (@allrel_op n i o cs gs rgs m g Hall Eg) as [c [rg [E1 [E2 H]]]]. rewrite E2.
        destruct (m_op zeroV n 1 g o m) as [[m' a]|]; [|rewrite H; reflexivity].
        destruct H as [rg' [-> [Hall' _]]]. specialize (IH cs gs (upd rgs i rg') m' Hall').
        destruct (mm_hist n gs h m') as [[m'' l]|].
        * destruct IH as [rgs' [-> Hall'']]. exists rgs'. auto.
        * rewrite IH. reflexivity.
      + (* index out of range on both sides *)
        assert (nth_error rgs i = None) as ->; [|reflexivity].
        clear -Hall Eg. revert i Eg. induction Hall as [|c g rg cs gs rgs m Hg Hc Hgn Hall IH]; intros i Eg.
        * destruct i; reflexivity.
        * destruct i; [discriminate|]. cbn in *. auto.
  Qed.

  (* Start allocates fresh cells, so generators started one after the other in the
     same heap are related to fresh, independent reference generators *)
  Lemma fresh_gt A (l : list (loc * A)) x : lookup l x <> None -> x < fresh l.
  Proof.
    unfold fresh. induction l as [|[y a] l IH]; cbn; intros Hx; [congruence|].
    destruct (Nat.eqb x y) eqn:E.
    - apply Nat.eqb_eq in E. subst. lia.
    - specialize (IH Hx). lia.
  Qed.

  (* all cells named in cs/gs exist in m *)
  Definition live (cs gs : list loc) (m : st) : Prop :=
    (forall c, In c cs -> lookup (cos m) c <> None) /\ (forall g, In g gs -> lookup (gens m) g <> None).

  Lemma start_all_rel ss : forall (m : st),
    let '(m', cs, gs) := start_all ss m in
    allrel cs gs (map (r_fresh zeroV) ss) m' /\ world m' = world m /\ live cs gs m' /\
    (forall c, lookup (cos m) c <> None -> lookup (cos m') c = lookup (cos m) c /\ ~ In c cs) /\
    (forall g, lookup (gens m) g <> None -> lookup (gens m') g = lookup (gens m) g /\ ~ In g gs).
  Proof.
    induction ss as [|s ss IH]; intros m; cbn [start_all map].
    - split; [constructor|]. split; [reflexivity|]. split; [split; intros ? []|]. split; auto.
    - destruct (start_grel zeroV s m) as [Hg [Hw [Hgo Hco]]].
      destruct (start zeroV s m) as [m1 g] eqn:Est. cbn [fst snd] in *.
      specialize (IH m1). destruct (start_all ss m1) as [[m2 cs] gs].
      destruct IH as [Hall [Hw2 [[Lc Lg] [Kc Kg]]]].
      set (c := fresh (cos m)) in *.
      assert (Hc1 : lookup (cos m1) c <> None).
      { destruct Hg as [Hs _]. unfold get_step in Hs. destruct (lookup (cos m1) c) eqn:El; [congruence|].
        exfalso. revert El. unfold start in Est. inversion Est; subst m1. cbn [cos].
        unfold c. rewrite lookup_update_same. discriminate. }
      assert (Hg1 : lookup (gens m1) g <> None).
      { destruct Hg as [_ [r [Hr _]]]. congruence. }
      destruct (Kc c Hc1) as [Ec Nc]. destruct (Kg g Hg1) as [Eg Ng].
      split.
      { constructor; auto.
        destruct Hg as [Hs [r [Hr Rest]]]. split.
        - unfold get_step in *. rewrite Ec. exact Hs.
        - exists r. split; [rewrite Eg; exact Hr|exact Rest]. }
      split; [congruence|].
      split.
      { split.
        - intros c' [<-|Hin]; [rewrite Ec; exact Hc1|apply Lc; exact Hin].
        - intros g' [<-|Hin]; [rewrite Eg; exact Hg1|apply Lg; exact Hin]. }
      split.
      { intros c' Hc'. assert (c' <> c).
        { intros ->. apply fresh_gt in Hc'. unfold c in Hc'. lia. }
        assert (H1 : lookup (cos m1) c' = lookup (cos m) c') by (apply Hco; assumption).
        assert (H2 : lookup (cos m1) c' <> None) by (rewrite H1; exact Hc').
        destruct (Kc c' H2) as [E2 N2]. split; [congruence|]. intros [E|Hin]; [congruence|auto]. }
      { intros g' Hg'. assert (g' <> g).
        { intros ->. apply fresh_gt in Hg'.
          assert (g = fresh (gens m)) by (unfold start in Est; inversion Est; reflexivity). lia. }
        assert (H1 : lookup (gens m1) g' = lookup (gens m) g') by (apply Hgo; assumption).
        assert (H2 : lookup (gens m1) g' <> None) by (rewrite H1; exact Hg').
        destruct (Kg g' H2) as [E2 N2]. split; [congruence|]. intros [E|Hin]; [congruence|auto]. }
  Qed.

  (* C14 *)
  Theorem independent_generators n ss h u :
    let '(m0, _, gs) := start_all ss (empty_st V P u) in
    match mm_hist n gs h m0 with
    | None => rr_hist n (map (r_fresh zeroV) ss) h u = None
    | Some (m', l) => exists rgs', rr_hist n (map (r_fresh zeroV) ss) h u = Some (rgs', world m', l)
    end.
  Proof.
    pose proof (start_all_rel ss (empty_st V P u)) as H.
    destruct (start_all ss (empty_st V P u)) as [[m0 cs] gs].
    destruct H as [Hall [Hw _]]. cbn [world empty_st] in Hw.
    pose proof (interleaving_refines n h Hall) as R. rewrite Hw in R.
    destruct (mm_hist n gs h m0) as [[m' l]|]; [|exact R].
    destruct R as [rgs' [R _]]. eauto.
  Qed.
End Indep.
