import ccheck
import cprops


def check(rep, tier):
    cprops.check(rep, tier, "C02")


replay = ccheck.replay
