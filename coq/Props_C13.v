(* Props_C13.v — code that is not a generator is behaviourally unchanged.

   Full statement (C13): declarations of a processed file that neither yield nor mention the iterator
   type behave in the generated file exactly as in the source, and ordinary closures inside generator
   bodies keep their meaning (capture by reference, time of evaluation of callee and receiver).

   What is proved (PARTIAL).  The only pass that touches such code is the optimiser's eta reduction,
   which is applied to every function literal of the file.  EtaModel.v models its decision
   (reduces = arguments are the parameters in order, identical types, stableCallee) over the classes of
   callee expressions the code distinguishes, and the two readings of a closure — as written, the callee
   expression is evaluated at every call; after reduction, once where the literal stood — in a world of
   function-typed variables, receiver variables and an effect counter, with arbitrary code running between
   creation and call:
   - C13_eta_reduction_sound_partial: wherever the decision is "reduce", both readings give the same result
     and the same world, for every world, every intervening code that leaves the compiler-generated
     iterator variables alone (they are assigned once), every argument, and whatever functions, methods,
     builtins and conversions compute;
   - C13_side_condition_needed_*: for a function variable, a method value of a user receiver and the result
     of a call — classes the decision keeps — reducing WOULD be observable (the repaired defects 0caf5b7 were
     exactly these).
   The check compares the model's decision with what the real optimiser did to one closure of every class
   on every run (the classification of a Go expression into a class is go/types' and the corpus author's).
   Import clean-up, comment stripping, declarations other than closures, go 1.22 loop variables: decided by
   the three-way differential of the check only. *)
From Coq Require Import List.
From Verif Require Import EtaModel.
Import ListNotations.

Theorem C13_eta_reduction_sound_partial :
  forall (pkg : nat -> nat -> nat) (meth : nat -> nat -> nat -> nat) (made : nat -> nat -> nat -> nat)
         (builtin conv : nat -> nat -> nat)
         (args_match types_identical : bool) (c : callee) (between : world -> world) (a : nat) (w0 : world),
    reduces args_match types_identical c = true ->
    keeps_generated between ->
    run_reduced pkg meth made builtin conv c between a w0 = run_closure pkg meth made builtin conv c between a w0.
Proof. exact reduces_sound. Qed.
Print Assumptions C13_eta_reduction_sound_partial.

Theorem C13_decision_keeps_everything_else :
  forall am ti c, reduces am ti c = true ->
    am = true /\ ti = true /\ (exists f, c = CPkgFunc f) \/ am = true /\ ti = true /\ (exists it m, c = CMethodGen it m).
Proof.
  intros am ti c H. unfold reduces in H. apply Bool.andb_true_iff in H. destruct H as [H Hs]. apply Bool.andb_true_iff in H. destruct H as [-> ->].
  destruct c; try discriminate; [left|right]; repeat split; eauto.
Qed.
Print Assumptions C13_decision_keeps_everything_else.

Theorem C13_side_condition_needed_var :
  let between := fun w => {| fvar := fun _ y => y * 10; gvar := gvar w; uvar := uvar w; calls := calls w |} in
  snd (run_reduced (fun _ y => y) (fun _ _ y => y) (fun _ _ y => y) (fun _ y => y) (fun _ y => y) (CVar 0) between 1 w_init)
  <> snd (run_closure (fun _ y => y) (fun _ _ y => y) (fun _ _ y => y) (fun _ y => y) (fun _ y => y) (CVar 0) between 1 w_init).
Proof. exact eta_unsound_var. Qed.
Theorem C13_side_condition_needed_method :
  let between := fun w => {| fvar := fvar w; gvar := gvar w; uvar := fun _ => 2; calls := calls w |} in
  snd (run_reduced (fun _ y => y) (fun _ r y => r + y) (fun _ _ y => y) (fun _ y => y) (fun _ y => y) (CMethodUser 0 0) between 5 w_init)
  <> snd (run_closure (fun _ y => y) (fun _ r y => r + y) (fun _ _ y => y) (fun _ y => y) (fun _ y => y) (CMethodUser 0 0) between 5 w_init).
Proof. exact eta_unsound_method. Qed.
Theorem C13_side_condition_needed_call_result :
  calls (fst (evalc (fun _ y => y) (fun _ _ y => y) (fun _ n y => n + y) (fun _ y => y) (fun _ y => y) (CCallResult 0) w_init)) = 1
  /\ calls w_init = 0.
Proof. exact eta_unsound_call_result. Qed.
