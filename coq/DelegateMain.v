(* DelegateMain.v — the compiled form of YieldFrom / range-over-iterator: the specification of
   Delegate.v composed with the compiler theorem (C01Main.v). *)
From Coq Require Import List Arith Bool Lia.
From Verif Require Import Base Syntax Sem SemLemmas Rewrite Side C01Main Delegate.
Import ListNotations.

Section DM.
  Variables U V P : Type.
  Variable aden : nat -> U -> outcome U P unit.
  Variable cden : nat -> U -> outcome U P bool.
  Variable tden : nat -> U -> outcome U P nat.
  Variable kval : nat -> nat.
  Variable yden : nat -> U -> outcome U P V.
  Variable env : nat -> V -> U -> U * bool.

  Notation exec := (exec aden cden tden kval yden env).
  Notation exec_list := (exec_list aden cden tden kval yden env).

  (* a statement followed by the rest of the body *)
  Lemma head_then_rest s rest n m w r c :
    exec n s w = Some r ->
    after_normal (Some r) (fun w' => exec_list m rest w') = Some c ->
    exists k, exec_list k (s :: rest) w = Some c.
  Proof.
    intros Hs Hr. exists (S (max n m)). rewrite exec_list_S.
    rewrite (exec_mono aden cden tden kval yden env (n:=n) (m:=max n m) s w (Nat.le_max_l _ _) Hs).
    destruct r as [g w'|sv w'|w'|w' pv|]; try exact Hr.
    destruct g; try exact Hr. cbn [after_normal] in *.
    apply (exec_list_mono aden cden tden kval yden env (n:=m)); [apply Nat.le_max_r|exact Hr].
  Qed.

  Variables (a_init a_cur c_mn y_v : nat).
  Variable start : U -> outcome U P unit.
  Variable mn : U -> outcome U P bool.
  Variable curv : U -> V.
  Variable setv : U -> U.
  Hypothesis Hinit : forall u, aden a_init u = start u.
  Hypothesis Hmn : forall u, cden c_mn u = mn u.
  Hypothesis Hcur : forall u, aden a_cur u = Ok (setv u) tt.
  Hypothesis Hval : forall u, yden y_v (setv u) = Ok (setv u) (curv u).

  (* what a generator whose body is `YieldFrom(x); rest` must do, written with the specification *)
  Definition yf_then (rest : list stmt) (n : nat) (u : U) : option (compl U V P) :=
    after_normal (yf_spec env start mn curv setv n (u, 0)) (fun w' => exec_list n rest w').

  Theorem compiled_yieldfrom rest :
    c01_hyps (yf_stmt a_init a_cur c_mn y_v :: rest) = true ->
    exists out, rewrite (yf_stmt a_init a_cur c_mn y_v :: rest) = OK out /\
      forall n u c, yf_then rest n u = Some c -> final_of c <> FStuck ->
        exists m, run_target aden cden tden kval yden env true m out u = Some (final_of c).
  Proof.
    intros Hh. destruct (compiler_correct_hyps U V P aden cden tden kval yden env _ Hh) as [out [Ho Hsim]].
    exists out. split; [exact Ho|]. intros n u c Hc Hns. unfold yf_then in Hc.
    destruct (yf_spec env start mn curv setv n (u, 0)) as [r|] eqn:E; [|discriminate].
    destruct (yieldfrom_meets_spec aden cden tden kval yden env a_init a_cur c_mn y_v start mn curv setv Hinit Hmn Hcur Hval n (u, 0) E) as [m1 Hm1].
    destruct (head_then_rest _ rest _ n _ _ _ Hm1 Hc) as [k Hk].
    apply (Hsim k u (final_of c)); [|exact Hns].
    unfold run_source. rewrite Hk. reflexivity.
  Qed.

  Variable a_bind : nat.
  Variable B : list stmt.

  Definition rg_then (rest : list stmt) (n : nat) (u : U) : option (compl U V P) :=
    after_normal (rg_spec aden cden tden kval yden env start mn a_bind B n (u, 0)) (fun w' => exec_list n rest w').

  Theorem compiled_range_iter rest :
    c01_hyps (rg_stmt a_init c_mn a_bind B :: rest) = true ->
    exists out, rewrite (rg_stmt a_init c_mn a_bind B :: rest) = OK out /\
      forall n u c, rg_then rest n u = Some c -> final_of c <> FStuck ->
        exists m, run_target aden cden tden kval yden env true m out u = Some (final_of c).
  Proof.
    intros Hh. destruct (compiler_correct_hyps U V P aden cden tden kval yden env _ Hh) as [out [Ho Hsim]].
    exists out. split; [exact Ho|]. intros n u c Hc Hns. unfold rg_then in Hc.
    destruct (rg_spec aden cden tden kval yden env start mn a_bind B n (u, 0)) as [r|] eqn:E; [|discriminate].
    destruct (range_iter_meets_spec aden cden tden kval yden env a_init c_mn start mn Hinit Hmn a_bind B n (u, 0) E) as [m1 Hm1].
    destruct (head_then_rest _ rest _ n _ _ _ Hm1 Hc) as [k Hk].
    apply (Hsim k u (final_of c)); [|exact Hns].
    unfold run_source. rewrite Hk. reflexivity.
  Qed.
End DM.
