"""Hand-written optimiser-sensitive programs (C07, C13): generator functions in placeholder
form (YIELD/RETURN) and bystander functions (plain Go) that live in the same processed file."""

# name -> list of lines (generator body in placeholder form)
GENS = {
    # Delay elision around Bind(variable, ...): the yielded variable changes between iterations
    "Fib": ["a, b := 1, 1", "for tr.C(1) {", "\tYIELD(b)", "\ta, b = b, a+b", "}", "RETURN"],
    "NegCount": ["n := 3", "for n > 0 {", "\tYIELD(-n)", "\tn--", "}", "RETURN"],
    "CallLit": ["for tr.C(1) {", "\tYIELD(tr.Twice(1))", "}", "YIELD(tr.Twice(2))", "RETURN"],
    "CallLitFirst": ["YIELD(tr.Twice(3))", "YIELD(tr.Twice(4))", "RETURN"],
    "AfterIf": ["if tr.C(1) {", "\tYIELD(1)", "}", "YIELD(tr.Twice(5))", "RETURN"],
    "ConvLit": ["for tr.C(1) {", "\tYIELD(int(int8(7)))", "}", "RETURN"],
    "ParenLit": ["x := 0", "for tr.C(1) {", "\tx++", "\tYIELD((2))", "\tYIELD(+3)", "\tYIELD(x)", "}", "RETURN"],
    # eta reduction of loop conditions / closures
    "IfaceCond": ["var s tr.Src = &tr.Counter{Max: 2}", "for s.More() {", "\tYIELD(1)", "}", "RETURN"],
    "PtrCond": ["cur := &tr.Cell{V: 1, Next: &tr.Cell{V: 2, Next: &tr.Cell{V: 3}}}", "for cur.Valid() {", "\tYIELD(cur.Get())", "\tcur = cur.Next", "}", "RETURN"],
    "ValCond": ["c := tr.Cell{V: 0}", "for c.Less(3) {", "\tYIELD(c.V)", "\tc.V++", "}", "RETURN"],
    "ClosureBeforeYield": ["cur := &tr.Cell{V: 1, Next: &tr.Cell{V: 2}}", "get := func() int { return cur.Get() }", "YIELD(get())", "cur = cur.Next", "YIELD(get())", "RETURN"],
    "MutableFuncVar": ["f := func(x int) int { return x + 1 }", "g := func(x int) int { return f(x) }", "YIELD(g(1))", "f = func(x int) int { return x * 10 }", "YIELD(g(1))", "RETURN"],
    "CallResult": ["mk := func() func() int { tr.E(9); return func() int { return 5 } }", "g := func() int { return mk()() }", "YIELD(1)", "YIELD(g())", "YIELD(g())", "RETURN"],
    "Builtins": ["f := func(s []int) int { return len(s) }", "c := func(x int) int64 { return int64(x) }", "YIELD(f([]int{1, 2}))", "YIELD(int(c(7)))", "RETURN"],
    "Generics": ["a := func(x int) int { return tr.Id(x) }", "b := func(x int) int { return tr.Id[int](x) }", "p := func(x, y int) int { return tr.Pair[int](x, y) }",
                 "YIELD(a(1) + b(2) + p(3, 4))", "RETURN"],
    "Variadic": ["v := func(xs ...int) int { return tr.Sum(xs...) }", "w := func(xs []int) int { return tr.Sum(xs...) }", "YIELD(v(1, 2) + w([]int{3}))", "RETURN"],
    "ResultType": ["var e any = func(x int) any { return tr.Id[int](x) }", "_ = e", "h := func(x int) any { return tr.Any(x) }", "YIELD(h(3).(int))", "RETURN"],
    "NilReceiverLater": ["var c *tr.Counter", "more := func() bool { return c.More() }", "YIELD(1)", "c = &tr.Counter{Max: 1}", "if more() {", "\tYIELD(2)", "}", "RETURN"],
    # post statement re-runs of one For value (optimiser removes the Delay around For)
    "ForValueReuse": ["for i := 0; i < 3; i++ {", "\tj := 0", "\tfor ; j < 2; j++ {", "\t\tYIELD(i*10 + j)", "\t}", "}", "RETURN"],
    "ForValueReuse2": ["j := 0", "for tr.C(1) {", "\tfor ; j < 4; j += 2 {", "\t\tYIELD(j)", "\t}", "\tj = 1", "}", "RETURN"],
}

# bystanders: plain functions in the same file; each returns observations as []int
BYSTANDERS = {
    "BMutable": ["f := func(x int) int { return x + 1 }", "g := func(x int) int { return f(x) }", "a := g(1)", "f = func(x int) int { return x * 10 }", "return []int{a, g(1)}"],
    "BPtrRecv": ["cur := &tr.Cell{V: 1, Next: &tr.Cell{V: 2}}", "get := func() int { return cur.Get() }", "a := get()", "cur = cur.Next", "return []int{a, get()}"],
    "BValRecv": ["c := tr.Cell{V: 1}", "val := func() int { return c.Val() }", "a := val()", "c.V = 9", "return []int{a, val()}"],
    "BIface": ["var s tr.Src", "more := func() bool { return s.More() }", "s = &tr.Counter{Max: 1}", "r := 0", "if more() { r = 1 }", "return []int{r}"],
    "BBuiltin": ["l := func(s string) int { return len(s) }", "c := func(x int) float64 { return float64(x) }", "return []int{l(\"abc\"), int(c(2))}"],
    "BGeneric": ["a := func(x int) int { return tr.Id(x) }", "b := func(x int) int { return tr.Id[int](x) }", "p := func(x, y int) int { return tr.Pair[int](x, y) }", "return []int{a(1), b(2), p(3, 4)}"],
    "BPkgFunc": ["t := func(x int) int { return tr.Twice(x) }", "return []int{t(4)}"],
    "BCallResult": ["n := 0", "mk := func() func() int { n++; return func() int { return n } }", "g := func() int { return mk()() }", "a := g()", "return []int{a, g(), n}"],
    "BVariadic": ["v := func(xs ...int) int { return tr.Sum(xs...) }", "w := func(xs []int) int { return tr.Sum(xs...) }", "return []int{v(1, 2), w([]int{3, 4})}"],
    "BLoopVar": ["var fs []func() int", "for i := 0; i < 3; i++ {", "\tfs = append(fs, func() int { return i * i })", "}", "var out []int", "for _, f := range fs {", "\tout = append(out, f())", "}", "return out"],
    "BClosureLoopInGen": None,  # placeholder: defined as a generator with an inner plain closure below
}

GENS["ClosureLoop122"] = ["sq := func() []int {", "\tvar fs []func() int", "\tfor i := 0; i < 3; i++ {", "\t\tfs = append(fs, func() int { return i * i })", "\t}",
                          "\tvar out []int", "\tfor _, f := range fs {", "\t\tout = append(out, f())", "\t}", "\treturn out", "}",
                          "for _, v := range sq() {", "\tYIELD(v)", "}", "RETURN"]
del BYSTANDERS["BClosureLoopInGen"]

# composite literals allocate on every evaluation: an inner generator yields a fresh slice / map per
# iteration and the consumer mutates it (hand-written reference: the reference runtime is int-only)
GENS["SliceLit"] = {
    "co": ["inner := func() Iter[[]int] {", "\tfor tr.C(1) {", "\t\tYield([]int{0, 0})", "\t}", "\treturn nil", "}",
           "for s := range inner() {", "\ts[0]++", "\tYIELD(s[0])", "}", "RETURN"],
    "ref": ["for tr.C(1) {", "\ts := []int{0, 0}", "\ts[0]++", "\tYIELD(s[0])", "}", "RETURN"]}
GENS["MapLit"] = {
    "co": ["inner := func() Iter[map[int]int] {", "\tfor tr.C(1) {", "\t\tYield(map[int]int{1: 1})", "\t}", "\treturn nil", "}",
           "for m := range inner() {", "\tm[1] += 5", "\tYIELD(m[1])", "}", "RETURN"],
    "ref": ["for tr.C(1) {", "\tm := map[int]int{1: 1}", "\tm[1] += 5", "\tYIELD(m[1])", "}", "RETURN"]}

# forwarding closures whose arguments are a permutation / repetition of the parameters are not eta-redexes
BYSTANDERS["BPermuted"] = ["flip := func(a, b int) int { return tr.Sub(b, a) }", "dup := func(a, b int) int { return tr.Sub(a, a) }",
                           "fwd := func(a, b int) int { return tr.Sub(a, b) }", "return []int{flip(10, 3), dup(10, 3), fwd(10, 3)}"]
# a consumer that pulls by hand and replaces its iterator on the way: the loop condition and closures over
# it.MoveNext / it.Current must keep reading the variable, not the iterator it held when they were built
GENS["PullReassign"] = {
    "co": ["mk := func(base int) Iter[int] {", "\tfor i := 0; i < 3; i++ {", "\t\tYield(base + i)", "\t}", "\treturn nil", "}",
           "it := mk(0)", "n := 0", "for it.MoveNext() {", "\tYIELD(it.Current())", "\tn++", "\tif n == 2 {", "\t\tit = mk(100)", "\t}", "}", "RETURN"],
    "ref": ["mk := func(base int) refco.Iter {", "\treturn refco.New(func(y2 *refco.Y) {", "\t\tfor i := 0; i < 3; i++ {", "\t\t\ty2.Yield(base + i)", "\t\t}", "\t})", "}",
            "it := mk(0)", "n := 0", "for it.MoveNext() {", "\tYIELD(it.Current())", "\tn++", "\tif n == 2 {", "\t\tit = mk(100)", "\t}", "}", "RETURN"]}
GENS["PullClosure"] = {
    "co": ["mk := func(base int) Iter[int] {", "\tfor i := 0; i < 2; i++ {", "\t\tYield(base + i)", "\t}", "\treturn nil", "}",
           "it := mk(0)", "more := func() bool { return it.MoveNext() }", "cur := func() int { return it.Current() }",
           "for more() {", "\tYIELD(cur())", "}", "it = mk(50)", "for more() {", "\tYIELD(cur())", "}", "RETURN"],
    "ref": ["mk := func(base int) refco.Iter {", "\treturn refco.New(func(y2 *refco.Y) {", "\t\tfor i := 0; i < 2; i++ {", "\t\t\ty2.Yield(base + i)", "\t\t}", "\t})", "}",
            "it := mk(0)", "more := func() bool { return it.MoveNext() }", "cur := func() int { return it.Current() }",
            "for more() {", "\tYIELD(cur())", "}", "it = mk(50)", "for more() {", "\tYIELD(cur())", "}", "RETURN"]}
# range with assignment to existing operands where the value operand depends on the key operand: Go assigns
# both at once (a[i] is located with the old i)
GENS["RangeAssignIndex"] = ["xs := []int{5, 6, 7}", "a := make([]int, 3)", "var i int", "for i, a[i] = range xs {", "\tYIELD(i)", "}",
                            "YIELD(a[0]*100 + a[1]*10 + a[2])", "RETURN"]
GENS["RangeAssignMap"] = ["src := map[int]int{1: 11}", "dst := map[int]int{}", "k := 7", "for k, dst[k] = range src {", "\tYIELD(k)", "}",
                          "YIELD(dst[7]*1000 + dst[1])", "RETURN"]
VAR_DECLS = ["var PkgCounter = tr.Add(40, 2)", "const PkgConst = 7", "type PkgT struct{ A int }", "func (p PkgT) M() int { return p.A + PkgConst }"]
BYSTANDERS["BPkgLevel"] = ["return []int{PkgCounter, PkgConst, PkgT{1}.M()}"]


# ---- round 3 of seeded changes ----
# one inner loop VALUE run once per outer iteration (the optimiser drops the Delay around a loop that is the first statement of a
# loop body): an inner iteration yields, a later one breaks synchronously after the resume, a later run ends by its condition
# right after a non-yielding iteration; then code after the loops yields.  State kept per For value instead of per run shows here.
GENS["Rounds"] = ["i := 0", "lim := []int{5, 3}", "lt := func(a, b int) bool { tr.U(7, a*100+b); return a < b }",
                  "for r := 0; r < len(lim); r++ {", "\tfor lt(i, lim[r]) {", "\t\ttr.U(8, i)", "\t\tif i%3 == 1 {", "\t\t\ti++", "\t\t\tbreak", "\t\t}",
                  "\t\tif i%3 == 0 {", "\t\t\tYIELD(i)", "\t\t}", "\t\ti++", "\t}", "}", "tr.E(9)", "YIELD(99)", "tr.E(10)", "RETURN"]
GENS["Rounds3"] = ["i := 0", "lim := []int{4, 2, 9}", "lt := func(a, b int) bool { tr.U(7, a*100+b); return a < b }",
                   "for r := 0; r < len(lim); r++ {", "\tfor lt(i, lim[r]) {", "\t\ttr.U(8, i)", "\t\tif i%3 == 1 {", "\t\t\ti++", "\t\t\tbreak", "\t\t}",
                   "\t\tif i%3 == 0 {", "\t\t\tYIELD(i)", "\t\t}", "\t\ti++", "\t}", "}", "YIELD(98)", "RETURN"]
# a closure over a nil interface receiver: the nil dereference belongs to the CALL of the closure (second advance), not to the
# place where the closure is written (first advance)
GENS["NilIfaceRecv"] = ["var s tr.Src", "more := func() bool { return s.More() }", "YIELD(7)", "for more() {", "\tYIELD(1)", "}", "RETURN"]
GENS["NilPtrRecvOnce"] = ["var c *tr.Counter", "more := func() bool { return c.More() }", "YIELD(7)", "if more() {", "\tYIELD(2)", "}", "RETURN"]
# the operand of `return <expr>` is evaluated (its value is dropped): a call-free operand that panics must still panic
GENS["ReturnOperandIndex"] = {
    "co": ["xs := make([]Iter[int], 2)", "i := 3", "tr.U(2, i)", "YIELD(len(xs))", "if tr.C(1) {", "\treturn xs[i]", "}", "YIELD(-1)", "RETURN"],
    "ref": ["xs := make([]refco.Iter, 2)", "i := 3", "tr.U(2, i)", "YIELD(len(xs))", "if tr.C(1) {", "\t_ = xs[i]", "\treturn", "}", "YIELD(-1)", "RETURN"]}
GENS["ReturnOperandField"] = {
    "co": ["type chain struct{ rest Iter[int] }", "var c *chain", "if c != nil {", "\ttr.E(5)", "}", "YIELD(1)", "if tr.C(1) {", "\treturn c.rest", "}", "YIELD(-1)", "RETURN"],
    "ref": ["type chain struct{ rest refco.Iter }", "var c *chain", "if c != nil {", "\ttr.E(5)", "}", "YIELD(1)", "if tr.C(1) {", "\t_ = c.rest", "\treturn", "}", "YIELD(-1)", "RETURN"]}
# YieldFrom evaluates its operand once: the delegate replaces the field it was read from while delegation is under way
GENS["FieldDelegate"] = {
    "co": ["type box struct{ cur Iter[int] }", "x := &box{}", "var mk func(base int, next Iter[int]) Iter[int]",
           "mk = func(base int, next Iter[int]) Iter[int] {", "\tYield(base)", "\tx.cur = next", "\tYield(base + 1)", "\treturn nil", "}",
           "x.cur = mk(10, mk(20, nil))", "YIELDFROM(x.cur)", "YIELD(99)", "RETURN"],
    "ref": ["type box struct{ cur refco.Iter }", "x := &box{}", "var mk func(base int, next refco.Iter) refco.Iter",
            "mk = func(base int, next refco.Iter) refco.Iter {", "\treturn refco.New(func(y2 *refco.Y) {", "\t\ty2.Yield(base)", "\t\tx.cur = next", "\t\ty2.Yield(base + 1)", "\t})", "}",
            "x.cur = mk(10, mk(20, nil))", "YIELDFROM(x.cur)", "YIELD(99)", "RETURN"]}
GENS["FieldRange"] = {
    "co": ["type box struct{ cur Iter[int] }", "x := &box{}", "var mk func(base int, next Iter[int]) Iter[int]",
           "mk = func(base int, next Iter[int]) Iter[int] {", "\tYield(base)", "\tx.cur = next", "\tYield(base + 1)", "\treturn nil", "}",
           "x.cur = mk(10, mk(20, nil))", "for v := range x.cur {", "\tYIELD(v)", "}", "YIELD(99)", "RETURN"],
    "ref": ["type box struct{ cur refco.Iter }", "x := &box{}", "var mk func(base int, next refco.Iter) refco.Iter",
            "mk = func(base int, next refco.Iter) refco.Iter {", "\treturn refco.New(func(y2 *refco.Y) {", "\t\ty2.Yield(base)", "\t\tx.cur = next", "\t\ty2.Yield(base + 1)", "\t})", "}",
            "x.cur = mk(10, mk(20, nil))", "for it := x.cur; it.MoveNext(); {", "\tv := it.Current()", "\tYIELD(v)", "}", "YIELD(99)", "RETURN"]}

# ---- round 4 of seeded changes ----
# the init statement of an inner loop that closes the outer loop's body declares a name the outer body already uses:
# the inner `width` must stay a different variable (closure created before the loop keeps seeing / updating the outer one)
GENS["HoistCollision"] = ["for round := 1; round <= 3; round++ {", "\twidth := round * 10", "\tprobe := func() int { return width }",
                          "\tfor i, width := 0, round; i < width; i++ {", "\t\tYIELD(i)", "\t\ttr.U(1, probe())", "\t}", "}", "RETURN"]
GENS["HoistCollisionWrite"] = ["for round := 1; round <= 2; round++ {", "\twidth := 100", "\tgrow := func() { width += 100 }",
                               "\tfor i, width := 0, 2; i < width; i++ {", "\t\tgrow()", "\t\tYIELD(i)", "\t}", "\ttr.U(2, width)", "}", "RETURN"]
# an iterator of iterators: the element type of a generator mentions the iterator type itself
GENS["IterOfIters"] = {
    "co": ["span := func(lo, hi int) Iter[int] {", "\tfor i := lo; i < hi; i++ {", "\t\tYield(i)", "\t}", "\treturn nil", "}",
           "chunks := func() Iter[Iter[int]] {", "\tYield(span(0, 2))", "\tYield(span(10, 12))", "\treturn nil", "}",
           "for c := range chunks() {", "\tfor v := range c {", "\t\tYIELD(v)", "\t}", "}", "RETURN"],
    "ref": ["for _, base := range []int{0, 10} {", "\tfor i := base; i < base+2; i++ {", "\t\tYIELD(i)", "\t}", "}", "RETURN"]}
# a generator literal nested inside an ordinary closure delegates with YieldFrom
GENS["NestedLitYieldFrom"] = {
    "co": ["mk := func(tag int) func() Iter[int] {", "\treturn func() Iter[int] {", "\t\tsub := func() Iter[int] {", "\t\t\tYield(tag)", "\t\t\tYield(tag + 1)", "\t\t\treturn nil", "\t\t}",
           "\t\tYield(-tag)", "\t\tYieldFrom(sub())", "\t\treturn nil", "\t}", "}", "YIELDFROM(mk(10)())", "YIELD(99)", "RETURN"],
    "ref": ["YIELD(-10)", "YIELD(10)", "YIELD(11)", "YIELD(99)", "RETURN"]}
# a long history of delegations: many (empty) delegates that finish one after the other
GENS["ManyDelegates"] = {
    "co": ["mk := func(n int) Iter[int] {", "\tif n > 0 {", "\t\tYield(n)", "\t}", "\treturn nil", "}",
           "for i := 0; i < 300000; i++ {", "\tYIELDFROM(mk(0))", "}", "YIELD(7)", "RETURN"],
    "ref": ["for i := 0; i < 300000; i++ {", "}", "YIELD(7)", "RETURN"]}

# ---- one closure of eta shape per class of callee the optimiser distinguishes (coq/EtaModel.v): name ->
# (class term of the model, arguments are the parameters in order, literal and callee have identical types, variable, body)
ETA_CASES = {
    "EtaPkg": ("CPkgFunc 0", True, True, "t", ["t := func(x int) int { return tr.Twice(x) }", "return []int{t(4)}"]),
    "EtaGenericFull": ("CPkgFunc 1", True, True, "b", ["b := func(x int) int { return tr.Id[int](x) }", "return []int{b(2)}"]),
    "EtaGenericInferred": ("CPartialGeneric 1", True, False, "a", ["a := func(x int) int { return tr.Id(x) }", "return []int{a(1)}"]),
    "EtaGenericPartial": ("CPartialGeneric 2", True, False, "p", ["p := func(x, y int) int { return tr.Pair[int](x, y) }", "return []int{p(3, 4)}"]),
    "EtaVar": ("CVar 0", True, True, "g", ["f := func(x int) int { return x + 1 }", "g := func(x int) int { return f(x) }", "a := g(1)",
                                          "f = func(x int) int { return x * 10 }", "return []int{a, g(1)}"]),
    "EtaMethodUser": ("CMethodUser 0 0", True, True, "get", ["cur := &tr.Cell{V: 1, Next: &tr.Cell{V: 2}}", "get := func() int { return cur.Get() }", "a := get()",
                                                             "cur = cur.Next", "return []int{a, get()}"]),
    "EtaMethodValue": ("CMethodUser 1 0", True, True, "val", ["c := tr.Cell{V: 1}", "val := func() int { return c.Val() }", "a := val()", "c.V = 9", "return []int{a, val()}"]),
    "EtaCallResult": ("CCallResult 0", True, True, "g", ["n := 0", "mk := func() func() int { n++; return func() int { return n } }", "g := func() int { return mk()() }",
                                                         "a := g()", "return []int{a, g(), n}"]),
    "EtaBuiltin": ("CBuiltin 0", True, False, "l", ["l := func(s []int) int { return len(s) }", "return []int{l([]int{1, 2, 3})}"]),
    "EtaConversion": ("CConversion 0", True, False, "c", ["c := func(x int) int64 { return int64(x) }", "return []int{int(c(2))}"]),
    "EtaPermuted": ("CPkgFunc 2", False, True, "flip", ["flip := func(a, b int) int { return tr.Sub(b, a) }", "return []int{flip(10, 3)}"]),
    "EtaRepeated": ("CPkgFunc 2", False, True, "dup", ["dup := func(a, b int) int { return tr.Sub(a, a) }", "return []int{dup(10, 3)}"]),
    "EtaForward": ("CPkgFunc 2", True, True, "fwd", ["fwd := func(a, b int) int { return tr.Sub(a, b) }", "return []int{fwd(10, 3)}"]),
}
for _n, (_c, _am, _ti, _v, _lines) in ETA_CASES.items():
    BYSTANDERS[_n] = _lines

def render(mode, pkg="oc"):
    """mode: 'co' (input of the compiler) or 'ref' (reference rendering on refco)."""
    out = ["package %s" % pkg, ""]
    if mode == "co":
        out += ["import (", '\t. "github.com/goghcrow/go-co"', '\t"genmod/tr"', ")", ""]
    else:
        out += ["import (", '\t"genmod/refco"', '\t"genmod/tr"', ")", ""]
    out += VAR_DECLS + [""]
    for name, lines in GENS.items():
        if isinstance(lines, dict):
            lines = lines[mode]
        if mode == "co":
            out.append("func %s() Iter[int] {" % name)
            for l in lines:
                out.append("\t" + l.replace("YIELDFROM(", "YieldFrom(").replace("YIELD(", "Yield(").replace("RETURN", "return nil"))
            out.append("}")
        else:
            out.append("func %s() refco.Iter {" % name)
            out.append("\treturn refco.New(func(y *refco.Y) {")
            for l in lines:
                out.append("\t\t" + l.replace("YIELDFROM(", "y.YieldFrom(").replace("YIELD(", "y.Yield(").replace("RETURN", "return"))
            out.append("\t})")
            out.append("}")
        out.append("")
    for name, lines in BYSTANDERS.items():
        out.append("func %s() []int {" % name)
        for l in lines:
            out.append("\t" + l)
        out.append("}")
        out.append("")
    return "\n".join(out)
