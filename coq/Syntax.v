(* Syntax.v — abstract syntax of generator bodies, shared by source and target of
   the rewriter (DESIGN.md §3.4).  Everything the compiler treats as opaque — simple
   statements, conditions, switch tags, yielded expressions — is a natural number
   naming the Go text; control structure is deep.  A target program is a source
   program that may also contain [SRet e], "return <seq expression>". *)
From Coq Require Import List Arith Bool.
Import ListNotations.

Inductive clabel :=
| LDefault
| LVals (vs : list nat)      (* case v1, v2: (expression switch) *)
| LCond (c : nat).           (* case cond: (tag-less switch) *)

Inductive stmt :=
| SAtom (a : nat)
| SYield (v : nat)
| SBlock (b : list stmt)
| SIf (init : option stmt) (c : nat) (th : list stmt) (el : els)
| SSwitch (init : option stmt) (tag : option nat) (cases : list (clabel * list stmt))
| SFor (init : option stmt) (c : option nat) (post : option stmt) (b : list stmt)
| SBreak | SContinue | SReturn | SFallthrough
| SRet (e : sexp)
with els :=
| ENone
| EElse (b : list stmt)
| EElif (s : stmt)
with sexp :=
| XBind (v : nat) (t : thunk)                 (* seq.Bind(v, t) *)
| XDelay (t : thunk)                          (* seq.Delay(t) *)
| XCombine (a b : sexp)                       (* seq.Combine(a, b) *)
| XFor (c : option cnd) (p : option stmt) (body : sexp)
                                              (* seq.For/While/Loop(cond, func() {p}, body) *)
| XNormal | XBreak | XContinue | XReturn
with thunk :=
| TLit (body : list stmt)                     (* func() Seq[T] { body } *)
| TSig (x : sexp)                             (* the function value seq.Normal[T] etc. (after eta reduction) *)
with cnd :=
| CExp (e : nat)                              (* func() bool { return e } *)
| CFun (f : nat).                             (* a function value used as the condition (after eta reduction) *)

(* ---- boolean equality (used by the structural correspondence) ---- *)
Fixpoint nlist_eqb (a b : list nat) : bool :=
  match a, b with
  | [], [] => true
  | x :: r, y :: s => Nat.eqb x y && nlist_eqb r s
  | _, _ => false
  end.

Definition onat_eqb (a b : option nat) : bool :=
  match a, b with
  | None, None => true
  | Some x, Some y => Nat.eqb x y
  | _, _ => false
  end.

Definition clabel_eqb (a b : clabel) : bool :=
  match a, b with
  | LDefault, LDefault => true
  | LVals x, LVals y => nlist_eqb x y
  | LCond x, LCond y => Nat.eqb x y
  | _, _ => false
  end.

Fixpoint stmt_eqb (n : nat) (a b : stmt) {struct n} : bool :=
  match n with 0 => false | S n =>
    let list_eqb := fix go (x y : list stmt) : bool :=
      match x, y with
      | [], [] => true
      | p :: r, q :: s => stmt_eqb n p q && go r s
      | _, _ => false
      end in
    let ostmt_eqb := fun (x y : option stmt) =>
      match x, y with
      | None, None => true
      | Some p, Some q => stmt_eqb n p q
      | _, _ => false
      end in
    let cases_eqb := fix go (x y : list (clabel * list stmt)) : bool :=
      match x, y with
      | [], [] => true
      | (l1, b1) :: r, (l2, b2) :: s => clabel_eqb l1 l2 && list_eqb b1 b2 && go r s
      | _, _ => false
      end in
    match a, b with
    | SAtom x, SAtom y => Nat.eqb x y
    | SYield x, SYield y => Nat.eqb x y
    | SBlock x, SBlock y => list_eqb x y
    | SIf i1 c1 t1 e1, SIf i2 c2 t2 e2 =>
        ostmt_eqb i1 i2 && Nat.eqb c1 c2 && list_eqb t1 t2 &&
        match e1, e2 with
        | ENone, ENone => true
        | EElse x, EElse y => list_eqb x y
        | EElif x, EElif y => stmt_eqb n x y
        | _, _ => false
        end
    | SSwitch i1 t1 c1, SSwitch i2 t2 c2 => ostmt_eqb i1 i2 && onat_eqb t1 t2 && cases_eqb c1 c2
    | SFor i1 c1 p1 b1, SFor i2 c2 p2 b2 => ostmt_eqb i1 i2 && onat_eqb c1 c2 && ostmt_eqb p1 p2 && list_eqb b1 b2
    | SBreak, SBreak | SContinue, SContinue | SReturn, SReturn | SFallthrough, SFallthrough => true
    | SRet e1, SRet e2 =>
        (fix sx (m : nat) (e1 e2 : sexp) {struct m} : bool :=
           match m with 0 => false | S m =>
             let th := fun (t1 t2 : thunk) =>
               match t1, t2 with
               | TLit x, TLit y => list_eqb x y
               | TSig x, TSig y => sx m x y
               | _, _ => false
               end in
             match e1, e2 with
             | XBind v1 t1, XBind v2 t2 => Nat.eqb v1 v2 && th t1 t2
             | XDelay t1, XDelay t2 => th t1 t2
             | XCombine a1 b1, XCombine a2 b2 => sx m a1 a2 && sx m b1 b2
             | XFor c1 p1 x, XFor c2 p2 y =>
                 match c1, c2 with
                 | None, None => true
                 | Some (CExp a), Some (CExp b) => Nat.eqb a b
                 | Some (CFun a), Some (CFun b) => Nat.eqb a b
                 | _, _ => false
                 end && ostmt_eqb p1 p2 && sx m x y
             | XNormal, XNormal | XBreak, XBreak | XContinue, XContinue | XReturn, XReturn => true
             | _, _ => false
             end
           end) n e1 e2
    | _, _ => false
    end
  end.

Definition stmts_eqb (n : nat) (x y : list stmt) : bool :=
  (fix go (x y : list stmt) : bool :=
     match x, y with
     | [], [] => true
     | p :: r, q :: s => stmt_eqb n p q && go r s
     | _, _ => false
     end) x y.

(* ---- does a statement contain a yield?  (rewriter.containsYield: the search does
   not enter function literals; atoms are opaque, so closures are inside atoms) ---- *)
Fixpoint has_yield (n : nat) (s : stmt) {struct n} : bool :=
  match n with 0 => false | S n =>
    let any := fix go (l : list stmt) : bool :=
      match l with [] => false | x :: r => has_yield n x || go r end in
    let opt := fun (o : option stmt) => match o with None => false | Some x => has_yield n x end in
    match s with
    | SYield _ => true
    | SBlock b => any b
    | SIf i _ t e => opt i || any t || match e with ENone => false | EElse b => any b | EElif x => has_yield n x end
    | SSwitch i _ cs => opt i || (fix go (l : list (clabel * list stmt)) : bool :=
                                    match l with [] => false | (_, b) :: r => any b || go r end) cs
    | SFor i _ p b => opt i || opt p || any b
    | _ => false
    end
  end.

(* size, used as fuel *)
Fixpoint size (n : nat) (s : stmt) {struct n} : nat :=
  match n with 0 => 0 | S n =>
    let sum := fix go (l : list stmt) : nat :=
      match l with [] => 0 | x :: r => size n x + go r end in
    let opt := fun (o : option stmt) => match o with None => 0 | Some x => size n x end in
    1 + match s with
        | SBlock b => sum b
        | SIf i _ t e => opt i + sum t + match e with ENone => 0 | EElse b => sum b | EElif x => size n x end
        | SSwitch i _ cs => opt i + (fix go (l : list (clabel * list stmt)) : nat :=
                                       match l with [] => 0 | (_, b) :: r => 1 + sum b + go r end) cs
        | SFor i _ p b => opt i + opt p + sum b
        | _ => 0
        end
  end.
