(* IterExec.v — executable comparison of observed iterator output (from the real
   seq.New*Iter constructors) with the models of Iters.v and the range
   specification.  Used by the generated cases files of the C10 check. *)
From Coq Require Import List ZArith Bool Arith.
From Verif Require Import Utf8 Iters.
Import ListNotations.

Inductive icase :=
| IStr (bytes : list Z) (obs : list (Z * Z))
| IInt (n : Z) (obs : list Z)
| ISlice (init : list Z) (script : list (nat * nat * Z)) (obs : list (Z * Z))
| IChan (q : list Z) (obs : list Z).

Fixpoint zlist_eqb (a b : list Z) : bool :=
  match a, b with
  | [], [] => true
  | x :: r, y :: s => Z.eqb x y && zlist_eqb r s
  | _, _ => false
  end.
Fixpoint zzlist_eqb (a b : list (Z * Z)) : bool :=
  match a, b with
  | [], [] => true
  | (x1, x2) :: r, (y1, y2) :: s => Z.eqb x1 y1 && Z.eqb x2 y2 && zzlist_eqb r s
  | _, _ => false
  end.

Fixpoint setnth (l : list Z) (i : nat) (x : Z) : list Z :=
  match l, i with
  | [], _ => []
  | _ :: t, 0 => x :: t
  | h :: t, S i' => h :: setnth t i' x
  end.

(* the loop body of iteration i: all writes scheduled for step i, in order *)
Definition body_of (script : list (nat * nat * Z)) (i : nat) (st : list Z) : list Z :=
  fold_left (fun s e => let '(step, idx, v) := e in if Nat.eqb step i then setnth s idx v else s) script st.

(* 0 = agree; 1 = iterator model differs from implementation; 2 = range specification differs *)
Definition check_icase (c : icase) : nat :=
  match c with
  | IStr bytes obs =>
      let m := map (fun p => (Z.of_nat (fst p), snd p)) (fst (drain str_moveNext str_current (S (length bytes)) (new_str bytes))) in
      let s := map (fun p => (Z.of_nat (fst p), snd p)) (range_string bytes) in
      if negb (zzlist_eqb m obs) then 1 else if negb (zzlist_eqb s obs) then 2 else 0
  | IInt n obs =>
      let m := fst (drain int_moveNext int_current (S (Z.to_nat n)) (new_int n)) in
      if negb (zlist_eqb m obs) then 1 else if negb (zlist_eqb (range_int n) obs) then 2 else 0
  | ISlice init script obs =>
      let len := length init in
      let m := fst (sl_loop 0%Z (S len) (new_slice len) (body_of script) 0 init) in
      let s := fst (range_slice 0%Z len (body_of script) 0 init) in
      if negb (zzlist_eqb m obs) then 1 else if negb (zzlist_eqb s obs) then 2 else 0
  | IChan q obs =>
      match ch_drain 0%Z (S (length q)) {| ch_q := q; ch_closed := true |} 0%Z with
      | Some m => if negb (zlist_eqb m obs) then 1 else 0
      | None => 1
      end
  end.

Fixpoint imismatches_from (i : nat) (cs : list icase) : list (nat * nat) :=
  match cs with
  | [] => []
  | c :: rest => match check_icase c with
                 | 0 => imismatches_from (S i) rest
                 | k => (i, k) :: imismatches_from (S i) rest
                 end
  end.
Definition imismatches (cs : list icase) := imismatches_from 0 cs.
