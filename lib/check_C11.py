import ccheck
import cprops


def check(rep, tier):
    cprops.check(rep, tier, "C11")


replay = ccheck.replay
