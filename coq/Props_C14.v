(* Props_C14.v — iterators are independent.  Partial by nature: goroutines, the Go
   memory model and the race detector are outside any sequential model; what is
   proved is that the runtime keeps no state outside the cells each Start
   allocates, for every interleaving of operations on any number of iterators. *)
From Verif Require Import Base SeqMachine SeqRef SeqFrame Protocol Indep.

(* k generators started in one machine heap, any schedule of operations (and
   consumer actions on the world): responses and world are those of k independent
   reference generators that share nothing but the user-visible world *)
Theorem C14_interleaving :
  forall (U V P : Type) (zeroV : V) (n : nat) (ss : list (seqv U V P)) (h : list (nat * gop U V)) (u : U),
    let '(m0, _, gs) := start_all zeroV ss (empty_st V P u) in
    match mm_hist zeroV n gs h m0 with
    | None => rr_hist zeroV n (map (r_fresh zeroV) ss) h u = None
    | Some (m', l) => exists rgs', rr_hist zeroV n (map (r_fresh zeroV) ss) h u = Some (rgs', world m', l)
    end.
Proof. exact independent_generators. Qed.
Print Assumptions C14_interleaving.

(* the frame property behind it: one operation on generator g (co cell c) changes no
   other generator record and no other co cell *)
Theorem C14_operation_touches_own_cells_only :
  forall (U V P : Type) (zeroV : V) n d o (m : st U V P) c g rg,
    grel c g rg m ->
    match m_op zeroV n d g o m with
    | None => True
    | Some (m', _) => untouched c g m m'
    end.
Proof.
  intros U V P zeroV n d o m c g rg H. pose proof (op_refines zeroV n d o H) as R.
  destruct (m_op zeroV n d g o m) as [[m' a]|]; [|exact I]. destruct R as [rg' [_ [_ Hu]]]. exact Hu.
Qed.
Print Assumptions C14_operation_touches_own_cells_only.

(* non-vacuity: two generators from the same term, interleaved; each yields its own 1, 2 *)
Example C14_example :
  let s : seqv unit nat nat := SBind 1 (fun _ u => Some (Ok u (SBind 2 (fun _ u => Some (Ok u (SOfK KNormal)))))) in
  let '(m0, _, gs) := start_all 0 [s; s] (empty_st nat nat tt) in
  exists m', mm_hist 0 10 gs [(0, OMoveNext); (1, OMoveNext); (1, OMoveNext); (0, OCurrent); (1, OCurrent); (0, OMoveNext); (0, OCurrent)] m0
             = Some (m', [RBool true; RBool true; RBool true; RVal 1; RVal 2; RBool true; RVal 2]).
Proof. eexists. vm_compute. reflexivity. Qed.
