"""C17 — stack depth does not grow with the number of iterations between yields."""
import json
import os
import random

import common as C
import rtcheck
import rtgen
import rtprops

N = {"k": "sig", "t": "normal"}
CONT = {"k": "sig", "t": "continue"}


def loop_forms(n):
    """Loop shapes that run n iterations without yielding, then yield once."""
    cond = lambda r: {"id": 0, "acts": [["add", r, 1]], "e": ["lt", r, n]}
    post = {"id": 0, "acts": [["log", 1]]}
    tail = {"k": "bind", "v": ["reg", 0], "id": 0, "acts": [], "body": N}
    bodies = {
        "normal": N, "continue": CONT,
        "delay_normal": {"k": "delay", "id": 0, "acts": [], "body": N},
        "combine_cont": {"k": "combine", "a": {"k": "delay", "id": 0, "acts": [], "body": CONT}, "b": N},
        "if_continue_else_yield": {"k": "combine",
                                   "a": {"k": "delay", "id": 0, "acts": [], "body": CONT},
                                   "b": {"k": "bind", "v": ["const", 5], "id": 0, "acts": [], "body": N}},
        "nested_inner": {"k": "for", "c": {"id": 0, "acts": [["add", 1, 1]], "e": ["ne", 1, 3]}, "p": None,
                         "b": {"k": "delay", "id": 0, "acts": [["set", 1, 2]], "body": N}},
    }
    out = {}
    for bn, b in bodies.items():
        for pn, p in (("while", None), ("for", post)):
            t = {"k": "combine", "a": {"k": "for", "c": cond(0), "p": p, "b": rtgen.copy(b)}, "b": rtgen.copy(tail)}
            out["%s/%s" % (pn, bn)] = rtgen.assign_ids(t)
    # infinite loop form leaving by break
    t = {"k": "combine",
         "a": {"k": "for", "c": None, "p": None,
               "b": {"k": "delay", "id": 0, "acts": [["add", 0, 1]],
                     "body": {"k": "combine", "a": {"k": "for", "c": {"id": 0, "acts": [], "e": ["lt", 0, n]}, "p": None, "b": CONT},
                              "b": {"k": "sig", "t": "break"}}}},
         "b": rtgen.copy(tail)}
    # (the inner loop above spins until reg0 reaches n only through the outer delay; keep it simple instead)
    t = {"k": "combine",
         "a": {"k": "for", "c": None, "p": None,
               "b": {"k": "delay", "id": 0, "acts": [["add", 0, 1]],
                     "body": {"k": "combine",
                              "a": {"k": "for", "c": {"id": 0, "acts": [], "e": ["lt", 0, n]}, "p": None, "b": {"k": "sig", "t": "break"}},
                              "b": {"k": "sig", "t": "break"}}}},
         "b": rtgen.copy(tail)}
    out["loop/break_when_done"] = rtgen.assign_ids(t)
    # a loop that suspends in its FIRST iteration (a header element) and only then runs its n non-yielding iterations:
    # the inner one-shot loop `for reg1 < 1 { yield 7; reg1 = 1 }` is the `if first { Yield }` of a filter
    for pn, p in (("while", None), ("for", post)):
        header = {"k": "for", "c": {"id": 0, "acts": [], "e": ["lt", 1, 1]}, "p": None,
                  "b": {"k": "bind", "v": ["const", 7], "id": 0, "acts": [["set", 1, 1]], "body": N}}
        t = {"k": "combine", "a": {"k": "for", "c": cond(0), "p": p, "b": header}, "b": rtgen.copy(tail)}
        out["%s/header_then_stretch" % pn] = rtgen.assign_ids(t)
        # the same with the header yielded by the loop body directly and the stretch in a nested loop run
        inner = {"k": "for", "c": cond(0), "p": None, "b": CONT}
        t = {"k": "combine", "a": {"k": "for", "c": {"id": 0, "acts": [["add", 2, 1]], "e": ["lt", 2, 3]}, "p": p,
                                    "b": {"k": "bind", "v": ["reg", 2], "id": 0, "acts": [], "body": inner}}, "b": rtgen.copy(tail)}
        out["%s/yield_then_inner_stretch" % pn] = rtgen.assign_ids(t)
    # `for {}` (seq.Loop) that suspends in its first iteration and then runs n non-yielding iterations before it returns:
    #   for { r0++; r2 = 0; if r0 != n { r2 = 1 }; if r2 != 1 { return }; if r1 < 1 { yield 7; r1 = 1 } }
    brk = {"k": "sig", "t": "break"}
    body = {"k": "delay", "id": 0, "acts": [["add", 0, 1], ["set", 2, 0]], "body": {"k": "combine",
            "a": {"k": "for", "c": {"id": 0, "acts": [], "e": ["ne", 0, max(n, 2)]}, "p": None,
                  "b": {"k": "delay", "id": 0, "acts": [["set", 2, 1]], "body": brk}},
            "b": {"k": "combine",
                  "a": {"k": "for", "c": {"id": 0, "acts": [], "e": ["ne", 2, 1]}, "p": None, "b": {"k": "retv", "v": ["const", 5]}},
                  "b": {"k": "for", "c": {"id": 0, "acts": [], "e": ["lt", 1, 1]}, "p": None,
                        "b": {"k": "bind", "v": ["const", 7], "id": 0, "acts": [["set", 1, 1]], "body": N}}}}}
    out["loop/header_then_stretch_return"] = rtgen.assign_ids({"k": "for", "c": None, "p": None, "b": body})
    return out


def check(rep, tier):
    if not rtprops.proof_or_violation(rep, "C17"):
        return
    rng = random.Random(C.seed() * 32452843 + 17)
    cases, meta = [], []
    counts = (1, 2, 10, 100, 700)
    for n in counts:
        for name, t in loop_forms(n).items():
            cases.append({"terms": [t], "hist": [[0, "mn"], [0, "cur"], [0, "mn"], [0, "mn"], [0, "mn"]], "budget": 4000})
            meta.append((name, n))
    for i in range(150 if tier == "quick" else 1500):
        cases.append(rtgen.make_case(rng, rng.choice([4, 8, 12]), ngens=1, histlen=6, budget=300, panics=False))
        meta.append(("random", 0))
    rule = ("loop forms (while/for/loop x bodies normal, continue, delay, combine-with-continue, filter that yields, nested "
            "loop, break) run for n in %s non-yielding iterations, plus random terms; the depth (runtime.Callers) of EVERY "
            "user-code call on the real runtime is compared with the machine model's depth log exactly, and the maximum depth "
            "must not depend on n" % (counts,))

    def extra(work, exe, results):
        # the property itself on the real runtime: max depth independent of n
        by = {}
        for (name, n), r in zip(meta, results):
            if name == "random":
                continue
            by.setdefault(name, {})[n] = max(r["depths"]) if r["depths"] else 0
        rep.coverage["max_depth_by_form_and_n"] = by
        for name, d in by.items():
            steady = {n: v for n, v in d.items() if n >= 10}   # below that the loop body may not run at all
            if len(set(steady.values())) > 1:
                path = rep.write_replay("depth_grows", {"what": "stack depth grows with the iteration count for loop form " + name,
                                                        "max_depth_by_n": d,
                                                        "case": [c for c, mt in zip(cases, meta) if mt == (name, max(d))][0]})
                rep.violation(path)
                break
        if rep.violations:
            return      # growth already shown at small counts: the long runs would only exhaust the stack
        # long runs on the real runtime only (no Coq): 10^5 / 10^6 iterations
        big = 100000 if tier == "quick" else 1000000
        bc, bm = [], []
        for name, t in loop_forms(big).items():
            bc.append({"terms": [t], "hist": [[0, "mn"], [0, "mn"], [0, "mn"]], "budget": 20 * big})
            bm.append(name)
        br = rtcheck.run_go(exe, bc, timeout=1200)
        bigd = {}
        for name, r in zip(bm, br):
            if r.get("err"):
                raise RuntimeError("driver error: " + r["err"])
            bigd[name] = max(r["depths"]) if r["depths"] else 0
            ref = by.get(name, {}).get(100)
            if ref and bigd[name] > ref + 2:
                path = rep.write_replay("depth_grows_big", {"what": "stack depth after %d iterations exceeds depth after 100" % big,
                                                            "form": name, "depth_100": ref, "depth_big": bigd[name]})
                rep.violation(path)
                break
        rep.coverage["max_depth_at_%d_iterations" % big] = bigd

    rtprops.correspondence(rep, "C17", cases, rule, codes=(1, 2, 3, 4), extra=extra,
                           what="depth log of the real runtime differs from the machine model")
    rep.coverage["partial"] = ("theorem C17_bounded_partial covers loops whose body completes synchronously with Normal/Continue; "
                               "other bodies rely on the exact depth correspondence and the measurements above")


replay = rtprops.replay
