(* C01Legal.v — the compiler theorem with side conditions on the INPUT only, for bodies without `fallthrough`:
   legality of the model's output (Strict.legalb) is derived (Legal.v with sf = true, P3Term.v, P3Legal.v)
   instead of being checked. *)
From Coq Require Import List Arith Bool Lia.
From Verif Require Import Base Syntax Sem Rewrite Side P3Rel C01Main Legal P3Term P3Legal.
Import ListNotations.

Lemma KS_bound199 : S (S (S KS)) <= 199.
Proof. unfold KS. lia. Qed.
Lemma KS_boundP3 : S (S (S KS)) < P3FUEL.
Proof. unfold KS, P3FUEL. lia. Qed.

(* the output of the rewriter model is legal *)
Theorem rewrite_legal body mid out ks :
  supps2 true ks (map (pass0 400) body) = true ->
  pass12 body = OK mid -> rewrite body = OK out ->
  forallb (fitsb KS) mid = true ->
  legalb (S (S KS)) out = true.
Proof.
  intros Hs H12 Hr Hf.
  destruct (rewrite_spec body out Hr) as [mid' [H12' ->]]. rewrite H12 in H12'. injection H12' as <-.
  destruct (pass12_spec body mid H12) as [B [HB ->]].
  destruct (pass2_terminates true _ ks _ B Hs HB) as [Hl Hw].
  exact (pass3_legal KS (bstmts B) KS_boundP3 KS_bound199 Hf Hw Hl).
Qed.

Lemma c01_hyps_nf_spec body : c01_hyps_nf body = true ->
  exists mid, pass12 body = OK mid /\ supps2 true KS (map (pass0 400) body) = true /\
              forallb (fitsb KS) body = true /\ forallb (fitsb KS) mid = true.
Proof.
  unfold c01_hyps_nf. destruct (pass12 body) as [mid|e]; [|discriminate]. intros H.
  apply andb_prop in H. destruct H as [H H3]. apply andb_prop in H. destruct H as [H1 H2]. exists mid. auto.
Qed.

Section M.
  Variables U V P : Type.
  Variable aden : nat -> U -> outcome U P unit.
  Variable cden : nat -> U -> outcome U P bool.
  Variable tden : nat -> U -> outcome U P nat.
  Variable kval : nat -> nat.
  Variable yden : nat -> U -> outcome U P V.
  Variable env : nat -> V -> U -> U * bool.

  Theorem compiler_correct_nofall body :
    c01_hyps_nf body = true ->
    exists out, rewrite body = OK out /\ legalb (S (S KS)) out = true /\
      forall n u f,
        run_source aden cden tden kval yden env n body u = Some f -> f <> FStuck ->
        exists m, run_target aden cden tden kval yden env true m out u = Some f.
  Proof.
    intros Hh. destruct (c01_hyps_nf_spec body Hh) as [mid [H12 [Hs [Hfb Hfm]]]].
    assert (Hout : exists out, rewrite body = OK out).
    { rewrite rewrite_pass12, H12. cbn [bind]. eauto. }
    destruct Hout as [out Hr]. exists out. split; [exact Hr|].
    pose proof (rewrite_legal body mid out KS Hs H12 Hr Hfm) as Hl. split; [exact Hl|].
    exact (compiler_correct U V P aden cden tden kval yden env body mid out KS KS (S (S KS)) H12 Hr (supps2_supps true KS _ Hs) Hfb Hfm KS_bound Hl).
  Qed.
End M.
