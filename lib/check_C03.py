import ccheck
import cprops


def check(rep, tier):
    cprops.check(rep, tier, "C03")


replay = ccheck.replay
