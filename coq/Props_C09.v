(* Props_C09.v — iterator protocol.  The machine's generator object refines the
   specification automaton [rgen] for every history (C09_machine_is_automaton);
   the sentences of the property are theorems about that automaton. *)
From Verif Require Import Base SeqMachine SeqRef Protocol ProtocolLaws.

(* seq.go's generator methods = the automaton, for every operation history *)
Theorem C09_machine_is_automaton :
  forall (U V P : Type) (zeroV : V) (n : nat) (s : seqv U V P) (h : list (gop U V)) (u : U),
    match m_hist zeroV n (snd (start zeroV s (empty_st V P u))) h (fst (start zeroV s (empty_st V P u))) with
    | None => r_hist zeroV n h (r_fresh zeroV s) u = None
    | Some (m', l) => exists rg', r_hist zeroV n h (r_fresh zeroV s) u = Some (rg', world m', l)
    end.
Proof. exact generator_refines. Qed.
Print Assumptions C09_machine_is_automaton.

(* every state reached by any history satisfies the invariant used below *)
Theorem C09_invariant_reachable :
  forall (U V P : Type) (zeroV : V) n h (s : seqv U V P) rg' u u' l,
    r_hist zeroV n h (r_fresh zeroV s) u = Some (rg', u', l) -> rinv zeroV rg'.
Proof. intros. eapply rinv_hist; [apply rinv_fresh|eassumption]. Qed.
Print Assumptions C09_invariant_reachable.

(* Current has no effect and returns the stored value ... *)
Theorem C09_current_pure :
  forall (U V P : Type) (zeroV : V) n (rg : rgen U V P) u,
    r_op zeroV n OCurrent rg u = Some (rg, u, RVal (r_current rg)).
Proof. exact current_pure. Qed.
Print Assumptions C09_current_pure.

(* ... which is the value delivered by the latest successful advance, ... *)
Theorem C09_current_is_latest_yield :
  forall (U V P : Type) (zeroV : V) n (rg rg' : rgen U V P) u u' b,
    r_op zeroV n OMoveNext rg u = Some (rg', u', RBool b) ->
    if b then exists r r', r_pending rg = Some r /\ resume zeroV n r zeroV u = Some (RYield (r_current rg') r' u')
    else r_pending rg' = None.
Proof. exact current_after_MoveNext. Qed.
Print Assumptions C09_current_is_latest_yield.

(* ... the zero value before the first advance and after exhaustion *)
Theorem C09_current_zero_before_first_advance :
  forall (U V P : Type) (zeroV : V) (rg : rgen U V P), rinv zeroV rg -> r_started rg = false -> r_current rg = zeroV.
Proof. exact current_zero_before_first_advance. Qed.
Print Assumptions C09_current_zero_before_first_advance.
Theorem C09_current_zero_after_exhaustion :
  forall (U V P : Type) (zeroV : V) (rg : rgen U V P), rinv zeroV rg -> r_pending rg = None -> r_current rg = zeroV.
Proof. exact current_zero_after_exhaustion. Qed.
Print Assumptions C09_current_zero_after_exhaustion.

(* an advance that reports false leaves the generator exhausted ... *)
Theorem C09_false_means_exhausted :
  forall (U V P : Type) (zeroV : V) n o (rg rg' : rgen U V P) u u' a,
    r_op zeroV n o rg u = Some (rg', u', a) ->
    (a = RBool false \/ exists y, a = RSent y false) -> r_pending rg' = None.
Proof. exact false_means_exhausted. Qed.
Print Assumptions C09_false_means_exhausted.

(* ... and from then on every operation leaves the world untouched (no generator
   code runs), keeps it exhausted and keeps Current and Result *)
Theorem C09_exhaustion_permanent :
  forall (U V P : Type) (zeroV : V) n o (rg rg' : rgen U V P) u u' a,
    r_pending rg = None -> (forall f, o <> OWorld f) -> r_op zeroV n o rg u = Some (rg', u', a) ->
    u' = u /\ r_pending rg' = None /\ r_current rg' = r_current rg /\ r_result rg' = r_result rg.
Proof. exact exhausted_stable. Qed.
Print Assumptions C09_exhaustion_permanent.
Theorem C09_exhausted_MoveNext_false :
  forall (U V P : Type) (zeroV : V) n (rg : rgen U V P) u,
    r_pending rg = None -> r_op zeroV n OMoveNext rg u = Some (r_setstarted rg, u, RBool false).
Proof. exact exhausted_MoveNext. Qed.
Print Assumptions C09_exhausted_MoveNext_false.

(* Send on an unstarted generator first advances it to its first yield (dropping
   that value), then behaves like Send on a started one *)
Theorem C09_send_unstarted :
  forall (U V P : Type) (zeroV : V) n v (rg : rgen U V P) u,
    r_started rg = false ->
    r_op zeroV n (OSend v) rg u =
      match r_op zeroV n OMoveNext rg u with
      | None => None
      | Some (rg1, u1, RBool true) => r_op zeroV n (OSend v) rg1 u1
      | Some (rg1, u1, RBool false) => Some (rg1, u1, RSent zeroV false)
      | Some (rg1, u1, a) => Some (rg1, u1, a)
      end.
Proof. exact send_unstarted. Qed.
Print Assumptions C09_send_unstarted.

(* Send on a started generator resumes it with v as the value of the pending yield
   and returns the next yielded value *)
Theorem C09_send_delivers_value :
  forall (U V P : Type) (zeroV : V) n v (rg : rgen U V P) u r,
    r_started rg = true -> r_pending rg = Some r ->
    r_op zeroV n (OSend v) rg u =
      match resume zeroV n r v u with
      | None | Some RStuck => None
      | Some (RPanic u' pv) => Some (rg, u', RPanicked pv)
      | Some (RYield y r' u') =>
          Some ({| r_started := true; r_pending := Some r'; r_current := y; r_result := r_result rg |}, u', RSent y true)
      | Some (RDone res u') =>
          Some ({| r_started := true; r_pending := None; r_current := zeroV; r_result := res |}, u', RSent zeroV false)
      end.
Proof. exact send_delivers_value. Qed.
Print Assumptions C09_send_delivers_value.

(* Result: pure, zero until completion, the return value afterwards *)
Theorem C09_result_pure :
  forall (U V P : Type) (zeroV : V) n (rg : rgen U V P) u,
    r_op zeroV n OResult rg u = Some (rg, u, RVal (r_result rg)).
Proof. exact result_pure. Qed.
Print Assumptions C09_result_pure.
Theorem C09_result_zero_until_done :
  forall (U V P : Type) (zeroV : V) (rg : rgen U V P), rinv zeroV rg -> r_pending rg <> None -> r_result rg = zeroV.
Proof. exact result_zero_until_done. Qed.
Print Assumptions C09_result_zero_until_done.
Theorem C09_result_is_return_value :
  forall (U V P : Type) (zeroV : V) n sent (rg rg' : rgen U V P) u u' r,
    r_pending rg = Some r -> r_moveNext zeroV n sent rg u = Some (rg', u', inl false) ->
    resume zeroV n r sent u = Some (RDone (r_result rg') u').
Proof. exact result_set_on_completion. Qed.
Print Assumptions C09_result_is_return_value.

(* non-vacuity: a two-yield generator with a return value, driven through all four operations *)
Example C09_example :
  let s : seqv unit nat nat := SBind 1 (fun _ u => Some (Ok u (SBind 2 (fun _ u => Some (Ok u (SRetV 42)))))) in
  exists rg',
    r_hist 0 10 [OCurrent; OMoveNext; OCurrent; OSend 7; OResult; OMoveNext; OResult; OMoveNext; OCurrent]
           (r_fresh 0 s) tt
    = Some (rg', tt, [RVal 0; RBool true; RVal 1; RSent 2 true; RVal 0; RBool false; RVal 42; RBool false; RVal 0]).
Proof. eexists. vm_compute. reflexivity. Qed.
