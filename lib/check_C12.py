"""C12 — unsupported constructs are rejected or preserved, never silently mistranslated."""
import collections
import random

import common as C
import ccheck
import cdiff
import cprops
import pgen


def snippets(g):
    """(name, statements, expectation) — expectation 'reject_or_equal' or 'accept' (negative control)."""
    f = g.fresh
    out = []
    a, b, c, d = f(), f(), f(), f()
    out.append(("goto", [{"s": "raw", "y": True, "text": ["L%d:" % a, "tr.E(%d)" % b, "YIELD(tr.V(%d))" % c, "if tr.C(%d) { goto L%d }" % (d, a)]}], "roe"))
    a, b, c, d, e = f(), f(), f(), f(), f()
    out.append(("labelled-break", [{"s": "raw", "y": True, "text": [
        "L%d:" % a, "for tr.C(%d) {" % b, "\tfor tr.C(%d) {" % c, "\t\tYIELD(tr.V(%d))" % d, "\t\tif tr.C(%d) { break L%d }" % (e, a), "\t}", "}"]}], "roe"))
    a, b, c, d, e = f(), f(), f(), f(), f()
    out.append(("labelled-continue", [{"s": "raw", "y": True, "text": [
        "L%d:" % a, "for tr.C(%d) {" % b, "\tfor tr.C(%d) {" % c, "\t\tif tr.C(%d) { continue L%d }" % (e, a), "\t\tYIELD(tr.V(%d))" % d, "\t}", "}"]}], "roe"))
    a, b, c = f(), f(), f()
    out.append(("select", [{"s": "raw", "y": True, "text": [
        "select {", "case v%d := <-tr.Chan(%d):" % (a, a), "\ttr.U(%d, v%d)" % (b, a), "\tYIELD(tr.V(%d))" % c, "default:", "}"]}], "roe"))
    a, b = f(), f()
    out.append(("defer", [{"s": "raw", "y": False, "text": ["defer tr.E(%d)" % a]}, {"s": "yield", "id": b}], "roe"))
    a, b, c, d = f(), f(), f(), f()
    out.append(("fallthrough-from-yielding-case", [{"s": "raw", "y": True, "text": [
        "switch tr.T(%d) {" % a, "case 0:", "\tYIELD(tr.V(%d))" % b, "\tfallthrough", "case 1:", "\ttr.E(%d)" % c, "default:", "\ttr.E(%d)" % d, "}"]}], "roe"))
    a, b, c = f(), f(), f()
    out.append(("yield-in-if-init", [{"s": "raw", "y": True, "text": ["if YIELD(tr.V(%d)); tr.C(%d) {" % (a, b), "\ttr.E(%d)" % c, "}"]}], "roe"))
    a, b, c, d, e = f(), f(), f(), f(), f()
    out.append(("yield-in-else-if-init", [{"s": "raw", "y": True, "text": [
        "if tr.C(%d) {" % a, "\ttr.E(%d)" % b, "} else if YIELD(tr.V(%d)); tr.C(%d) {" % (c, d), "\ttr.E(%d)" % e, "}"]}, {"s": "yield", "id": f()}], "roe"))
    a, b, c, d, e, g2 = f(), f(), f(), f(), f(), f()
    out.append(("yield-in-third-arm-init", [{"s": "raw", "y": True, "text": [
        "if tr.C(%d) {" % a, "\tYIELD(tr.V(%d))" % b, "} else if tr.C(%d) {" % c, "\ttr.E(%d)" % d, "} else if YIELD(tr.V(%d)); tr.C(%d) {" % (e, g2), "\ttr.E(%d)" % f(), "}"]}], "roe"))
    a, b = f(), f()
    out.append(("range-pointer-to-array", [{"s": "raw", "y": True, "text": [
        "for _, v%d := range &[3]int{1, 2, 3} {" % a, "\ttr.U(%d, v%d)" % (b, a), "\tYIELD(v%d)" % a, "}"]}], "roe"))
    a, b = f(), f()
    out.append(("range-pointer-to-array-no-yield", [{"s": "raw", "y": False, "text": [
        "for _, v%d := range &[3]int{1, 2, 3} {" % a, "\ttr.U(%d, v%d)" % (b, a), "}"]}, {"s": "yield", "id": f()}], "roe"))
    a, b, c, d = f(), f(), f(), f()
    out.append(("range-pointer-to-array-no-yield-with-taken-branches", [{"s": "raw", "y": False, "text": [
        "for i%d := range &[4]int{1, 2, 3, 4} {" % a, "\tif i%d == 1 {" % a, "\t\tcontinue", "\t}", "\tif i%d == 3 {" % a, "\t\tbreak", "\t}",
        "\ttr.U(%d, i%d)" % (b, a), "}"]}, {"s": "atom", "id": c}, {"s": "yield", "id": d}], "roe"))
    a, b, c = f(), f(), f()
    out.append(("defer-in-yield-free-block", [{"s": "raw", "y": False, "text": ["{", "\tdefer tr.E(%d)" % a, "\ttr.E(%d)" % b, "}"]}, {"s": "yield", "id": c}], "roe"))
    a, b, c, d, e = f(), f(), f(), f(), f()
    out.append(("select-break-in-yield-free-block-in-yielding-loop", [{"s": "raw", "y": True, "text": [
        "for tr.C(%d) {" % a, "\t{", "\t\tselect {", "\t\tcase v := <-tr.Chan(%d):" % b, "\t\t\tif v > 0 { break }", "\t\t\ttr.E(%d)" % c, "\t\tdefault:", "\t\t}", "\t}",
        "\tYIELD(tr.V(%d))" % d, "}"]}, {"s": "atom", "id": e}], "roe"))
    a, b, c = f(), f(), f()
    out.append(("defer-in-yield-free-for-define", [{"s": "raw", "y": False, "text": [
        "for i := 0; i < 2; i++ {", "\tdefer tr.U(%d, i)" % a, "\ttr.E(%d)" % b, "}"]}, {"s": "yield", "id": c}], "roe"))
    a, b = f(), f()
    out.append(("range-over-func", [{"s": "raw", "y": True, "text": ["for x%d := range tr.Walk(%d) {" % (a, a), "\ttr.U(%d, x%d)" % (b, a), "\tYIELD(x%d)" % a, "}"]}], "roe"))
    # negative controls: the same constructs inside a nested plain closure must be accepted
    a, b, c = f(), f(), f()
    out.append(("ctl-goto-in-closure", [{"s": "raw", "y": False, "text": [
        "func() {", "\ti := 0", "L%d:" % a, "\ti++", "\ttr.U(%d, i)" % b, "\tif i < 3 { goto L%d }" % a, "}()"]}, {"s": "yield", "id": c}], "accept"))
    a, b, c = f(), f(), f()
    out.append(("ctl-defer-in-closure", [{"s": "raw", "y": False, "text": [
        "func() {", "\tdefer tr.E(%d)" % a, "\ttr.E(%d)" % b, "}()"]}, {"s": "yield", "id": c}], "accept"))
    a, b, c, d = f(), f(), f(), f()
    out.append(("ctl-select-break-in-closure", [{"s": "raw", "y": False, "text": [
        "func() {", "\tselect {", "\tcase v := <-tr.Chan(%d):" % a, "\t\tif v > 0 { break }", "\t\ttr.E(%d)" % b, "\tdefault:", "\t\ttr.E(%d)" % c, "\t}", "}()"]},
        {"s": "yield", "id": d}], "accept"))
    a, b, c, d = f(), f(), f(), f()
    out.append(("ctl-labelled-loop-in-closure", [{"s": "raw", "y": False, "text": [
        "func() {", "L%d:" % a, "\tfor tr.C(%d) {" % b, "\t\tfor tr.C(%d) { continue L%d }" % (c, a), "\t}", "}()"]}, {"s": "yield", "id": d}], "accept"))
    a, b, c = f(), f(), f()
    out.append(("ctl-fallthrough-in-trivial-switch", [{"s": "raw", "y": False, "text": [
        "switch tr.T(%d) {" % a, "case 0:", "\ttr.E(%d)" % b, "\tfallthrough", "case 1:", "\ttr.E(%d)" % c, "}"]}, {"s": "yield", "id": f()}], "accept"))
    return out


def positions(body):
    """All statement lists of a body where a snippet can be spliced in (list object, index)."""
    out = []

    def go(ss):
        for i in range(len(ss) + 1):
            out.append((ss, i))
        for s in ss:
            for _, sub in pgen.children_lists(s):
                go(sub)
    go(body)
    return out


def check(rep, tier):
    if not cprops.proof_part(rep, "C12"):
        return
    rng = random.Random(C.seed() * 49979687 + 12)
    n = 150 if tier == "quick" else 450
    progs, expect, kind = [], {}, {}
    base = cdiff.gen_programs(rng, n, size=5, feats={"postyield"})
    for i, p in enumerate(base):
        g = pgen.PGen(rng)
        g.nid = p["nid"] + 1000
        name, stmts, exp = rng.choice(snippets(g))
        body = p["body"]
        pos = positions(body)
        # keep the body well-formed: never insert after a terminating statement
        pos = [(ss, j) for ss, j in pos if not (j > 0 and ss[j - 1]["s"] in ("break", "continue", "return"))]
        ss, j = rng.choice(pos)
        ss[j:j] = stmts
        p["name"] = "U%d" % i
        progs.append(p)
        expect[p["name"]] = exp
        kind[p["name"]] = name
    R = cdiff.run_batch("C12", progs, rng, tapes=3, gover="1.23")
    diffs = cdiff.compare(R["cases"], R["out"], R["ref"])
    by = {p["name"]: p for p in progs}
    listed = {e["id"] for e in C.known_findings("C12") if e["kind"] == "finding"}
    bad = []
    verdicts = collections.Counter()
    diffprog = {}
    for i in diffs:
        diffprog.setdefault(R["cases"][i]["prog"], i)
    for p in progs:
        st = R["status"].get(p["name"], "ok")
        shapes = pgen.known_shapes(p["body"])
        if st != "ok":
            verdicts[kind[p["name"]] + ":rejected"] += 1
            if expect[p["name"]] == "accept" and not (shapes & listed):
                bad.append((p["name"], None, "negative control rejected: " + st))
        elif p["name"] in diffprog:
            verdicts[kind[p["name"]] + ":MISTRANSLATED"] += 1
            if shapes & listed:
                for f in sorted(shapes & listed):
                    k = "%s %s" % (f, ccheck.FINDINGS[f])
                    if k not in rep.known:
                        rep.known.append(k)
            else:
                bad.append((p["name"], diffprog[p["name"]], "builds and behaves differently from the source"))
        else:
            verdicts[kind[p["name"]] + ":preserved"] += 1
    nontriv = {C.digest(by[c["prog"]]["body"]) for c, o in zip(R["cases"], R["out"]) if len(o["events"]) > 8}
    rep.coverage.update({
        "evaluations": len(R["cases"]) + sum(1 for v in R["status"].values() if v != "ok"),
        "programs": len(progs),
        "distinct_nontrivial": len(nontriv) + sum(1 for v in R["status"].values() if v != "ok"),
        "disagreements_checked": len(diffprog),
        "verdict_histogram": dict(sorted(verdicts.items())),
        "rule": "a supported random program with ONE unsupported construct (goto, labelled break/continue, select, defer, fallthrough out of a yielding "
                "case, yield in if-init, range over pointer-to-array / func; also inside yield-free blocks and loops) spliced in at a random statement position, or the same construct inside a nested "
                "plain closure as negative control; verdict: rejected (compiler panic with diagnostic / output does not build) or behaviour equal to the source",
        "samples": [{"construct": kind[p["name"]], "program": pgen.render_func(p["name"], p["body"], "co")} for p in progs[:2]],
    })
    if bad:
        name, i, why = bad[0]
        rep.violation(rep.write_replay("unsupported_construct", {
            "what": why, "construct": kind[name], "program_go_co": pgen.render_func(name, by[name]["body"], "co"),
            "program_abstract": by[name]["body"], "tape": R["cases"][i]["tape"] if i is not None else None,
            "compiled_events": R["out"][i]["events"] if i is not None else None,
            "reference_events": R["ref"][i]["events"] if i is not None else None,
            "other_failing_programs": len(bad) - 1}))
    rep.assumptions = ["the reference rendering gives the construct its native Go meaning"]


replay = ccheck.replay
