"""C18 — panics surface from the advance that ran the panicking statement (runtime layer)."""
import random

import common as C
import rtgen
import rtprops


def inject(t, rng, pv):
    """Put a panic into a random thunk/cond/post of the term (in place)."""
    spots = []

    def walk(x):
        k = x["k"]
        if k in ("bind", "bindrecv", "delay"):
            spots.append(x["acts"])
            walk(x["body"])
        elif k == "combine":
            walk(x["a"])
            walk(x["b"])
        elif k == "for":
            if x.get("c"):
                spots.append(x["c"]["acts"])
            if x.get("p"):
                spots.append(x["p"]["acts"])
            walk(x["b"])
    walk(t)
    if spots:
        a = rng.choice(spots)
        r = rng.randrange(4)
        a.insert(rng.randint(0, len(a)), ["add", r, 1])
        a.append(["panicif", r, rng.randint(1, 3), pv])
    return t


def check(rep, tier):
    if not rtprops.proof_or_violation(rep, "C18"):
        return
    rng = random.Random(C.seed() * 15485863 + 18)
    cases = []
    n = 500 if tier == "quick" else 5000
    for i in range(n):
        ng = 1 if i % 3 else 2
        c = rtgen.make_case(rng, rng.choice([3, 5, 8, 12]), ngens=ng, histlen=10, budget=80, panics=True, disjoint=(ng > 1))
        for t in c["terms"]:
            inject(t, rng, 500 + i % 100)
        # keep advancing after a panic as well: retry of the same step, other iterators
        cases.append(c)
    rule = ("random terms with a panicking action injected into a random thunk/condition/post (transient: guarded by a counter), "
            "histories that keep calling MoveNext/Send/Current/Result after the panic, one or two generators; which call panics, "
            "with what value, what was delivered before and what happens on retry are compared with machine and reference models")
    rtprops.correspondence(rep, "C18", cases, rule,
                           what="a panic is reported by a different call / with a different value / changes other state than in the reference")
    # compiled generators: panicking atoms at random positions of source programs, compiled vs reference
    import ccheck
    import cprops
    rt_cov = dict(rep.coverage)
    cfg = cprops.CFG["C18"]
    listed = [e["id"] for e in C.known_findings("C18") if e["kind"] == "finding"]
    ccheck.run(rep, "C18", cfg["feats"], 200 if tier == "quick" else 500, [f for f in cfg["findings"] if f in listed],
               cfg["rule"], corpus=cfg.get("corpus"))
    comp_cov = {k: v for k, v in rep.coverage.items() if rt_cov.get(k) != v}
    rep.coverage.update(rt_cov)
    rep.coverage["compiled_generators"] = comp_cov
    rep.coverage["evaluations"] = rt_cov.get("evaluations", 0) + comp_cov.get("evaluations", 0)


replay = rtprops.replay
