"""Layer-R correspondence: run generated cases on the real seq package (harness/cmd/rtdrive)
and on the Coq models (machine and reference, RtExec.check_case) and report disagreements."""
import json
import os
import re

import common as C
import rtgen

CODE = {1: "machine-model events differ from implementation",
        2: "reference-interpreter events differ from implementation",
        3: "stack-depth log differs from machine model",
        4: "model stuck / out of fuel"}


def build_driver(work):
    exe = os.path.join(work, "rtdrive")
    ok, out = C.go_build("./cmd/rtdrive", exe)
    if not ok:
        raise RuntimeError("cannot build harness against %s:\n%s" % (C.REPO, out[-3000:]))
    return exe


def run_go(exe, cases, timeout=600):
    rc, out, err = C.run(["timeout", str(timeout), exe], input=json.dumps(cases), timeout=timeout + 30)
    if rc != 0:
        raise RuntimeError("rtdrive failed rc=%d: %s" % (rc, err[-3000:]))
    return json.loads(out)


def _coq_shard(args):
    work, name, s, cs, rs = args
    rc, out = C.coq_eval(work, name, rtgen.coq_cases_file(cs, rs))
    if rc != 0:
        raise RuntimeError("coqc failed on generated cases file:\n" + out[-3000:])
    m = re.search(r"M\s*=\s*(\[.*?\])\s*:\s*list", out, re.S)
    if not m:
        raise RuntimeError("cannot parse coqc output:\n" + out[-2000:])
    return [(s + int(a), int(b)) for a, b in re.findall(r"\((\d+),\s*(\d+)\)", m.group(1))]


def run_coq(work, name, cases, results, shard=250):
    """Return list of (index, code) mismatches; shards are compiled in parallel."""
    from concurrent.futures import ThreadPoolExecutor
    # a stack depth in the thousands cannot come from the machine model on these finite terms (its depth is bounded by the
    # nesting of the term); such a case is a depth mismatch (code 3) without asking Coq, whose unary numerals would make the
    # evaluation of thousands of such entries take many minutes
    deep = [i for i, r in enumerate(results) if r.get("depths") and max(r["depths"]) > 1000]
    if deep:
        keep = [i for i in range(len(cases)) if i not in set(deep)]
        sub = run_coq(work, name, [cases[i] for i in keep], [results[i] for i in keep], shard) if keep else []
        return sorted([(keep[i], k) for i, k in sub] + [(i, 3) for i in deep])
    jobs = []
    for s in range(0, len(cases), shard):
        jobs.append((work, "%s_%d" % (name, s // shard), s, cases[s:s + shard], results[s:s + shard]))
    mism = []
    with ThreadPoolExecutor(max_workers=14) as ex:
        for r in ex.map(_coq_shard, jobs):
            mism.extend(r)
    return sorted(mism)


def evaluate(work, exe, name, cases):
    results = run_go(exe, cases)
    bad = [(i, r["err"]) for i, r in enumerate(results) if r.get("err")]
    if bad:
        raise RuntimeError("driver error on case %d: %s" % bad[0])
    mism = run_coq(work, name, cases, results)
    return results, mism


def shrink(work, exe, case, code_pred, rounds=12):
    """Greedy shrinking of a mismatching case; code_pred(code) says which codes still count."""
    cur = case
    for r in range(rounds):
        cands = rtgen.shrinks(cur)
        if not cands:
            break
        cands = cands[:300]
        results, mism = evaluate(work, exe, "shrink%d" % r, cands)
        hits = [i for i, k in mism if code_pred(k)]
        if not hits:
            break
        best = min(hits, key=lambda i: (sum(rtgen.size(t) for t in cands[i]["terms"]), len(cands[i]["hist"])))
        cur = cands[best]
    results, mism = evaluate(work, exe, "shrinkfinal", [cur])
    return cur, results[0], (mism[0][1] if mism else 0)


def nontrivial(case, result):
    """A case is non-trivial when at least one advance yielded and some user code ran."""
    evs = result["events"]
    yielded = any(e[0] == 20 and e[1] == 1 for e in evs) or any(e[0] == 22 and e[2] == 1 for e in evs)
    ran = any(e[0] in (1, 2, 4) for e in evs)
    return yielded and ran


def summarize(cases, results):
    kinds = {}
    sizes = []
    opk = {}
    panics = 0
    for c, r in zip(cases, results):
        for t in c["terms"]:
            rtgen.kinds(t, kinds)
            sizes.append(rtgen.size(t))
        for o in c["hist"]:
            opk[o[1]] = opk.get(o[1], 0) + 1
        if any(e[0] == 30 for e in r["events"]):
            panics += 1
    distinct = len({C.digest(c) for c, r in zip(cases, results) if nontrivial(c, r)})
    return {
        "evaluations": len(cases),
        "distinct_nontrivial": distinct,
        "constructor_histogram": dict(sorted(kinds.items())),
        "term_size_min_max_avg": [min(sizes), max(sizes), round(sum(sizes) / len(sizes), 1)] if sizes else [],
        "op_histogram": opk,
        "cases_with_panic": panics,
        "max_events": max((len(r["events"]) for r in results), default=0),
    }
