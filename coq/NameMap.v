(* NameMap.v — the file-name mapping of go:generate mode (rewriter/compile.go: GoGen).

     isCoFile(f)  = HasSuffix(f, "_co.go") || HasSuffix(f, "_co_test.go")
     rewrite stage writes   replace(suffix_map(f), dir, dir+"_tmp")   where suffix_map maps the SUFFIX "_co_test.go" to
                            "_test.go", else the suffix "_co.go" to ".go" (strings.TrimSuffix + append)
     optimise stage writes  ReplaceAll(g, dir+"_tmp", dir)            for every file g of the first stage

   (until the repair recorded in known_findings.txt the first stage used ReplaceAll for the suffixes too:
   [old_tmp_name] / [old_out_name] below keep that version, and [old_mapping_refuted] is the witness that was
   replayed on the real cogen.)

   with strings.ReplaceAll (all non-overlapping occurrences, left to right) and absolute paths.
   Strings are lists of byte codes. *)
From Coq Require Import List Arith Bool Lia.
Import ListNotations.

Fixpoint prefixb (p s : list nat) : bool :=
  match p, s with
  | [], _ => true
  | a :: p', b :: s' => Nat.eqb a b && prefixb p' s'
  | _ :: _, [] => false
  end.

(* strings.ReplaceAll for a non-empty [old]: [skip] characters of a matched occurrence are still to be dropped *)
Fixpoint repl (old new : list nat) (skip : nat) (s : list nat) : list nat :=
  match s with
  | [] => []
  | c :: r =>
      match skip with
      | S k => repl old new k r
      | 0 => if prefixb old s then new ++ repl old new (pred (length old)) r else c :: repl old new 0 r
      end
  end.
Definition replace_all (old new s : list nat) : list nat := repl old new 0 s.

Definition has_suffix (s suf : list nat) : bool := prefixb (rev suf) (rev s).

(* "_co.go"  ".go"  "_co_test.go"  "_test.go"  "_tmp"  "/" *)
Definition co_go : list nat := [95; 99; 111; 46; 103; 111].
Definition dot_go : list nat := [46; 103; 111].
Definition co_test_go : list nat := [95; 99; 111; 95; 116; 101; 115; 116; 46; 103; 111].
Definition test_go : list nat := [95; 116; 101; 115; 116; 46; 103; 111].
Definition tmp_suffix : list nat := [95; 116; 109; 112].
Definition slash : nat := 47.

Definition is_co_file (f : list nat) : bool := has_suffix f co_go || has_suffix f co_test_go.
Definition trim_suffix (f suf : list nat) : list nat := firstn (length f - length suf) f.
Definition suffix_map (f : list nat) : list nat :=
  if has_suffix f co_test_go then trim_suffix f co_test_go ++ test_go
  else if has_suffix f co_go then trim_suffix f co_go ++ dot_go
  else f.
Definition tmp_name (dir f : list nat) : list nat := replace_all dir (dir ++ tmp_suffix) (suffix_map f).
Definition out_name (dir f : list nat) : list nat := replace_all (dir ++ tmp_suffix) dir (tmp_name dir f).

(* the mapping before the repair *)
Definition old_tmp_name (dir f : list nat) : list nat :=
  replace_all dir (dir ++ tmp_suffix) (replace_all co_test_go test_go (replace_all co_go dot_go f)).
Definition old_out_name (dir f : list nat) : list nat := replace_all (dir ++ tmp_suffix) dir (old_tmp_name dir f).

(* ---------- executable comparison with what cogen really wrote (used by the C16 check) ---------- *)
Fixpoint bytes_eqb (a b : list nat) : bool :=
  match a, b with [], [] => true | x :: a', y :: b' => Nat.eqb x y && bytes_eqb a' b' | _, _ => false end.
Fixpoint index_of (x : list nat) (l : list (list nat)) (i : nat) : nat :=
  match l with [] => 0 | y :: r => if bytes_eqb x y then S i else index_of x r (S i) end.
(* for every co file that generates: the position (from 1) of the model's derived name among the created files, 0 if absent *)
Definition name_check (dir : list nat) (paths created : list (list nat)) : list nat :=
  map (fun f => index_of (out_name dir f) created 0) paths.

(* ---------- where [old] occurs ---------- *)
Fixpoint noocc (old s : list nat) : bool :=
  match s with [] => true | c :: r => negb (prefixb old s) && noocc old r end.
(* no occurrence of [old] starts inside [pre] in the string pre ++ rest *)
Fixpoint early (old pre rest : list nat) : bool :=
  match pre with [] => true | c :: r => negb (prefixb old (pre ++ rest)) && early old r rest end.

Lemma prefixb_app p s : prefixb p (p ++ s) = true.
Proof. induction p as [|a p IH]; [reflexivity|]. cbn. rewrite Nat.eqb_refl, IH. reflexivity. Qed.

Lemma repl_noocc old new s : noocc old s = true -> repl old new 0 s = s.
Proof.
  induction s as [|c r IH]; [reflexivity|]. cbn [noocc repl]. intros H. apply andb_prop in H. destruct H as [H1 H2].
  apply negb_true_iff in H1. rewrite H1, (IH H2). reflexivity.
Qed.

Lemma repl_early old new pre rest : early old pre rest = true -> repl old new 0 (pre ++ rest) = pre ++ repl old new 0 rest.
Proof.
  induction pre as [|c r IH]; [reflexivity|]. cbn [early]. intros H. apply andb_prop in H. destruct H as [H1 H2].
  apply negb_true_iff in H1. cbn [app repl] in *. rewrite H1, (IH H2). reflexivity.
Qed.

Lemma repl_skip old new l post : repl old new (length l) (l ++ post) = repl old new 0 post.
Proof.
  induction l as [|c r IH]; [destruct post; reflexivity|]. cbn [length app repl]. exact IH.
Qed.

Lemma repl_at old new post : old <> [] -> repl old new 0 (old ++ post) = new ++ repl old new 0 post.
Proof.
  destruct old as [|a o]; [congruence|]. intros _.
  change (repl (a :: o) new 0 ((a :: o) ++ post)) with
    (if prefixb (a :: o) ((a :: o) ++ post) then new ++ repl (a :: o) new (pred (length (a :: o))) (o ++ post)
     else a :: repl (a :: o) new 0 (o ++ post)).
  rewrite prefixb_app. cbn [length pred]. rewrite repl_skip. reflexivity.
Qed.

Lemma prefixb_app_l a b s : prefixb (a ++ b) s = true -> prefixb a s = true.
Proof.
  revert s. induction a as [|x a IH]; intros s H; [reflexivity|]. destruct s as [|y s]; [discriminate|].
  cbn in *. apply andb_prop in H. destruct H as [H1 H2]. rewrite H1, (IH s H2). reflexivity.
Qed.

Lemma noocc_longer a b s : noocc a s = true -> noocc (a ++ b) s = true.
Proof.
  induction s as [|c r IH]; [reflexivity|]. cbn [noocc]. intros H. apply andb_prop in H. destruct H as [H1 H2].
  rewrite (IH H2), andb_true_r. apply negb_true_iff. apply negb_true_iff in H1.
  destruct (prefixb (a ++ b) (c :: r)) eqn:E; [|reflexivity]. rewrite (prefixb_app_l a b _ E) in H1. discriminate.
Qed.

(* ---------- the mapping is right exactly when the replaced substrings occur nowhere else ---------- *)
Section Map.
  Variables dir stem : list nat.
  Hypothesis Hdir : dir <> [].
  Let rest (ext : list nat) := slash :: stem ++ ext.
  Let p := dir ++ slash :: stem.

  Lemma p_ext ext : p ++ ext = dir ++ rest ext.
  Proof. unfold p, rest. rewrite <- app_assoc. reflexivity. Qed.

  Lemma back_and_forth ext :
    noocc dir (rest ext) = true ->
    replace_all (dir ++ tmp_suffix) dir (replace_all dir (dir ++ tmp_suffix) (p ++ ext)) = p ++ ext
    /\ replace_all dir (dir ++ tmp_suffix) (p ++ ext) = (dir ++ tmp_suffix) ++ rest ext.
  Proof.
    intros H. unfold replace_all. rewrite p_ext, (repl_at dir (dir ++ tmp_suffix) (rest ext) Hdir), (repl_noocc dir _ _ H).
    split; [|reflexivity].
    assert (Hne : dir ++ tmp_suffix <> []) by (destruct dir; [congruence|discriminate]).
    rewrite (repl_at (dir ++ tmp_suffix) dir (rest ext) Hne), (repl_noocc _ _ _ (noocc_longer dir tmp_suffix _ H)). reflexivity.
  Qed.

  Lemma has_suffix_app q suf : has_suffix (q ++ suf) suf = true.
  Proof. unfold has_suffix. rewrite rev_app_distr. apply prefixb_app. Qed.

  Lemma trim_app q suf : trim_suffix (q ++ suf) suf = q.
  Proof.
    unfold trim_suffix. rewrite app_length. replace (length q + length suf - length suf) with (length q) by lia.
    rewrite firstn_app, Nat.sub_diag, firstn_all. cbn. apply app_nil_r.
  Qed.

  (* a name that ends in "_co.go" does not end in "_co_test.go" *)
  Lemma co_go_not_test q : has_suffix (q ++ co_go) co_test_go = false.
  Proof. unfold has_suffix. rewrite rev_app_distr. reflexivity. Qed.

  Lemma suffix_map_src q : suffix_map (q ++ co_go) = q ++ dot_go.
  Proof. unfold suffix_map. rewrite co_go_not_test, has_suffix_app, trim_app. reflexivity. Qed.
  Lemma suffix_map_test q : suffix_map (q ++ co_test_go) = q ++ test_go.
  Proof. unfold suffix_map. rewrite has_suffix_app, trim_app. reflexivity. Qed.

  (* x_co.go  ->  x.go : whatever the directory and the rest of the name contain, as long as the directory string
     occurs in the path only as its prefix *)
  Theorem src_file_mapping :
    noocc dir (rest dot_go) = true ->
    tmp_name dir (p ++ co_go) = (dir ++ tmp_suffix) ++ rest dot_go /\ out_name dir (p ++ co_go) = p ++ dot_go.
  Proof.
    intros H3. unfold out_name, tmp_name. rewrite suffix_map_src.
    destruct (back_and_forth dot_go H3) as [Hb Hf]. split; [exact Hf|exact Hb].
  Qed.

  (* x_co_test.go  ->  x_test.go *)
  Theorem test_file_mapping :
    noocc dir (rest test_go) = true ->
    tmp_name dir (p ++ co_test_go) = (dir ++ tmp_suffix) ++ rest test_go /\ out_name dir (p ++ co_test_go) = p ++ test_go.
  Proof.
    intros H3. unfold out_name, tmp_name. rewrite suffix_map_test.
    destruct (back_and_forth test_go H3) as [Hb Hf]. split; [exact Hf|exact Hb].
  Qed.

End Map.
