module verif/harness

go 1.22

require github.com/goghcrow/go-co v0.0.0

replace github.com/goghcrow/go-co => /repo
