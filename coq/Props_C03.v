(* Props_C03.v — local state and lexical scoping survive suspension.

   Full statement (C03): after compilation every variable reference in a generator denotes the same
   variable as in the source — including shadowing in nested blocks, in for / switch / type-switch
   initialisers, range variables and case clauses — and a variable keeps its value across any number of
   suspensions; closures created before a Yield observe updates made after it and vice versa.

   What is proved (PARTIAL).  The rewriter model treats a simple statement as an opaque atom; [dcl a] says
   whether atom [a] declares names.  [ol dcl env l] (Scope.v) lists, for every atom, condition, switch tag
   and yielded expression of [l] in textual order, the declaring atoms in whose scope it lies, innermost
   first, by Go's block rules (a declaration is visible from the next statement to the end of the innermost
   block; if / switch / for open a block around init, condition, clauses, body and post; every clause and
   every function literal is a block).  An identifier resolves to the innermost visible declaration of its
   name, so equal lists mean equal resolution.

     C03_static_scoping_partial   for every [dcl] and every body with [soks dcl (map (pass0 400) body)],
                                  whatever [rewrite] (pass0, pass2 with all its Bind / Combine / For
                                  re-nesting, pass3) produces shows every occurrence the same declarations
                                  in the same order as the source.  The variables are Go variables captured
                                  by reference by the generated function literals, so "keeps its value across
                                  suspensions" is then Go's closure semantics; which of them run, when, is
                                  C01 / C02.
     C03_pass2_scoping_partial    the same for pass2 alone, any fuel.

   The side condition [soks] is syntactic, on the input: nothing after break / continue / fallthrough in
   a statement list; the init statement of a switch / for is absent, a Yield, or an atom that declares
   nothing; the post statement of a for is absent, an atom, or a Yield when no statement of the loop body declares
   anything in the body's own block; an if-init is absent or an atom.  Outside it:
     * ':=' initialisers of a rewritten switch: the real rewriter hoists them into a fresh block; the model has no
       such block.  For FOR statements the harness applies that hoisting to the source abstraction
       ({ x := …; for ; c; post { … } }: [C03_hoisted_initialiser_keeps_scoping] shows it keeps every scope list) and the
       structural correspondence compares the real output with the model's output for the lowered body;
     * a yielding post statement of a loop whose body declares names in its own block: the rewriter appends the post
       statement to the loop body when the body needs no Combine, where it sees the body's declarations —
       [C03_forpost_refuted] (finding F3); with no such declaration both placements (appended, or in the second half of
       a Combine) are covered (Scope.v: rw_nd shows the rewritten body still declares nothing in its block);
     * which names a declaring atom declares is assumed to depend on the atom only.  Go's 'x, n := …'
       declares x only if x is not already declared in the SAME block, and the rewriter moves the
       statements after a yield into a new block: [C03_redeclaration_refuted] (finding F24, found
       while stating this theorem, reproduced on the real compiler).  [sameblk] (ScopeExec.v) is the
       observation that makes it visible; the check evaluates it on every generated program
       (with [resolve]: which declaring atom each mentioned name denotes, in the real output and in the source).
   Not modelled at all: the range lowering (block around the body, generated iterator names: C04 / C15
   theorems), capture by reference itself (Go), per-iteration loop variables of go >= 1.22 (finding F18).
   The check ties the model to the code on every run: [check_xcase] evaluates [ol] on the abstract tree of
   the REAL compiler's output and on the source of every generated program (they must agree), the side
   condition (how many programs are inside the theorem) and the redeclaration condition, and the compiled
   program is run against the reference coroutine runtime. *)
From Coq Require Import List Arith Bool.
From Verif Require Import Syntax Rewrite Scope ScopeP3 ScopeExec.
Import ListNotations.

Theorem C03_static_scoping_partial :
  forall (dcl : nat -> bool) (body out : list stmt),
    soks dcl (map (pass0 400) body) = true ->
    rewrite body = OK out ->
    ol dcl [] out = ol dcl [] body.
Proof. intros dcl body out. exact (rewrite_scope dcl body out []). Qed.
Print Assumptions C03_static_scoping_partial.

(* equal scope lists mean equal resolution: whatever names the atoms declare and the occurrences mention *)
Theorem C03_same_resolution_partial :
  forall (dcl : nat -> bool) (names uses : list (nat * list nat)) (body out : list stmt),
    soks dcl (map (pass0 400) body) = true ->
    rewrite body = OK out ->
    map (resolve names uses) (ol dcl [] out) = map (resolve names uses) (ol dcl [] body).
Proof. intros dcl names uses body out Hs H. rewrite (rewrite_scope dcl body out [] Hs H). reflexivity. Qed.
Print Assumptions C03_same_resolution_partial.

(* with declarations already in scope where the body stands (parameters and results of the generator function, the enclosing
   function's locals for a generator literal): whatever atoms [env] are visible there, they stay visible to the same occurrences *)
Theorem C03_static_scoping_any_outer_scope_partial :
  forall (dcl : nat -> bool) (env : list nat) (body out : list stmt),
    soks dcl (map (pass0 400) body) = true ->
    rewrite body = OK out ->
    ol dcl env out = ol dcl env body.
Proof. intros dcl env body out. exact (rewrite_scope dcl body out env). Qed.
Print Assumptions C03_static_scoping_any_outer_scope_partial.

Theorem C03_pass2_scoping_partial :
  forall (dcl : nat -> bool) (fuel : nat) (body : list stmt) (r : blk),
    soks dcl body = true ->
    rw_stmts fuel body (mkBlock KDelay) = OK r ->
    ol dcl [] (bstmts r) = ol dcl [] body.
Proof. intros dcl fuel body r. exact (pass2_scope dcl fuel body r []). Qed.
Print Assumptions C03_pass2_scoping_partial.

(* pass0 and pass3 on their own, any input (also outside [soks]) *)
Theorem C03_pass3_keeps_scoping :
  forall (dcl : nat -> bool) (l : list stmt) (env : list nat), ol dcl env (pass3_body l) = ol dcl env l.
Proof. exact pass3_body_scope. Qed.
Print Assumptions C03_pass3_keeps_scoping.

(* the lowering the harness applies for ':=' initialisers of for statements (what pass0 of the real rewriter does with them:
   { x := …; for ; c; post { … } }) keeps every scope list, so the theorem applies to such loops through the lowered body *)
Theorem C03_hoisted_initialiser_keeps_scoping :
  forall (dcl : nat -> bool) (env : list nat) (i : stmt) (c : option nat) (p : option stmt) (b : list stmt),
    ostmt dcl env (SBlock [i; SFor None c p b]) = ostmt dcl env (SFor (Some i) c p b).
Proof. exact hoist_scope. Qed.
Print Assumptions C03_hoisted_initialiser_keeps_scoping.

(* non-vacuity: declarations before and inside a three-clause loop with a yielding body, a switch with a yielding
   clause, break / continue, a yielding block that is not last, return: the side condition holds, the model accepts,
   and the observation is not trivial (atom 37 after the yield in the clause still sees 6, 2, 1; the post statement
   32 sees 1 only; 43 sees the block-local 21) *)
Definition ex_dcl (a : nat) : bool := mem a [1; 2; 6; 20; 21].
Definition ex_body : list stmt :=
  [SAtom 1; SFor (Some (SAtom 30)) (Some 31) (Some (SAtom 32))
     [SAtom 2; SYield 33; SSwitch None (Some 34) [(LVals [35], [SAtom 6; SYield 36; SAtom 37]); (LDefault, [SAtom 38; SBreak])];
      SIf None 39 [SYield 40; SContinue] (EElse [SAtom 20]); SAtom 41];
   SBlock [SAtom 21; SYield 42; SAtom 43]; SYield 44; SReturn].
Example C03_example :
  soks ex_dcl (map (pass0 400) ex_body) = true /\
  (exists out, rewrite ex_body = OK out /\ ol ex_dcl [] out = ol ex_dcl [] ex_body) /\
  ol ex_dcl [] ex_body =
    [(OA 1, []); (OA 30, [1]); (OU 31, [1]); (OA 2, [1]); (OU 33, [2; 1]); (OU 34, [2; 1]); (OA 6, [2; 1]);
     (OU 36, [6; 2; 1]); (OA 37, [6; 2; 1]); (OA 38, [2; 1]); (OU 39, [2; 1]); (OU 40, [2; 1]); (OA 20, [2; 1]);
     (OA 41, [2; 1]); (OA 32, [1]); (OA 21, [1]); (OU 42, [21; 1]); (OA 43, [21; 1]); (OU 44, [1])].
Proof.
  split; [vm_compute; reflexivity|]. split; [|vm_compute; reflexivity].
  destruct (rewrite ex_body) as [out|e] eqn:E; [|vm_compute in E; discriminate].
  exists out. split; [reflexivity|]. apply C03_static_scoping_partial; [vm_compute; reflexivity|exact E].
Qed.

(* a yielding post statement inside the theorem: both placements the rewriter chooses (appended to a body that needs no
   Combine; second half of a Combine when the body ends in a yielding statement) *)
Example C03_example_yielding_post :
  let body := [SAtom 1; SFor None (Some 2) (Some (SYield 3)) [SAtom 4; SBlock [SAtom 6; SAtom 5]];
               SFor (Some (SAtom 30)) (Some 7) (Some (SYield 8)) [SAtom 4; SYield 9]; SAtom 10] in
  soks ex_dcl (map (pass0 400) body) = true /\
  exists out, rewrite body = OK out /\ ol ex_dcl [] out = ol ex_dcl [] body /\
              In (OU 3, [1]) (ol ex_dcl [] out) /\ In (OU 8, [1]) (ol ex_dcl [] out).
Proof.
  cbv zeta. split; [vm_compute; reflexivity|].
  destruct (rewrite [SAtom 1; SFor None (Some 2) (Some (SYield 3)) [SAtom 4; SBlock [SAtom 6; SAtom 5]];
               SFor (Some (SAtom 30)) (Some 7) (Some (SYield 8)) [SAtom 4; SYield 9]; SAtom 10]) as [out|e] eqn:E; [|vm_compute in E; discriminate].
  exists out. split; [reflexivity|]. vm_compute in E. injection E as <-. repeat split; vm_compute; tauto.
Qed.

(* finding F3: a yielding post statement (outside [soks]) is appended to the loop body block and sees the body's
   declaration 21:   a := 42 (20); for ; c(9); Yield(a) (8) { a := 100 (21); … (10) } *)
Theorem C03_forpost_refuted :
  exists (dcl : nat -> bool) (body out : list stmt),
    rewrite body = OK out /\ soks dcl (map (pass0 400) body) = false /\
    In (OU 8, [20]) (ol dcl [] body) /\ In (OU 8, [21; 20]) (ol dcl [] out).
Proof.
  exists (fun a => mem a [20; 21]), [SAtom 20; SFor None (Some 9) (Some (SYield 8)) [SAtom 21; SAtom 10]]. eexists.
  split; [vm_compute; reflexivity|]. split; [vm_compute; reflexivity|]. split; vm_compute; tauto.
Qed.
Print Assumptions C03_forpost_refuted.

(* finding F24:   x := … (1); f := func() { … x … } (2); Yield (3); x, n := … (6); f() (5); Yield (7)
   in the source atom 6 stands in the block that declared x (atoms 1 and 2 precede it there), so it ASSIGNS to that x;
   in the output it is the first statement of a function literal: nothing precedes it in its block, it declares a new x,
   and the closure made by atom 2 keeps the old one.  The scope lists [ol] agree — the theorem above holds for this body —
   which is why the names declared by an atom must not depend on its block for the theorem to mean equal resolution. *)
Theorem C03_redeclaration_refuted :
  exists (body out : list stmt),
    rewrite body = OK out /\
    (forall dcl, soks dcl (map (pass0 400) body) = true) /\
    sameblk 6 body = [2; 1] /\ sameblk 6 out = [].
Proof.
  exists [SAtom 1; SAtom 2; SYield 3; SAtom 6; SAtom 5; SYield 7]. eexists.
  split; [vm_compute; reflexivity|]. split; [intros dcl; reflexivity|]. split; vm_compute; reflexivity.
Qed.
Print Assumptions C03_redeclaration_refuted.
