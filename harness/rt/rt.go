// Package rt interprets the JSON twin of coq/RtExec.v's term syntax on the real
// github.com/goghcrow/go-co/seq package and records the event and depth logs.
package rt

import (
	"encoding/json"
	"fmt"
	"runtime"

	"github.com/goghcrow/go-co/seq"
)

type Ev [3]int64

type World struct {
	Log    []Ev
	Regs   [4]int64
	Budget int
	Depths []int
	base   int
}

type Code struct {
	ID   int64             `json:"id"`
	Acts []json.RawMessage `json:"acts"`
	E    []json.RawMessage `json:"e,omitempty"`
}

type Term struct {
	K    string            `json:"k"`
	V    []json.RawMessage `json:"v,omitempty"`
	ID   int64             `json:"id,omitempty"`
	Acts []json.RawMessage `json:"acts,omitempty"`
	Body *Term             `json:"body,omitempty"`
	A    *Term             `json:"a,omitempty"`
	B    *Term             `json:"b,omitempty"`
	C    *Code             `json:"c,omitempty"`
	P    *Code             `json:"p,omitempty"`
	T    string            `json:"t,omitempty"`
}

type Case struct {
	Terms  []*Term           `json:"terms"`
	Hist   []json.RawMessage `json:"hist"`
	Budget int               `json:"budget"`
}

type Result struct {
	Events [][3]int64 `json:"events"`
	Depths []int      `json:"depths"`
	Err    string     `json:"err,omitempty"`
}

type panicVal struct{ v int64 }

func ints(raw []json.RawMessage, from int) []int64 {
	out := make([]int64, 0, len(raw))
	for _, r := range raw[from:] {
		var x int64
		if err := json.Unmarshal(r, &x); err != nil {
			panic(err)
		}
		out = append(out, x)
	}
	return out
}

func tag(raw []json.RawMessage) string {
	var s string
	if err := json.Unmarshal(raw[0], &s); err != nil {
		panic(err)
	}
	return s
}

//go:noinline
func callers() int {
	pcs := make([]uintptr, 4096)
	return runtime.Callers(0, pcs)
}

func (w *World) ev(a, b, c int64) { w.Log = append(w.Log, Ev{a, b, c}) }

// code runs one piece of user code; it must be called directly from the user closure.
//
//go:noinline
func (w *World) code(kind, id int64, acts []json.RawMessage, recv int64) {
	// depth of the calling user closure relative to the driver's op call site
	w.Depths = append(w.Depths, callers()-w.base-1)
	if w.Budget == 0 {
		w.ev(9, -1, 0)
		panic(panicVal{-1})
	}
	w.Budget--
	w.ev(kind, id, recv)
	for _, raw := range acts {
		var a []json.RawMessage
		if err := json.Unmarshal(raw, &a); err != nil {
			panic(err)
		}
		xs := ints(a, 1)
		switch tag(a) {
		case "log":
			w.ev(1, xs[0], 0)
		case "set":
			w.Regs[xs[0]] = xs[1]
		case "add":
			w.Regs[xs[0]] += xs[1]
		case "panicif":
			if w.Regs[xs[0]] == xs[1] {
				w.ev(9, xs[2], 0)
				panic(panicVal{xs[2]})
			}
		case "recvto":
			w.Regs[xs[0]] = recv
		default:
			panic("bad act")
		}
	}
}

func (w *World) cexp(e []json.RawMessage) bool {
	xs := ints(e, 1)
	switch tag(e) {
	case "true":
		return true
	case "false":
		return false
	case "lt":
		return w.Regs[xs[0]] < xs[1]
	case "ne":
		return w.Regs[xs[0]] != xs[1]
	}
	panic("bad cexp")
}

func (w *World) vexp(e []json.RawMessage) int {
	xs := ints(e, 1)
	switch tag(e) {
	case "const":
		return int(xs[0])
	case "reg":
		return int(w.Regs[xs[0]])
	case "regplus":
		return int(w.Regs[xs[0]] + xs[1])
	}
	panic("bad vexp")
}

// Build constructs the real combinator term; value expressions are evaluated now,
// thunks build their body when they run (exactly like RtExec.build).
func (w *World) Build(t *Term) seq.Seq[int] {
	switch t.K {
	case "bind":
		return seq.Bind[int](w.vexp(t.V), func() seq.Seq[int] {
			w.code(1, t.ID, t.Acts, 0)
			return w.Build(t.Body)
		})
	case "bindrecv":
		return seq.BindRecv[int](w.vexp(t.V), func(recv int) seq.Seq[int] {
			w.code(1, t.ID, t.Acts, int64(recv))
			return w.Build(t.Body)
		})
	case "delay":
		return seq.Delay[int](func() seq.Seq[int] {
			w.code(1, t.ID, t.Acts, 0)
			return w.Build(t.Body)
		})
	case "combine":
		a := w.Build(t.A)
		b := w.Build(t.B)
		return seq.Combine[int](a, b)
	case "for":
		var cond func() bool
		var post func()
		if t.C != nil {
			c := t.C
			cond = func() bool {
				w.code(2, c.ID, c.Acts, 0)
				b := w.cexp(c.E)
				r := int64(0)
				if b {
					r = 1
				}
				w.ev(3, c.ID, r)
				return b
			}
		}
		if t.P != nil {
			p := t.P
			post = func() { w.code(4, p.ID, p.Acts, 0) }
		}
		body := w.Build(t.B)
		// same choice of entry point as rewriter/yield_ast.go CallFor
		switch {
		case cond == nil && post == nil:
			return seq.Loop[int](body)
		case post == nil:
			return seq.While[int](cond, body)
		default:
			return seq.For[int](cond, post, body)
		}
	case "sig":
		switch t.T {
		case "normal":
			return seq.Normal[int]()
		case "break":
			return seq.Break[int]()
		case "continue":
			return seq.Continue[int]()
		case "return":
			return seq.Return[int]()
		}
	case "retv":
		return seq.ReturnValue[int](w.vexp(t.V))
	}
	panic("bad term " + t.K)
}

// op runs one consumer operation; the call into the iterator is made directly
// from this function so that w.base is the depth of the call site.
//
//go:noinline
func (w *World) op(gi int64, g seq.Generator[int], o []json.RawMessage) {
	defer func() {
		if r := recover(); r != nil {
			if pv, ok := r.(panicVal); ok {
				w.ev(30, pv.v, 0)
			} else {
				w.ev(31, 0, 0)
				w.Log = append(w.Log, Ev{32, int64(len(fmt.Sprint(r))), 0})
			}
		}
	}()
	w.base = callers()
	switch tag(o[1:]) {
	case "mn":
		w.ev(10, gi, 0)
		b := g.MoveNext()
		w.ev(20, b2i(b), 0)
	case "cur":
		w.ev(11, gi, 0)
		v := g.Current()
		w.ev(21, int64(v), 0)
	case "send":
		v := ints(o, 2)[0]
		w.ev(12, gi, v)
		y, ok := g.Send(int(v))
		w.ev(22, int64(y), b2i(ok))
	case "res":
		w.ev(13, gi, 0)
		v := g.Result()
		w.ev(23, int64(v), 0)
	default:
		panic("bad op")
	}
}

func b2i(b bool) int64 {
	if b {
		return 1
	}
	return 0
}

func Run(c *Case) (res Result) {
	w := &World{Budget: c.Budget}
	defer func() {
		if r := recover(); r != nil {
			res.Err = fmt.Sprint(r)
		}
	}()
	var gens []seq.Generator[int]
	for _, t := range c.Terms {
		gens = append(gens, seq.Start[int](w.Build(t)).(seq.Generator[int]))
	}
	for _, raw := range c.Hist {
		var o []json.RawMessage
		if err := json.Unmarshal(raw, &o); err != nil {
			panic(err)
		}
		gi := ints(o[:1], 0)[0]
		w.op(gi, gens[gi], o)
	}
	res.Events = make([][3]int64, len(w.Log))
	for i, e := range w.Log {
		res.Events[i] = e
	}
	res.Depths = w.Depths
	if res.Depths == nil {
		res.Depths = []int{}
	}
	return
}
