(* ScopeExec.v — executable side of the scoping model (property C03): the observation of Scope.v evaluated on the
   abstract tree of the REAL rewriter's output and on the source, the side condition of the theorem, and the
   same-block observation that makes partial redeclaration ('x, n := …', finding F24) visible. *)
From Coq Require Import List Arith Bool.
From Verif Require Import Syntax Rewrite Scope.
Import ListNotations.

(* ---- for every atom: the atoms that precede it in the SAME block (Go: 'x, n := …' assigns to x exactly when x was
   declared earlier in the same block; otherwise it declares a new x) ---- *)
Definition atomid (s : stmt) : list nat := match s with SAtom a => [a] | _ => [] end.

Fixpoint bstmt (cur : list nat) (s : stmt) {struct s} : list (nat * list nat) :=
  let bl := fix go (cur : list nat) (l : list stmt) {struct l} : list (nat * list nat) :=
    match l with [] => [] | x :: r => bstmt cur x ++ go (atomid x ++ cur) r end in
  let bo := fun (cur : list nat) (o : option stmt) => match o with None => [] | Some x => bstmt cur x end in
  match s with
  | SAtom a => [(a, cur)]
  | SBlock b => bl [] b
  | SIf i c t e => bo [] i ++ bl [] t ++ bels e
  | SSwitch i tag cs =>
      bo [] i ++ (fix go (l : list (clabel * list stmt)) : list (nat * list nat) :=
                    match l with [] => [] | (_, b) :: r => bl [] b ++ go r end) cs
  | SFor i c p b => bo [] i ++ bl [] b ++ bo [] p
  | SRet e => bexp e
  | _ => []
  end
with bels (e : els) {struct e} : list (nat * list nat) :=
  match e with
  | ENone => []
  | EElse b => (fix go (cur : list nat) (l : list stmt) {struct l} : list (nat * list nat) :=
                  match l with [] => [] | x :: r => bstmt cur x ++ go (atomid x ++ cur) r end) [] b
  | EElif x => bstmt [] x
  end
with bexp (e : sexp) {struct e} : list (nat * list nat) :=
  match e with
  | XBind v t => bthunk t
  | XDelay t => bthunk t
  | XCombine a b => bexp a ++ bexp b
  | XFor c p body => bexp body ++ match p with None => [] | Some x => bstmt [] x end
  | _ => []
  end
with bthunk (t : thunk) {struct t} : list (nat * list nat) :=
  match t with
  | TLit b => (fix go (cur : list nat) (l : list stmt) {struct l} : list (nat * list nat) :=
                  match l with [] => [] | x :: r => bstmt cur x ++ go (atomid x ++ cur) r end) [] b
  | TSig x => bexp x
  end.

Fixpoint bl (cur : list nat) (l : list stmt) : list (nat * list nat) :=
  match l with [] => [] | x :: r => bstmt cur x ++ bl (atomid x ++ cur) r end.

(* the atoms before atom [a] in its block (first occurrence of [a]) *)
Definition sameblk (a : nat) (l : list stmt) : list nat :=
  match find (fun p => Nat.eqb (fst p) a) (bl [] l) with Some p => snd p | None => [] end.
Definition mem (x : nat) (l : list nat) : bool := existsb (Nat.eqb x) l.

(* ---- comparison of observations ---- *)
Definition occ_eqb (a b : occ) : bool :=
  match a, b with OA x, OA y => Nat.eqb x y | OU x, OU y => Nat.eqb x y | _, _ => false end.
Fixpoint ob_eqb (a b : list ob) : bool :=
  match a, b with
  | [], [] => true
  | (o1, e1) :: r1, (o2, e2) :: r2 => occ_eqb o1 o2 && nlist_eqb e1 e2 && ob_eqb r1 r2
  | _, _ => false
  end.

(* ---- resolution: which declaring atom does a name denote at an occurrence?  [names a] are the names atom [a] declares,
   [uses o] the names occurrence [o] mentions; the innermost visible declaration wins ---- *)
Definition lookup (t : list (nat * list nat)) (k : nat) : list nat :=
  match find (fun p => Nat.eqb (fst p) k) t with Some p => snd p | None => [] end.
Definition occ_id (o : occ) : nat := match o with OA a => a | OU u => u end.
Definition resolve1 (names : list (nat * list nat)) (env : list nat) (x : nat) : option nat :=
  find (fun a => mem x (lookup names a)) env.
Definition resolve (names uses : list (nat * list nat)) (o : ob) : occ * list (option nat) :=
  (fst o, map (resolve1 names (snd o)) (lookup uses (occ_id (fst o)))).
Definition onat_eqb' (a b : option nat) : bool :=
  match a, b with Some x, Some y => Nat.eqb x y | None, None => true | _, _ => false end.
Fixpoint olist_eqb (a b : list (option nat)) : bool :=
  match a, b with [], [] => true | x :: r, y :: s => onat_eqb' x y && olist_eqb r s | _, _ => false end.
Fixpoint res_eqb (a b : list (occ * list (option nat))) : bool :=
  match a, b with
  | [], [] => true
  | (o1, e1) :: r1, (o2, e2) :: r2 => occ_eqb o1 o2 && olist_eqb e1 e2 && res_eqb r1 r2
  | _, _ => false
  end.

(* one program: source body, the argument of seq.Start in the really generated code (None: rejected), the names every
   declaring atom declares, the names every occurrence mentions, and for every partially redeclaring atom the atom whose
   declaration it re-uses *)
Record xcase := { x_src : list stmt; x_out : option sexp; x_names : list (nat * list nat); x_uses : list (nat * list nat);
                  x_re : list (nat * nat) }.

(* code: 0 nothing to compare (rejected); 1 every name mentioned by every occurrence of the real output resolves to the
   declaring atom it resolves to in the source; 2 some name does not (a scoping difference between source and generated code);
   +10 the body satisfies the side condition of the theorem C03_static_scoping_partial;
   +100 some partial redeclaration has been separated from the declaration it re-uses by a block boundary (F24 shape);
   +1000 the scope lists themselves differ (some occurrence sees other declarations, whether or not it mentions their names) *)
Definition check_xcase (c : xcase) : nat :=
  let dcl := fun a => negb (match lookup (x_names c) a with [] => true | _ => false end) in
  match x_out c with
  | None => 0
  | Some e =>
      let o_out := ostmt dcl [] (SRet e) in
      let o_src := ol dcl [] (x_src c) in
      (if res_eqb (map (resolve (x_names c) (x_uses c)) o_out) (map (resolve (x_names c) (x_uses c)) o_src) then 1 else 2)
      + (if soks dcl (map (pass0 400) (x_src c)) then 10 else 0)
      + (if forallb (fun ad => negb (mem (snd ad) (sameblk (fst ad) (x_src c))) || mem (snd ad) (sameblk (fst ad) [SRet e])) (x_re c)
         then 0 else 100)
      + (if ob_eqb o_out o_src then 0 else 1000)
  end.
Definition xcodes (cs : list xcase) : list nat := map check_xcase cs.
