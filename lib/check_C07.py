"""C07 — the optimisation pass never changes observable behaviour."""
import collections

import common as C
import ccheck
import cprops
import optcheck
import optcorpus
import pgen


def check(rep, tier):
    if not cprops.proof_part(rep, "C07"):
        return
    R = optcheck.run(rep, tier, "C07")
    cases = R["cases"]
    by = {p["name"]: p for p in R["progs"]}
    listed = {e["id"] for e in C.known_findings("C07") if e["kind"] == "finding"}
    opt_vs_unopt = [i for i, (a, b) in enumerate(zip(R["out"], R["tmp"])) if a.get("events") != b.get("events")]
    unopt_vs_ref = [i for i, (a, b) in enumerate(zip(R["tmp"], R["ref"])) if a.get("events") != b.get("events")]
    builds = {k: v for k, v in R["status"].items() if v.startswith("build-error") and not k.startswith("file:")}
    rep.coverage.update({
        "evaluations": len(cases), "programs": len(R["progs"]) + len(optcorpus.GENS),
        "distinct_nontrivial": len({C.digest([c["g"], c["tape"]]) for c, o in zip(cases, R["out"]) if len(o.get("events", [])) > 8}),
        "disagreements_checked": len(opt_vs_unopt),
        "optimised_vs_unoptimised_differences": len(opt_vs_unopt),
        "unoptimised_vs_source_differences": len(unopt_vs_ref),
        "stages_that_do_not_build": builds,
        "rule": "random programs (yielding init/post, locals, closures, ranges, delegation) plus %d hand-written optimiser-sensitive generators "
                "(yield of changing variables / unary expressions / calls with literal arguments, loop conditions that are method values on "
                "interface, pointer and value receivers, eta-shaped closures over mutable function variables, call results, builtins, conversions, "
                "generic and variadic functions, init-less for loops re-run as one For value); both stages produced by one VerifCompile run are built and "
                "driven with the same tapes; logs must be identical" % len(optcorpus.GENS),
        "samples": [{"generator": cases[i]["g"], "tape": cases[i]["tape"], "events": R["out"][i]["events"][:30]} for i in (0, len(cases) - 1)],
    })
    os_ = R.get("opt_struct", {})
    rep.coverage["optimiser_model_vs_real_output"] = {k: v for k, v in os_.items() if k != "mismatches"}
    rep.coverage["optimiser_model_mismatches"] = len(os_.get("mismatches", []))
    bad = []
    for i in opt_vs_unopt:
        name = cases[i]["prog"]
        shapes = pgen.known_shapes(by[name]["body"]) if name in by else set()
        if not (shapes & listed):
            bad.append(i)
    if bad:
        i = bad[0]
        name = cases[i]["prog"]
        rep.violation(rep.write_replay("opt_vs_unopt", {
            "what": "optimised code behaves differently from the unoptimised intermediate code",
            "generator": cases[i]["g"], "tape": cases[i]["tape"],
            "program": (pgen.render_func(name, by[name]["body"], "co") if name in by else optcorpus.GENS[name.split(".")[1]]),
            "program_abstract": by[name]["body"] if name in by else None,
            "optimised_events": R["out"][i]["events"], "unoptimised_events": R["tmp"][i]["events"],
            "source_events": R["ref"][i]["events"], "other_differences": len(bad) - 1}))
    if not bad and os_.get("mismatches"):
        name, code = os_["mismatches"][0]
        rep.violation(rep.write_replay("optimiser_model", {
            "what": "correspondence broken: the real optimiser's output differs from optimise(...) of coq/Opt.v (code %d) on program %s; "
                    "optimised and unoptimised stages behave alike on all driven tapes" % (code, name),
            "correspondence": "lib/optstruct.py: abstract tree of <dst> vs Opt.optimise (Rewrite.rewrite ...), theorem C07_optimiser_preserves_partial no longer speaks about this code",
            "program": pgen.render_func(name, by[name]["body"], "co") if name in by else name,
            "program_abstract": by[name]["body"] if name in by else None,
            "other_mismatches": len(os_["mismatches"]) - 1}), "no-failing-input-found")
    # import clean-up: every optimised file must build; a file whose unoptimised stage builds (after dropping the
    # go-co import) but whose optimised stage does not is an import/eta problem of the optimiser
    if R.get("bystander_build_error"):
        rep.violation(rep.write_replay("optimised_output_does_not_build", {
            "what": "the optimised corpus package does not build", "go_build": R["bystander_build_error"], "optimised_text": R.get("oc_out_text", "")[:6000]}))
    rep.assumptions = ["both stages come from the same VerifCompile run; the unoptimised stage needs its unused go-co import removed to build"]


def replay(rep, path):
    print("re-run: bin/check C07 (the optimiser corpus is fixed; random programs depend on VERIF_SEED)")
    return 0
