"""Shared driver for the Layer-R property checks (C08, C09, C14, C17, C18)."""
import json

import common as C
import rtcheck
import rtgen

TRUSTED = [
    "Coq 8.16.1 kernel; vm_compute for evaluating the models on generated cases (no native_compute)",
    "SeqMachine.v is a hand-written model of seq/seq.go (modelled, not verified); tied to the code by this run's correspondence check on harness/rt",
    "the For trampoline is modelled by an epoch test instead of step-by-step unwinding (DESIGN §3.2)",
    "harness/rt (Go interpreter of the term syntax), lib/rtgen.py renderers (JSON and Coq renderings of one term)",
]
ASSUME = ["user thunks/conditions/posts are deterministic functions of the world (they may diverge or panic)",
          "generators are not re-entered from their own thunks"]


def proof_or_violation(rep, pid):
    props = C.coq_props(pid)
    rep.add_proof(props)
    rep.coverage["trusted_base"] = list(TRUSTED)
    rep.assumptions = list(ASSUME)
    if not props["ok"]:
        path = rep.write_replay("proof_broken", {"what": "Props_%s.v or a file it depends on no longer checks" % pid,
                                                 "forbidden": props["bad"], "coqc_output": props["output"]})
        rep.violation(path, "no-failing-input-found")
        return False
    return True


def correspondence(rep, pid, cases, rule, codes=(1, 2, 4), what="", extra=None):
    """Run cases on Go and Coq; report the first (shrunk) mismatch whose code is in codes.
    Returns (results, mismatches, work-less)."""
    work = C.workdir(pid)
    try:
        exe = rtcheck.build_driver(work)
        results, mism = rtcheck.evaluate(work, exe, "cases", cases)
        rep.coverage.update(rtcheck.summarize(cases, results))
        rep.coverage["rule"] = rule
        idx = sorted({0, len(cases) // 2, len(cases) - 1})
        rep.coverage["samples"] = [{"case": cases[i], "events": results[i]["events"][:40],
                                    "depths": results[i]["depths"][:20]} for i in idx]
        rep.coverage["model_vs_impl_mismatches"] = len(mism)
        hits = [(i, k) for i, k in mism if k in codes]
        if hits:
            i, k = hits[0]
            case, res, code = rtcheck.shrink(work, exe, cases[i], lambda c: c in codes)
            path = rep.write_replay("model_vs_impl", {
                "what": (what or "real seq package disagrees with the Coq models") + ": " + rtcheck.CODE.get(code, str(code)),
                "case": case, "implementation_events": res["events"], "implementation_depths": res["depths"],
                "how_to_replay": "bin/check %s --replay <this file>" % pid,
                "other_mismatching_cases": len(hits) - 1})
            rep.violation(path)
        if extra:
            extra(work, exe, results)
        return results, mism
    finally:
        C.rmtree(work)


def replay(rep, path):
    data = json.load(open(path))
    work = C.workdir(rep.pid + "r")
    try:
        exe = rtcheck.build_driver(work)
        results, mism = rtcheck.evaluate(work, exe, "replay", [data["case"]])
        print("implementation events:", results[0]["events"])
        print("implementation depths:", results[0]["depths"])
        print("mismatch codes (1 machine, 2 reference, 3 depth, 4 stuck):", mism)
        return 1 if mism else 0
    finally:
        C.rmtree(work)
