// Package tr is the tiny runtime that generated test programs call: every atom,
// condition, tag, yielded value and variable use appends an event to one log and
// spends one unit of budget, so that compiled generators and their reference
// renderings can be compared event by event.
package tr

import "fmt"

type Ev [3]int

var (
	Log    []Ev
	Tape   []int
	Budget int
)

// PanicVal is the value of panics raised by generated programs.
type PanicVal struct{ ID int }

func Reset(tape []int, budget int) {
	Log = nil
	Tape = append([]int(nil), tape...)
	Budget = budget
}

func ev(a, b, c int) { Log = append(Log, Ev{a, b, c}) }

// Mark appends a consumer-side event.
func Mark(a, b, c int) { ev(a, b, c) }

func spend() {
	if Budget <= 0 {
		ev(9, -1, 0)
		panic(PanicVal{-1})
	}
	Budget--
}

func pop() int {
	if len(Tape) == 0 {
		return 0
	}
	v := Tape[0]
	Tape = Tape[1:]
	return v
}

// E is an opaque statement.
func E(id int) { spend(); ev(1, id, 0) }

// C is an opaque condition steered by the tape.
func C(id int) bool {
	spend()
	b := pop()%2 == 1
	r := 0
	if b {
		r = 1
	}
	ev(2, id, r)
	return b
}

// T is an opaque switch tag in 0..2.
func T(id int) int {
	spend()
	v := pop() % 3
	if v < 0 {
		v = -v
	}
	ev(3, id, v)
	return v
}

// V is an opaque yielded expression.
func V(id int) int { spend(); ev(4, id, 0); return id }

// P panics with PanicVal{id} when the tape says 7.
func P(id int) {
	spend()
	if pop() == 7 {
		ev(9, id, 0)
		panic(PanicVal{id})
	}
	ev(8, id, 0)
}

// U logs the value of a variable.
func U(id, x int) { spend(); ev(5, id, x) }

// I is an opaque initial value.
func I(id int) int { spend(); ev(6, id, 0); return id }

// A is an opaque interface value for type switches: int, string or nil by tape.
func A(id int) any {
	spend()
	v := pop() % 3
	if v < 0 {
		v = -v
	}
	ev(7, id, v)
	switch v {
	case 0:
		return id
	case 1:
		return fmt.Sprint("s", id)
	}
	return nil
}

// S logs a string (range over strings, type switch bindings).
func S(id int, s string) { spend(); ev(10, id, len(s)) }

// ---- data sources for range loops (C04); every call logs an event, so the number
// of evaluations of the range expression is observable ----

var strs = []string{"", "a", "héllo", "\xff\xfe", "a\xc3", "日本", "\xef\xbf\xbdz", "x\xed\xa0\x80y"}

func Str(id int) string { spend(); ev(11, id, 0); return strs[pop()%len(strs)] }

func Ints(id int) []int {
	spend()
	ev(12, id, 0)
	n := pop() % 5
	xs := make([]int, n, n+2)
	for i := range xs {
		xs[i] = 10 * (i + 1)
	}
	if n == 4 {
		return nil
	}
	return xs
}

func Arr(id int) [3]int { spend(); ev(13, id, 0); return [3]int{5, 6, 7} }

// Map1 has at most one entry, so iteration order does not matter.
func Map1(id int) map[int]int {
	spend()
	ev(14, id, 0)
	switch pop() % 3 {
	case 0:
		return nil
	case 1:
		return map[int]int{}
	}
	return map[int]int{7: 70}
}

// Map2 has two entries (keys 1 and 2); loop bodies over it delete the entry they were not given,
// so the loop runs exactly once whatever the iteration order (Go: an entry removed before it is
// reached is not produced).
func Map2(id int) map[int]int { spend(); ev(14, id, 2); return map[int]int{1: 10, 2: 20} }

func Chan(id int) chan int {
	spend()
	ev(15, id, 0)
	n := pop() % 4
	ch := make(chan int, n+1)
	for i := 0; i < n; i++ {
		ch <- 100 + i
	}
	close(ch)
	return ch
}

func N(id int) int { spend(); ev(16, id, 0); return pop()%5 - 1 }

// Anys is a slice with nil interface elements.
func Anys(id int) []any { spend(); ev(17, id, 0); return []any{1, nil, "s"} }

func UA(id int, x any) {
	spend()
	switch v := x.(type) {
	case nil:
		ev(18, id, -1)
	case int:
		ev(18, id, v)
	case string:
		ev(18, id, 1000+len(v))
	default:
		ev(18, id, -2)
	}
}

// Walker is a named function type one can range over (go >= 1.23).
type Walker func(yield func(int) bool)

func Walk(id int) Walker {
	spend()
	ev(19, id, 0)
	return func(yield func(int) bool) {
		for i := 1; i <= 3; i++ {
			if !yield(id*10 + i) {
				return
			}
		}
	}
}

// ---- helpers for optimiser-sensitive programs (C07 / C13) ----

type Cell struct {
	V    int
	Next *Cell
}

func (c *Cell) Get() int       { return c.V }
func (c *Cell) Valid() bool    { return c != nil }
func (c Cell) Val() int        { return c.V }
func (c Cell) Less(n int) bool { return c.V < n }

type Src interface{ More() bool }

type Counter struct{ N, Max int }

func (c *Counter) More() bool { c.N++; return c.N <= c.Max }

func Id[T any](x T) T             { return x }
func Pair[K, V any](k K, v V) K   { return k }
// Sub is not commutative: used to observe argument order through forwarding closures.
func Sub(a, b int) int { return a - b }

func Twice(x int) int             { spend(); ev(20, x, 0); return 2 * x }
func Add(a, b int) int            { return a + b }
func Sum(xs ...int) (s int)       { for _, x := range xs { s += x }; return }
func Any(x int) any               { return x }
