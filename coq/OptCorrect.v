(* OptCorrect.v — the optimiser model (Opt.v) only performs the steps of OptRel.v, hence
   preserves the behaviour of generated code. *)
From Coq Require Import List Arith Bool Lia.
From Verif Require Import Base Syntax Sem SemLemmas.
From Verif Require Import Opt OptRel.
Import ListNotations.

Section C.
  Variable is_lit : nat -> bool.
  Variable eta_cond : nat -> option nat.

  Notation optA := (optA is_lit).
  Notation optB := (optB eta_cond).
  Notation okA := (okA is_lit).
  Notation noeff := (noeff is_lit).
  Notation pureb := (pureb is_lit).
  Notation osr := (osr is_lit eta_cond).
  Notation oxr := (oxr is_lit eta_cond).
  Notation otr := (otr is_lit eta_cond).
  Notation oer := (oer is_lit eta_cond).

  Lemma single_ret_spec l x : single_ret l = Some x -> l = [SRet x].
  Proof. destruct l as [|s0 [|s1 r]]; cbn; try discriminate; destruct s0; try discriminate; intros H; inversion H; reflexivity. Qed.

  (* ---- named versions of the local functions, and unfoldings ---- *)
  Definition thA (n : nat) (t : thunk) : thunk := match t with TLit body => TLit (map (optA n) body) | TSig x => TSig x end.
  Definition axA (n : nat) : nat -> sexp -> sexp :=
    fix ax (m : nat) (e : sexp) {struct m} : sexp :=
      match m with 0 => e | S m =>
        match e with
        | XBind v t => XBind v (thA n t)
        | XDelay t =>
            match thA n t with
            | TLit body' => match single_ret body' with
                            | Some x => if noeff x then x else XDelay (TLit body')
                            | None => XDelay (TLit body')
                            end
            | t' => XDelay t'
            end
        | XCombine a b => XCombine (ax m a) (ax m b)
        | XFor c p body => XFor c (option_map (optA n) p) (ax m body)
        | _ => e
        end
      end.
  Definition elsA (n : nat) (e : els) : els :=
    match e with ENone => ENone | EElse b => EElse (map (optA n) b) | EElif x => EElif (optA n x) end.

  Lemma optA_S n s :
    optA (S n) s =
      match s with
      | SBlock b => SBlock (map (optA n) b)
      | SIf i c t e => SIf (option_map (optA n) i) c (map (optA n) t) (elsA n e)
      | SSwitch i t cs => SSwitch (option_map (optA n) i) t (map (fun lb => (fst lb, map (optA n) (snd lb))) cs)
      | SFor i c p b => SFor (option_map (optA n) i) c (option_map (optA n) p) (map (optA n) b)
      | SRet e => SRet (axA n n e)
      | _ => s
      end.
  Proof. reflexivity. Qed.

  Lemma axA_S n m e :
    axA n (S m) e =
      match e with
      | XBind v t => XBind v (thA n t)
      | XDelay t =>
          match thA n t with
          | TLit body' => match single_ret body' with
                          | Some x => if noeff x then x else XDelay (TLit body')
                          | None => XDelay (TLit body')
                          end
          | t' => XDelay t'
          end
      | XCombine a b => XCombine (axA n m a) (axA n m b)
      | XFor c p body => XFor c (option_map (optA n) p) (axA n m body)
      | _ => e
      end.
  Proof. reflexivity. Qed.

  Definition okl (n : nat) (l : list stmt) : bool := forallb (okA n) l.
  Definition oko (n : nat) (x : option stmt) : bool := match x with None => true | Some y => okA n y end.
  Definition okth (n : nat) (t : thunk) : bool := match t with TLit body => okl n body | TSig _ => true end.
  Definition kxA (n : nat) : nat -> sexp -> bool :=
    fix kx (m : nat) (e : sexp) {struct m} : bool :=
      match m with 0 => true | S m =>
        match e with
        | XBind v t => okth n t
        | XDelay t =>
            okth n t &&
            match t with
            | TLit body => match single_ret (map (optA n) body) with
                           | Some x => if noeff x then pureb x else true
                           | None => true
                           end
            | TSig _ => true
            end
        | XCombine a b => kx m a && kx m b
        | XFor c p body => oko n p && kx m body
        | _ => true
        end
      end.

  Lemma okA_S n s :
    okA (S n) s =
      match s with
      | SBlock b => okl n b
      | SIf i c t e => oko n i && okl n t && (match e with ENone => true | EElse b => okl n b | EElif x => okA n x end)
      | SSwitch i t cs => oko n i && forallb (fun lb => okl n (snd lb)) cs
      | SFor i c p b => oko n i && oko n p && okl n b
      | SRet e => kxA n n e
      | _ => true
      end.
  Proof. reflexivity. Qed.

  Lemma kxA_S n m e :
    kxA n (S m) e =
      match e with
      | XBind v t => okth n t
      | XDelay t =>
          okth n t &&
          match t with
          | TLit body => match single_ret (map (optA n) body) with
                         | Some x => if noeff x then pureb x else true
                         | None => true
                         end
          | TSig _ => true
          end
      | XCombine a b => kxA n m a && kxA n m b
      | XFor c p body => oko n p && kxA n m body
      | _ => true
      end.
  Proof. reflexivity. Qed.

  (* ---- pass A ---- *)
  Lemma optA_osr n : forall s, okA n s = true -> osr s (optA n s).
  Proof.
    induction n as [|n IH]; intros s Hok; [constructor|].
    assert (HL : forall l, okl n l = true -> Forall2 osr l (map (optA n) l)).
    { induction l as [|x r IHl]; cbn [map okl forallb]; intros H; constructor.
      - apply andb_prop in H. apply IH. tauto.
      - apply andb_prop in H. apply IHl. unfold okl. tauto. }
    assert (HO : forall o, oko n o = true -> oopt osr o (option_map (optA n) o)).
    { intros [x|] H; cbn; constructor. apply IH. exact H. }
    assert (HT : forall t, okth n t = true -> otr t (thA n t)).
    { intros [l|x] H; cbn; [apply ot_lit; apply HL; exact H|apply ot_refl]. }
    rewrite optA_S. rewrite okA_S in Hok.
    destruct s as [a|v|body|init c thn el|init tag cases|init c post body| | | | |e]; try apply os_refl.
    - apply os_block. apply HL. exact Hok.
    - apply andb_prop in Hok. destruct Hok as [H He]. apply andb_prop in H. destruct H as [Hi Ht].
      apply os_if; [apply HO; exact Hi|apply HL; exact Ht|].
      destruct el; cbn; constructor; [apply HL; exact He|apply IH; exact He].
    - apply andb_prop in Hok. destruct Hok as [Hi Hc]. apply os_switch; [apply HO; exact Hi|].
      induction cases as [|[lab b] r IHc]; cbn [map]; constructor.
      + cbn [forallb snd] in Hc. apply andb_prop in Hc. split; [reflexivity|]. cbn [snd]. apply HL. tauto.
      + cbn [forallb] in Hc. apply andb_prop in Hc. apply IHc. tauto.
    - apply andb_prop in Hok. destruct Hok as [H Hb]. apply andb_prop in H. destruct H as [Hi Hp].
      apply os_for; [apply HO; exact Hi|apply HO; exact Hp|apply HL; exact Hb].
    - apply os_ret. revert Hok. generalize n at 2 4 as m. intros m. revert e.
      induction m as [|m IHm]; intros e Hk; [apply ox_refl|].
      rewrite axA_S. rewrite kxA_S in Hk. destruct e as [v t|t|e1 e2|c p e| | | |]; try apply ox_refl.
      + apply ox_bind. apply HT. exact Hk.
      + apply andb_prop in Hk. destruct Hk as [Ht Hp]. pose proof (HT t Ht) as Htr.
        destruct t as [body|x]; cbn [thA] in *; [|apply ox_delay; exact Htr].
        destruct (single_ret (map (optA n) body)) as [x|] eqn:Es; [|apply ox_delay; exact Htr].
        destruct (noeff x) eqn:En; [|apply ox_delay; exact Htr].
        apply single_ret_spec in Es. rewrite Es in Htr. apply ox_elide; assumption.
      + apply andb_prop in Hk. destruct Hk as [H1 H2]. apply ox_combine; auto.
      + apply andb_prop in Hk. destruct Hk as [H1 H2]. apply ox_for; [apply oc_same|apply HO; exact H1|auto].
  Qed.

  (* ---- pass B ---- *)
  Definition thB (n : nat) (t : thunk) : thunk :=
    match t with
    | TLit body => match single_ret (map (optB n) body) with
                   | Some x => if is_sigx x then TSig x else TLit (map (optB n) body)
                   | None => TLit (map (optB n) body)
                   end
    | TSig x => TSig x
    end.
  Definition cndB (c : option cnd) : option cnd :=
    match c with
    | Some (CExp e0) => match eta_cond e0 with Some f => Some (CFun f) | None => Some (CExp e0) end
    | other => other
    end.
  Definition bxB (n : nat) : nat -> sexp -> sexp :=
    fix bx (m : nat) (e : sexp) {struct m} : sexp :=
      match m with 0 => e | S m =>
        match e with
        | XBind v t => XBind v (thB n t)
        | XDelay t => XDelay (thB n t)
        | XCombine a b => XCombine (bx m a) (bx m b)
        | XFor c p body => XFor (cndB c) (option_map (optB n) p) (bx m body)
        | _ => e
        end
      end.
  Definition elsB (n : nat) (e : els) : els :=
    match e with ENone => ENone | EElse b => EElse (map (optB n) b) | EElif x => EElif (optB n x) end.

  Lemma optB_S n s :
    optB (S n) s =
      match s with
      | SBlock b => SBlock (map (optB n) b)
      | SIf i c t e => SIf (option_map (optB n) i) c (map (optB n) t) (elsB n e)
      | SSwitch i t cs => SSwitch (option_map (optB n) i) t (map (fun lb => (fst lb, map (optB n) (snd lb))) cs)
      | SFor i c p b => SFor (option_map (optB n) i) c (option_map (optB n) p) (map (optB n) b)
      | SRet e => SRet (bxB n n e)
      | _ => s
      end.
  Proof. reflexivity. Qed.

  Lemma bxB_S n m e :
    bxB n (S m) e =
      match e with
      | XBind v t => XBind v (thB n t)
      | XDelay t => XDelay (thB n t)
      | XCombine a b => XCombine (bxB n m a) (bxB n m b)
      | XFor c p body => XFor (cndB c) (option_map (optB n) p) (bxB n m body)
      | _ => e
      end.
  Proof. reflexivity. Qed.

  Lemma optB_osr n : forall s, osr s (optB n s).
  Proof.
    induction n as [|n IH]; intros s; [constructor|].
    assert (HL : forall l, Forall2 osr l (map (optB n) l)).
    { induction l as [|x r IHl]; cbn [map]; constructor; auto. }
    assert (HO : forall o, oopt osr o (option_map (optB n) o)).
    { intros [x|]; cbn; constructor. apply IH. }
    assert (HT : forall t, otr t (thB n t)).
    { intros [l|x]; cbn [thB]; [|apply ot_refl]. pose proof (HL l) as Hl.
      destruct (single_ret (map (optB n) l)) as [x|] eqn:Es; [|apply ot_lit; exact Hl].
      destruct (is_sigx x) eqn:Ex; [|apply ot_lit; exact Hl].
      apply single_ret_spec in Es. rewrite Es in Hl. apply ot_eta; assumption. }
    rewrite optB_S.
    destruct s as [a|v|body|init c thn el|init tag cases|init c post body| | | | |e]; try apply os_refl.
    - apply os_block. apply HL.
    - apply os_if; [apply HO|apply HL|]. destruct el; cbn; constructor; [apply HL|apply IH].
    - apply os_switch; [apply HO|]. induction cases as [|[lab b] r IHc]; cbn [map]; constructor; [split; [reflexivity|apply HL]|exact IHc].
    - apply os_for; [apply HO|apply HO|apply HL].
    - apply os_ret. generalize n at 2 as m. intros m. revert e.
      induction m as [|m IHm]; intros e; [apply ox_refl|].
      rewrite bxB_S. destruct e as [v t|t|e1 e2|c p e| | | |]; try apply ox_refl.
      + apply ox_bind. apply HT.
      + apply ox_delay. apply HT.
      + apply ox_combine; auto.
      + apply ox_for; [|apply HO|auto]. unfold cndB. destruct c as [[e0|f0]|]; try apply oc_same.
        destruct (eta_cond e0) eqn:Ee; [apply oc_eta; exact Ee|apply oc_same].
  Qed.

  Lemma osr_ret_inv e s' : osr (SRet e) s' -> exists e', s' = SRet e' /\ oxr e e'.
  Proof. intros H. inversion H; subst; eexists; split; try reflexivity; [apply ox_refl|assumption]. Qed.

  (* the two passes as one pair of related expressions *)
  Lemma optimise_rel e : opt_ok is_lit e = true ->
    exists e1, oxr e e1 /\ oxr e1 (optimise is_lit eta_cond e).
  Proof.
    unfold opt_ok, optimise, OFUEL. intros Hok.
    pose proof (optA_osr 400 (SRet e) Hok) as HA.
    destruct (osr_ret_inv _ _ HA) as [e1 [E1 X1]]. rewrite E1.
    pose proof (optB_osr 400 (SRet e1)) as HB.
    destruct (osr_ret_inv _ _ HB) as [e2 [E2 X2]]. rewrite E2.
    exists e1. split; assumption.
  Qed.

  Section Sem.
    Variables U V P : Type.
    Variable aden : nat -> U -> outcome U P unit.
    Variable cden : nat -> U -> outcome U P bool.
    Variable tden : nat -> U -> outcome U P nat.
    Variable kval : nat -> nat.
    Variable yden : nat -> U -> outcome U P V.
    Variable env : nat -> V -> U -> U * bool.
    Variable strict : bool.
    Variable litval : nat -> V.
    Hypothesis Hlit : forall v u, is_lit v = true -> yden v u = Ok u (litval v).
    Hypothesis Heta : forall e f u, eta_cond e = Some f -> cden e u = cden f u.

    Notation run := (run aden cden tden kval yden env strict).

    (* seq.Start(e): the argument is evaluated when the generator function is called, the value
       it builds is run by the first MoveNext *)
    Definition start_run (n : nat) (e : sexp) (u : U) : option (final U P) :=
      match build yden e (u, 0) with
      | Ok u' sv => option_map (@final_of U V P) (run n sv (u', 0))
      | Panic u' pv => Some (FPanicked (u', 0) pv)
      | Stuck => Some FStuck
      end.

    Theorem optimise_correct e : opt_ok is_lit e = true ->
      forall n u f, start_run n e u = Some f -> start_run n (optimise is_lit eta_cond e) u = Some f.
    Proof.
      intros Hok n u f H. destruct (optimise_rel e Hok) as [e1 [X1 X2]]. unfold start_run in *.
      pose proof (@build_orel is_lit eta_cond U V P yden litval Hlit e e1 (u, 0) X1) as B1.
      destruct (build yden e (u, 0)) as [u1 sv|u1 pv|].
      - destruct B1 as [sv1 [E1 V1]].
        pose proof (@build_orel is_lit eta_cond U V P yden litval Hlit e1 _ (u, 0) X2) as B2. rewrite E1 in B2.
        destruct B2 as [sv2 [E2 V2]]. rewrite E2.
        destruct (run n sv (u1, 0)) as [r|] eqn:Er; [|discriminate].
        pose proof (proj1 (proj2 (proj2 (proj2 (proj2 (proj2 (@opt_sem is_lit eta_cond U V P aden cden tden kval yden env strict litval Hlit Heta n))))))
                      sv sv1 (u1, 0) r V1 Er) as R1.
        pose proof (proj1 (proj2 (proj2 (proj2 (proj2 (proj2 (@opt_sem is_lit eta_cond U V P aden cden tden kval yden env strict litval Hlit Heta n))))))
                      sv1 sv2 (u1, 0) r V2 R1) as R2.
        rewrite R2. exact H.
      - pose proof (@build_orel is_lit eta_cond U V P yden litval Hlit e1 _ (u, 0) X2) as B2. rewrite B1 in B2. rewrite B2. exact H.
      - pose proof (@build_orel is_lit eta_cond U V P yden litval Hlit e1 _ (u, 0) X2) as B2. rewrite B1 in B2. rewrite B2. exact H.
    Qed.
  End Sem.
End C.
