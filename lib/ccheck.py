"""Shared driver of the compiler-property checks (C01..C06, C11, C12, C18 compiled part):
grammar-directed programs -> real rewriter -> compiled run vs reference (refco) run."""
import collections
import json
import os
import random

import common as C
import cdiff
import pgen

TRUSTED = [
    "Coq 8.16.1 kernel; vm_compute for evaluating models on generated cases",
    "harness: lib/pgen.py (generator; the go-co and the reference rendering of one abstract program differ only in how Yield/YieldFrom/return are spelled), "
    "harness/genmod/refco (goroutine hand-off coroutines: native Go semantics of the body is the specification of 'Yield suspends'), harness/genmod/tr",
    "rewriter.VerifCompile hook (build tag verif): same rewriter/optimizer/printer objects as Compile, per-file recover, keeps the unoptimised stage",
]

# finding id -> (properties it can surface under, description)
FINDINGS = {
    "F1": "continue in a loop whose post statement yields skips that post statement (for ...; ...; Yield(x) { ... continue ... })",
    "F2": "break that leaves a switch from inside a callback (after a yield in the case body) is compiled to seq.Break: it breaks the enclosing loop or ends the generator",
    "F3": "yielding post statement placed inside the loop body block: a body-local declaration captures the post's variable",
    "F4": "range over an array iterates over the array itself instead of a copy (and does not build for unaddressable arrays)",
    "F9": "for v := range g { v := ... } redeclares v in the generated loop body (does not build)",
    "F24": "x, n := ... after a yield in the block that declared x declares a new x inside the generated function literal instead of assigning: closures created before it no longer see the update",
    "F18": "hoisting 'for i := ...' initialisers out of the loop shares one variable between iterations under go >= 1.22 semantics",
}

CORPUS = os.path.join(C.VERIF, "corpus")


def load_corpus(kind):
    """Regression programs (shrunk earlier failures of defects that are fixed): always run."""
    out = []
    path = os.path.join(CORPUS, kind + ".json")
    if os.path.exists(path):
        for i, e in enumerate(json.load(open(path))):
            out.append({"name": "K%s%d" % ("" if kind == "control" else kind.capitalize(), i), "body": e["body"], "corpus": e.get("what", ""), "tapes": e.get("tapes")})
    return out


def shrink_program(prog, failing, rounds=5):
    """Greedy statement-level shrinking; failing(list of progs) -> set of names that still fail."""
    cur = prog
    for r in range(rounds):
        cands = []
        for i, b in enumerate(body_shrinks(cur["body"])):
            if pgen.has_yield(b):
                cands.append({"name": "S%d" % i, "body": b})
        if not cands:
            break
        cands = cands[:120]
        still = failing(cands)
        if not still:
            break
        best = min((c for c in cands if c["name"] in still), key=lambda c: pgen.count(c["body"]))
        if pgen.count(best["body"]) >= pgen.count(cur["body"]):
            break
        cur = dict(cur, body=best["body"])
    return cur


def body_shrinks(ss):
    out = []
    for i, s in enumerate(ss):
        out.append(ss[:i] + ss[i + 1:])                       # delete statement i
        for label, sub in pgen.children_lists(s):            # replace by one of its sub-lists
            if s["s"] in ("block", "if") or (s["s"] in ("for", "range") and False):
                out.append(ss[:i] + sub + ss[i + 1:])
        k = s["s"]
        # shrink inside
        if k == "block":
            for b in body_shrinks(s["b"]):
                out.append(ss[:i] + [dict(s, b=b)] + ss[i + 1:])
        elif k == "if":
            for b in body_shrinks(s["then"]):
                out.append(ss[:i] + [dict(s, then=b)] + ss[i + 1:])
            if s.get("else") is not None:
                out.append(ss[:i] + [dict(s, **{"else": None})] + ss[i + 1:])
                if isinstance(s["else"], list):
                    for b in body_shrinks(s["else"]):
                        out.append(ss[:i] + [dict(s, **{"else": b})] + ss[i + 1:])
        elif k in ("for", "range", "rangeiter"):
            for b in body_shrinks(s["b"]):
                if k == "for" and s.get("c") is None and not b:
                    continue
                out.append(ss[:i] + [dict(s, b=b)] + ss[i + 1:])
            if k == "for" and s.get("init"):
                out.append(ss[:i] + [dict(s, init=None)] + ss[i + 1:])
        elif k in ("switch", "tswitch"):
            for j, c in enumerate(s["cases"]):
                if len(s["cases"]) > 1:
                    out.append(ss[:i] + [dict(s, cases=s["cases"][:j] + s["cases"][j + 1:])] + ss[i + 1:])
                for b in body_shrinks(c["b"]):
                    nc = s["cases"][:j] + [dict(c, b=b)] + s["cases"][j + 1:]
                    out.append(ss[:i] + [dict(s, cases=nc)] + ss[i + 1:])
    # keep break/continue/fallthrough well-placed: drop candidates that became ill-formed
    return [b for b in out if wellformed(b)]


def wellformed(ss, loop=False, sw=False):
    for s in ss:
        k = s["s"]
        if k == "break" and not (loop or sw):
            return False
        if k == "continue" and not loop:
            return False
        if k == "for" or k in ("range", "rangeiter"):
            if not wellformed(s["b"], True, False):
                return False
        elif k in ("switch", "tswitch"):
            for c in s["cases"]:
                if not wellformed(c["b"], loop, True):
                    return False
        else:
            for _, sub in pgen.children_lists(s):
                if not wellformed(sub, loop, sw):
                    return False
    return True


def run(rep, pid, feats, n, findings, rule, gover="1.21", tapes=3, histlen=10, budget=120, size=6,
        corpus=None, judge_compile=False, extra_progs=None, mutate=None, round_no=0):
    """Generate, compile, run, compare. findings: ids that may be reported as KNOWN-FINDING for this property.
    judge_compile: compile panics / build errors on untagged programs are violations (C11)."""
    rng = random.Random(C.seed() * 7368787 + int(pid[1:]) + 1000003 * round_no)
    progs = cdiff.gen_programs(rng, n, size=size, feats=feats)
    if mutate:
        progs = [mutate(p, rng) for p in progs]
    progs += (extra_progs or [])
    for c in (corpus or []):
        progs += load_corpus(c)
    R = cdiff.run_batch(pid, progs, rng, tapes=tapes, histlen=histlen, budget=budget, gover=gover, oc=True)
    import optcorpus
    progs = progs + [{"name": "oc." + nm, "body": [{"s": "raw", "y": True, "text": (ls["co"] if isinstance(ls, dict) else ls)}]}
                     for nm, ls in optcorpus.GENS.items()]
    by = {p["name"]: p for p in progs}
    shapes = {p["name"]: pgen.known_shapes(p["body"]) for p in progs}
    diffs = cdiff.compare(R["cases"], R["out"], R["ref"])
    diff_progs = collections.OrderedDict()
    for i in diffs:
        diff_progs.setdefault(R["cases"][i]["prog"], i)
    notok = {k: v for k, v in R["status"].items() if v != "ok"}

    feat_hits = collections.Counter()
    for p in progs:
        for f in pgen.features(p["body"]):
            feat_hits[f] += 1
    nontriv = set()
    for c, o in zip(R["cases"], R["out"]):
        ys = sum(1 for e in o["events"] if e[0] == 20 and e[1] == 1)
        if ys >= 1 and len(o["events"]) > 8:
            nontriv.add(C.digest([by[c["prog"]]["body"], c["tape"]]))
    rep.coverage.update({
        "evaluations": len(R["cases"]),
        "programs": len(progs),
        "distinct_nontrivial": len(nontriv),
        "rule": rule,
        "compile_status_histogram": dict(collections.Counter(v.split(":")[0] for v in R["status"].values())),
        "rule_kind_hits": len(feat_hits),
        "rule_kind_hit_matrix_top": dict(feat_hits.most_common(40)),
        "programs_matching_known_finding_shapes": sum(1 for p in progs if shapes[p["name"]]),
        "behaviour_differences": len(diff_progs),
        "samples": [{"program": pgen.render_func(p["name"], p["body"], "co"),
                     "tape": R["cases"][i]["tape"], "events": R["out"][i]["events"][:30]}
                    for i, p in [(i, by[R["cases"][i]["prog"]]) for i in (0, len(R["cases"]) // 2)]] if R["cases"] else [],
    })
    known_seen = set()
    unexplained = []
    for name, i in diff_progs.items():
        hit = shapes[name] & set(findings)
        if hit:
            known_seen |= hit
        else:
            unexplained.append((name, i))
    for name, why in notok.items():
        hit = shapes[name] & set(findings)
        if hit:
            known_seen |= hit
        elif judge_compile or name.startswith("oc."):
            # the hand-written corpus programs (lib/optcorpus.py) are known to compile and build on the unchanged tree:
            # one that is rejected or no longer builds is a failing input for every property whose check runs it
            unexplained.append((name, None))
    for f in sorted(known_seen):
        rep.known.append("%s %s" % (f, FINDINGS[f]))
    rep.coverage["known_findings_reproduced"] = sorted(known_seen)
    rep.coverage["rejected_or_unbuildable_programs"] = len(notok)

    # ---- structural correspondence: model of the rewriter (coq/Rewrite.v) vs the real output tree ----
    import structcheck
    ents = [e for e in R.get("struct", []) if e[1] is not None]
    rep.coverage["structural_comparisons"] = len(ents)
    rep.coverage["structural_unparsed"] = len(R.get("struct", [])) - len(ents)
    smism = []
    if ents:
        sw = C.workdir(pid + "st")
        try:
            smism, hyps = structcheck.compare(sw, ents)
        finally:
            C.rmtree(sw)
        # the computable side conditions of the C01 theorem (coq/Side.v) on every generated program
        names = {0: "model_rejects", 1: "model_output_not_legal", 2: "legal_but_outside_proved_fragment", 3: "within_C01_theorem"}
        cnt = {v: 0 for v in names.values()}
        cnt["within_end_to_end_machine_theorem"] = 0
        cnt["within_C01_theorem_with_input_only_side_conditions"] = 0
        nf = [h >= 10 for h in hyps]     # +10: c01_hyps_nf (no fallthrough; legality of the output is a theorem, P3Legal.v)
        hyps = [h % 10 for h in hyps]
        for h, f in zip(hyps, nf):
            cnt[names[min(h, 3)]] += 1
            if h == 4:   # code 4: c01_hyps and no native Yield left in the model output (Link.v / LinkMachine.v)
                cnt["within_end_to_end_machine_theorem"] += 1
            if f:
                cnt["within_C01_theorem_with_input_only_side_conditions"] += 1
        # the derived legality must agree with the checked one: input-only side conditions hold => the output is legal
        cnt["input_only_conditions_hold_but_output_not_legal"] = sum(1 for h, f in zip(hyps, nf) if f and h < 2)
        rep.coverage["theorem_side_conditions"] = cnt
        rep.coverage["legal_per_model_but_go_rejects_output"] = sum(
            1 for e, h in zip(ents, hyps) if h >= 2 and e[2][0] == "tree" and R["status"].get(e[0], "ok") != "ok")
        rep.coverage["go_accepts_output_but_not_legal_per_model"] = sum(
            1 for e, h in zip(ents, hyps) if h == 1 and e[2][0] == "tree" and R["status"].get(e[0], "ok") == "ok")
    rep.coverage["structural_mismatches"] = len(smism)
    if smism and not unexplained:
        idx, code = smism[0]
        name = ents[idx][0]
        prog = by[name]
        what = {1: "the real rewriter's output tree differs from the model's (coq/Rewrite.v)",
                2: "the model rejects this program, the real rewriter accepts it",
                3: "the model accepts this program, the real rewriter rejects it: " + R["status"].get(name, "")}[code]
        # intensified search for a failing input around the mismatching programs (up to 8 of them in one batch): more tapes, longer histories
        cand = [(ents[i][0], c) for i, c in smism[:8]]
        rr = cdiff.run_batch(pid + "x", [dict(by[nm], name="X%d" % j) for j, (nm, _) in enumerate(cand)], random.Random(3),
                             tapes=16, histlen=14, budget=budget, gover=gover)
        dd_all = cdiff.compare(rr["cases"], rr["out"], rr["ref"])
        for j, (nm, cj) in enumerate(cand):
            dd = [i for i in dd_all if rr["cases"][i]["prog"] == "X%d" % j]
            found = bool(dd) or (judge_compile and rr["status"].get("X%d" % j, "ok") != "ok")
            if found and not (shapes[nm] & set(findings)):
                unexplained.append((nm, None))
                whatj = {1: "the real rewriter's output tree differs from the model's (coq/Rewrite.v)",
                         2: "the model rejects this program, the real rewriter accepts it",
                         3: "the model accepts this program, the real rewriter rejects it: " + R["status"].get(nm, "")}[cj]
                replay = {"what": whatj + "; and the compiled program misbehaves / is rejected",
                          "program_go_co": pgen.render_func(nm, by[nm]["body"], "co"), "program_abstract": by[nm]["body"],
                          "tape": rr["cases"][dd[0]]["tape"] if dd else None, "history": rr["cases"][dd[0]]["hist"] if dd else None,
                          "compiled_events": rr["out"][dd[0]]["events"] if dd else None,
                          "reference_events": rr["ref"][dd[0]]["events"] if dd else None,
                          "status": rr["status"].get("X%d" % j), "go_version_of_user_module": gover}
                rep.violation(rep.write_replay("structural_and_behavioural", replay))
                return R, progs
        replay = {"what": "correspondence broken: " + what,
                  "correspondence": "lib/structcheck.py: abstract tree of <dst>_tmp (harness/cmd/abstract) vs Rewrite.rewrite (coq/Rewrite.v), code %d" % code,
                  "program_go_co": pgen.render_func(name, prog["body"], "co"), "program_abstract": prog["body"],
                  "searched": "16 tapes x 14 advances on each of the first %d mismatching programs: compiled and reference runs agree" % len(cand),
                  "other_structural_mismatches": len(smism) - 1}
        rep.violation(rep.write_replay("structural", replay), "no-failing-input-found")
        return R, progs

    # ---- scoping model (coq/Scope.v, ScopeExec.v): the scope lists of the REAL output tree vs those of the source ----
    if pid == "C03" and ents and not unexplained:
        xw = C.workdir(pid + "sx")
        try:
            codes = structcheck.scope_compare(xw, ents)
        finally:
            C.rmtree(xw)
        sc = {"programs_compared": sum(1 for c in codes if c % 10 != 0),
              "every_name_of_the_real_output_resolves_as_in_the_source": sum(1 for c in codes if c % 10 == 1),
              "some_name_resolves_differently": sum(1 for c in codes if c % 10 == 2),
              "within_C03_static_scoping_theorem": sum(1 for c in codes if (c // 10) % 10 == 1),
              "within_theorem_but_scope_lists_differ": sum(1 for c in codes if (c // 10) % 10 == 1 and c >= 1000),
              "scope_lists_differ_but_no_mentioned_name_is_affected": sum(1 for c in codes if c >= 1000 and c % 10 == 1),
              "partial_redeclaration_separated_from_its_declaration_F24_shape": sum(1 for c in codes if (c // 100) % 10 == 1),
              "F24_shape_predicate_of_the_generator_disagrees_with_the_model": sum(
                  1 for e, c in zip(ents, codes) if c % 10 != 0 and ((c // 100) % 10 == 1) != ("F24" in shapes[e[0]]))}
        rep.coverage["scope_model"] = sc
        bad = [(e[0], c) for e, c in zip(ents, codes)
               if (c % 10 == 2 and not (shapes[e[0]] & set(findings))) or ((c // 100) % 10 == 1 and "F24" not in shapes[e[0]])
               or ((c // 10) % 10 == 1 and c >= 1000)]
        if bad:
            name, code = bad[0]
            prog = by[name]
            what = ("in the generated code some name denotes another declaration than in the source "
                    "(coq/ScopeExec.v check_xcase on the abstract tree of the real output)" if code % 10 == 2 else
                    "the scope lists of the real output differ from the source's on a body inside the theorem C03_static_scoping_partial: the model "
                    "of the rewriter no longer describes the code" if (code // 100) % 10 != 1 else
                    "a partial redeclaration 'x, n := ...' has been moved out of the block that declared x (coq/ScopeExec.v sameblk): it now declares a new x")
            rr = cdiff.run_batch(pid + "x", [dict(prog, name="X0")], random.Random(3), tapes=16, histlen=14, budget=budget, gover=gover)
            dd = cdiff.compare(rr["cases"], rr["out"], rr["ref"])
            if dd or rr["status"].get("X0", "ok") != "ok":
                rep.violation(rep.write_replay("scope_and_behavioural", {
                    "what": what + "; and the compiled program misbehaves / does not build",
                    "program_go_co": pgen.render_func(name, prog["body"], "co"), "program_abstract": prog["body"],
                    "tape": rr["cases"][dd[0]]["tape"] if dd else None, "history": rr["cases"][dd[0]]["hist"] if dd else None,
                    "compiled_events": rr["out"][dd[0]]["events"] if dd else None,
                    "reference_events": rr["ref"][dd[0]]["events"] if dd else None,
                    "status": rr["status"].get("X0"), "go_version_of_user_module": gover}))
            else:
                rep.violation(rep.write_replay("scope", {
                    "what": "correspondence broken: " + what,
                    "correspondence": "lib/structcheck.py scope_compare: coq/ScopeExec.v check_xcase, code %d" % code,
                    "program_go_co": pgen.render_func(name, prog["body"], "co"), "program_abstract": prog["body"],
                    "searched": "16 tapes x 14 advances on this program: compiled and reference runs agree",
                    "other_programs": len(bad) - 1}), "no-failing-input-found")
            return R, progs

    # ---- behavioural correspondence: Coq semantics (Sem.v / CExec.v) vs reference run and compiled run ----
    rows, rmeta = [], []
    for ci, c in enumerate(R["cases"]):
        p = by.get(c["prog"])
        if p is None or p.get("body") is None or not structcheck.beh_eligible(p["body"]) or len(rows) >= (240 if n <= 400 else 1500):
            continue
        try:
            src = structcheck.src_stmts(p["body"]) + [{"s": "return"}]
            rows.append(structcheck.beh_case(src, c["tape"], c["budget"], len(c["hist"]) // 2, R["ref"][ci]["events"], R["out"][ci]["events"]))
            rmeta.append(ci)
        except structcheck.Unknown:
            pass
    bm = []
    if rows:
        bw = C.workdir(pid + "bh")
        try:
            bm = structcheck.beh_compare(bw, rows)
        finally:
            C.rmtree(bw)
    rep.coverage["semantics_vs_runs_comparisons"] = len(rows)
    rep.coverage["semantics_vs_runs_mismatches"] = len(bm)
    if bm and not unexplained:
        j, code = bm[0]
        ci = rmeta[j]
        name = R["cases"][ci]["prog"]
        what = {1: "Coq source semantics (Sem.exec) differs from the reference run on refco",
                2: "Coq target semantics of the model's rewriter output differs from the really compiled run",
                3: "Coq semantics stuck or out of fuel", 4: "model rejects the program"}[code]
        rep.violation(rep.write_replay("semantics", {
            "what": "correspondence broken: " + what, "correspondence": "coq/CExec.v check_bcase code %d" % code,
            "program_go_co": pgen.render_func(name, by[name]["body"], "co"), "program_abstract": by[name]["body"],
            "tape": R["cases"][ci]["tape"], "compiled_events": R["out"][ci]["events"], "reference_events": R["ref"][ci]["events"],
            "searched": "compiled and reference runs of all generated programs agree in this run"}), "no-failing-input-found")
        return R, progs

    if unexplained:
        name, i = unexplained[0]
        prog = by[name]
        tape_cases = [c for c in R["cases"] if c["prog"] == name]

        def failing(cands):
            rr = cdiff.run_batch(pid + "s", cands, random.Random(1), tapes=tapes, histlen=histlen, budget=budget, gover=gover)
            bad = {rr["cases"][j]["prog"] for j in cdiff.compare(rr["cases"], rr["out"], rr["ref"])}
            if judge_compile:
                bad |= {k for k, v in rr["status"].items() if v != "ok"}
            return {b for b in bad if not (pgen.known_shapes(next(c for c in cands if c["name"] == b)["body"]) & set(findings))}
        small = prog
        try:
            if len(progs) > 1:
                small = shrink_program(prog, failing)
        except Exception as ex:   # shrinking is best effort
            C.log("shrink failed:", ex)
        # re-run the shrunk program so that tape and traces in the replay belong to it
        tape = R["cases"][i]["tape"] if i is not None else None
        hist = R["cases"][i]["hist"] if i is not None else None
        cev = R["out"][i]["events"] if i is not None else None
        rev = R["ref"][i]["events"] if i is not None else None
        status_small = notok.get(name, "")
        try:
            rr = cdiff.run_batch(pid + "f", [dict(small, name="R0")], random.Random(2), tapes=4, histlen=histlen, budget=budget, gover=gover)
            dd = cdiff.compare(rr["cases"], rr["out"], rr["ref"])
            if dd:
                j = dd[0]
                tape, hist, cev, rev = rr["cases"][j]["tape"], rr["cases"][j]["hist"], rr["out"][j]["events"], rr["ref"][j]["events"]
            status_small = rr["status"].get("R0", status_small)
        except Exception as ex:
            C.log("final replay run failed:", ex)
        replay = {
            "what": ("compiled generator behaves differently from its source (reference rendering on refco)" if i is not None
                     else "supported program rejected by the compiler or generated code does not build: " + status_small),
            "program_go_co": pgen.render_func(small["name"], small["body"], "co"),
            "program_abstract": small["body"],
            "original_program_go_co": pgen.render_func(name, prog["body"], "co"),
            "tape": tape,
            "history": hist,
            "compiled_events": cev,
            "reference_events": rev,
            "go_version_of_user_module": gover,
            "other_failing_programs": len(unexplained) - 1,
            "how_to_replay": "bin/check %s --replay <this file>" % pid,
        }
        rep.violation(rep.write_replay("compiled_vs_source", replay))
    return R, progs


def replay(rep, path, gover="1.21"):
    data = json.load(open(path))
    prog = {"name": "R0", "body": data["program_abstract"], "tapes": [data["tape"]] if data.get("tape") is not None else None}
    rr = cdiff.run_batch(rep.pid + "r", [prog], random.Random(1), tapes=3, gover=data.get("go_version_of_user_module", gover))
    d = cdiff.compare(rr["cases"], rr["out"], rr["ref"])
    print("status:", rr["status"])
    for i in d:
        print("tape", rr["cases"][i]["tape"])
        print("compiled ", rr["out"][i]["events"])
        print("reference", rr["ref"][i]["events"])
    return 1 if d or any(v != "ok" for v in rr["status"].values()) else 0
