(* Props_C01.v — compiled generators yield exactly the source's coroutine sequence.

   Full statement (C01): for every generator body the compiler accepts, driving the
   compiled iterator produces exactly the values, in the order, with the side effects,
   the end of the sequence and the panics that the source coroutine would produce,
   for every consumer.

   What is proved (PARTIAL — see DESIGN.md): the statement above for the rewriter
   model (Rewrite.v: pass0, pass2, pass3 with rmRedundantReturn and the
   isTerminating / hasBreak checks) on every body made of atoms, Yield, blocks,
   if / else-if / else chains, switch (tag, tag-less), for loops (init / post
   statements atoms or yields), break / continue / return, for which the computable
   side conditions [c01_hyps] hold: the body is in that fragment (Side.supp: the two
   excluded shapes are the recorded findings F1 and F2), its nesting depth and that
   of the rewritten code are below the fuel of the model's termination checker, and
   the output is legal Go in the sense of Strict.v.  Missing: the optimiser (C07),
   range / YieldFrom as syntax (their lowering is proved in Delegate.v / RangeLoop.v
   and validated by the structural correspondence), and legality of the output as a
   theorem rather than a checked condition (its main part, termination of every
   generated function literal, is C11_output_literals_terminate_partial).

   The semantics quantifies over the denotations of user code (atoms, conditions,
   tags, yielded expressions: arbitrary state transformers that may panic) and over
   the consumer [env] (which may stop after any value), so the theorem covers every
   interleaving of consumer and generator, every stop point and every panic point. *)
From Coq Require Import List.
From Verif Require Import Base Syntax Sem Rewrite Side RwBase Rel TermSound RwCorrect Strict C01Main C01Legal Link LinkMachine.
Import ListNotations.

Theorem C01_compiled_equals_source_partial :
  forall (U V P : Type)
         (aden : nat -> U -> outcome U P unit) (cden : nat -> U -> outcome U P bool)
         (tden : nat -> U -> outcome U P nat) (kval : nat -> nat) (yden : nat -> U -> outcome U P V)
         (env : nat -> V -> U -> U * bool)
         (body : list stmt),
    c01_hyps body = true ->
    exists out, rewrite body = OK out /\
      forall n u f,
        run_source aden cden tden kval yden env n body u = Some f -> f <> FStuck ->
        exists m, run_target aden cden tden kval yden env true m out u = Some f.
Proof. exact compiler_correct_hyps. Qed.
Print Assumptions C01_compiled_equals_source_partial.

(* the pass2 simulation on its own, for any block kind and any fuel *)
Theorem C01_pass2_simulation_partial :
  forall (U V P : Type)
         (aden : nat -> U -> outcome U P unit) (cden : nat -> U -> outcome U P bool)
         (tden : nat -> U -> outcome U P nat) (kval : nat -> nat) (yden : nat -> U -> outcome U P V)
         (env : nat -> V -> U -> U * bool)
         (f k : nat) (ss : list stmt) (B : blk),
    supps k ss = true ->
    rw_stmts f ss (mkBlock KDelay) = OK B ->
    forall w r, TM aden cden tden kval yden env ss w r -> TM aden cden tden kval yden env (bstmts B) w r.
Proof.
  intros U V P aden cden tden kval yden env f k ss B Hs HB w r [n H].
  destruct (proj1 (pass2_correct aden cden tden kval yden env f) k ss (mkBlock KDelay) B Hs (Forall_nil _) eq_refl HB (S n) w r) as [m Hm].
  - apply Nseq_empty. exact H.
  - exists m. exact Hm.
Qed.
Print Assumptions C01_pass2_simulation_partial.

(* The same with side conditions on the INPUT only, for bodies without `fallthrough`: [c01_hyps_nf body] says that the
   body (after pass0) is in the fragment [supp2 true] and that the body and the intermediate code of pass2 stay below the
   depth bound; that the rewriter accepts the body is still part of it (pass12 body = OK …, computed), but legality of the
   output is now DERIVED: [legalb] of the output is a conclusion (Legal.v, P3Term.v, P3Legal.v). *)
Theorem C01_compiled_equals_source_nofall_partial :
  forall (U V P : Type)
         (aden : nat -> U -> outcome U P unit) (cden : nat -> U -> outcome U P bool)
         (tden : nat -> U -> outcome U P nat) (kval : nat -> nat) (yden : nat -> U -> outcome U P V)
         (env : nat -> V -> U -> U * bool)
         (body : list stmt),
    c01_hyps_nf body = true ->
    exists out, rewrite body = OK out /\ legalb (S (S KS)) out = true /\
      forall n u f,
        run_source aden cden tden kval yden env n body u = Some f -> f <> FStuck ->
        exists m, run_target aden cden tden kval yden env true m out u = Some f.
Proof. exact compiler_correct_nofall. Qed.
Print Assumptions C01_compiled_equals_source_nofall_partial.

Example C01_hyps_nf_hold :
  c01_hyps_nf [SFor (Some (SAtom 1)) (Some 2) (Some (SAtom 3)) [SYield 4; SIf None 5 [SBreak] ENone; SAtom 6];
               SSwitch None (Some 7) [(LVals [0], [SYield 8; SAtom 9]); (LDefault, [SAtom 10])]; SYield 11; SReturn] = true.
Proof. vm_compute. reflexivity. Qed.

(* END TO END, down to the machine model of seq/seq.go.  [machine_target … K out u N F] is the
   consumer's loop — MoveNext; Current; hand the value to the consumer; go on unless it stops — written
   with the methods of the generator object that SeqMachine.v models after seq.go (heap of co cells,
   continuations as closures, the trampoline of For), started on Start(Delay(func() Seq { out }));
   N is the fuel of one advance, F the number of advances.  For every body inside the theorem's side
   conditions whose model output contains no native Yield statement (computable: forallb (lk KS) out,
   evaluated on every generated program, code 4 of hyp_code), every outcome of the source coroutine is
   the outcome of that loop, for all large enough N and F.  Composition of the compiler theorem above,
   Link.v (the big-step reading of seq values used by the compiler proof is an execution of the
   reference interpreter of the runtime layer) and the refinement of Props_C08.v / Protocol.v (the
   machine refines the reference interpreter). *)
Theorem C01_end_to_end_machine_partial :
  forall (U V P : Type)
         (aden : nat -> U -> outcome U P unit) (cden : nat -> U -> outcome U P bool)
         (tden : nat -> U -> outcome U P nat) (kval : nat -> nat) (yden : nat -> U -> outcome U P V)
         (env : nat -> V -> U -> U * bool) (zeroV : V)
         (body : list stmt),
    c01_hyps body = true ->
    exists out, rewrite body = OK out /\
      (forallb (lk KS) out = true ->
       forall n u f,
         run_source aden cden tden kval yden env n body u = Some f -> f <> FStuck ->
         exists M, forall N F, M <= N -> M <= F ->
           machine_target U V P aden cden tden kval yden env zeroV KS out u N F = Some f).
Proof.
  intros U V P aden cden tden kval yden env zeroV body Hh.
  destruct (compiler_correct_hyps U V P aden cden tden kval yden env body Hh) as [out [Ho Hsim]].
  exists out. split; [exact Ho|]. intros Hlk n u f Hs Hns.
  destruct (Hsim n u f Hs Hns) as [m Hm].
  exact (machine_link U V P aden cden tden kval yden env zeroV KS out m u f Hlk Hm Hns).
Qed.
Print Assumptions C01_end_to_end_machine_partial.

(* ... and with the input-only side conditions of C01_compiled_equals_source_nofall_partial *)
Theorem C01_end_to_end_machine_nofall_partial :
  forall (U V P : Type)
         (aden : nat -> U -> outcome U P unit) (cden : nat -> U -> outcome U P bool)
         (tden : nat -> U -> outcome U P nat) (kval : nat -> nat) (yden : nat -> U -> outcome U P V)
         (env : nat -> V -> U -> U * bool) (zeroV : V)
         (body : list stmt),
    c01_hyps_nf body = true ->
    exists out, rewrite body = OK out /\
      (forallb (lk KS) out = true ->
       forall n u f,
         run_source aden cden tden kval yden env n body u = Some f -> f <> FStuck ->
         exists M, forall N F, M <= N -> M <= F ->
           machine_target U V P aden cden tden kval yden env zeroV KS out u N F = Some f).
Proof.
  intros U V P aden cden tden kval yden env zeroV body Hh.
  destruct (compiler_correct_nofall U V P aden cden tden kval yden env body Hh) as [out [Ho [_ Hsim]]].
  exists out. split; [exact Ho|]. intros Hlk n u f Hs Hns.
  destruct (Hsim n u f Hs Hns) as [m Hm].
  exact (machine_link U V P aden cden tden kval yden env zeroV KS out m u f Hlk Hm Hns).
Qed.
Print Assumptions C01_end_to_end_machine_nofall_partial.

Example C01_end_to_end_hyps_hold :
  match rewrite [SFor (Some (SAtom 1)) (Some 2) (Some (SAtom 3)) [SYield 4; SIf None 5 [SBreak] ENone; SAtom 6]; SYield 7; SReturn] with
  | OK out => forallb (lk KS) out
  | Err _ => false
  end = true.
Proof. vm_compute. reflexivity. Qed.

(* non-vacuity: bodies with yields under if / else-if chains, early return, and a
   break replaced by a signal satisfy the side conditions *)
Example C01_hyps_hold_1 :
  c01_hyps [SAtom 1; SIf None 2 [SYield 3; SAtom 4] (EElif (SIf None 5 [SYield 6] ENone)); SYield 7; SReturn] = true.
Proof. vm_compute. reflexivity. Qed.
Example C01_hyps_hold_2 :
  c01_hyps [SIf (Some (SAtom 9)) 2 [SYield 3; SIf None 4 [SReturn] (EElse [SYield 5; SAtom 6])] ENone; SAtom 7; SYield 8] = true.
Proof. vm_compute. reflexivity. Qed.
(* loops: a three-clause loop with a yield and a conditional break / continue in its body, then more statements *)
Example C01_hyps_hold_3 :
  c01_hyps [SFor (Some (SAtom 1)) (Some 2) (Some (SAtom 3))
              [SIf None 4 [SBreak] ENone; SYield 5; SIf None 6 [SContinue] ENone; SAtom 7];
            SYield 8;
            SFor None None None [SYield 9; SIf None 10 [SReturn] ENone]] = true.
Proof. vm_compute. reflexivity. Qed.
(* switches: a tag switch and a tag-less switch with yields in their case bodies inside a loop *)
Example C01_hyps_hold_4 :
  c01_hyps [SFor None (Some 1) (Some (SAtom 2))
              [SSwitch (Some (SAtom 3)) (Some 4)
                 [(LVals [5; 6], [SYield 7; SAtom 8]); (LDefault, [SIf None 9 [SContinue] ENone; SYield 10]); (LVals [11], [SAtom 12])];
               SSwitch None None [(LCond 13, [SYield 14; SReturn]); (LCond 15, [SAtom 16])];
               SYield 17]] = true.
Proof. vm_compute. reflexivity. Qed.
(* init statements that yield (hoisted in front of the loop / switch) *)
Example C01_hyps_hold_5 :
  c01_hyps [SFor (Some (SYield 1)) (Some 2) (Some (SAtom 9)) [SYield 3; SAtom 8];
            SSwitch (Some (SYield 4)) (Some 5) [(LVals [6], [SAtom 7])];
            SSwitch (Some (SYield 10)) None [(LCond 11, [SYield 12]); (LDefault, [SAtom 13])]] = true.
Proof. vm_compute. reflexivity. Qed.
(* a post statement that yields (no continue in the body targets that loop) *)
Example C01_hyps_hold_6 :
  c01_hyps [SFor (Some (SAtom 1)) (Some 2) (Some (SYield 3)) [SAtom 4; SIf None 5 [SBreak] ENone; SYield 6];
            SFor None (Some 7) (Some (SYield 8)) [SAtom 9];
            SFor None (Some 10) (Some (SYield 11)) [SIf None 12 [SYield 13] ENone]] = true.
Proof. vm_compute. reflexivity. Qed.
(* ... and with a continue the side conditions fail (finding F1: the compiled loop skips the post statement) *)
Example C01_F1_outside :
  c01_hyps [SFor None (Some 1) (Some (SYield 2)) [SIf None 3 [SContinue] ENone; SYield 4]] = false.
Proof. vm_compute. reflexivity. Qed.
(* a switch whose yield-free clauses leave by break or fall through, next to a yielding clause *)
Example C01_hyps_hold_7 :
  c01_hyps [SFor None (Some 1) None
              [SSwitch None (Some 2) [(LVals [3], [SAtom 4; SIf None 5 [SBreak] ENone; SAtom 6]);
                                      (LVals [7], [SAtom 8; SFallthrough]);
                                      (LVals [9], [SYield 10; SAtom 11]);
                                      (LDefault, [SBreak])];
               SYield 12]] = true.
Proof. vm_compute. reflexivity. Qed.
(* ... and a break after a yield in the same clause is outside (finding F2) *)
Example C01_F2_outside :
  c01_hyps [SSwitch None (Some 1) [(LVals [2], [SYield 3; SBreak])]; SYield 4] = false.
Proof. vm_compute. reflexivity. Qed.
