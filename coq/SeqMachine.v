(* SeqMachine.v — "the code": a definitional interpreter of the defunctionalised
   Go program seq/seq.go, clause for clause (DESIGN.md §3.2).

   Go closure                                   constructor
   ------------------------------------------   -----------------------
   Bind(v,f) / BindRecv(v,f) / Delay(f)         SBind / SBindRecv / SDelay
   Combine(s1,s2) / For(cond,post,body)         SCombine / SFor
   seqOfK(t) (Normal/Break/Continue/Return)     SOfK t
   ReturnValue(v)                               SRetV v
   Start's final continuation                   KFinal g
   the continuation literal inside For          KFor cd p b c k dl ep
   the continuation literal inside Combine      KCombine s2 c k
   mkNextRecv's closure                         NNext wrapped f c k

   Every Go call is a Coq call with depth d+1 (tail calls included: Go does not
   eliminate them).  The only place where the depth does NOT grow is the
   trampoline of For: a continuation invoked while body(...) of the same
   iteration is still on the stack sets `again` and returns, and the loop
   frame (depth dl) continues.  "Still on the stack" is modelled by the epoch
   counter of the co cell (number of `next` invocations so far): the KFor frame
   records the epoch at which body(...) was called; it is invoked synchronously
   iff the epoch is unchanged.  Unwinding through tail positions has no effect
   and is not modelled step by step (trusted base, checked by correspondence).

   [dlog] records the depth of every user-code call (thunk, cond, post); it is
   what C17 talks about and is not visible to the reference interpreter. *)
From Verif Require Import Base.

Set Implicit Arguments.

Inductive ctype := KNormal | KBreak | KContinue | KReturn.

Definition ctype_eqb (a b : ctype) : bool :=
  match a, b with
  | KNormal, KNormal | KBreak, KBreak | KContinue, KContinue | KReturn, KReturn => true
  | _, _ => false
  end.

Section Machine.
  Variables U V P : Type.
  Variable zeroV : V.

  Notation oracle := (oracle U P).
  Notation outcome := (outcome U P).

  (* values of Go type Seq[V]: one constructor per closure-returning function *)
  Inductive seqv :=
  | SBind (v : V) (f : oracle seqv)
  | SBindRecv (v : V) (f : V -> oracle seqv)
  | SDelay (f : oracle seqv)
  | SCombine (a b : seqv)
  | SFor (c : option (oracle bool)) (p : option (oracle unit)) (b : seqv)
  | SOfK (t : ctype)
  | SRetV (v : V).

  Definition evalc (c : option (oracle bool)) n (u : U) : option (outcome bool) :=
    match c with None => Some (Ok u true) | Some f => f n u end.
  Definition evalp (p : option (oracle unit)) n (u : U) : option (outcome unit) :=
    match p with None => Some (Ok u tt) | Some f => f n u end.

  Inductive cont :=
  | KFinal (g : loc)
  | KFor (c : option (oracle bool)) (p : option (oracle unit)) (b : seqv)
         (cl : loc) (k : cont) (dl : nat) (ep : nat)
  | KCombine (s2 : seqv) (cl : loc) (k : cont).

  (* wrapped = true for closures made by mkNext (one extra Go frame around f) *)
  Inductive nextc :=
  | NNext (wrapped : bool) (f : V -> oracle seqv) (cl : loc) (k : cont)
  | NStart (s : seqv) (cl : loc) (k : cont).     (* Start's  func() Seq[V] { return seq }  *)

  Record step := { sval : V; snext : nextc }.
  Record cocell := { cstep : option step; cepoch : nat }.
  Record gen := { started : bool; gnext : option nextc; current : V; result : V }.
  Record st := { cos : list (loc * cocell); gens : list (loc * gen); world : U; dlog : list nat }.

  Definition get_epoch (m : st) (c : loc) : nat :=
    match lookup (cos m) c with Some cc => cepoch cc | None => 0 end.
  Definition get_step (m : st) (c : loc) : option step :=
    match lookup (cos m) c with Some cc => cstep cc | None => None end.
  Definition set_step (m : st) c (x : option step) :=
    {| cos := update (cos m) c {| cstep := x; cepoch := get_epoch m c |};
       gens := gens m; world := world m; dlog := dlog m |}.
  Definition bump_epoch (m : st) c :=
    {| cos := update (cos m) c {| cstep := get_step m c; cepoch := S (get_epoch m c) |};
       gens := gens m; world := world m; dlog := dlog m |}.
  Definition set_world (m : st) u :=
    {| cos := cos m; gens := gens m; world := u; dlog := dlog m |}.
  Definition logd (m : st) d :=
    {| cos := cos m; gens := gens m; world := world m; dlog := d :: dlog m |}.
  Definition set_gen (m : st) g r :=
    {| cos := cos m; gens := update (gens m) g r; world := world m; dlog := dlog m |}.
  Definition set_result (m : st) g v :=
    match lookup (gens m) g with
    | Some r => set_gen m g {| started := started r; gnext := gnext r; current := current r; result := v |}
    | None => m
    end.

  (* result of a Go call: returned normally in state s / panicking / stuck user code *)
  Inductive mres (A : Type) := MOk (s : st) (a : A) | MPanic (s : st) (pv : P) | MStuck.
  Arguments MPanic {A}.
  Arguments MStuck {A}.

  (* run an oracle (a user function called at depth d) from machine state m *)
  Definition call_user {A} (f : oracle A) n d (m : st) : option (mres A) :=
    match f n (world m) with
    | None => None
    | Some (Ok u a) => Some (MOk (set_world (logd m d) u) a)
    | Some (Panic u pv) => Some (MPanic (set_world (logd m d) u) pv)
    | Some Stuck => Some MStuck
    end.

  (* call_seq n d s c k m : the Go call  s(c, k)  at stack depth d *)
  Fixpoint call_seq (n d : nat) (s : seqv) (c : loc) (k : cont) (m : st) {struct n} : option (mres unit) :=
    match n with 0 => None | S n =>
      match s with
      | SBind v f =>                                            (* seq.go Bind *)
          Some (MOk (set_step m c (Some {| sval := v; snext := NNext true (fun _ => f) c k |})) tt)
      | SBindRecv v f =>                                        (* seq.go BindRecv *)
          Some (MOk (set_step m c (Some {| sval := v; snext := NNext false f c k |})) tt)
      | SDelay f =>                                             (* seq.go Delay: f()(c, k) *)
          match call_user f n (S d) m with
          | None => None
          | Some (MOk m' s') => call_seq n (S d) s' c k m'
          | Some (MPanic m' pv) => Some (MPanic m' pv)
          | Some MStuck => Some MStuck
          end
      | SCombine a b => call_seq n (S d) a c (KCombine b c k) m  (* seq.go Combine *)
      | SFor cd p b => loop n (S d) cd p b c k true m            (* seq.go For: loop(true) *)
      | SOfK t => call_cont n (S d) k t zeroV m                  (* seq.go seqOfK *)
      | SRetV v => call_cont n (S d) k KReturn v m               (* seq.go ReturnValue *)
      end
    end
  (* one trampoline iteration of For's loop, the loop frame being at depth d *)
  with loop (n d : nat) cd p b (c : loc) (k : cont) (skipPost : bool) (m : st) {struct n} : option (mres unit) :=
    match n with 0 => None | S n =>
      match (if skipPost then Some (MOk m tt)
             else match p with None => Some (MOk m tt) | Some pf => call_user pf n (S d) m end) with
      | None => None
      | Some (MPanic m1 pv) => Some (MPanic m1 pv)
      | Some MStuck => Some MStuck
      | Some (MOk m1 _) =>
        match (match cd with None => Some (MOk m1 true) | Some cf => call_user cf n (S d) m1 end) with
        | None => None
        | Some (MPanic m2 pv) => Some (MPanic m2 pv)
        | Some MStuck => Some MStuck
        | Some (MOk m2 true) => call_seq n (S d) b c (KFor cd p b c k d (get_epoch m2 c)) m2
        | Some (MOk m2 false) => call_cont n (S d) k KNormal zeroV m2
        end
      end
    end
  (* call_cont n d k t v m : the Go call  k(t, v)  at stack depth d *)
  with call_cont (n d : nat) (k : cont) (t : ctype) (v : V) (m : st) {struct n} : option (mres unit) :=
    match n with 0 => None | S n =>
      match k with
      | KFinal g => Some (MOk (set_result m g v) tt)             (* Start: it.result = v *)
      | KCombine s2 c k' =>
          match t with
          | KNormal => call_seq n (S d) s2 c k' m
          | _ => call_cont n (S d) k' t v m
          end
      | KFor cd p b c k' dl ep =>
          match t with
          | KNormal | KContinue =>
              if Nat.eqb ep (get_epoch m c)
              then loop n dl cd p b c k' false m                 (* again = true; frames unwind to the loop *)
              else loop n (S d) cd p b c k' false m              (* loop(false) on a fresh stack *)
          | KBreak => call_cont n (S d) k' KNormal zeroV m
          | KReturn => call_cont n (S d) k' KReturn v m
          end
      end
    end.

  (* one-step unfoldings with the mutually recursive calls kept folded *)
  Lemma call_seq_S n d s c k m :
    call_seq (S n) d s c k m =
      match s with
      | SBind v f => Some (MOk (set_step m c (Some {| sval := v; snext := NNext true (fun _ => f) c k |})) tt)
      | SBindRecv v f => Some (MOk (set_step m c (Some {| sval := v; snext := NNext false f c k |})) tt)
      | SDelay f =>
          match call_user f n (S d) m with
          | None => None
          | Some (MOk m' s') => call_seq n (S d) s' c k m'
          | Some (MPanic m' pv) => Some (MPanic m' pv)
          | Some MStuck => Some MStuck
          end
      | SCombine a b => call_seq n (S d) a c (KCombine b c k) m
      | SFor cd p b => loop n (S d) cd p b c k true m
      | SOfK t => call_cont n (S d) k t zeroV m
      | SRetV v => call_cont n (S d) k KReturn v m
      end.
  Proof. reflexivity. Qed.

  Lemma loop_S n d cd p b c k skipPost m :
    loop (S n) d cd p b c k skipPost m =
      match (if skipPost then Some (MOk m tt)
             else match p with None => Some (MOk m tt) | Some pf => call_user pf n (S d) m end) with
      | None => None
      | Some (MPanic m1 pv) => Some (MPanic m1 pv)
      | Some MStuck => Some MStuck
      | Some (MOk m1 _) =>
        match (match cd with None => Some (MOk m1 true) | Some cf => call_user cf n (S d) m1 end) with
        | None => None
        | Some (MPanic m2 pv) => Some (MPanic m2 pv)
        | Some MStuck => Some MStuck
        | Some (MOk m2 true) => call_seq n (S d) b c (KFor cd p b c k d (get_epoch m2 c)) m2
        | Some (MOk m2 false) => call_cont n (S d) k KNormal zeroV m2
        end
      end.
  Proof. reflexivity. Qed.

  Lemma call_cont_S n d k t v m :
    call_cont (S n) d k t v m =
      match k with
      | KFinal g => Some (MOk (set_result m g v) tt)
      | KCombine s2 c k' =>
          match t with
          | KNormal => call_seq n (S d) s2 c k' m
          | _ => call_cont n (S d) k' t v m
          end
      | KFor cd p b c k' dl ep =>
          match t with
          | KNormal | KContinue =>
              if Nat.eqb ep (get_epoch m c)
              then loop n dl cd p b c k' false m
              else loop n (S d) cd p b c k' false m
          | KBreak => call_cont n (S d) k' KNormal zeroV m
          | KReturn => call_cont n (S d) k' KReturn v m
          end
      end.
  Proof. reflexivity. Qed.

  (* the closure returned by mkNextRecv, called at depth d with the sent value *)
  Definition call_next (n d : nat) (nx : nextc) (recv : V) (m : st) : option (mres (option step)) :=
    let finish c (r : option (mres unit)) : option (mres (option step)) :=
      match r with                                   (* s := c.step; c.step = nil; return s *)
      | None => None
      | Some (MPanic m'' pv) => Some (MPanic m'' pv)
      | Some MStuck => Some MStuck
      | Some (MOk m'' _) => Some (MOk (set_step m'' c None) (get_step m'' c))
      end in
    match nx with
    | NNext wrapped f c k =>
      let m := bump_epoch m c in
      match call_user (f recv) n (if wrapped then S (S d) else S d) m with
      | None => None
      | Some (MPanic m' pv) => Some (MPanic m' pv)
      | Some MStuck => Some MStuck
      | Some (MOk m' s') => finish c (call_seq n (S d) s' c k m')
      end
    | NStart s c k => finish c (call_seq n (S d) s c k (bump_epoch m c))
    end.

  (* ---- generator (seq.go lines 170-231) ---- *)

  Definition fresh {A} (l : list (loc * A)) : loc := S (fold_right (fun p acc => Nat.max (fst p) acc) 0 l).

  (* Start(seq): allocates a co cell and a generator record *)
  Definition start (s : seqv) (m : st) : st * loc :=
    let c := fresh (cos m) in
    let g := fresh (gens m) in
    ({| cos := update (cos m) c {| cstep := None; cepoch := 0 |};
        gens := update (gens m) g
                  {| started := false;
                     gnext := Some (NStart s c (KFinal g));
                     current := zeroV; result := zeroV |};
        world := world m; dlog := dlog m |}, g).

  Definition gen_result (g : loc) (m : st) : V :=
    match lookup (gens m) g with Some r => result r | None => zeroV end.
  Definition gen_current (g : loc) (m : st) : V :=
    match lookup (gens m) g with Some r => current r | None => zeroV end.

  (* generator.moveNext(sent), called at depth d *)
  Definition gen_moveNext (n d : nat) (g : loc) (sent : V) (m : st) : option (mres bool) :=
    match lookup (gens m) g with
    | None => Some MStuck
    | Some r =>
      match gnext r with
      | None => Some (MOk m false)
      | Some nx =>
        match call_next n (S d) nx sent m with
        | None => None
        | Some (MPanic m' pv) => Some (MPanic m' pv)
        | Some MStuck => Some MStuck
        | Some (MOk m' so) =>
          match lookup (gens m') g with
          | None => Some MStuck
          | Some r' =>
            match so with
            | None => Some (MOk (set_gen m' g {| started := started r'; gnext := None;
                                                 current := zeroV; result := result r' |}) false)
            | Some s => Some (MOk (set_gen m' g {| started := started r'; gnext := Some (snext s);
                                                   current := sval s; result := result r' |}) true)
            end
          end
        end
      end
    end.

  Definition set_started (g : loc) (m : st) : st :=
    match lookup (gens m) g with
    | Some r => set_gen m g {| started := true; gnext := gnext r; current := current r; result := result r |}
    | None => m
    end.

  (* generator.MoveNext(), called at depth d *)
  Definition gen_MoveNext (n d : nat) (g : loc) (m : st) : option (mres bool) :=
    gen_moveNext n (S d) g zeroV (set_started g m).

  (* generator.Send(v), called at depth d *)
  Definition gen_Send (n d : nat) (g : loc) (v : V) (m : st) : option (mres (V * bool)) :=
    let isStarted := match lookup (gens m) g with Some r => started r | None => false end in
    let first := if isStarted then Some (MOk m true) else gen_MoveNext n (S d) g m in
    match first with
    | None => None
    | Some (MPanic m' pv) => Some (MPanic m' pv)
    | Some MStuck => Some MStuck
    | Some (MOk m1 false) => Some (MOk m1 (zeroV, false))
    | Some (MOk m1 true) =>
      match gen_moveNext n (S d) g v m1 with
      | None => None
      | Some (MPanic m' pv) => Some (MPanic m' pv)
      | Some MStuck => Some MStuck
      | Some (MOk m2 true) => Some (MOk m2 (gen_current g m2, true))
      | Some (MOk m2 false) => Some (MOk m2 (zeroV, false))
      end
    end.

  Definition empty_st (u : U) : st := {| cos := []; gens := []; world := u; dlog := [] |}.
End Machine.

Arguments MPanic {U V P A}.
Arguments MStuck {U V P A}.
Arguments SBind {U V P}.
Arguments SBindRecv {U V P}.
Arguments SDelay {U V P}.
Arguments SCombine {U V P}.
Arguments SFor {U V P}.
Arguments SOfK {U V P}.
Arguments SRetV {U V P}.
Arguments KFinal {U V P}.
Arguments KFor {U V P}.
Arguments KCombine {U V P}.
Arguments NNext {U V P}.
Arguments NStart {U V P}.
Arguments MOk {U V P A}.
