(* Props_C10.v — the built-in range iterators equal Go's range, for every input.
   Iters.v models seq/iter.go method by method; the range specification
   (range_int, range_string, range_slice, channel/map sections) is written from
   the Go language specification; Utf8.decode_rune is the decoder the string
   iterator calls, proved against the RFC 3629 encoder. *)
From Coq Require Import List ZArith Lia.
From Verif Require Import Utf8 Iters.
Import ListNotations.

(* integer: for every n (also n <= 0), the keys are 0 .. n-1 *)
Theorem C10_integer :
  forall (n : Z) (fuel : nat), (Z.to_nat n < fuel)%nat ->
    fst (drain int_moveNext int_current fuel (new_int n)) = range_int n.
Proof. exact int_iter_correct. Qed.
Print Assumptions C10_integer.

Theorem C10_integer_nothing_for_nonpositive : forall n, (n <= 0)%Z -> range_int n = [].
Proof. intros n H. unfold range_int. replace (Z.to_nat n) with 0%nat by lia. reflexivity. Qed.
Print Assumptions C10_integer_nothing_for_nonpositive.

(* string: for every byte string (valid UTF-8 or not), the iterator produces the
   (byte offset, rune) pairs of the range statement *)
Theorem C10_string :
  forall (s : list Z) (fuel : nat), length s < fuel ->
    fst (drain str_moveNext str_current fuel (new_str s)) = range_string s.
Proof. exact str_iter_correct. Qed.
Print Assumptions C10_string.

(* the decoder agrees with UTF-8 encoding on every Unicode scalar value, whatever
   bytes follow, and always advances by 1..4 bytes (U+FFFD / width 1 on invalid input
   is what the Go specification prescribes and what the table implements) *)
Theorem C10_decoder_roundtrip :
  forall r tl, scalar r -> decode_rune (encode_rune r ++ tl) = (r, length (encode_rune r)).
Proof. exact decode_encode. Qed.
Print Assumptions C10_decoder_roundtrip.
Theorem C10_decoder_progress : forall p, p <> [] -> (1 <= snd (decode_rune p) <= 4)%nat.
Proof. exact decode_width_pos. Qed.
Print Assumptions C10_decoder_progress.

(* slice: length snapshot, element i read when iteration i starts, for every
   length and every body (= arbitrary store transformer per iteration) *)
Theorem C10_slice :
  forall (V : Type) (zeroV : V) (len : nat) (body : nat -> list V -> list V) (i fuel : nat) (st : list V),
    len - i < fuel -> i <= len ->
    sl_loop zeroV fuel {| sl_len := len; sl_idx := Z.of_nat i - 1 |} body i st = range_slice zeroV (len - i) body i st.
Proof. exact slice_iter_correct. Qed.
Print Assumptions C10_slice.

(* channel: the values sent, in order, until close; an open empty channel blocks *)
Theorem C10_chan :
  forall (V : Type) (zeroV : V) (q : list V) (cur : V),
    ch_drain zeroV (S (length q)) {| ch_q := q; ch_closed := true |} cur = Some q.
Proof. exact chan_iter_correct. Qed.
Print Assumptions C10_chan.

(* map: every entry of the underlying Go map iterator is delivered unchanged, also
   when key or value is the nil interface (partial: reflect.MapIter itself — each
   entry once, deleted-before-reached entries skipped — is the Go runtime's
   guarantee and is checked against native range by the correspondence run) *)
Theorem C10_map_partial :
  forall (D : Type) (entries : list (option D * option D)), map (@map_current D) entries = entries.
Proof. exact map_iter_correct. Qed.
Print Assumptions C10_map_partial.

(* non-vacuity *)
Example C10_example_string :
  range_string [97; 195; 169; 255; 239; 191; 189; 122]%Z = [(0, 97%Z); (1, 233%Z); (3, 65533%Z); (4, 65533%Z); (7, 122%Z)].
Proof. vm_compute. reflexivity. Qed.
Example C10_example_int : range_int 3 = [0; 1; 2]%Z /\ range_int (-2) = [].
Proof. split; reflexivity. Qed.
