"""Per-property configuration of the compiler checks (features, sizes, findings, rule texts)."""
import os

import common as C
import ccheck


def proof_part(rep, pid):
    """Compile Props_<pid>.v when it exists; otherwise the check is differential only."""
    if not os.path.exists(os.path.join(C.COQ, "Props_%s.v" % pid)):
        rep.level = "translation_validation"
        rep.coverage["trusted_base"] = ccheck.TRUSTED
        return True
    props = C.coq_props(pid)
    rep.add_proof(props)
    rep.coverage["trusted_base"] = ccheck.TRUSTED
    if not props["ok"]:
        path = rep.write_replay("proof_broken", {"what": "Props_%s.v or a file it depends on no longer checks" % pid,
                                                 "forbidden": props["bad"], "coqc_output": props["output"]})
        rep.violation(path, "no-failing-input-found")
        return False
    return True


def finish_tv(rep, R):
    rep.coverage.setdefault("programs", 0)
    rep.coverage["disagreements_checked"] = rep.coverage.get("behaviour_differences", 0)


CFG = {
    "C01": dict(feats={"postyield"}, findings=["F1", "F2"], corpus=["control"],
                rule="random generator bodies over blocks, if/else-if chains, tag/tag-less switches with default in any position, "
                     "cond-only/three-clause/infinite for loops (init/post may yield), unlabelled break/continue, return; each run on 3 tapes "
                     "(branch steering) with 10 advances + Current; compiled (real rewriter + real seq) vs reference rendering on refco; "
                     "non-trivial = at least one value delivered and > 8 events"),
    "C02": dict(feats={"postyield", "vars"}, findings=["F1", "F2"], corpus=["control"],
                rule="same grammar with side-effecting atoms between yields; the full event log (every atom/condition/yielded-expression "
                     "evaluation interleaved with the consumer's MoveNext/Current marks, incl. the call of the generator function itself and "
                     "advances after exhaustion) is compared, so every truncation point of the consumer is covered by prefix closure"),
    "C03": dict(feats={"vars", "closures", "postyield", "range", "redecl", "declinit", "consumer"}, findings=["F1", "F2", "F3", "F4", "F18", "F24"], corpus=["control", "scope"],
                rule="bodies that declare, shadow (nested blocks, branches, loop bodies, case clauses), increment, yield and log integer locals "
                     "and create closures that update them, partially redeclare them ('x, n := ...' in the block that declared x), declare them in for-initialisers ('for x := ...; c; x++', also shadowing an outer x), at random positions relative to yields, and range loops in all variable forms (k, v := / k, v = over "
                     "variables declared before the loop, read again after it) incl. range over library generators ('for w = range g' / 'for w := range g'); values observed through tr.U events and yielded values"),
    "C18": dict(feats={"panic", "postyield", "yieldfrom"}, findings=["F1", "F2"], corpus=["control"],
                rule="bodies with panicking atoms (tape-steered) at random positions incl. loops, switch cases and delegates; which consumer call "
                     "panics, with which value, and everything delivered before are compared with the reference rendering"),
    "C04": dict(feats={"range", "rangeint"}, findings=["F1", "F2", "F4"], corpus=["control", "range"], gover="1.22",
                rule="range loops over string/slice/array/map(<=1 entry)/channel/integer/[]any x forms (k,v := | k := | _,v := | none | k,v = | k =) x bodies "
                     "(yielding, break/continue, mutation of the ranged slice/array incl. append, nested in plain closures); the range expression logs its "
                     "evaluation; user module at go 1.22"),
    "C05": dict(feats={"yieldfrom", "postyield"}, findings=["F1", "F2"], corpus=["control", "yieldfrom"],
                rule="YieldFrom of library generators (empty, straight-line, loop, self-recursive) at random statement positions incl. loops and cases; "
                     "delegates log their own events so the number and timing of delegate steps is compared"),
    "C06": dict(feats={"consumer", "yieldfrom"}, findings=["F1", "F2", "F9"], corpus=["control", "consumer"],
                rule="for v := range g / for v = range g over library generators inside generator bodies with break/continue/return and nested ranges; "
                     "reference rendering is the pull loop it := g; it.MoveNext(); v (:)= it.Current()"),
    "C11": dict(feats={"postyield", "vars", "closures", "range", "yieldfrom", "consumer"}, findings=["F1", "F2", "F3", "F4", "F9"], corpus=["control", "accept"],
                judge=True, imports=["dot", "default+seqrenamed", "renamed", "dot+seq", "default", "renamed+seq"],
                rule="programs of the whole supported grammar; the files of each package import the API in six different ways (dot, default name, "
                     "renamed, each with and without an already present import of seq under its own or another name); verdict = the compiler does not panic and the generated package builds (go build) "
                     "— behaviour is compared too"),
}


def check(rep, tier, pid):
    cfg = CFG[pid]
    if not proof_part(rep, pid):
        return
    # the real optimiser is quadratic in the number of files of one Compile run: the thorough tier runs
    # several batches of 500 programs instead of one big one, and adds up what they covered
    rounds = 1 if tier == "quick" else 5
    n = 240 if tier == "quick" else 500
    listed = [e["id"] for e in C.known_findings(pid) if e["kind"] == "finding"]
    import cdiff
    cdiff.IMPORT_STYLES = cfg.get("imports")
    rep.coverage["import_styles"] = cfg.get("imports") or ["dot"]
    total = {}
    R = progs = None
    for rno in range(rounds):
        R, progs = ccheck.run(rep, pid, cfg["feats"], n, [f for f in cfg["findings"] if f in listed], cfg["rule"], gover=cfg.get("gover", "1.21"),
                              corpus=cfg.get("corpus"), judge_compile=cfg.get("judge", False),
                              tapes=3 if tier == "quick" else 5, round_no=rno)
        for k, v in list(rep.coverage.items()):
            if isinstance(v, bool) or not isinstance(v, (int, dict)):
                continue
            if isinstance(v, int):
                total[k] = total.get(k, 0) + v
            elif v and all(isinstance(x, int) and not isinstance(x, bool) for x in v.values()):
                t = total.setdefault(k, {})
                for kk, vv in v.items():
                    t[kk] = t.get(kk, 0) + vv
        if rep.violations:
            break
    if rounds > 1:
        rep.coverage.update(total)
        rep.coverage["rounds"] = rounds
    rep.known = list(dict.fromkeys(rep.known))
    finish_tv(rep, R)
    rep.assumptions = ["generated programs call opaque, deterministic atoms (package tr); conditions are steered by a tape",
                       "the reference coroutine runtime (goroutine hand-off) is taken as the meaning of 'Yield suspends the function'"]
