(* Props_C11.v — the compiler accepts the whole supported subset and its output builds.

   Full statement (C11): on every type-correct package whose generator functions stay within
   the supported subset the compiler terminates without panicking, under every way of importing
   the API, and the generated files type-check and build.

   What is proved (PARTIAL): for the rewriter model (Rewrite.v), on every body of the fragment
   [supp] (atoms, Yield, blocks, if chains, switch, for, break / continue / return; init and
   post statements that do not yield): none of the assertions of yield_block.go /
   yield_rewrite.go can fail — pushing onto a frozen or unchecked block, popping an empty block,
   pushReturn with a non-return kind, returnNormalRequired on a wrong kind of block, "yield in
   if-init", "post is not a return" — for any fuel; the only failure of the model is running
   out of its own fuel, which the Go code does not have.  That the output builds is a checked
   condition, not a theorem: [legalb] (every generated function literal returns a seq value on
   every path, no stray break / continue / fallthrough) is evaluated on every generated program
   by the structural correspondence (evidence of C01: model_output_not_legal = 0) and the real
   output is built with `go build` by the C11 check, under six import styles.  Types, names,
   imports, methods / generics / function literals as generator hosts are not modelled. *)
From Coq Require Import List.
From Verif Require Import Base Syntax Rewrite Side.
From Verif Require Import Accept C01Main Placement.
Import ListNotations.

Theorem C11_no_assertion_failure_partial :
  forall (k : nat) (body : list stmt),
    supps k (map (pass0 400) body) = true ->
    match rewrite body with OK _ => True | Err e => e = E_FUEL end.
Proof. exact rewrite_no_assert. Qed.
Print Assumptions C11_no_assertion_failure_partial.

(* any fuel, any block kind the rewriter starts from *)
Theorem C11_no_assertion_any_fuel_partial :
  forall (f k : nat) (ss : list stmt) (kd : kind),
    supps k ss = true -> good_bkind kd = true ->
    ok_err (rw_stmts f ss (mkBlock kd)).
Proof. intros f k ss kd Hs Hk. apply okB_ok_err. exact (proj1 (accept f) k ss (mkBlock kd) Hs (ready_mk kd Hk)). Qed.
Print Assumptions C11_no_assertion_any_fuel_partial.

(* whatever the rewriter's pass2 produced (of nesting depth below the fuel of pass3), after pass3 no
   break / continue is left where Go would reject it: break only in a native loop or switch of the
   same function literal, continue only in a native loop *)
Theorem C11_branch_placement_partial :
  forall (body mid out : list stmt) (k : nat),
    pass12 body = OK mid -> rewrite body = OK out ->
    S (S (S k)) < P3FUEL -> forallb (fitsb k) mid = true ->
    forallb (bpl (S (S k)) false false) out = true.
Proof.
  intros body mid out k H12 Hrw Hk Hf.
  destruct (rewrite_spec body out Hrw) as [mid' [H12' ->]]. rewrite H12 in H12'. injection H12' as <-.
  apply pass3_placement; assumption.
Qed.
Print Assumptions C11_branch_placement_partial.

(* non-vacuity: a supported body on which the model succeeds; and a body outside the fragment
   (yield in an if-init) on which the model does fail an assertion *)
Example C11_example_accept :
  let body := [SFor (Some (SAtom 1)) (Some 2) (Some (SAtom 3)) [SSwitch None (Some 4) [(LVals [5], [SYield 6]); (LDefault, [SAtom 7])]; SYield 8]] in
  supps 10 (map (pass0 400) body) = true /\ exists out, rewrite body = OK out.
Proof. cbv zeta. split; [vm_compute; reflexivity|]. eexists. vm_compute. reflexivity. Qed.
Example C11_example_reject :
  rewrite [SIf (Some (SYield 1)) 2 [SYield 3] ENone] = Err E_YIELD_IN_INIT.
Proof. vm_compute. reflexivity. Qed.
