(* Gensym.v — helper identifiers of the rewriter (rewriter/range.go: gensym):

       r.symCnt++ ; return prefix + strconv.Itoa(r.symCnt)

   The counter belongs to one rewriter instance (one processed file) and starts at 0.  The model renders
   the counter in decimal exactly as strconv.Itoa does for positive numbers (most significant digit
   first, no leading zero); characters are byte codes. *)
From Coq Require Import List Arith Lia DecimalNat FinFun.
Import ListNotations.

Fixpoint uint_chars (d : Decimal.uint) : list nat :=
  match d with
  | Decimal.Nil => []
  | Decimal.D0 r => 48 :: uint_chars r | Decimal.D1 r => 49 :: uint_chars r | Decimal.D2 r => 50 :: uint_chars r
  | Decimal.D3 r => 51 :: uint_chars r | Decimal.D4 r => 52 :: uint_chars r | Decimal.D5 r => 53 :: uint_chars r
  | Decimal.D6 r => 54 :: uint_chars r | Decimal.D7 r => 55 :: uint_chars r | Decimal.D8 r => 56 :: uint_chars r
  | Decimal.D9 r => 57 :: uint_chars r
  end.

Definition itoa (n : nat) : list nat := uint_chars (Nat.to_uint n).

(* one call of gensym: the new name and the new counter *)
Definition gensym (prefix : list nat) (cnt : nat) : list nat * nat := (prefix ++ itoa (S cnt), S cnt).

(* the names produced by n successive calls on a fresh rewriter *)
Fixpoint gensyms (prefix : list nat) (cnt n : nat) : list (list nat) :=
  match n with 0 => [] | S n => fst (gensym prefix cnt) :: gensyms prefix (snd (gensym prefix cnt)) n end.

Lemma uint_chars_inj : forall a b, uint_chars a = uint_chars b -> a = b.
Proof.
  induction a as [|a IH|a IH|a IH|a IH|a IH|a IH|a IH|a IH|a IH|a IH]; intros b H; destruct b; cbn in H; try discriminate;
    try reflexivity; injection H as H; f_equal; apply IH; exact H.
Qed.

Lemma itoa_inj n m : itoa n = itoa m -> n = m.
Proof.
  intros H. apply uint_chars_inj in H.
  rewrite <- (Unsigned.of_to n), <- (Unsigned.of_to m), H. reflexivity.
Qed.

Lemma gensyms_spec prefix : forall n cnt, gensyms prefix cnt n = map (fun i => prefix ++ itoa i) (seq (S cnt) n).
Proof. induction n as [|n IH]; intros cnt; [reflexivity|]. cbn [gensyms gensym fst snd seq map]. rewrite IH. reflexivity. Qed.

Theorem gensyms_nodup prefix cnt n : NoDup (gensyms prefix cnt n).
Proof.
  rewrite gensyms_spec. apply Injective_map_NoDup; [|apply seq_NoDup].
  intros i j H. apply app_inv_head in H. apply itoa_inj. exact H.
Qed.

(* a name with a counter never equals the bare prefix (the un-numbered `ɪʇ` of range-over-iterator loops) *)
Lemma itoa_nonempty n : itoa n <> [].
Proof.
  unfold itoa. intros H. assert (E : Nat.to_uint n = Decimal.Nil) by (destruct (Nat.to_uint n); cbn in H; try discriminate; reflexivity).
  assert (Hn : n = 0) by (rewrite <- (Unsigned.of_to n), E; reflexivity). subst n. discriminate E.
Qed.

Theorem gensym_not_prefix prefix cnt : fst (gensym prefix cnt) <> prefix.
Proof.
  cbn [gensym fst]. intros H. rewrite <- (app_nil_r prefix) in H at 2. apply app_inv_head in H. exact (itoa_nonempty _ H).
Qed.
