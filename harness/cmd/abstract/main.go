// abstract: parses generated Go files (the rewriter's unoptimised or optimised stage)
// and prints, for every generator function, the abstract tree of the callback body
// handed to seq.Start(seq.Delay(...)) as JSON (the target syntax of coq/Syntax.v).
// Opaque parts (simple statements, conditions, tags, yielded expressions) are given
// as whitespace-free source text.
package main

import (
	"bytes"
	"encoding/json"
	"fmt"
	"go/ast"
	"go/parser"
	"go/printer"
	"go/token"
	"os"
	"path/filepath"
	"strings"
)

type J = map[string]any

var fset = token.NewFileSet()

func text(n ast.Node) string {
	var buf bytes.Buffer
	printer.Fprint(&buf, fset, n)
	return strings.Join(strings.Fields(buf.String()), "")
}

// seqCall recognises <pkg>.Name[T](args) or Name[T](args) and returns Name, args.
func seqCall(e ast.Expr) (string, []ast.Expr, bool) {
	call, ok := e.(*ast.CallExpr)
	if !ok {
		return "", nil, false
	}
	fun := call.Fun
	if ix, ok := fun.(*ast.IndexExpr); ok {
		fun = ix.X
	}
	switch f := fun.(type) {
	case *ast.SelectorExpr:
		return f.Sel.Name, call.Args, true
	case *ast.Ident:
		return f.Name, call.Args, true
	}
	return "", nil, false
}

// seqFuncValue recognises a function value <pkg>.Name[T] (eta-reduced thunk).
func seqFuncValue(e ast.Expr) (string, bool) {
	if ix, ok := e.(*ast.IndexExpr); ok {
		switch f := ix.X.(type) {
		case *ast.SelectorExpr:
			return f.Sel.Name, true
		case *ast.Ident:
			return f.Name, true
		}
	}
	return "", false
}

func funcLitBody(e ast.Expr) ([]ast.Stmt, bool) {
	fl, ok := e.(*ast.FuncLit)
	if !ok {
		return nil, false
	}
	return fl.Body.List, true
}

// thunk: func() Seq { body }  |  seq.Normal[T] (function value: body = return Normal())
func thunk(e ast.Expr) any {
	if b, ok := funcLitBody(e); ok {
		return stmts(b)
	}
	if name, ok := seqFuncValue(e); ok {
		return J{"fv": strings.ToLower(name)}
	}
	return J{"unknown": text(e)}
}

func sexp(e ast.Expr) J {
	name, args, ok := seqCall(e)
	if !ok {
		return J{"x": "unknown", "t": text(e)}
	}
	switch name {
	case "Bind":
		if len(args) == 2 {
			return J{"x": "bind", "v": text(args[0]), "body": thunk(args[1])}
		}
	case "Delay":
		if len(args) == 1 {
			return J{"x": "delay", "body": thunk(args[0])}
		}
	case "Combine":
		if len(args) == 2 {
			return J{"x": "combine", "a": sexp(args[0]), "b": sexp(args[1])}
		}
	case "For", "While", "Loop":
		var cond, post, body ast.Expr
		switch name {
		case "For":
			if len(args) == 3 {
				cond, post, body = args[0], args[1], args[2]
			}
		case "While":
			if len(args) == 2 {
				cond, body = args[0], args[1]
			}
		case "Loop":
			if len(args) == 1 {
				body = args[0]
			}
		}
		if body == nil {
			break
		}
		j := J{"x": "for", "c": nil, "p": nil, "body": sexp(body)}
		if cond != nil {
			if id, ok := cond.(*ast.Ident); ok && id.Name == "nil" {
				j["c"] = nil
			} else if b, ok := funcLitBody(cond); ok && len(b) == 1 {
				if r, ok := b[0].(*ast.ReturnStmt); ok && len(r.Results) == 1 {
					j["c"] = text(r.Results[0])
				} else {
					j["c"] = "?" + text(cond)
				}
			} else {
				j["c"] = "=" + text(cond) // a function value used as condition (eta-reduced)
			}
		}
		if post != nil {
			if b, ok := funcLitBody(post); ok && len(b) == 1 {
				j["p"] = stmt(b[0])
			} else {
				j["p"] = J{"s": "unknown", "t": text(post)}
			}
		}
		return j
	case "Normal", "Break", "Continue", "Return":
		if len(args) == 0 {
			return J{"x": strings.ToLower(name)}
		}
	}
	return J{"x": "unknown", "t": text(e)}
}

func optStmt(s ast.Stmt) any {
	if s == nil {
		return nil
	}
	return stmt(s)
}

func stmts(l []ast.Stmt) []any {
	out := []any{}
	for _, s := range l {
		if _, ok := s.(*ast.EmptyStmt); ok {
			continue
		}
		out = append(out, stmt(s))
	}
	return out
}

func stmt(s ast.Stmt) J {
	switch s := s.(type) {
	case *ast.BlockStmt:
		return J{"s": "block", "b": stmts(s.List)}
	case *ast.IfStmt:
		j := J{"s": "if", "init": optStmt(s.Init), "c": text(s.Cond), "then": stmts(s.Body.List), "else": nil}
		switch e := s.Else.(type) {
		case *ast.BlockStmt:
			j["else"] = J{"b": stmts(e.List)}
		case *ast.IfStmt:
			j["else"] = J{"if": stmt(e)}
		}
		return j
	case *ast.SwitchStmt:
		j := J{"s": "switch", "init": optStmt(s.Init), "tag": nil}
		if s.Tag != nil {
			j["tag"] = text(s.Tag)
		}
		cases := []any{}
		for _, c := range s.Body.List {
			cc := c.(*ast.CaseClause)
			var lab any = "default"
			if cc.List != nil {
				vs := []string{}
				for _, e := range cc.List {
					vs = append(vs, text(e))
				}
				lab = vs
			}
			cases = append(cases, J{"l": lab, "b": stmts(cc.Body)})
		}
		j["cases"] = cases
		return j
	case *ast.ForStmt:
		j := J{"s": "for", "init": optStmt(s.Init), "c": nil, "post": optStmt(s.Post), "b": stmts(s.Body.List)}
		if s.Cond != nil {
			j["c"] = text(s.Cond)
		}
		return j
	case *ast.BranchStmt:
		if s.Label == nil {
			switch s.Tok {
			case token.BREAK:
				return J{"s": "break"}
			case token.CONTINUE:
				return J{"s": "continue"}
			case token.FALLTHROUGH:
				return J{"s": "fallthrough"}
			}
		}
	case *ast.ReturnStmt:
		if len(s.Results) == 1 {
			if name, _, ok := seqCall(s.Results[0]); ok {
				switch name {
				case "Bind", "Delay", "Combine", "For", "While", "Loop", "Normal", "Break", "Continue", "Return":
					return J{"s": "ret", "e": sexp(s.Results[0])}
				}
			}
		}
	}
	return J{"s": "atom", "t": text(s)}
}

func main() {
	out := []J{}
	for _, dir := range os.Args[1:] {
		filepath.Walk(dir, func(path string, info os.FileInfo, err error) error {
			if err != nil || info.IsDir() || !strings.HasSuffix(path, ".go") {
				return nil
			}
			f, err := parser.ParseFile(fset, path, nil, 0)
			if err != nil {
				out = append(out, J{"file": path, "error": err.Error()})
				return nil
			}
			for _, d := range f.Decls {
				fd, ok := d.(*ast.FuncDecl)
				if !ok || fd.Body == nil || len(fd.Body.List) != 1 {
					continue
				}
				ret, ok := fd.Body.List[0].(*ast.ReturnStmt)
				if !ok || len(ret.Results) != 1 {
					continue
				}
				name, args, ok := seqCall(ret.Results[0])
				if !ok || name != "Start" || len(args) != 1 {
					continue
				}
				out = append(out, J{"file": path, "pkg": f.Name.Name, "func": fd.Name.Name, "start": sexp(args[0])})
			}
			return nil
		})
	}
	if err := json.NewEncoder(os.Stdout).Encode(out); err != nil {
		fmt.Fprintln(os.Stderr, err)
		os.Exit(1)
	}
}
