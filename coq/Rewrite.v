(* Rewrite.v — model of the rewriter's per-generator pipeline on abstract syntax
   (rewriter/yield_rewrite.go, yield_block.go, return.go), function by function:

   pass0   rewriteReturnAndForSwitchInitStmtInYieldFun   return -> return seq.Return()
   pass2   rewriteStmts / rewriteStmt / rewriteIfStmt / rewriteSwitchStmt / rewriteForStmt /
           combineIfNecessary / generateLastNormalIfNecessary over the [blk] record
   pass3   rewriteBreakContinues (+ rmRedundantReturn)

   The Go code mutates *block values whose *ast.BlockStmt is already embedded in
   the parent's expression; the model is the equivalent "finish the inner block,
   then push" form: a function that moves on to a new callback body takes the rest
   of the work as a continuation [k] and embeds the finished block.  Every assert
   of the Go code is an [Err].  Functions recurse on fuel (program size suffices).
   Not modelled here: pass1 (ranges), the YieldFrom / range-over-iterator lowering
   and the hoisting of ':=' initialisers (see Lower.v), type checks. *)
From Coq Require Import List Arith Bool.
From Verif Require Import Syntax.
Import ListNotations.

Inductive kind := KTrivial | KDelay | KIf | KSwitch | KNormal | KYield | KCombine | KFor.

Definition kind_eqb (a b : kind) : bool :=
  match a, b with
  | KTrivial, KTrivial | KDelay, KDelay | KIf, KIf | KSwitch, KSwitch
  | KNormal, KNormal | KYield, KYield | KCombine, KCombine | KFor, KFor => true
  | _, _ => false
  end.

(* kinds that MUST be constructed with a return statement (kind >= kindNormal) *)
Definition is_ret_kind (k : kind) : bool :=
  match k with KNormal | KYield | KCombine | KFor => true | _ => false end.

Inductive res (A : Type) := OK (a : A) | Err (why : nat).
Arguments OK {A}.
Arguments Err {A}.

Definition bind {A B} (m : res A) (f : A -> res B) : res B :=
  match m with OK a => f a | Err w => Err w end.
Notation "x <- m ;; f" := (bind m (fun x => f)) (at level 61, m at next level, right associativity).

(* error tags *)
Definition E_FUEL := 0.
Definition E_ASSERT_PUSH := 1.      (* push on a frozen block / combine not checked *)
Definition E_ASSERT_POP := 2.
Definition E_ASSERT_KIND := 3.      (* returnNormalRequired on a wrong kind of block *)
Definition E_YIELD_IN_INIT := 4.    (* yield not supported in if-init *)
Definition E_POST_NOT_RETURN := 5.
Definition E_UNSUPPORTED := 6.

Record blk := { bstmts : list stmt; bkinds : list kind; bkind : kind; frozen : bool; checked : bool }.

Definition mkBlock (k : kind) : blk := {| bstmts := []; bkinds := []; bkind := k; frozen := false; checked := true |}.
Definition blen (b : blk) : nat := length (bstmts b).
Definition markCombined (b : blk) : blk :=
  {| bstmts := bstmts b; bkinds := bkinds b; bkind := bkind b; frozen := frozen b; checked := true |}.

Definition push (b : blk) (s : stmt) (k : kind) : res blk :=
  if negb (checked b) || frozen b then Err E_ASSERT_PUSH
  else OK {| bstmts := bstmts b ++ [s]; bkinds := bkinds b ++ [k]; bkind := bkind b; frozen := false; checked := false |}.

Definition pushReturn (b : blk) (e : sexp) (k : kind) : res blk :=
  if negb (is_ret_kind k) then Err E_ASSERT_KIND else
  b' <- push b (SRet e) k ;;
  OK {| bstmts := bstmts b'; bkinds := bkinds b'; bkind := bkind b'; frozen := true; checked := checked b' |}.

Definition lastKind (b : blk) : option kind := last (map Some (bkinds b)) None.
Definition lastStmt (b : blk) : option stmt := last (map Some (bstmts b)) None.

Definition pop (b : blk) : res (stmt * kind * blk) :=
  match lastStmt b, lastKind b with
  | Some s, Some k =>
      OK (s, k, {| bstmts := removelast (bstmts b); bkinds := removelast (bkinds b); bkind := bkind b;
                   frozen := false; checked := checked b |})
  | _, _ => Err E_ASSERT_POP
  end.

Definition mayContainsYield (b : blk) : bool :=
  match lastKind b with
  | None => false
  | Some (KYield | KFor | KCombine) => true
  | Some _ => existsb (fun k => match k with KIf | KSwitch => true | _ => false end) (bkinds b)
  end.
Definition mustNoYield (b : blk) : bool := negb (mayContainsYield b).
Definition combineRequired (b : blk) : bool :=
  match lastKind b with Some KTrivial | None => false | Some _ => true end.

(* ---------- return.go: the termination checker ---------- *)
Fixpoint has_break (n : nat) (s : stmt) {struct n} : bool :=
  match n with 0 => false | S n =>
    let any := fix go (l : list stmt) : bool := match l with [] => false | x :: r => has_break n x || go r end in
    match s with
    | SBreak => true
    | SBlock b => any b
    | SIf _ _ t e => any t || match e with ENone => false | EElse b => any b | EElif x => has_break n x end
    | _ => false          (* switch / for: a break inside targets that statement *)
    end
  end.

Fixpoint is_term (n : nat) (s : stmt) {struct n} : bool :=
  match n with 0 => false | S n =>
    let tlist := fun (l : list stmt) => match last (map Some l) None with Some x => is_term n x | None => false end in
    let hb_list := fix go (l : list stmt) : bool := match l with [] => false | x :: r => has_break n x || go r end in
    match s with
    | SRet _ | SReturn | SFallthrough => true
    | SBlock b => tlist b
    | SIf _ _ t e =>
        match e with
        | ENone => false
        | EElse b => tlist t && tlist b
        | EElif x => tlist t && is_term n x
        end
    | SSwitch _ _ cs =>
        (fix go (l : list (clabel * list stmt)) (hasDefault : bool) : bool :=
           match l with
           | [] => hasDefault
           | (lab, b) :: r =>
               if negb (tlist b) || hb_list b then false
               else go r (hasDefault || match lab with LDefault => true | _ => false end)
           end) cs false
    | SFor _ c _ b => match c with None => negb (hb_list b) | Some _ => false end
    | _ => false
    end
  end.

Definition TFUEL := 200.
Definition isTerminating (s : stmt) : bool := is_term TFUEL s.

(* yield_block.go returnNormalRequired *)
Definition returnNormalRequired (b : blk) : res bool :=
  match bkind b with
  | KDelay | KFor | KIf =>
      match lastStmt b, lastKind b with
      | Some s, Some (KIf | KSwitch | KTrivial) => OK (negb (isTerminating s))
      | Some _, Some _ => OK false
      | _, _ => OK true
      end
  | _ => Err E_ASSERT_KIND
  end.

(* yield_rewrite.go generateLastNormalIfNecessary *)
Definition gln (b : blk) : res blk :=
  match bkind b with
  | KSwitch => OK b
  | _ => r <- returnNormalRequired b ;;
         if r then pushReturn (markCombined b) XNormal KNormal else OK b
  end.

(* yield_rewrite.go combineIfNecessary, continuation style *)
Definition comb (cur : blk) (k : blk -> res blk) : res blk :=
  let cur := markCombined cur in
  if negb (combineRequired cur) then k cur else
  p <- pop cur ;;
  let '(s, kd, cur') := p in
  c1 <- push (mkBlock KDelay) s kd ;;
  c1 <- gln c1 ;;
  fol <- k (mkBlock KDelay) ;;
  pushReturn cur' (XCombine (XDelay (TLit (bstmts c1))) (XDelay (TLit (bstmts fol)))) KCombine.

Definition HFUEL := 200.
Definition hasY (s : stmt) : bool := has_yield HFUEL s.
Definition hasYo (o : option stmt) : bool := match o with None => false | Some s => hasY s end.

(* unwrapIf of rewriteIfStmt: else { if ... } is merged into else-if *)
Definition unwrapIf (b : list stmt) : els :=
  match b with
  | [SIf i c t e] => EElif (SIf i c t e)
  | _ => EElse b
  end.

(* ---------- pass2 ---------- *)
Fixpoint rw_stmts (n : nat) (ss : list stmt) (cur : blk) {struct n} : res blk :=
  match n with 0 => Err E_FUEL | S n =>
    match ss with
    | [] => match bkind cur with KDelay => gln cur | _ => OK cur end
    | s :: rest =>
        let isLast := match rest with [] => true | _ => false end in
        rw_stmt n s isLast cur (fun fol =>
          if isLast then match bkind fol with KDelay => gln fol | _ => OK fol end
          else comb fol (fun f2 => rw_stmts n rest f2))
    end
  end
with rw_stmt (n : nat) (s : stmt) (isLast : bool) (cur : blk) (k : blk -> res blk) {struct n} : res blk :=
  match n with 0 => Err E_FUEL | S n =>
    match s with
    | SBlock b =>
        fol <- rw_stmts n b (mkBlock KDelay) ;;
        if mustNoYield fol then c <- push cur s KTrivial ;; k c
        else c <- pushReturn cur (XDelay (TLit (bstmts fol))) KYield ;; k c
    | SYield v =>
        if isLast then
          fol <- gln (mkBlock KDelay) ;;
          pushReturn cur (XBind v (TLit (bstmts fol))) KYield
        else
          fol <- k (mkBlock KDelay) ;;
          pushReturn cur (XBind v (TLit (bstmts fol))) KYield
    | SBreak | SContinue | SFallthrough => push cur s KTrivial          (* dead code after it is dropped *)
    | SIf _ _ _ _ =>
        c <- rw_if n s cur ;;
        if isLast then gln c else k c
    | SSwitch init tag cases =>
        rw_switch n s init tag cases cur (fun c =>
          match isLast, lastKind c with
          | true, Some KSwitch => gln c
          | _, _ => k c
          end)
    | SFor init c post b => rw_for n s init c post b cur k
    | SAtom _ | SRet _ | SReturn => c <- push cur s KTrivial ;; k c
    end
  end
(* pushes the rewritten if statement into cur *)
with rw_if (n : nat) (s : stmt) (cur : blk) {struct n} : res blk :=
  match n with 0 => Err E_FUEL | S n =>
    match s with
    | SIf init c th el =>
        if hasYo init then Err E_YIELD_IN_INIT else
        body <- rw_stmts n th (mkBlock KIf) ;;
        match el with
        | ENone =>
            if mustNoYield body then push cur s KTrivial
            else push cur (SIf init c (bstmts body) ENone) KIf
        | EElse b =>
            els <- rw_stmts n b (mkBlock KIf) ;;
            if mustNoYield body && mustNoYield els then push cur s KTrivial
            else push cur (SIf init c (bstmts body) (unwrapIf (bstmts els))) KIf
        | EElif alt =>
            els <- rw_if n alt (mkBlock KIf) ;;
            if mustNoYield body && mustNoYield els then push cur s KTrivial
            else push cur (SIf init c (bstmts body) (unwrapIf (bstmts els))) KIf
        end
    | _ => Err E_UNSUPPORTED
    end
  end
with rw_switch (n : nat) (s : stmt) (init : option stmt) (tag : option nat) (cases : list (clabel * list stmt))
               (cur : blk) (k : blk -> res blk) {struct n} : res blk :=
  match n with 0 => Err E_FUEL | S n =>
    cs <- (fix go (l : list (clabel * list stmt)) : res (list (clabel * list stmt) * bool) :=
             match l with
             | [] => OK ([], true)
             | (lab, b) :: r =>
                 cb <- rw_stmts n b (mkBlock KSwitch) ;;
                 rr <- go r ;;
                 OK ((lab, bstmts cb) :: fst rr, mustNoYield cb && snd rr)
             end) cases ;;
    let '(cases', allTrivial) := cs in
    if negb (hasYo init) && allTrivial then c <- push cur s KTrivial ;; k c else
    let after := fun (c2 : blk) =>
      if allTrivial then c3 <- push c2 (SSwitch None tag cases) KTrivial ;; k c3
      else comb c2 (fun c3 => c4 <- push c3 (SSwitch None tag cases') KSwitch ;; k c4) in
    match init with
    | None => after cur
    | Some i => rw_stmt n i false cur after
    end
  end
with rw_for (n : nat) (s : stmt) (init : option stmt) (c : option nat) (post : option stmt) (b : list stmt)
            (cur : blk) (k : blk -> res blk) {struct n} : res blk :=
  match n with 0 => Err E_FUEL | S n =>
    body <- rw_stmts n b (mkBlock KFor) ;;
    let trivialBody := mustNoYield body in
    if negb (hasYo init) && negb (hasYo post) && trivialBody then c1 <- push cur s KTrivial ;; k c1 else
    let after := fun (c2 : blk) =>
      if trivialBody && negb (hasYo post) then
        comb c2 (fun c3 => c4 <- push c3 (SFor None c post b) KTrivial ;; k c4)
      else if negb (hasYo post) then
        comb c2 (fun c3 => c4 <- pushReturn c3 (XFor (option_map CExp c) post (XDelay (TLit (bstmts body)))) KFor ;; k c4)
      else
        match post with
        | None => Err E_UNSUPPORTED
        | Some p =>
            body' <-
              (if combineRequired body then
                 pb <- rw_stmt n p true (mkBlock KDelay) (fun x => OK x) ;;
                 match lastStmt pb with
                 | Some (SRet _) =>
                     b1 <- gln body ;;
                     pushReturn (mkBlock (bkind body)) (XCombine (XDelay (TLit (bstmts b1))) (XDelay (TLit (bstmts pb)))) KCombine
                 | _ => Err E_POST_NOT_RETURN
                 end
               else rw_stmt n p true (markCombined body) (fun x => OK x)) ;;
            comb c2 (fun c3 => c4 <- pushReturn c3 (XFor (option_map CExp c) None (XDelay (TLit (bstmts body')))) KFor ;; k c4)
        end in
    match init with
    | None => after cur
    | Some i => rw_stmt n i false cur after
    end
  end.

(* ---------- pass0: return -> return seq.Return() (not inside closures: atoms are opaque) ---------- *)
Fixpoint pass0 (n : nat) (s : stmt) {struct n} : stmt :=
  match n with 0 => s | S n =>
    let l := map (pass0 n) in
    let o := option_map (pass0 n) in
    match s with
    | SReturn => SRet XReturn
    | SBlock b => SBlock (l b)
    | SIf i c t e => SIf (o i) c (l t) (match e with ENone => ENone | EElse b => EElse (l b) | EElif x => EElif (pass0 n x) end)
    | SSwitch i t cs => SSwitch (o i) t (map (fun lb => (fst lb, l (snd lb))) cs)
    | SFor i c p b => SFor (o i) c (o p) (l b)
    | _ => s
    end
  end.

(* ---------- pass3: break/continue outside native loops/switches become signals ---------- *)
(* rmRedundantReturn: drop a trailing `return Normal()` when what precedes it terminates *)
Definition rm_redundant (body : list stmt) : list stmt :=
  match last (map Some body) None with
  | Some (SRet XNormal) =>
      let pre := removelast body in
      if isTerminating (SBlock pre) then pre else body
  | _ => body
  end.

(* p3 n inLoop inSwitch s = (s', replaced-a-branch-directly-in-this-function-literal) *)
Fixpoint p3 (n : nat) (inLoop inSwitch : bool) (s : stmt) {struct n} : stmt * bool :=
  match n with 0 => (s, false) | S n =>
    let plist := fun (il isw : bool) => fix go (l : list stmt) : list stmt * bool :=
      match l with
      | [] => ([], false)
      | x :: r => let '(x', a) := p3 n il isw x in let '(r', b) := go r in (x' :: r', a || b)
      end in
    (* the body of a generated function literal: fresh stacks, then rmRedundantReturn if a branch was replaced in it *)
    let fbody := fun (l : list stmt) =>
      let '(l', rep) := plist false false l in if rep then rm_redundant l' else l' in
    let popt := fun (il isw : bool) (o : option stmt) =>
      match o with None => (None, false) | Some x => let '(x', a) := p3 n il isw x in (Some x', a) end in
    match s with
    | SBreak => if inLoop || inSwitch then (s, false) else (SRet XBreak, true)
    | SContinue => if inLoop then (s, false) else (SRet XContinue, true)
    | SBlock b => let '(b', a) := plist inLoop inSwitch b in (SBlock b', a)
    | SIf i c t e =>
        let '(i', a0) := popt inLoop inSwitch i in
        let '(t', a1) := plist inLoop inSwitch t in
        let '(e', a2) := match e with
                         | ENone => (ENone, false)
                         | EElse b => let '(b', a) := plist inLoop inSwitch b in (EElse b', a)
                         | EElif x => let '(x', a) := p3 n inLoop inSwitch x in (EElif x', a)
                         end in
        (SIf i' c t' e', a0 || a1 || a2)
    | SSwitch i t cs =>
        let '(i', a0) := popt inLoop true i in
        let '(cs', a1) := (fix go (l : list (clabel * list stmt)) : list (clabel * list stmt) * bool :=
                             match l with
                             | [] => ([], false)
                             | (lab, b) :: r => let '(b', a) := plist inLoop true b in let '(r', a') := go r in ((lab, b') :: r', a || a')
                             end) cs in
        (SSwitch i' t cs', a0 || a1)
    | SFor i c p b =>
        let '(i', a0) := popt true inSwitch i in
        let '(p', a1) := popt true inSwitch p in
        let '(b', a2) := plist true inSwitch b in
        (SFor i' c p' b', a0 || a1 || a2)
    | SRet e =>
        (SRet ((fix px (m : nat) (e : sexp) {struct m} : sexp :=
                  match m with 0 => e | S m =>
                    let th := fun (t : thunk) => match t with TLit body => TLit (fbody body) | TSig x => TSig x end in
                    match e with
                    | XBind v t => XBind v (th t)
                    | XDelay t => XDelay (th t)
                    | XCombine a b => XCombine (px m a) (px m b)
                    | XFor c p body =>
                        (* the post statement sits in its own function literal func() { p } *)
                        XFor c (match p with None => None | Some x => Some (fst (p3 n false false x)) end) (px m body)
                    | _ => e
                    end
                  end) n e), false)
    | _ => (s, false)
    end
  end.

Definition P3FUEL := 400.
Definition pass3_body (body : list stmt) : list stmt :=
  match p3 P3FUEL false false (SRet (XDelay (TLit body))) with
  | (SRet (XDelay (TLit b)), _) => b
  | _ => body
  end.

(* rewriteYieldFuncBody: the body of the callback handed to Start(Delay(...)) *)
Definition rewrite (body : list stmt) : res (list stmt) :=
  let body0 := map (pass0 400) body in
  let fuel := 50 + 4 * size 400 (SBlock body0) in
  r <- rw_stmts fuel body0 (mkBlock KDelay) ;;
  OK (pass3_body (bstmts r)).
