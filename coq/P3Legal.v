(* P3Legal.v — the output of the rewriter model is legal Go in the sense of Strict.v ([legalb]: the condition
   under which the strict reading of callbacks — a function literal that completes without `return` does not
   exist — coincides with the generalised reading used by the simulation proof), as a THEOREM, for supported
   bodies without `fallthrough`:

   - no break / continue is left outside a native loop / switch (as Placement.v),
   - every function literal, at any depth, ends in a terminating statement (P3Term.v),
   - no bare `return` and no `fallthrough` is left anywhere (Legal.v with sf = true: pass2 only re-emits source
     statements and generated shells, pass0 has turned every `return` into `return seq.Return()`),
   - init / post statements are simple, nesting depth within the checker's fuel (from the depth bound).

   With this, the side conditions of the compiler theorem concern the INPUT only (fragment, depth of the
   program and of the intermediate code): C01Main.compiler_correct_nofall. *)
From Coq Require Import List Arith Bool Lia.
From Verif Require Import Base Syntax Rewrite Side P3Rel TermSound Strict Accept Legal P3Term.
Import ListNotations.

Lemma okb_fall k : forall il isw s, okb k il isw false s = true -> okb k il isw true s = true.
Proof.
  destruct k as [|k]; intros il isw s H; [discriminate|]. rewrite okb_S in *.
  destruct s; try exact H; try discriminate.
Qed.

(* ---------- pass3 keeps the nesting depth ---------- *)
Lemma p3_fits n : forall k il isw s, k < n -> fitsb k s = true -> fitsb k (fst (p3 n il isw s)) = true.
Proof.
  induction n as [|n IH]; intros k il isw s Hk Hf; [lia|].
  destruct k as [|k]; [discriminate|]. assert (Hk' : k < n) by lia.
  assert (HL : forall il isw l, forallb (fitsb k) l = true -> forallb (fitsb k) (fst (p3_list n il isw l)) = true).
  { intros il0 isw0 l. induction l as [|x r IHl]; intros Hl; [reflexivity|].
    cbn [forallb] in Hl. apply andb_prop in Hl. destruct Hl as [Hx Hr].
    rewrite p3_list_cons. cbn [fst forallb]. rewrite (IH k il0 isw0 x Hk' Hx), (IHl Hr). reflexivity. }
  assert (HF : forall l, forallb (fitsb k) l = true -> forallb (fitsb k) (p3_fbody n l) = true).
  { intros l Hl. pose proof (HL false false l Hl) as Fl. unfold p3_fbody.
    destruct (p3_list n false false l) as [l' rep]. cbn [fst] in Fl. destruct rep; [|exact Fl].
    destruct (rm_redundant_spec l') as [->|[pre [E [-> _]]]]; [exact Fl|].
    subst l'. rewrite forallb_app in Fl. apply andb_prop in Fl. tauto. }
  assert (HX : forall m' m e, m' <= m -> fits_x k m' e = true -> fits_x k m' (p3_px n m e) = true).
  { induction m' as [|m' IHm]; intros m e Hle He; [discriminate|].
    rewrite fits_x_S in He. destruct m as [|m]; [lia|]. assert (Hle' : m' <= m) by lia. rewrite p3_px_S.
    destruct e as [v t|t|e1 e2|c post e| | | |]; try (rewrite fits_x_S; reflexivity).
    + rewrite fits_x_S. destruct t as [l|x]; cbn [p3_th fits_th] in *; [apply HF; exact He|reflexivity].
    + rewrite fits_x_S. destruct t as [l|x]; cbn [p3_th fits_th] in *; [apply HF; exact He|reflexivity].
    + apply andb_prop in He. destruct He as [H1 H2]. rewrite fits_x_S, (IHm m e1 Hle' H1), (IHm m e2 Hle' H2). reflexivity.
    + apply andb_prop in He. destruct He as [H1 H2]. rewrite fits_x_S, (IHm m e Hle' H2).
      pose proof (p3_simple n false false post H1) as Hp. unfold p3_opt in Hp. destruct post as [x|]; [|reflexivity].
      destruct (p3 n false false x) as [x' a]. cbn [fst]. inversion Hp; subst. rewrite H1. reflexivity. }
  rewrite p3_S. rewrite fitsb_S in Hf.
  destruct s as [a|v|body|init c thn el|init tag cases|init c post body| | | | |e]; try reflexivity.
  - pose proof (HL il isw body Hf) as Hb. destruct (p3_list n il isw body) as [b' a]. cbn [fst] in *. rewrite fitsb_S. exact Hb.
  - apply andb_prop in Hf. destruct Hf as [Hf He]. apply andb_prop in Hf. destruct Hf as [Hi Ht].
    rewrite (p3_simple n il isw init Hi).
    pose proof (HL il isw thn Ht) as Htl. destruct (p3_list n il isw thn) as [t' a1]. cbn [fst] in Htl.
    destruct el as [|eb|x].
    + cbn [fst]. rewrite fitsb_S, Hi, Htl. reflexivity.
    + pose proof (HL il isw eb He) as Hel. destruct (p3_list n il isw eb) as [e' a2]. cbn [fst] in *. rewrite fitsb_S, Hi, Htl, Hel. reflexivity.
    + pose proof (IH k il isw x Hk' He) as Hel. destruct (p3 n il isw x) as [x' a2]. cbn [fst] in *. rewrite fitsb_S, Hi, Htl, Hel. reflexivity.
  - apply andb_prop in Hf. destruct Hf as [Hi Hc]. rewrite (p3_simple n il true init Hi).
    assert (HC : forallb (fun lb => forallb (fitsb k) (snd lb)) (fst (p3_clauses n il cases)) = true).
    { clear - HL Hc. induction cases as [|[lab b] r IHc]; [reflexivity|].
      cbn [forallb snd] in Hc. apply andb_prop in Hc. destruct Hc as [Hb Hr]. pose proof (HL il true b Hb) as Fb. pose proof (IHc Hr) as Fr.
      cbn [p3_clauses]. fold (p3_clauses n il). destruct (p3_list n il true b) as [b' a]. destruct (p3_clauses n il r) as [r' a']. cbn in *. rewrite Fb, Fr. reflexivity. }
    destruct (p3_clauses n il cases) as [cs' a1]. cbn [fst] in *. rewrite fitsb_S, Hi, HC. reflexivity.
  - apply andb_prop in Hf. destruct Hf as [Hf Hb]. apply andb_prop in Hf. destruct Hf as [Hi Hp].
    rewrite (p3_simple n true isw init Hi), (p3_simple n true isw post Hp).
    pose proof (HL true isw body Hb) as Hbl. destruct (p3_list n true isw body) as [b' a2]. cbn [fst] in *.
    rewrite fitsb_S, Hi, Hp, Hbl. reflexivity.
  - destruct (il || isw); reflexivity.
  - destruct il; reflexivity.
  - cbn [fst]. rewrite fitsb_S. apply HX; [lia|exact Hf].
Qed.

Lemma p3_fbody_fits n k l : k < n -> forallb (fitsb k) l = true -> forallb (fitsb k) (p3_fbody n l) = true.
Proof.
  intros Hk Hl.
  assert (Fl : forallb (fitsb k) (fst (p3_list n false false l)) = true).
  { clear - Hl Hk. induction l as [|x r IHl]; [reflexivity|]. cbn [forallb] in Hl. apply andb_prop in Hl. destruct Hl as [Hx Hr].
    rewrite p3_list_cons. cbn [fst forallb]. rewrite (p3_fits n k false false x Hk Hx), (IHl Hr). reflexivity. }
  unfold p3_fbody. destruct (p3_list n false false l) as [l' rep]. cbn [fst] in Fl. destruct rep; [|exact Fl].
  destruct (rm_redundant_spec l') as [->|[pre [E [-> _]]]]; [exact Fl|].
  subst l'. rewrite forallb_app in Fl. apply andb_prop in Fl. tauto.
Qed.

Lemma fits_TFUEL T' l : TFUEL = S T' -> forallb (fitsb T') l = true -> fitsb TFUEL (SBlock l) = true.
Proof. intros HT H. rewrite HT, fitsb_S. exact H. Qed.

(* ---------- the output is legal ---------- *)
Notation WTs := (Legal.WT true).
Notation WTXs := (Legal.WTX true).

Definition OKs (n k : nat) : Prop :=
  forall il isw l, forallb (fitsb k) l = true -> Forall WTs l -> forallb (okb k il isw false) (fst (p3_list n il isw l)) = true.
Definition OKf (n k : nat) : Prop :=
  forall l, forallb (fitsb k) l = true -> Forall WTs l -> lastT l ->
    okt (forallb (okb k false false false)) (TLit (p3_fbody n l)) = true.
Definition OKx (n k : nat) : Prop :=
  forall m' m e, m' <= m -> fits_x k m' e = true -> WTXs e ->
    okx (forallb (okb k false false false)) (p3_px n m e) = true.

Lemma ok_list n k :
  (forall il isw s, fitsb k s = true -> WTs s -> okb k il isw false (fst (p3 n il isw s)) = true) -> OKs n k.
Proof.
  intros IH il0 isw0 l. induction l as [|x r IHl]; intros Hl Hwl; [reflexivity|].
  cbn [forallb] in Hl. apply andb_prop in Hl. destruct Hl as [Hx Hr]. inversion Hwl as [|? ? Hwx Hwr]; subst.
  rewrite p3_list_cons. cbn [fst forallb]. rewrite (IH il0 isw0 x Hx Hwx), (IHl Hr Hwr). reflexivity.
Qed.

Lemma ok_fbody T' n k : TFUEL = S T' -> k <= T' -> k < n -> OKs n k -> TLf true n k -> OKf n k.
Proof.
  intros HT Hkt Hkn HL HTL l Hl Hwl Hlast.
  pose proof (HTL l Hl Hwl Hlast) as Ht. apply andb_prop in Ht. destruct Ht as [_ Ht].
  assert (Hfit : fitsb TFUEL (SBlock (p3_fbody n l)) = true).
  { apply (fits_TFUEL T' _ HT). apply forallb_imp with (f := fitsb k); [|exact (p3_fbody_fits n k l Hkn Hl)].
    intros x Hx. exact (fitsb_mono k T' x Hkt Hx). }
  assert (Hok : forallb (okb k false false false) (p3_fbody n l) = true).
  { pose proof (HL false false l Hl Hwl) as Fl. unfold p3_fbody.
    destruct (p3_list n false false l) as [l' rep]. cbn [fst] in Fl. destruct rep; [|exact Fl].
    destruct (rm_redundant_spec l') as [->|[pre [E [-> _]]]]; [exact Fl|].
    subst l'. rewrite forallb_app in Fl. apply andb_prop in Fl. tauto. }
  cbn [okt]. rewrite Hok, Ht, Hfit. reflexivity.
Qed.

Lemma ok_px n k : OKf n k -> OKx n k.
Proof.
  intros HF. unfold OKx. induction m' as [|m' IHm]; intros m e Hle He Hwe; [discriminate|].
  rewrite fits_x_S in He. destruct m as [|m]; [lia|]. assert (Hle' : m' <= m) by lia.
  rewrite p3_px_S. destruct e as [v t|t|e1 e2|c post e| | | |]; try reflexivity.
  + inversion Hwe as [? ? Hwt| | | | | | |]; subst. cbn [okx]. destruct t as [l|x]; cbn [p3_th].
    * inversion Hwt; subst. apply HF; assumption.
    * inversion Hwt; subst. cbn [okt]. assumption.
  + inversion Hwe as [|? Hwt| | | | | |]; subst. cbn [okx]. destruct t as [l|x]; cbn [p3_th].
    * inversion Hwt; subst. apply HF; assumption.
    * inversion Hwt; subst. cbn [okt]. assumption.
  + inversion Hwe as [| |? ? Hwa Hwb| | | | |]; subst. apply andb_prop in He. destruct He as [He1 He2]. cbn [okx].
    rewrite (IHm m e1 Hle' He1 Hwa), (IHm m e2 Hle' He2 Hwb). reflexivity.
  + inversion Hwe as [| | |? ? ? Hwb| | | |]; subst. apply andb_prop in He. destruct He as [He1 He2]. cbn [okx].
    rewrite (IHm m e Hle' He2 Hwb), andb_true_r.
    pose proof (p3_simple n false false post He1) as Hp. unfold p3_opt in Hp. destruct post as [x|]; [|reflexivity].
    destruct (p3 n false false x) as [x' a]. cbn [fst]. inversion Hp; subst. exact He1.
Qed.

Lemma ok_clauses n k il cases : OKs n k ->
  forallb (fun lb => forallb (fitsb k) (snd lb)) cases = true -> Forall (fun lb => Forall WTs (snd lb)) cases ->
  forallb (fun lb => forallb (okb k il true true) (snd lb)) (fst (p3_clauses n il cases)) = true.
Proof.
  intros HL Hc Hwc. induction cases as [|[lab b] r IHc]; [reflexivity|].
  cbn [forallb snd] in Hc. apply andb_prop in Hc. destruct Hc as [Hb Hr]. inversion Hwc as [|? ? Hwb Hwr]; subst. cbn [snd] in Hwb.
  pose proof (HL il true b Hb Hwb) as Fb. pose proof (IHc Hr Hwr) as Fr.
  cbn [p3_clauses]. fold (p3_clauses n il). destruct (p3_list n il true b) as [b' a]. destruct (p3_clauses n il r) as [r' a']. cbn [fst forallb snd] in *.
  rewrite Fr, andb_true_r. apply forallb_imp with (f := okb k il true false); [|exact Fb]. intros x. apply okb_fall.
Qed.

Lemma ok_stmt n k il isw s : OKs n k -> OKx n k ->
  (forall il isw x, fitsb k x = true -> WTs x -> okb k il isw false (fst (p3 n il isw x)) = true) ->
  S k <= n -> fitsb (S k) s = true -> WTs s -> okb (S k) il isw false (fst (p3 (S n) il isw s)) = true.
Proof.
  intros HL HX IH Hkn Hf Hw.
  rewrite p3_S. rewrite fitsb_S in Hf.
  destruct s as [a|v|body|init c thn el|init tag cases|init c post body| | | | |e]; try reflexivity.
  - inversion Hw; subst. pose proof (HL il isw body Hf) as Hb. destruct (p3_list n il isw body) as [b' a]. cbn [fst] in *. rewrite okb_S. auto.
  - inversion Hw as [| | |? ? ? ? Hwt Hwe| | | | | | |]; subst.
    apply andb_prop in Hf. destruct Hf as [Hf He]. apply andb_prop in Hf. destruct Hf as [Hi Ht].
    rewrite (p3_simple n il isw init Hi).
    pose proof (HL il isw thn Ht Hwt) as Htl. destruct (p3_list n il isw thn) as [t' a1]. cbn [fst] in Htl.
    destruct el as [|eb|x].
    + cbn [fst]. rewrite okb_S, Hi, Htl. reflexivity.
    + inversion Hwe; subst. pose proof (HL il isw eb He) as Hel. destruct (p3_list n il isw eb) as [e' a2]. cbn [fst] in *.
      rewrite okb_S, Hi, Htl, Hel by assumption. reflexivity.
    + inversion Hwe; subst. pose proof (IH il isw x He) as Hel. destruct (p3 n il isw x) as [x' a2]. cbn [fst] in *.
      rewrite okb_S, Hi, Htl, Hel by assumption. reflexivity.
  - inversion Hw as [| | | |? ? ? Hwc| | | | | |]; subst.
    apply andb_prop in Hf. destruct Hf as [Hi Hc]. rewrite (p3_simple n il true init Hi).
    pose proof (ok_clauses n k il cases HL Hc Hwc) as HC.
    destruct (p3_clauses n il cases) as [cs' a1]. cbn [fst] in *. rewrite okb_S, Hi, HC. reflexivity.
  - inversion Hw; subst.
    apply andb_prop in Hf. destruct Hf as [Hf Hb]. apply andb_prop in Hf. destruct Hf as [Hi Hp].
    rewrite (p3_simple n true isw init Hi), (p3_simple n true isw post Hp).
    pose proof (HL true isw body Hb) as Hbl. destruct (p3_list n true isw body) as [b' a2]. cbn [fst] in *.
    rewrite okb_S, Hi, Hp, Hbl by assumption. reflexivity.
  - destruct (il || isw) eqn:E; cbn [fst]; rewrite okb_S; [exact E|reflexivity].
  - destruct il eqn:E; cbn [fst]; rewrite okb_S; reflexivity.
  - inversion Hw as [| | | | | | | |E|E|]; discriminate E.
  - inversion Hw as [| | | | | | | |E|E|]; discriminate E.
  - inversion Hw; subst. cbn [fst]. rewrite okb_S. apply (HX (S k) n e); [exact Hkn|exact Hf|assumption].
Qed.

Lemma p3_okb T' (HT : TFUEL = S T') n : forall k il isw s, k < n -> k <= T' -> fitsb k s = true -> WTs s -> okb k il isw false (fst (p3 n il isw s)) = true.
Proof.
  induction n as [|n IH]; intros k il isw s Hk Hkt Hf Hw; [lia|].
  destruct k as [|k]; [discriminate|]. assert (Hk' : k < n) by lia. assert (Hkt' : k <= T') by lia.
  assert (IH' : forall il isw x, fitsb k x = true -> WTs x -> okb k il isw false (fst (p3 n il isw x)) = true).
  { intros il0 isw0 x Hx Hwx. exact (IH k il0 isw0 x Hk' Hkt' Hx Hwx). }
  assert (HL : OKs n k) by exact (ok_list n k IH').
  assert (Hn1 : 1 <= n) by lia.
  assert (HTLs : TLs true n k).
  { apply tl_list. intros il0 isw0 x Hx Hwx. exact (p3_tlit true T' HT n k il0 isw0 x Hk' Hkt' Hx Hwx). }
  assert (HTLf : TLf true n k) by exact (tl_fbody true T' n k HT Hkt' Hn1 HTLs).
  assert (HF : OKf n k) by exact (ok_fbody T' n k HT Hkt' Hk' HL HTLf).
  assert (HX : OKx n k) by exact (ok_px n k HF).
  assert (Hkn : S k <= n) by lia.
  exact (ok_stmt n k il isw s HL HX IH' Hkn Hf Hw).
Qed.

(* pass3 applied to the whole callback body: the output is legal *)
Theorem pass3_legal k l :
  S (S (S k)) < P3FUEL -> S (S (S k)) <= 199 -> forallb (fitsb k) l = true -> Forall WTs l -> lastT l ->
  legalb (S (S k)) (pass3_body l) = true.
Proof.
  intros Hk Hkt Hl Hw Ht. unfold legalb, pass3_body.
  assert (Hf : fitsb (S (S (S k))) (SRet (XDelay (TLit l))) = true).
  { rewrite fitsb_S, fits_x_S. cbn [fits_th]. apply forallb_imp with (f := fitsb k); [|exact Hl].
    intros x Hx. apply fitsb_mono1. apply fitsb_mono1. exact Hx. }
  assert (Hws : WTs (SRet (XDelay (TLit l)))) by (repeat constructor; assumption).
  pose proof (p3_okb 199 TFUEL_S P3FUEL (S (S (S k))) false false (SRet (XDelay (TLit l))) Hk Hkt Hf Hws) as H.
  unfold P3FUEL in *. change 400 with (S 399) in *. rewrite p3_S in *. cbn [fst] in H.
  change 399 with (S 398) in *. rewrite p3_px_S in *. cbn [p3_th] in *.
  rewrite okb_S in H. cbn [okx] in H. exact H.
Qed.
