"""Structural correspondence of the rewriter model (coq/Rewrite.v, coq/Opt.v) with the real
rewriter: the abstract tree of the generated Go code (harness/cmd/abstract) must equal the
model's output for the same source program."""
import json
import os
import re
from concurrent.futures import ThreadPoolExecutor

import common as C
import pgen

CORE = {"atom", "panic", "yield", "yieldx", "block", "if", "switch", "for", "break", "continue", "return",
        "decl", "redecl", "inc", "use", "closure", "call", "fallthrough", "yieldfrom", "rangeiter", "range"}


def norm(t):
    return re.sub(r"[\s;]", "", t)


def eligible(body, allow_range=True):
    ok = [True]

    def f(s, p):
        if s["s"] not in CORE or (s["s"] == "range" and not allow_range):
            ok[0] = False
    pgen.walk(body, f)
    return ok[0]


# ------------------------------------------------------------------ source program -> abstract form

def src_simple(s):
    r = pgen.Render("co")
    r.stmt(s, 0)
    return [{"s": "atom", "t": norm(l)} for l in r.lines]


def src_stmt(s):
    """Returns a LIST of abstract statements (declarations render as two statements)."""
    k = s["s"]
    if k == "yield":
        return [{"s": "yield", "v": "tr.V(%d)" % s["id"]}]
    if k == "yieldx":
        return [{"s": "yield", "v": s["x"]}]
    if k in ("break", "continue", "return", "fallthrough"):
        return [{"s": k}]
    if k == "yieldfrom":
        import lowering
        return lowering.yieldfrom(s)
    if k == "rangeiter":
        import lowering
        return lowering.rangeiter(s, src_stmts(s["b"]))
    if k == "range":
        import lowering
        if s.get("closure"):
            raise Unknown("range inside a plain closure (not a statement of the generator body)")
        return lowering.rangestmt(s, src_stmts(s["b"]))
    if k == "block":
        return [{"s": "block", "b": src_stmts(s["b"])}]
    if k == "if":
        e = s.get("else")
        if e is None:
            el = None
        elif isinstance(e, list):
            el = {"b": src_stmts(e)}
        else:
            el = {"if": src_stmt(e)[0]}
        return [{"s": "if", "init": src_one(s.get("init")), "c": "tr.C(%d)" % s["c"], "then": src_stmts(s["then"]), "else": el}]
    if k == "switch":
        cases = []
        for c in s["cases"]:
            if "c" in c:
                lab = {"cond": "tr.C(%d)" % c["c"]}
            elif c["vals"] is None:
                lab = "default"
            else:
                lab = {"vals": [str(v) for v in c["vals"]]}
            cases.append({"l": lab, "b": src_stmts(c["b"])})
        sw = {"s": "switch", "init": None, "tag": pgen.tag_text(s) if s.get("tag") is not None else None, "cases": cases}
        init = s.get("init")
        if init and init["s"] == "decl":
            # as for statements: pass0 hoists the ':=' initialiser into a fresh block around the switch
            return [{"s": "block", "b": [{"s": "atom", "t": norm("%s := tr.I(%d)" % (init["x"], init["id"]))}, sw]}]
        sw["init"] = src_one(init)
        return [sw]
    if k == "for":
        init = s.get("init")
        loop = {"s": "for", "init": None, "c": ("tr.C(%d)" % s["c"]) if s.get("c") is not None else None,
                "post": src_one(s.get("post")), "b": src_stmts(s["b"])}
        if init and init["s"] == "decl":
            # pass0 of the rewriter (rewriteReturnAndForSwitchInitStmtInYieldFun) hoists a ':=' initialiser of a for statement of a
            # generator into a fresh block: { x := …; for ; c; post { … } }  (the lowering keeps the scope lists: coq/Scope.v hoist_scope)
            return [{"s": "block", "b": [{"s": "atom", "t": norm("%s := tr.I(%d)" % (init["x"], init["id"]))}, loop]}]
        loop["init"] = src_one(init)
        return [loop]
    return src_simple(s)


def src_one(s):
    if s is None:
        return None
    if s["s"] == "inc":
        return {"s": "atom", "t": norm("%s++" % s["x"])}
    r = src_stmt(s)
    assert len(r) == 1
    return r[0]


def src_stmts(ss):
    out = []
    for s in ss:
        out.extend(src_stmt(s))
    return out


# ------------------------------------------------------------------ abstractor output -> abstract form

class Unknown(Exception):
    pass


ITER_INIT = re.compile(r"^(ɪʇ\d+):=[^.()]+\.(New[A-Za-z]+Iter)\((.*)\)$")


def canon_iters(tree):
    """Rename the generated iterator variables of range statements (ɪʇ1, ɪʇ2, ... : a per-file counter) after the
    constructor call that initialises them, and the import name of the seq package in that call to SEQ; lowering.py
    produces the same names on the source side."""
    names = {}

    def scan(x):
        if isinstance(x, dict):
            if x.get("s") == "atom":
                m = ITER_INIT.match(norm(x["t"]))
                if m:
                    names[m.group(1)] = (m.group(2), m.group(3))
            for v in x.values():
                scan(v)
        elif isinstance(x, list):
            for v in x:
                scan(v)
    scan(tree)
    if not names:
        return tree
    pat = re.compile(r"ɪʇ\d+")

    def sub(t):
        m = ITER_INIT.match(norm(t))
        if m and m.group(1) in names:
            return "ɪʇ<%s>:=SEQ.%s(%s)" % (m.group(3), m.group(2), m.group(3))
        return pat.sub(lambda mm: "ɪʇ<%s>" % names[mm.group(0)][1] if mm.group(0) in names else mm.group(0), t)

    def go(x):
        if isinstance(x, dict):
            return {k: go(v) for k, v in x.items()}
        if isinstance(x, list):
            return [go(v) for v in x]
        if isinstance(x, str):
            return sub(x)
        return x
    return go(tree)


def tgt_stmt(j, tagless=None):
    k = j["s"]
    if k == "atom":
        return {"s": "atom", "t": norm(j["t"])}
    if k in ("break", "continue", "fallthrough"):
        return {"s": k}
    if k == "block":
        return {"s": "block", "b": [tgt_stmt(x) for x in j["b"]]}
    if k == "if":
        e = j.get("else")
        el = None
        if e is not None:
            el = {"b": [tgt_stmt(x) for x in e["b"]]} if "b" in e else {"if": tgt_stmt(e["if"])}
        return {"s": "if", "init": tgt_opt(j.get("init")), "c": norm(j["c"]), "then": [tgt_stmt(x) for x in j["then"]], "else": el}
    if k == "switch":
        cases = []
        for c in j["cases"]:
            if c["l"] == "default":
                lab = "default"
            elif j.get("tag") is None:
                if len(c["l"]) != 1:
                    raise Unknown("tagless case with several expressions")
                lab = {"cond": norm(c["l"][0])}
            else:
                lab = {"vals": [norm(v) for v in c["l"]]}
            cases.append({"l": lab, "b": [tgt_stmt(x) for x in c["b"]]})
        return {"s": "switch", "init": tgt_opt(j.get("init")), "tag": norm(j["tag"]) if j.get("tag") is not None else None, "cases": cases}
    if k == "for":
        return {"s": "for", "init": tgt_opt(j.get("init")), "c": norm(j["c"]) if j.get("c") is not None else None,
                "post": tgt_opt(j.get("post")), "b": [tgt_stmt(x) for x in j["b"]]}
    if k == "ret":
        return {"s": "ret", "e": tgt_sexp(j["e"])}
    raise Unknown(k)


def tgt_opt(j):
    return None if j is None else tgt_stmt(j)


def tgt_thunk(t):
    if isinstance(t, list):
        return {"lit": [tgt_stmt(x) for x in t]}
    if isinstance(t, dict) and "fv" in t:
        return {"sig": t["fv"]}
    raise Unknown("thunk " + json.dumps(t)[:80])


def tgt_sexp(e):
    x = e["x"]
    if x == "bind":
        return {"x": "bind", "v": norm(e["v"]), "t": tgt_thunk(e["body"])}
    if x == "delay":
        return {"x": "delay", "t": tgt_thunk(e["body"])}
    if x == "combine":
        return {"x": "combine", "a": tgt_sexp(e["a"]), "b": tgt_sexp(e["b"])}
    if x == "for":
        c = e.get("c")
        if c is not None:
            c = {"fun": norm(c[1:])} if c.startswith("=") else {"exp": norm(c)}
            if e["c"].startswith("?"):
                raise Unknown("cond " + e["c"])
        return {"x": "for", "c": c, "p": tgt_opt(e.get("p")), "body": tgt_sexp(e["body"])}
    if x in ("normal", "break", "continue", "return"):
        return {"x": x}
    raise Unknown("sexp " + json.dumps(e)[:80])


# ------------------------------------------------------------------ Coq rendering

class Ids:
    def __init__(self):
        self.d = {}

    def __call__(self, t):
        return self.d.setdefault(t, len(self.d))


def cq_list(xs):
    return "[" + "; ".join(xs) + "]"


def cq_opt(x):
    return "None" if x is None else "(Some %s)" % x


def cq_stmt(s, ids):
    k = s["s"]
    if k == "atom":
        return "(SAtom %d)" % ids(s["t"])
    if k == "yield":
        return "(SYield %d)" % ids(norm(s["v"]))
    if k == "break":
        return "SBreak"
    if k == "continue":
        return "SContinue"
    if k == "return":
        return "SReturn"
    if k == "fallthrough":
        return "SFallthrough"
    if k == "block":
        return "(SBlock %s)" % cq_stmts(s["b"], ids)
    if k == "if":
        e = s.get("else")
        if e is None:
            el = "ENone"
        elif "b" in e:
            el = "(EElse %s)" % cq_stmts(e["b"], ids)
        else:
            el = "(EElif %s)" % cq_stmt(e["if"], ids)
        return "(SIf %s %d %s %s)" % (cq_opt(cq_stmt(s["init"], ids) if s.get("init") else None), ids(norm(s["c"])), cq_stmts(s["then"], ids), el)
    if k == "switch":
        cs = []
        for c in s["cases"]:
            if c["l"] == "default":
                lab = "LDefault"
            elif "cond" in c["l"]:
                lab = "(LCond %d)" % ids(norm(c["l"]["cond"]))
            else:
                lab = "(LVals %s)" % cq_list(str(ids(norm(v))) for v in c["l"]["vals"])
            cs.append("(%s, %s)" % (lab, cq_stmts(c["b"], ids)))
        return "(SSwitch %s %s %s)" % (cq_opt(cq_stmt(s["init"], ids) if s.get("init") else None),
                                       cq_opt(str(ids(norm(s["tag"]))) if s.get("tag") is not None else None), cq_list(cs))
    if k == "for":
        return "(SFor %s %s %s %s)" % (cq_opt(cq_stmt(s["init"], ids) if s.get("init") else None),
                                       cq_opt(str(ids(norm(s["c"]))) if s.get("c") is not None else None),
                                       cq_opt(cq_stmt(s["post"], ids) if s.get("post") else None), cq_stmts(s["b"], ids))
    if k == "ret":
        return "(SRet %s)" % cq_sexp(s["e"], ids)
    raise Unknown(k)


def cq_stmts(ss, ids):
    return cq_list(cq_stmt(s, ids) for s in ss)


def cq_thunk(t, ids):
    if "lit" in t:
        return "(TLit %s)" % cq_stmts(t["lit"], ids)
    return "(TSig %s)" % {"normal": "XNormal", "break": "XBreak", "continue": "XContinue", "return": "XReturn"}[t["sig"]]


def cq_sexp(e, ids):
    x = e["x"]
    if x == "bind":
        return "(XBind %d %s)" % (ids(e["v"]), cq_thunk(e["t"], ids))
    if x == "delay":
        return "(XDelay %s)" % cq_thunk(e["t"], ids)
    if x == "combine":
        return "(XCombine %s %s)" % (cq_sexp(e["a"], ids), cq_sexp(e["b"], ids))
    if x == "for":
        c = e.get("c")
        cc = "None" if c is None else ("(Some (CExp %d))" % ids(c["exp"]) if "exp" in c else "(Some (CFun %d))" % ids(c["fun"]))
        return "(XFor %s %s %s)" % (cc, cq_opt(cq_stmt(e["p"], ids) if e.get("p") else None), cq_sexp(e["body"], ids))
    return {"normal": "XNormal", "break": "XBreak", "continue": "XContinue", "return": "XReturn"}[x]


# ------------------------------------------------------------------ the check

def abstract_dirs(work, dirs):
    exe = os.path.join(work, "abstract.bin")
    if not os.path.exists(exe):
        ok, out = C.go_build("./cmd/abstract", exe)
        if not ok:
            raise RuntimeError("cannot build abstractor: " + out[-2000:])
    rc, o, e = C.run([exe] + dirs, timeout=600)
    if rc != 0:
        raise RuntimeError("abstractor failed: " + e[-2000:])
    return json.loads(o)


def coq_file(entries):
    """entries: list of (name, src_abs, expected) with expected = ('tree', start_sexp) | ('rejected',) ."""
    lines = ["From Coq Require Import List.", "From Verif Require Import Syntax Rewrite Side StructExec.", "Import ListNotations.", "Definition cases : list scase := ["]
    rows = []
    for name, src, exp in entries:
        ids = Ids()
        s = cq_stmts(src, ids)
        if exp[0] == "tree":
            rows.append("  {| sc_src := %s; sc_expect := Some %s |}" % (s, cq_sexp(exp[1], ids)))
        else:
            rows.append("  {| sc_src := %s; sc_expect := None |}" % s)
    lines.append(";\n".join(rows))
    lines += ["].", "Definition M := Eval vm_compute in smismatches cases.", "Print M.",
              "Definition H := Eval vm_compute in map (fun c => hyp_code (sc_src c)) cases.", "Print H."]
    return "\n".join(lines) + "\n"


def _shard(args):
    work, name, base, entries = args
    rc, out = C.coq_eval(work, name, coq_file(entries))
    if rc != 0:
        raise RuntimeError("coqc failed on structural cases: " + out[-3000:])
    m = re.search(r"M\s*=\s*(\[.*?\])\s*:\s*list", out, re.S)
    h = re.search(r"H\s*=\s*(\[.*?\])\s*:\s*list", out, re.S)
    hyps = [int(x) for x in re.findall(r"\d+", h.group(1))]
    if len(hyps) != len(entries):
        raise RuntimeError("side-condition evaluation returned %d codes for %d cases" % (len(hyps), len(entries)))
    return [(base + int(a), int(b)) for a, b in re.findall(r"\((\d+),\s*(\d+)\)", m.group(1))], hyps


def compare(work, entries, shard=120):
    jobs = [(work, "scases_%d" % (i // shard), i, entries[i:i + shard]) for i in range(0, len(entries), shard)]
    mism, hyps = [], []
    with ThreadPoolExecutor(max_workers=12) as ex:
        for r, h in ex.map(_shard, jobs):
            mism.extend(r)
            hyps.extend(h)
    return sorted(mism), hyps


# ------------------------------------------------------------------ scoping model (coq/Scope.v, coq/ScopeExec.v; property C03)

DECL_RE = re.compile(r"^([A-Za-z_ɪʇ0-9]+(?:,[A-Za-z_ɪʇ0-9]+)*):=")
VAR_RE = re.compile(r"^var([A-Za-z_][A-Za-z_0-9]*?)(?:int|rune|any|string|bool)$")


def atom_lhs(text):
    """Names on the left of ':=' (or declared by 'var x T') in the normalised text of a simple statement."""
    m = DECL_RE.match(text)
    if m:
        return [n for n in m.group(1).split(",") if n != "_"]
    m = VAR_RE.match(text)
    if m:
        return [m.group(1)]
    return []


TOKEN_RE = re.compile(r"[A-Za-z_ɪʇ][A-Za-z_0-9ɪʇ]*")


def scope_tables(src, out_sexp, ids):
    """Tables for coq/ScopeExec.v from an abstract source body:
    names    {atom id: [name ids it declares]}  (left-hand side of ':=' / 'var x T')
    uses     {occurrence id: [name ids it mentions]}  (right-hand side of a declaring atom, the whole text otherwise; only names
             that some atom of the program declares are of interest)
    re_pairs [(redeclaring atom id, id of the atom whose declaration it re-uses)]: 'x, n := …' re-uses x when x was declared
             earlier in the same block (Go spec, short variable declarations)."""
    names, re_pairs = {}, []
    nid = {}

    def name_id(n):
        return nid.setdefault(n, len(nid))

    def block(ss):
        here = {}          # name -> id of the atom that declared it in this block
        for s in ss:
            stmt(s, here)

    def simple(s, here):
        if s is None or s["s"] != "atom":
            return
        lhs = atom_lhs(s["t"])
        if not lhs:
            return
        a = ids(s["t"])
        names.setdefault(a, [])
        for n in lhs:
            if n in here:
                re_pairs.append((a, here[n]))
            else:
                here[n] = a
            if name_id(n) not in names[a]:
                names[a].append(name_id(n))

    def stmt(s, here):
        k = s["s"]
        if k == "atom":
            simple(s, here)
        elif k == "block":
            block(s["b"])
        elif k == "if":
            simple(s.get("init"), {})
            block(s["then"])
            e = s.get("else")
            if e is not None:
                if "b" in e:
                    block(e["b"])
                else:
                    stmt(e["if"], {})
        elif k == "switch":
            simple(s.get("init"), {})
            for c in s["cases"]:
                block(c["b"])
        elif k == "for":
            simple(s.get("init"), {})
            block(s["b"])
            simple(s.get("post"), {})
    block(src)
    uses = {}
    for text, i in ids.d.items():
        body = text
        m = DECL_RE.match(text)
        if m:
            body = text[m.end():]
        toks = [nid[t] for t in dict.fromkeys(TOKEN_RE.findall(body)) if t in nid]
        if toks:
            uses[i] = toks
    return names, uses, re_pairs


def scope_file(entries):
    lines = ["From Coq Require Import List.", "From Verif Require Import Syntax Rewrite Scope ScopeExec.", "Import ListNotations.",
             "Definition cases : list xcase := ["]
    rows = []
    tab = lambda d: cq_list("(%d, %s)" % (k, cq_list(str(x) for x in v)) for k, v in sorted(d.items()))
    for name, src, exp in entries:
        ids = Ids()
        s = cq_stmts(src, ids)
        out = "None" if exp[0] != "tree" else "(Some %s)" % cq_sexp(exp[1], ids)
        names, uses, pairs = scope_tables(src, exp[1] if exp[0] == "tree" else None, ids)
        rows.append("  {| x_src := %s; x_out := %s; x_names := %s; x_uses := %s; x_re := %s |}"
                    % (s, out, tab(names), tab(uses), cq_list("(%d, %d)" % p for p in pairs)))
    lines.append(";\n".join(rows))
    lines += ["].", "Definition X := Eval vm_compute in xcodes cases.", "Print X."]
    return "\n".join(lines) + "\n"


def _xshard(args):
    work, name, entries = args
    rc, out = C.coq_eval(work, name, scope_file(entries))
    if rc != 0:
        raise RuntimeError("coqc failed on scope cases: " + out[-3000:])
    m = re.search(r"X\s*=\s*(\[.*?\])\s*:\s*list", out, re.S)
    codes = [int(x) for x in re.findall(r"\d+", m.group(1))]
    if len(codes) != len(entries):
        raise RuntimeError("scope evaluation returned %d codes for %d cases" % (len(codes), len(entries)))
    return codes


def scope_compare(work, entries, shard=120):
    """check_xcase (coq/ScopeExec.v) of every entry: units 1 = every name mentioned in the real output resolves to the declaring
    statement it resolves to in the source, 2 = some name does not; +10 inside the theorem C03_static_scoping_partial; +100 a partial
    redeclaration has been separated from the declaration it re-uses (finding F24); +1000 the scope lists themselves differ."""
    jobs = [(work, "xcases_%d" % (i // shard), entries[i:i + shard]) for i in range(0, len(entries), shard)]
    codes = []
    with ThreadPoolExecutor(max_workers=12) as ex:
        for r in ex.map(_xshard, jobs):
            codes.extend(r)
    return codes


# ------------------------------------------------------------------ behavioural correspondence (coq/CExec.v)

BEH = {"atom", "panic", "yield", "block", "if", "switch", "for", "break", "continue", "return"}


def beh_eligible(body):
    ok = [True]

    def f(s, p):
        if s["s"] not in BEH:
            ok[0] = False
    pgen.walk(body, f)
    return ok[0]


def cz(n):
    return "(%d)%%Z" % n


def beh_case(src, tape, budget, nops, ref_events, out_events):
    ids = Ids()
    s = cq_stmts(src, ids)
    atoms, nums = [], []
    for text, n in ids.d.items():
        m = re.match(r"^tr\.([EP])\((\d+)\)$", text)
        if m:
            atoms.append("(%d, %s %s)" % (n, "DE" if m.group(1) == "E" else "DP", cz(int(m.group(2)))))
            continue
        m = re.match(r"^tr\.[CTV]\((\d+)\)$", text) or re.match(r"^(\d+)$", text)
        if m:
            nums.append("(%d, %s)" % (n, cz(int(m.group(1)))))
            continue
        raise Unknown("text " + text)
    evl = lambda evs: "[" + "; ".join("(%s, %s, %s)" % (cz(a), cz(b), cz(c)) for a, b, c in evs) + "]"
    return ("{| bc_src := %s; bc_atoms := [%s]; bc_ids := [%s]; bc_tape := [%s]; bc_budget := %d; bc_nops := %d;\n"
            "     bc_ref_events := %s;\n     bc_out_events := %s |}"
            % (s, "; ".join(atoms), "; ".join(nums), "; ".join(cz(t) for t in tape), budget, nops, evl(ref_events),
               "None" if out_events is None else "(Some %s)" % evl(out_events)))


def _bshard(args):
    work, name, base, rows = args
    text = ("From Coq Require Import List ZArith.\nFrom Verif Require Import Syntax Rewrite CExec.\nImport ListNotations.\n"
            "Definition cases : list bcase := [\n%s\n].\nDefinition M := Eval vm_compute in bmismatches cases.\nPrint M.\n" % ";\n".join(rows))
    rc, out = C.coq_eval(work, name, text)
    if rc != 0:
        raise RuntimeError("coqc failed on behavioural cases: " + out[-3000:])
    m = re.search(r"M\s*=\s*(\[.*?\])\s*:\s*list", out, re.S)
    return [(base + int(a), int(b)) for a, b in re.findall(r"\((\d+),\s*(\d+)\)", m.group(1))]


def beh_compare(work, rows, shard=60):
    jobs = [(work, "bcases_%d" % (i // shard), i, rows[i:i + shard]) for i in range(0, len(rows), shard)]
    mism = []
    with ThreadPoolExecutor(max_workers=12) as ex:
        for r in ex.map(_bshard, jobs):
            mism.extend(r)
    return sorted(mism)
