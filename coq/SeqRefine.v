(* SeqRefine.v — the machine (SeqMachine.v) refines the reference (SeqRef.v):
   exact-fuel equality of observations, by one induction on fuel. *)
From Verif Require Import Base SeqMachine SeqRef.

Set Implicit Arguments.

Section Refine.
  Variables U V P : Type.
  Variable zeroV : V.

  Notation seqv := (seqv U V P).
  Notation cont := (cont U V P).
  Notation st := (st U V P).
  Notation frame := (frame U V P).
  Notation rres := (rres U V P).

  Fixpoint absK (k : cont) : list frame :=
    match k with
    | KFinal _ => []
    | KCombine s2 _ k' => KComb s2 :: absK k'
    | KFor c p b _ k' _ _ => KLoop c p b :: absK k'
    end.

  Fixpoint finalOf (k : cont) : loc :=
    match k with KFinal g => g | KCombine _ _ k' => finalOf k' | KFor _ _ _ _ k' _ _ => finalOf k' end.

  (* every continuation frame of one generator refers to that generator's co cell *)
  Fixpoint cellsOK (c : loc) (k : cont) : Prop :=
    match k with
    | KFinal _ => True
    | KCombine _ c' k' => c' = c /\ cellsOK c k'
    | KFor _ _ _ c' k' _ _ => c' = c /\ cellsOK c k'
    end.

  Definition absNext (nx : nextc U V P) : resumption U V P :=
    match nx with
    | NNext _ f _ k => RAfter f (absK k)
    | NStart s _ k => RInit s   (* k = KFinal g, absK k = [] *)
    end.

  (* observation of a machine result of s(c,k) / k(t,v), to be compared with the reference *)
  Definition obs (c : loc) (g : loc) (r : mres U V P unit) : option rres :=
    match r with
    | MStuck => Some RStuck
    | MPanic m pv => Some (RPanic (world m) pv)
    | MOk m _ =>
        match get_step m c with
        | Some stp => Some (RYield (sval stp) (absNext (snext stp)) (world m))
        | None => match lookup (gens m) g with
                  | Some r => Some (RDone (result r) (world m))
                  | None => None
                  end
        end
    end.

  (* the step cell is empty on entry and the generator record exists *)
  Definition inv (c g : loc) (m : st) : Prop :=
    get_step m c = None /\ exists r, lookup (gens m) g = Some r.

  Lemma get_step_set_step (m : st) c x : get_step (set_step m c x) c = x.
  Proof. unfold get_step, set_step. cbn. now rewrite lookup_update_same. Qed.

  Lemma inv_logd c g (m : st) d : inv c g m -> inv c g (logd m d).
  Proof. intros H; exact H. Qed.
  Lemma inv_set_world c g (m : st) u : inv c g m -> inv c g (set_world m u).
  Proof. intros H; exact H. Qed.

  Lemma call_user_inv A (f : oracle U P A) n d (m : st) c g :
    inv c g m ->
    match call_user f n d m with
    | Some (MOk m' a) => f n (world m) = Some (Ok (world m') a) /\ inv c g m'
    | Some (MPanic m' pv) => f n (world m) = Some (Panic (world m') pv)
    | Some MStuck => f n (world m) = Some Stuck
    | None => f n (world m) = None
    end.
  Proof.
    intros Hi. unfold call_user. destruct (f n (world m)) as [[u a|u pv|]|]; cbn; auto.
  Qed.

  Lemma refine_all n :
    (forall d s c k m, cellsOK c k -> inv c (finalOf k) m ->
       omap (obs c (finalOf k)) (call_seq zeroV n d s c k m) = rrun zeroV n s (absK k) (world m)) /\
    (forall d cd p b c k sk m, cellsOK c k -> inv c (finalOf k) m ->
       omap (obs c (finalOf k)) (loop zeroV n d cd p b c k sk m) = rloop zeroV n cd p b (absK k) sk (world m)) /\
    (forall d k t v m c, cellsOK c k -> inv c (finalOf k) m ->
       omap (obs c (finalOf k)) (call_cont zeroV n d k t v m) = rsig zeroV n t v (absK k) (world m)).
  Proof.
    induction n as [|n [IH1 [IH2 IH3]]]; [repeat split; reflexivity|].
    repeat split.
    - intros d s c k m Hc Hi. cbn [call_seq rrun].
      destruct s as [v f|v f|f|a b|cd p b|t|v].
      + cbn. unfold obs. rewrite get_step_set_step. reflexivity.
      + cbn. unfold obs. rewrite get_step_set_step. reflexivity.
      + pose proof (call_user_inv f n (S d) Hi) as Hu.
        destruct (call_user f n (S d) m) as [[m' s'|m' pv|]|].
        * destruct Hu as [-> Hi']. rewrite IH1; auto.
        * rewrite Hu. reflexivity.
        * rewrite Hu. reflexivity.
        * rewrite Hu. reflexivity.
      + change (finalOf k) with (finalOf (KCombine b c k)). rewrite IH1; cbn; auto.
      + rewrite IH2; auto.
      + rewrite IH3; auto.
      + rewrite IH3; auto.
    - intros d cd p b c k sk m Hc Hi. cbn [loop rloop].
      assert (Hpost :
        match (if sk then Some (MOk m tt)
               else match p with None => Some (MOk m tt) | Some pf => call_user pf n (S d) m end) with
        | Some (MOk m1 _) => (if sk then Some (Ok (world m) tt) else evalp p n (world m)) = Some (Ok (world m1) tt) /\ inv c (finalOf k) m1
        | Some (MPanic m1 pv) => (if sk then Some (Ok (world m) tt) else evalp p n (world m)) = Some (Panic (world m1) pv)
        | Some MStuck => (if sk then Some (Ok (world m) tt) else evalp p n (world m)) = Some Stuck
        | None => (if sk then Some (Ok (world m) tt) else evalp p n (world m)) = None
        end).
      { destruct sk; [split; auto|]. destruct p as [pf|]; [|split; auto]. cbn [evalp].
        pose proof (call_user_inv pf n (S d) Hi) as Hu.
        destruct (call_user pf n (S d) m) as [[m' []|m' pv|]|]; auto. }
      destruct (if sk then Some (MOk m tt)
                else match p with None => Some (MOk m tt) | Some pf => call_user pf n (S d) m end)
        as [[m1 ?|m1 pv|]|]; [destruct Hpost as [-> Hi1]|rewrite Hpost; reflexivity..].
      assert (Hcond :
        match (match cd with None => Some (MOk m1 true) | Some cf => call_user cf n (S d) m1 end) with
        | Some (MOk m2 bb) => evalc cd n (world m1) = Some (Ok (world m2) bb) /\ inv c (finalOf k) m2
        | Some (MPanic m2 pv) => evalc cd n (world m1) = Some (Panic (world m2) pv)
        | Some MStuck => evalc cd n (world m1) = Some Stuck
        | None => evalc cd n (world m1) = None
        end).
      { destruct cd as [cf|]; [|split; auto]. cbn [evalc].
        pose proof (call_user_inv cf n (S d) Hi1) as Hu.
        destruct (call_user cf n (S d) m1) as [[m' bb|m' pv|]|]; auto. }
      destruct (match cd with None => Some (MOk m1 true) | Some cf => call_user cf n (S d) m1 end)
        as [[m2 [|]|m2 pv|]|]; [destruct Hcond as [-> Hi2]|destruct Hcond as [-> Hi2]|rewrite Hcond; reflexivity..].
      + change (finalOf k) with (finalOf (KFor cd p b c k d (get_epoch m2 c))).
        rewrite IH1; cbn; auto.
      + rewrite IH3; auto.
    - intros d k t v m c Hc Hi. cbn [call_cont rsig].
      destruct k as [g|cd p b c' k' dl ep|s2 c' k']; cbn [absK finalOf].
      + cbn [finalOf] in *. destruct Hi as [Hs [r Hr]]. unfold obs, set_result. rewrite Hr.
        cbn [omap]. unfold get_step, set_gen in *. cbn [cos gens world]. rewrite Hs.
        rewrite lookup_update_same. reflexivity.
      + destruct Hc as [-> Hc]. cbn [finalOf] in *.
        destruct t; try (rewrite IH3; auto);
          destruct (Nat.eqb ep (get_epoch m c)); rewrite IH2; auto.
      + destruct Hc as [-> Hc]. destruct t; cbn [finalOf] in *;
          try (rewrite IH3; auto). rewrite IH1; auto.
  Qed.
End Refine.
