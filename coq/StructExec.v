(* StructExec.v — executable comparison of the rewriter model with the abstract tree
   of the real rewriter's output (structural correspondence, DESIGN.md §4.4 row 1). *)
From Coq Require Import List Arith Bool.
From Verif Require Import Syntax Rewrite.
Import ListNotations.

(* sc_expect: the argument of seq.Start in the generated code; None = the real compiler rejected the program *)
Record scase := { sc_src : list stmt; sc_expect : option sexp }.

Definition sexp_eqb (a b : sexp) : bool := stmt_eqb 2000 (SRet a) (SRet b).

(* 0 agree; 1 both accept but trees differ; 2 model rejects, compiler accepts; 3 model accepts, compiler rejects *)
Definition check_scase (c : scase) : nat :=
  match rewrite (sc_src c), sc_expect c with
  | OK body, Some e => if sexp_eqb e (XDelay (TLit body)) then 0 else 1
  | OK _, None => 3
  | Err _, Some _ => 2
  | Err _, None => 0
  end.

Fixpoint smismatches_from (i : nat) (cs : list scase) : list (nat * nat) :=
  match cs with
  | [] => []
  | c :: rest => match check_scase c with
                 | 0 => smismatches_from (S i) rest
                 | k => (i, k) :: smismatches_from (S i) rest
                 end
  end.
Definition smismatches (cs : list scase) := smismatches_from 0 cs.
