(* LinkMachine.v — the compiled generator on the MACHINE model of seq/seq.go.

   [mdrive] is the consumer's loop written with the methods of the generator object of
   SeqMachine.v (the model of seq.go that the runtime correspondence compares with the real package
   on every run): MoveNext; if true, Current, hand the value to the consumer (an action on the
   world), go on unless it stops.  By the refinement of Protocol.v (C08 / C09) this loop computes
   what the same loop over the reference automaton computes, and by Link.v that is what the big-step
   semantics of the compiler proof says. *)
From Coq Require Import List Arith Bool Lia.
From Verif Require Import Base Syntax Sem SemLemmas SeqMachine SeqRef Protocol Rewrite Side Link.
Import ListNotations.

Section LM.
  Variables U V P : Type.
  Variable aden : nat -> U -> outcome U P unit.
  Variable cden : nat -> U -> outcome U P bool.
  Variable tden : nat -> U -> outcome U P nat.
  Variable kval : nat -> nat.
  Variable yden : nat -> U -> outcome U P V.
  Variable env : nat -> V -> U -> U * bool.
  Variable zeroV : V.

  Notation W := (W U).
  Notation final := (Sem.final U P).
  Notation st := (st W V P).
  Notation seqv := (seqv W V P).
  Notation rgen := (rgen W V P).

  (* the consumer of Sem.v as a loop over the generator object: N is the fuel of one advance, F the
     number of advances the loop may still make *)
  Fixpoint mdrive (N F : nat) (g : loc) (m : st) {struct F} : option final :=
    match F with 0 => None | S F =>
      match m_op zeroV N 1 g OMoveNext m with
      | Some (m1, RBool true) =>
          let v := gen_current zeroV g m1 in
          let w := world m1 in
          let '(u', more) := env (snd w) v (fst w) in
          if more then mdrive N F g (set_world m1 (u', S (snd w))) else Some (FStopped (u', S (snd w)))
      | Some (m1, RBool false) => Some (FFinished (world m1))
      | Some (m1, RPanicked pv) => Some (FPanicked (world m1) pv)
      | _ => None
      end
    end.

  (* the same loop over the specification automaton of Protocol.v *)
  Fixpoint rdrive (N F : nat) (rg : rgen) (w0 : W) {struct F} : option final :=
    match F with 0 => None | S F =>
      match r_op zeroV N OMoveNext rg w0 with
      | Some (rg1, w, RBool true) =>
          let v := r_current rg1 in
          let '(u', more) := env (snd w) v (fst w) in
          if more then rdrive N F rg1 (u', S (snd w)) else Some (FStopped (u', S (snd w)))
      | Some (rg1, w, RBool false) => Some (FFinished w)
      | Some (rg1, w, RPanicked pv) => Some (FPanicked w pv)
      | _ => None
      end
    end.

  Lemma mdrive_rdrive N F : forall c g rg (m : st), grel c g rg m -> mdrive N F g m = rdrive N F rg (world m).
  Proof.
    induction F as [|F IH]; intros c g rg m Hg; [reflexivity|]. cbn [mdrive rdrive].
    pose proof (op_refines zeroV N 1 OMoveNext Hg) as H.
    destruct (m_op zeroV N 1 g OMoveNext m) as [[m1 a]|].
    - destruct H as [rg1 [-> [Hg1 _]]]. destruct a as [b|v|v ok|pv|]; try reflexivity.
      destruct b; [|reflexivity].
      assert (Hc : gen_current zeroV g m1 = r_current rg1).
      { destruct Hg1 as [_ [r [Hl [_ [Hcur _]]]]]. unfold gen_current. rewrite Hl. exact Hcur. }
      rewrite Hc. destruct (env (snd (world m1)) (r_current rg1) (fst (world m1))) as [u' more]. destruct more; [|reflexivity].
      rewrite (IH c g rg1 (set_world m1 (u', S (snd (world m1)))) (grel_set_world (u', S (snd (world m1))) Hg1)). reflexivity.
    - rewrite H. reflexivity.
  Qed.

  Notation drive := (Link.drive U V P env zeroV).
  Notation odrive := (Link.odrive U V P env zeroV).

  (* the automaton's loop is the consumer loop of Link.v over the pending resumption *)
  Lemma rdrive_drive N F : forall (rg : rgen) w r f,
    r_pending rg = Some r ->
    odrive N F (resume zeroV N r zeroV w) = Some f -> f <> FStuck ->
    rdrive N F rg w = Some f.
  Proof.
    induction F as [|F IH]; intros rg w r f Hp H Hns.
    - destruct (resume zeroV N r zeroV w); discriminate.
    - cbn [rdrive r_op]. unfold r_moveNext. cbn [r_setstarted r_pending]. rewrite Hp.
      destruct (resume zeroV N r zeroV w) as [x|]; [|discriminate]. cbn [Link.odrive] in H.
      destruct x as [v r' w1|res w1|w1 pv|].
      + cbn [Link.drive] in H. cbn [r_current].
        destruct (env (snd w1) v (fst w1)) as [u' more]. destruct more; [|exact H].
        apply (IH _ (u', S (snd w1)) r' f); [reflexivity| |exact Hns].
        unfold Link.odrive. exact H.
      + exact H.
      + exact H.
      + cbn [Link.drive] in H. congruence.
  Qed.

  (* Start(Delay(func() Seq { out })) on the machine, driven by the consumer *)
  Definition machine_target (k : nat) (out : list stmt) (u : U) (N F : nat) : option final :=
    let s := SDelay (Tt U V P aden cden tden kval yden env (S k) (TLit out)) in
    let mg := start zeroV s (empty_st V P (u, 0)) in
    mdrive N F (snd mg) (fst mg).

  Theorem machine_link k out n u f :
    forallb (lk k) out = true ->
    run_target aden cden tden kval yden env true n out u = Some f -> f <> FStuck ->
    exists M, forall N F, M <= N -> M <= F -> machine_target k out u N F = Some f.
  Proof.
    intros Hk H Hns. destruct (link_target U V P aden cden tden kval yden env zeroV k out n u f Hk H) as [M HM].
    exists M. intros N F HN HF. unfold machine_target.
    set (s := SDelay (Tt U V P aden cden tden kval yden env (S k) (TLit out))).
    destruct (start_grel zeroV s (empty_st V P (u, 0))) as [Hg [Hw _]].
    rewrite (mdrive_rdrive N F _ _ _ _ Hg). rewrite Hw. cbn [world empty_st].
    apply (rdrive_drive N F (r_fresh zeroV s) (u, 0) (RInit s) f); [reflexivity| |exact Hns].
    exact (HM F N N HF HN HN).
  Qed.

  (* Start(e) for any seq expression e (the optimiser may have removed the outer Delay): the expression
     is evaluated first — only the value arguments of Bind run user code — then the value is started *)
  Definition machine_sval (k : nat) (sv : Sem.sval V) (w : W) (N F : nat) : option final :=
    let mg := start zeroV (Tv U V P aden cden tden kval yden env (Tt U V P aden cden tden kval yden env (S k)) sv) (empty_st V P w) in
    mdrive N F (snd mg) (fst mg).

  Definition machine_start (k : nat) (e : sexp) (u : U) (N F : nat) : option final :=
    match build yden e (u, 0) with
    | Ok u' sv => machine_sval k sv (u', 0) N F
    | Panic u' pv => Some (FPanicked (u', 0) pv)
    | Stuck => Some FStuck
    end.

  Theorem machine_link_sval k sv n w c :
    lkv V k sv = true ->
    run aden cden tden kval yden env true n sv w = Some c -> final_of c <> FStuck ->
    exists M, forall N F, M <= N -> M <= F -> machine_sval k sv w N F = Some (final_of c).
  Proof.
    intros Hk H Hns. destruct (link_sval U V P aden cden tden kval yden env zeroV k sv n w c Hk H) as [M HM].
    exists M. intros N F HN HF. unfold machine_sval.
    set (s := Tv U V P aden cden tden kval yden env (Tt U V P aden cden tden kval yden env (S k)) sv).
    destruct (start_grel zeroV s (empty_st V P w)) as [Hg [Hw _]].
    rewrite (mdrive_rdrive N F _ _ _ _ Hg). rewrite Hw. cbn [world empty_st].
    apply (rdrive_drive N F (r_fresh zeroV s) w (RInit s) (final_of c)); [reflexivity| |exact Hns].
    exact (HM F N N HF HN HN).
  Qed.
End LM.
