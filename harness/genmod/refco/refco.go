// Package refco is the reference coroutine runtime: a generator body runs as
// plain Go on its own goroutine, Yield really suspends it and MoveNext really
// resumes it, so native Go semantics of the body IS "what the source would do if
// Yield suspended the function".  Strict hand-off: exactly one side runs at a time.
package refco

type Iter interface {
	MoveNext() bool
	Current() int
}

type Y struct {
	resume chan struct{}
	out    chan msg
}

type msg struct {
	kind int // 0 yield, 1 done, 2 panic
	v    int
	pv   any
}

type co struct {
	y       *Y
	body    func(*Y)
	started bool
	done    bool
	cur     int
}

func New(body func(*Y)) Iter {
	return &co{y: &Y{resume: make(chan struct{}), out: make(chan msg)}, body: body}
}

func (y *Y) Yield(v int) {
	y.out <- msg{kind: 0, v: v}
	<-y.resume
}

// YieldFrom delegates to another iterator (reference semantics of co.YieldFrom).
func (y *Y) YieldFrom(it Iter) {
	for it.MoveNext() {
		y.Yield(it.Current())
	}
}

func (c *co) MoveNext() bool {
	if c.done {
		return false
	}
	if !c.started {
		c.started = true
		go func() {
			defer func() {
				if r := recover(); r != nil {
					c.y.out <- msg{kind: 2, pv: r}
					return
				}
				c.y.out <- msg{kind: 1}
			}()
			c.body(c.y)
		}()
	} else {
		c.y.resume <- struct{}{}
	}
	m := <-c.y.out
	switch m.kind {
	case 0:
		c.cur = m.v
		return true
	case 1:
		c.done = true
		c.cur = 0
		return false
	default:
		// the goroutine is gone; the real runtime would re-run the step on retry,
		// which a goroutine cannot do, so the reference iterator is dead after a panic
		c.done = true
		panic(m.pv)
	}
}

func (c *co) Current() int { return c.cur }
