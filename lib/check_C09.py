"""C09 — iterator protocol: exhaustive operation histories over a family of generators."""
import itertools
import random

import rtgen
import rtprops

N = {"k": "sig", "t": "normal"}


def bind(v, body, acts=None, idn=0):
    return {"k": "bind", "v": v, "id": idn, "acts": acts or [], "body": body}


def family():
    f = {}
    f["empty"] = N
    f["ret_only"] = {"k": "retv", "v": ["const", 7]}
    f["one"] = bind(["const", 1], N, [["log", 1]])
    f["two_ret"] = bind(["const", 1], bind(["const", 2], {"k": "retv", "v": ["const", 42]}, [["log", 2]]), [["log", 1]])
    f["three"] = bind(["const", 1], bind(["const", 2], bind(["const", 3], N)))
    f["echo"] = {"k": "bindrecv", "v": ["const", 1], "id": 0, "acts": [["recvto", 0]],
                 "body": {"k": "bindrecv", "v": ["regplus", 0, 10], "id": 0, "acts": [["recvto", 1]],
                          "body": {"k": "retv", "v": ["regplus", 1, 1000]}}}
    # i != n loop: re-running its tail after exhaustion would revive it
    f["ne_loop"] = {"k": "for", "c": {"id": 0, "acts": [["add", 0, 1]], "e": ["ne", 0, 3]}, "p": None,
                    "b": bind(["reg", 0], N, [["log", 5]])}
    f["delay_loop_ret"] = {"k": "delay", "id": 0, "acts": [["log", 9]], "body": {"k": "combine",
                           "a": {"k": "for", "c": {"id": 0, "acts": [["add", 1, 1]], "e": ["lt", 1, 3]},
                                 "p": {"id": 0, "acts": [["log", 4]]}, "b": bind(["reg", 1], N)},
                           "b": {"k": "retv", "v": ["reg", 1]}}}
    f["echo_loop"] = {"k": "for", "c": {"id": 0, "acts": [], "e": ["lt", 2, 50]}, "p": None,
                      "b": {"k": "bindrecv", "v": ["reg", 2], "id": 0, "acts": [["recvto", 2], ["log", 3]], "body": N}}
    # a return value produced inside a loop: in an iteration that has not suspended (first iteration, or a later one reached
    # after a resume), and after the yield of the same iteration
    f["loop_ret_first"] = {"k": "for", "c": None, "p": None, "b": {"k": "retv", "v": ["const", 7]}}
    f["yield_then_loop_ret"] = bind(["const", 1], {"k": "for", "c": None, "p": None,
                                                    "b": {"k": "delay", "id": 0, "acts": [["log", 6]], "body": {"k": "retv", "v": ["const", 9]}}})
    brk = {"k": "sig", "t": "break"}
    f["early_ret_in_loop"] = {"k": "for", "c": None, "p": None, "b": {"k": "delay", "id": 0, "acts": [["add", 0, 1], ["set", 1, 0]], "body": {"k": "combine",
        "a": {"k": "for", "c": {"id": 0, "acts": [], "e": ["lt", 0, 3]}, "p": None,
              "b": {"k": "combine", "a": bind(["reg", 0], N, [["set", 1, 1]]), "b": brk}},
        "b": {"k": "for", "c": {"id": 0, "acts": [], "e": ["ne", 1, 1]}, "p": None,
              "b": {"k": "combine", "a": {"k": "retv", "v": ["const", 42]}, "b": brk}}}}}
    f["late_ret_in_loop"] = {"k": "for", "c": {"id": 0, "acts": [["add", 0, 1]], "e": ["lt", 0, 9]}, "p": None,
                             "b": bind(["reg", 0], {"k": "retv", "v": ["regplus", 0, 40]})}
    return {k: rtgen.assign_ids(rtgen.copy(v)) for k, v in f.items()}


OPS = [[0, "mn"], [0, "cur"], [0, "send", 3], [0, "send", 60], [0, "res"]]


def check(rep, tier):
    if not rtprops.proof_or_violation(rep, "C09"):
        return
    L = 4 if tier == "quick" else 6
    fam = family()
    cases = []
    for name, t in fam.items():
        for l in range(1, L + 1):
            for h in itertools.product(OPS, repeat=l):
                cases.append({"terms": [t], "hist": [list(o) for o in h], "budget": 40})
    rng = random.Random(rtprops.C.seed() * 7919 + 9)
    for i in range(150 if tier == "quick" else 1500):
        c = rtgen.make_case(rng, rng.choice([3, 5, 8]), ngens=1, histlen=12, budget=40, panics=(i % 4 == 0))
        cases.append(c)
    rep.coverage["exhaustive"] = False
    rep.coverage["exhaustive_part"] = "all histories of length 1..%d over {MoveNext, Current, Send(3), Send(60), Result} for %d generators" % (L, len(fam))
    rule = ("every operation history of length <= %d over 5 operations for a family of %d generators (0..3 yields, with/without "
            "return value, echoing BindRecv generators, loops whose condition can become true again), plus random terms with "
            "random histories of length <= 12; each case run on the real seq package and on the Coq machine and automaton; "
            "non-trivial = a yield was delivered and user code ran" % (L, len(fam)))
    rtprops.correspondence(rep, "C09", cases, rule,
                           what="real generator object disagrees with the specification automaton (C09 fails on this history)")


replay = rtprops.replay
