(* SeqRef.v — the specification side of Layer R: a reference interpreter for
   structured loops with break/continue/return over a syntactic frame stack
   (DESIGN.md §3.2).  About 60 lines; no heap, no continuations-as-closures,
   no depth.  [rrun n s ks u] runs term [s] under frames [ks] from world [u]
   up to the next yield or to completion. *)
From Verif Require Import Base SeqMachine.

Set Implicit Arguments.

Section Ref.
  Variables U V P : Type.
  Variable zeroV : V.

  Notation oracle := (oracle U P).
  Notation seqv := (seqv U V P).

  Inductive frame :=
  | KComb (b : seqv)                                                   (* rest of a Combine *)
  | KLoop (c : option (oracle bool)) (p : option (oracle unit)) (b : seqv).  (* enclosing loop *)

  (* a suspended computation: what to run with the sent value, under which frames *)
  Inductive resumption :=
  | RInit (s : seqv)                                       (* not started yet *)
  | RAfter (f : V -> oracle seqv) (ks : list frame).       (* suspended at a yield *)

  Inductive rres :=
  | RYield (v : V) (r : resumption) (u : U)
  | RDone (res : V) (u : U)
  | RPanic (u : U) (pv : P)
  | RStuck.

  Fixpoint rrun (n : nat) (s : seqv) (ks : list frame) (u : U) {struct n} : option rres :=
    match n with 0 => None | S n =>
      match s with
      | SBind v f => Some (RYield v (RAfter (fun _ => f) ks) u)
      | SBindRecv v f => Some (RYield v (RAfter f ks) u)
      | SDelay f => match f n u with
                    | None => None
                    | Some (Ok u' s') => rrun n s' ks u'
                    | Some (Panic u' pv) => Some (RPanic u' pv)
                    | Some Stuck => Some RStuck
                    end
      | SCombine a b => rrun n a (KComb b :: ks) u
      | SFor c p b => rloop n c p b ks true u
      | SOfK t => rsig n t zeroV ks u
      | SRetV v => rsig n KReturn v ks u
      end
    end
  (* (re-)enter a loop: post unless first iteration, then cond, then body *)
  with rloop (n : nat) c p b (ks : list frame) (skipPost : bool) (u : U) {struct n} : option rres :=
    match n with 0 => None | S n =>
      match (if skipPost then Some (Ok u tt) else evalp p n u) with
      | None => None
      | Some (Panic u1 pv) => Some (RPanic u1 pv)
      | Some Stuck => Some RStuck
      | Some (Ok u1 _) =>
          match evalc c n u1 with
          | None => None
          | Some (Ok u' true) => rrun n b (KLoop c p b :: ks) u'
          | Some (Ok u' false) => rsig n KNormal zeroV ks u'
          | Some (Panic u' pv) => Some (RPanic u' pv)
          | Some Stuck => Some RStuck
          end
      end
    end
  (* deliver completion signal t (with value v) to the innermost frame *)
  with rsig (n : nat) (t : ctype) (v : V) (ks : list frame) (u : U) {struct n} : option rres :=
    match n with 0 => None | S n =>
      match ks with
      | [] => Some (RDone v u)
      | KComb b :: ks' => match t with KNormal => rrun n b ks' u | _ => rsig n t v ks' u end
      | KLoop c p b :: ks' =>
          match t with
          | KNormal | KContinue => rloop n c p b ks' false u
          | KBreak => rsig n KNormal zeroV ks' u
          | KReturn => rsig n KReturn v ks' u
          end
      end
    end.

  (* resume a suspended computation with the value sent by the consumer *)
  Definition resume (n : nat) (r : resumption) (recv : V) (u : U) : option rres :=
    match r with
    | RInit s => rrun n s [] u
    | RAfter f ks =>
        match f recv n u with
        | None => None
        | Some (Ok u' s') => rrun n s' ks u'
        | Some (Panic u' pv) => Some (RPanic u' pv)
        | Some Stuck => Some RStuck
        end
    end.
End Ref.

Arguments RStuck {U V P}.
Arguments RYield {U V P}.
Arguments RDone {U V P}.
Arguments RPanic {U V P}.
Arguments RInit {U V P}.
Arguments RAfter {U V P}.
Arguments KComb {U V P}.
Arguments KLoop {U V P}.
