import ccheck
import cprops


def check(rep, tier):
    cprops.check(rep, tier, "C04")


replay = ccheck.replay
