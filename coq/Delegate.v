(* Delegate.v — YieldFrom and range-over-iterator, at the level of the source semantics (Sem.v).

   pass1 of the rewriter lowers

       YieldFrom(x)            to   { ɪʇ := x; for ɪʇ.MoveNext() { ʌ := ɪʇ.Current(); Yield(ʌ) } }
       for w (:)= range x { B } to  { ɪʇ := x; for ɪʇ.MoveNext() { w (:)= ɪʇ.Current(); B } }

   (rewriter/yieldfrom_rewrite.go, rewriteForRange; lib/lowering.py is the same lowering in the
   source abstraction, and the structural correspondence compares the real compiler's output on
   programs with YieldFrom / range-over-iterator with the rewriter model applied to the lowered
   program on every run).  This file proves what the lowered statement does, for ANY delegate:
   the delegate is whatever `ɪʇ.MoveNext()` does to the world — an arbitrary function
   [mn : U -> outcome U P bool], so it may itself be a compiled generator at any recursion depth, one
   that the consumer advances by hand in between, or one that panics — together with the value
   [curv u] its Current() would return in world u.

   [splice] / [consume] are the specifications: they are written directly from the property text
   and do not mention statements or the interpreter for the loop itself. *)
From Coq Require Import List Arith Bool Lia.
From Verif Require Import Base Syntax Sem SemLemmas.
Import ListNotations.

Set Implicit Arguments.

Section Delegate.
  Variables U V P : Type.
  Variable aden : nat -> U -> outcome U P unit.
  Variable cden : nat -> U -> outcome U P bool.
  Variable tden : nat -> U -> outcome U P nat.
  Variable kval : nat -> nat.
  Variable yden : nat -> U -> outcome U P V.
  Variable env : nat -> V -> U -> U * bool.

  Notation compl := (compl U V P).
  Notation W := (W U).
  Notation exec := (exec aden cden tden kval yden env).
  Notation exec_list := (exec_list aden cden tden kval yden env).
  Notation exec_loop := (exec_loop aden cden tden kval yden env).

  (* identifiers of the generated simple statements / expressions *)
  Variables (a_init a_cur c_mn y_v : nat).

  (* the delegate *)
  Variable start : U -> outcome U P unit.     (* evaluating `ɪʇ := x` (x may run user code, may panic) *)
  Variable mn : U -> outcome U P bool.        (* ɪʇ.MoveNext() *)
  Variable curv : U -> V.                     (* what ɪʇ.Current() returns *)
  Variable setv : U -> U.                     (* the world after `ʌ := ɪʇ.Current()` *)

  Hypothesis Hinit : forall u, aden a_init u = start u.
  Hypothesis Hmn : forall u, cden c_mn u = mn u.
  Hypothesis Hcur : forall u, aden a_cur u = Ok (setv u) tt.
  (* reading the fresh variable ʌ gives the value just stored and has no effect *)
  Hypothesis Hval : forall u, yden y_v (setv u) = Ok (setv u) (curv u).

  (* ---------- C05: YieldFrom ---------- *)

  Definition yf_loop : stmt := SFor None (Some c_mn) None [SAtom a_cur; SYield y_v].
  Definition yf_stmt : stmt := SBlock [SAtom a_init; yf_loop].

  (* SPEC.  While delegating, each consumer advance performs exactly one MoveNext of the delegate;
     true: the delegate's current value is delivered to the consumer (which may stop there: nothing
     further runs); false: delegation is over, the statement has completed normally. *)
  Fixpoint splice (n : nat) (w : W) : option compl :=
    match n with 0 => None | S n =>
      match mn (fst w) with
      | Ok u1 true =>
          let '(u2, more) := env (snd w) (curv u1) (setv u1) in
          if more then splice n (u2, S (snd w)) else Some (CStop (u2, S (snd w)))
      | Ok u1 false => Some (CDone GNormal (u1, snd w))
      | Panic u1 pv => Some (CPanic (u1, snd w) pv)
      | Stuck => Some CStuck
      end
    end.

  (* the whole statement: x is evaluated once, when the statement is reached, then [splice] *)
  Definition yf_spec (n : nat) (w : W) : option compl :=
    match start (fst w) with
    | Ok u1 _ => splice n (u1, snd w)
    | Panic u1 pv => Some (CPanic (u1, snd w) pv)
    | Stuck => Some CStuck
    end.

  Lemma yf_body n w :
    exec_list (S (S (S n))) [SAtom a_cur; SYield y_v] w =
      let '(u2, more) := env (snd w) (curv (fst w)) (setv (fst w)) in
      if more then Some (CDone GNormal (u2, S (snd w))) else Some (CStop (u2, S (snd w))).
  Proof.
    destruct w as [u k].
    rewrite exec_list_S, exec_S. cbn [fst snd]. rewrite Hcur. cbn [lift after_normal].
    rewrite exec_list_S, exec_S. cbn [fst snd]. rewrite Hval. cbn [lift fst snd].
    destruct (env k (curv u) (setv u)) as [u2 more]. destruct more; cbn [after_normal]; [|reflexivity].
    rewrite exec_list_S. reflexivity.
  Qed.

  Lemma splice_loop n : forall w r, splice n w = Some r -> exec_loop (n + 3) (Some c_mn) None [SAtom a_cur; SYield y_v] w = Some r.
  Proof.
    induction n as [|n IH]; intros w r H; [discriminate|].
    replace (S n + 3) with (S (S (S (S n)))) by lia.
    rewrite exec_loop_S. cbv zeta. rewrite Hmn. cbn [splice] in H.
    destruct (mn (fst w)) as [u1 b|u1 pv|]; cbn [lift]; [|exact H|exact H].
    destruct b; [|exact H].
    rewrite yf_body. cbn [fst snd].
    destruct (env (snd w) (curv u1) (setv u1)) as [u2 more]. destruct more; [|exact H].
    cbn [after_normal]. replace (S (S (S n))) with (n + 3) by lia. apply IH. exact H.
  Qed.

  Lemma loop_splice n : forall w r, exec_loop n (Some c_mn) None [SAtom a_cur; SYield y_v] w = Some r -> splice n w = Some r.
  Proof.
    induction n as [|n IH]; intros w r H; [discriminate|].
    rewrite exec_loop_S in H. cbv zeta in H. rewrite Hmn in H. cbn [splice].
    destruct (mn (fst w)) as [u1 b|u1 pv|]; cbn [lift] in H; [|exact H|exact H].
    destruct b; [|exact H].
    destruct n as [|[|[|n]]].
    - discriminate.
    - rewrite exec_list_S in H. discriminate.
    - rewrite exec_list_S, exec_S in H. cbn [fst snd] in H. rewrite Hcur in H. cbn [lift after_normal] in H.
      rewrite exec_list_S in H. discriminate.
    - rewrite yf_body in H. cbn [fst snd] in H.
      destruct (env (snd w) (curv u1) (setv u1)) as [u2 more]. destruct more; [|exact H].
      cbn [after_normal] in H. apply IH. exact H.
  Qed.

  (* the lowered statement does exactly what the specification says (both fuel directions) *)
  Theorem yieldfrom_meets_spec n w r : yf_spec n w = Some r -> exists m, exec m yf_stmt w = Some r.
  Proof.
    unfold yf_spec. intros H. exists (S (S (S (S (n + 3))))).
    unfold yf_stmt. rewrite exec_S, exec_list_S, exec_S. rewrite Hinit.
    destruct (start (fst w)) as [u1 []|u1 pv|]; cbn [lift after_normal]; [|exact H|exact H].
    rewrite exec_list_S. unfold yf_loop. rewrite exec_S.
    cbn [after_normal]. rewrite (splice_loop _ _ H).
    destruct r as [g w'|sv w'|w'|w' pv|]; try reflexivity.
    destruct g; reflexivity.
  Qed.

  Theorem yieldfrom_only_spec m w r : exec m yf_stmt w = Some r -> yf_spec m w = Some r.
  Proof.
    unfold yf_spec, yf_stmt. intros H.
    destruct m as [|[|m]]; [discriminate|discriminate|].
    rewrite exec_S, exec_list_S in H.
    destruct m as [|m]; [discriminate|]. rewrite exec_S in H. rewrite Hinit in H.
    destruct (start (fst w)) as [u1 []|u1 pv|]; cbn [lift after_normal] in H; [|exact H|exact H].
    rewrite exec_list_S in H. unfold yf_loop in H.
    destruct m as [|m]; [discriminate|]. rewrite exec_S in H. cbn [after_normal] in H.
    destruct (exec_loop m (Some c_mn) None [SAtom a_cur; SYield y_v] (u1, snd w)) as [r'|] eqn:E; [|discriminate].
    apply loop_splice in E.
    assert (Hr : r' = r).
    { destruct r' as [g w'|sv w'|w'|w' pv|]; cbn [after_normal] in H; try congruence.
      destruct g; cbn [after_normal] in H; try congruence.
      destruct m as [|m]; [discriminate|]. rewrite exec_list_S in H. congruence. }
    subst r'.
    assert (Hm : forall a b x, a <= b -> splice a x = Some r -> splice b x = Some r).
    { clear. induction a as [|a IHa]; intros b x Hab Hs; [discriminate|].
      destruct b as [|b]; [lia|]. cbn [splice] in *.
      destruct (mn (fst x)) as [u1 bb|u1 pv|]; try exact Hs.
      destruct bb; [|exact Hs].
      destruct (env (snd x) (curv u1) (setv u1)) as [u2 more]. destruct more; [|exact Hs].
      apply IHa; [lia|exact Hs]. }
    apply (Hm m); [lia|exact E].
  Qed.

  (* ---------- C06: range over an iterator (consumer side) ---------- *)

  Variable a_bind : nat.                       (* `w := ɪʇ.Current()` or `w = ɪʇ.Current()` *)
  Variable B : list stmt.                      (* the loop body: arbitrary statements, may yield *)

  Definition rg_loop : stmt := SFor None (Some c_mn) None (SAtom a_bind :: B).
  Definition rg_stmt : stmt := SBlock [SAtom a_init; rg_loop].

  (* SPEC.  One MoveNext per iteration started, plus the one that reports exhaustion; the bind
     statement and the body run once per element delivered; after break (or return, a stop of the
     consumer of the enclosing generator, a panic) the iterator is not advanced again. *)
  Fixpoint consume (n : nat) (w : W) : option compl :=
    match n with 0 => None | S n =>
      match mn (fst w) with
      | Ok u1 true =>
          match exec_list n (SAtom a_bind :: B) (u1, snd w) with
          | Some (CDone (GNormal | GContinue) w3) => consume n w3
          | Some (CDone GBreak w3) => Some (CDone GNormal w3)
          | other => other
          end
      | Ok u1 false => Some (CDone GNormal (u1, snd w))
      | Panic u1 pv => Some (CPanic (u1, snd w) pv)
      | Stuck => Some CStuck
      end
    end.

  Lemma loop_consume n : forall w, exec_loop n (Some c_mn) None (SAtom a_bind :: B) w = consume n w.
  Proof.
    induction n as [|n IH]; intros w; [reflexivity|].
    rewrite exec_loop_S. cbv zeta. rewrite Hmn. cbn [consume].
    destruct (mn (fst w)) as [u1 b|u1 pv|]; cbn [lift]; try reflexivity.
    destruct b; [|reflexivity].
    destruct (exec_list n (SAtom a_bind :: B) (u1, snd w)) as [[g w3|sv w3|w3|w3 pv|]|]; try reflexivity.
    destruct g; try reflexivity; cbn [after_normal]; apply IH.
  Qed.

  Definition rg_spec (n : nat) (w : W) : option compl :=
    match start (fst w) with
    | Ok u1 _ => consume n (u1, snd w)
    | Panic u1 pv => Some (CPanic (u1, snd w) pv)
    | Stuck => Some CStuck
    end.

  Theorem range_iter_meets_spec n w r : rg_spec n w = Some r -> exists m, exec m rg_stmt w = Some r.
  Proof.
    unfold rg_spec. intros H. exists (S (S (S (S n)))).
    unfold rg_stmt. rewrite exec_S, exec_list_S, exec_S. rewrite Hinit.
    destruct (start (fst w)) as [u1 []|u1 pv|]; cbn [lift after_normal]; [|exact H|exact H].
    rewrite exec_list_S. unfold rg_loop. rewrite exec_S. cbn [after_normal].
    rewrite loop_consume.
    rewrite H.
    destruct r as [g w'|sv w'|w'|w' pv|]; try reflexivity.
    destruct g; reflexivity.
  Qed.
  Lemma consume_mono a : forall b x r, a <= b -> consume a x = Some r -> consume b x = Some r.
  Proof.
    intros b x r Hab. rewrite <- !loop_consume. induction Hab as [|b Hab IH]; [auto|].
    intros H. apply (proj2 (proj2 (proj2 (proj2 (exec_mono1 aden cden tden kval yden env b))))). auto.
  Qed.

  Theorem range_iter_only_spec m w r : exec m rg_stmt w = Some r -> rg_spec m w = Some r.
  Proof.
    unfold rg_spec, rg_stmt. intros H.
    destruct m as [|[|m]]; [discriminate|discriminate|].
    rewrite exec_S, exec_list_S in H.
    destruct m as [|m]; [discriminate|]. rewrite exec_S in H. rewrite Hinit in H.
    destruct (start (fst w)) as [u1 []|u1 pv|]; cbn [lift after_normal] in H; [|exact H|exact H].
    rewrite exec_list_S in H. unfold rg_loop in H.
    destruct m as [|m]; [discriminate|]. rewrite exec_S in H. cbn [after_normal] in H.
    rewrite loop_consume in H.
    destruct (consume m (u1, snd w)) as [r'|] eqn:E; [|discriminate].
    assert (Hr : r' = r).
    { destruct r' as [g w'|sv w'|w'|w' pv|]; cbn [after_normal] in H; try congruence.
      destruct g; cbn [after_normal] in H; try congruence.
      destruct m as [|m]; [discriminate|]. rewrite exec_list_S in H. congruence. }
    subst r'. apply (consume_mono (a:=m)); [lia|exact E].
  Qed.
End Delegate.
