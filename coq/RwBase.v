(* RwBase.v — semantic vocabulary for the correctness proof of the rewriter model:
   the meaning [N] of a statement list in tail position under the generalised
   (non-strict) reading of callbacks, and basic lemmas about exec_list. *)
From Coq Require Import List Arith Bool Lia.
From Verif Require Import Base Syntax Sem SemLemmas Rewrite.
Import ListNotations.

Set Implicit Arguments.

Section B.
  Variables U V P : Type.
  Variable aden : nat -> U -> outcome U P unit.
  Variable cden : nat -> U -> outcome U P bool.
  Variable tden : nat -> U -> outcome U P nat.
  Variable kval : nat -> nat.
  Variable yden : nat -> U -> outcome U P V.
  Variable env : nat -> V -> U -> U * bool.

  Notation compl := (compl U V P).
  Notation W := (W U).
  Notation exec := (exec aden cden tden kval yden env).
  Notation ex := (exec_list aden cden tden kval yden env).
  Notation rung := (run aden cden tden kval yden env false).
  Notation callg := (call aden cden tden kval yden env false).

  Lemma exm n m l w r : n <= m -> ex n l w = Some r -> ex m l w = Some r.
  Proof. intros; eapply exec_list_mono; eauto. Qed.
  Lemma exm1 n m s w r : n <= m -> exec n s w = Some r -> exec m s w = Some r.
  Proof. intros; eapply exec_mono; eauto. Qed.
  Lemma runm n m sv w r : n <= m -> rung n sv w = Some r -> rung m sv w = Some r.
  Proof. intros; eapply run_mono; eauto. Qed.
  Lemma callm n m t w r : n <= m -> callg n t w = Some r -> callg m t w = Some r.
  Proof. intros; eapply call_mono; eauto. Qed.

  (* run the seq value a native execution returned *)
  Definition norm (n : nat) (c : option compl) : option compl :=
    match c with
    | Some (CRet sv w) => rung n sv w
    | x => x
    end.

  (* meaning of a statement list in tail position *)
  Definition N (n : nat) (l : list stmt) (w : W) : option compl := norm n (ex n l w).

  Lemma norm_mono n m c r : n <= m -> norm n c = Some r -> norm m c = Some r.
  Proof.
    intros Hle. destruct c as [[g w|sv w|w|w pv|]|]; cbn; auto. apply runm; assumption.
  Qed.

  Lemma N_mono n m l w r : n <= m -> N n l w = Some r -> N m l w = Some r.
  Proof.
    intros Hle. unfold N. destruct (ex n l w) as [c|] eqn:E; [|discriminate].
    rewrite (@exm _ _ _ _ _ Hle E). apply norm_mono; assumption.
  Qed.

  Lemma ex_S n l w :
    ex (S n) l w = match l with
                   | [] => Some (CDone GNormal w)
                   | x :: r => after_normal (exec n x w) (fun w' => ex n r w')
                   end.
  Proof. reflexivity. Qed.

  (* exec_list of an append, forward: if the whole list gives r, then either the prefix
     already stopped the list with r, or the prefix completed normally and the suffix gives r *)
  Lemma ex_app_fwd n : forall l1 l2 w r,
    ex n (l1 ++ l2) w = Some r ->
    (ex n l1 w = Some r /\ (forall w', r <> CDone GNormal w')) \/
    (exists w', ex n l1 w = Some (CDone GNormal w') /\ exists m, m <= n /\ ex m l2 w' = Some r).
  Proof.
    induction n as [|n IH]; intros l1 l2 w r; [discriminate|].
    destruct l1 as [|x l1]; cbn [app].
    - intros H. right. exists w. split; [reflexivity|]. exists (S n). auto.
    - rewrite !ex_S. unfold after_normal. destruct (exec n x w) as [c|] eqn:E; [|discriminate].
      destruct c as [g w1|sv w1|w1|w1 pv|]; try (intros H; inversion H; subst; left; split; [reflexivity|discriminate]).
      destruct g; try (intros H; inversion H; subst; left; split; [reflexivity|discriminate]).
      intros H. destruct (IH l1 l2 w1 r H) as [[H1 H2]|[w' [H1 [m [Hm H2]]]]].
      + left. split; assumption.
      + right. exists w'. split; [assumption|]. exists m. split; [lia|assumption].
  Qed.

  (* and backward, with explicit fuel *)
  Lemma ex_app_stop n : forall l1 l2 w r,
    ex n l1 w = Some r -> (forall w', r <> CDone GNormal w') -> ex n (l1 ++ l2) w = Some r.
  Proof.
    induction n as [|n IH]; intros l1 l2 w r; [discriminate|].
    destruct l1 as [|x l1]; cbn [app].
    - rewrite ex_S. intros H Hn. inversion H; subst. exfalso. eapply Hn; reflexivity.
    - rewrite !ex_S. unfold after_normal. destruct (exec n x w) as [c|]; [|discriminate].
      destruct c as [g w1|sv w1|w1|w1 pv|]; auto. destruct g; auto.
  Qed.

  Lemma ex_app_go m : forall n l1 l2 w w' r,
    ex n l1 w = Some (CDone GNormal w') -> ex m l2 w' = Some r -> ex (n + m) (l1 ++ l2) w = Some r.
  Proof.
    induction n as [|n IH]; intros l1 l2 w w' r; [discriminate|].
    destruct l1 as [|x l1]; cbn [app].
    - rewrite ex_S. intros H H2. inversion H; subst. eapply exm; [|exact H2]. lia.
    - intros H H2. cbn [Nat.add]. rewrite ex_S in *.
      unfold after_normal in *. destruct (exec n x w) as [c|] eqn:E; [|discriminate].
      rewrite (@exm1 n (n + m) x w c); [|lia|exact E].
      destruct c as [g w1|sv w1|w1|w1 pv|]; try discriminate. destruct g; try discriminate.
      apply (IH l1 l2 w1 w' r H H2).
  Qed.
End B.
