(* SeqFrame.v — what a machine call may touch: only its own co cell and its own
   generator's result field.  Used by Protocol.v (refinement at the level of
   generator methods) and Indep.v (C14). *)
From Verif Require Import Base SeqMachine SeqRef SeqRefine.

Set Implicit Arguments.

Section Frame.
  Variables U V P : Type.
  Variable zeroV : V.

  Notation st := (st U V P).

  Definition nextOK (c g : loc) (nx : nextc U V P) : Prop :=
    match nx with
    | NNext _ _ c' k => c' = c /\ cellsOK c k /\ finalOf k = g
    | NStart _ c' k => c' = c /\ k = KFinal g
    end.

  Record preserves (c g : loc) (m m' : st) : Prop := {
    pr_cos : forall c', c' <> c -> lookup (cos m') c' = lookup (cos m) c';
    pr_gens : forall g', g' <> g -> lookup (gens m') g' = lookup (gens m) g';
    pr_gen : forall r, lookup (gens m) g = Some r ->
             exists r', lookup (gens m') g = Some r' /\ started r' = started r /\
                        gnext r' = gnext r /\ current r' = current r;
    pr_step : get_step m' c = get_step m c \/
              exists stp, get_step m' c = Some stp /\ nextOK c g (snext stp)
  }.

  Lemma preserves_refl c g m : preserves c g m m.
  Proof. split; auto. intros r Hr. exists r. auto. Qed.

  Lemma preserves_trans c g m1 m2 m3 : preserves c g m1 m2 -> preserves c g m2 m3 -> preserves c g m1 m3.
  Proof.
    intros [A1 B1 C1 D1] [A2 B2 C2 D2]. split.
    - intros c' Hc. rewrite A2, A1; auto.
    - intros g' Hg. rewrite B2, B1; auto.
    - intros r Hr. destruct (C1 r Hr) as [r' [Hr' [E1 [E2 E3]]]].
      destruct (C2 r' Hr') as [r'' [Hr'' [F1 [F2 F3]]]].
      exists r''. repeat split; congruence.
    - destruct D2 as [D2|D2]; [|right; exact D2].
      destruct D1 as [D1|D1]; [left; congruence|right].
      destruct D1 as [stp [Hs Hn]]. exists stp. split; congruence.
  Qed.

  Lemma preserves_world c g (m : st) d u : preserves c g m (set_world (logd m d) u).
  Proof. split; auto. intros r Hr. exists r. auto. Qed.

  Lemma preserves_set_step c g (m : st) stp :
    nextOK c g (snext stp) -> preserves c g m (set_step m c (Some stp)).
  Proof.
    intros Hn. split.
    - intros c' Hc. unfold set_step. cbn [cos]. now rewrite lookup_update_other.
    - auto.
    - intros r Hr. exists r. auto.
    - right. exists stp. split; auto. apply get_step_set_step.
  Qed.

  Lemma preserves_set_result c g (m : st) v : preserves c g m (set_result m g v).
  Proof.
    unfold set_result. destruct (lookup (gens m) g) as [r|] eqn:Hr; [|apply preserves_refl].
    split.
    - auto.
    - intros g' Hg. unfold set_gen. cbn [gens]. now rewrite lookup_update_other.
    - intros r0 Hr0. rewrite Hr in Hr0. inversion Hr0; subst r0.
      eexists. unfold set_gen. cbn [gens]. rewrite lookup_update_same. split; [reflexivity|auto].
    - left. reflexivity.
  Qed.

  Lemma call_user_preserves A (f : oracle U P A) n d (m : st) c g :
    match call_user f n d m with
    | Some (MOk m' _) | Some (MPanic m' _) => preserves c g m m'
    | _ => True
    end.
  Proof.
    unfold call_user. destruct (f n (world m)) as [[u a|u pv|]|]; auto using preserves_world.
  Qed.

  Definition res_preserves (c g : loc) (m : st) (r : option (mres U V P unit)) : Prop :=
    match r with
    | Some (MOk m' _) | Some (MPanic m' _) => preserves c g m m'
    | _ => True
    end.

  Lemma frame_all n :
    (forall d s c k m, cellsOK c k -> res_preserves c (finalOf k) m (call_seq zeroV n d s c k m)) /\
    (forall d cd p b c k sk m, cellsOK c k -> res_preserves c (finalOf k) m (loop zeroV n d cd p b c k sk m)) /\
    (forall d k t v m c, cellsOK c k -> res_preserves c (finalOf k) m (call_cont zeroV n d k t v m)).
  Proof.
    induction n as [|n [IH1 [IH2 IH3]]]; [repeat split; intros; exact I|].
    repeat split.
    - intros d s c k m Hc. rewrite call_seq_S.
      destruct s as [v f|v f|f|a b|cd p b|t|v].
      + cbn. apply preserves_set_step. cbn. auto.
      + cbn. apply preserves_set_step. cbn. auto.
      + pose proof (call_user_preserves f n (S d) m c (finalOf k)) as Hu.
        destruct (call_user f n (S d) m) as [[m' s'|m' pv|]|]; cbn; auto.
        specialize (IH1 (S d) s' c k m' Hc). unfold res_preserves in *.
        destruct (call_seq zeroV n (S d) s' c k m') as [[m'' ?|m'' pv|]|]; eauto using preserves_trans.
      + apply (IH1 (S d) a c (KCombine b c k) m). cbn. auto.
      + apply IH2; auto.
      + apply IH3; auto.
      + apply IH3; auto.
    - intros d cd p b c k sk m Hc. rewrite loop_S.
      assert (Hpost : match (if sk then Some (MOk m tt)
                             else match p with None => Some (MOk m tt) | Some pf => call_user pf n (S d) m end) with
                      | Some (MOk m1 _) | Some (MPanic m1 _) => preserves c (finalOf k) m m1
                      | _ => True end).
      { destruct sk; [apply preserves_refl|]. destruct p as [pf|]; [|apply preserves_refl].
        apply call_user_preserves. }
      destruct (if sk then Some (MOk m tt)
                else match p with None => Some (MOk m tt) | Some pf => call_user pf n (S d) m end)
        as [[m1 ?|m1 pv|]|]; cbn [res_preserves]; auto.
      assert (Hcond : match (match cd with None => Some (MOk m1 true) | Some cf => call_user cf n (S d) m1 end) with
                      | Some (MOk m2 _) | Some (MPanic m2 _) => preserves c (finalOf k) m1 m2
                      | _ => True end).
      { destruct cd as [cf|]; [|apply preserves_refl]. apply call_user_preserves. }
      destruct (match cd with None => Some (MOk m1 true) | Some cf => call_user cf n (S d) m1 end)
        as [[m2 [|]|m2 pv|]|]; cbn [res_preserves]; eauto using preserves_trans.
      + assert (H02 : preserves c (finalOf k) m m2) by (eapply preserves_trans; eauto).
        pose proof (IH1 (S d) b c (KFor cd p b c k d (get_epoch m2 c)) m2) as H. cbn [cellsOK finalOf] in H.
        specialize (H (conj eq_refl Hc)). unfold res_preserves in *.
        destruct (call_seq zeroV n (S d) b c (KFor cd p b c k d (get_epoch m2 c)) m2) as [[m3 ?|m3 pv|]|];
          auto; eapply preserves_trans; eauto.
      + assert (H02 : preserves c (finalOf k) m m2) by (eapply preserves_trans; eauto).
        pose proof (IH3 (S d) k KNormal zeroV m2 c Hc) as H. unfold res_preserves in *.
        destruct (call_cont zeroV n (S d) k KNormal zeroV m2) as [[m3 ?|m3 pv|]|];
          auto; eapply preserves_trans; eauto.
    - intros d k t v m c Hc. rewrite call_cont_S.
      destruct k as [g|cd p b c' k' dl ep|s2 c' k']; cbn [finalOf].
      + cbn. apply preserves_set_result.
      + destruct Hc as [-> Hc].
        destruct t.
        * destruct (Nat.eqb ep (get_epoch m c)); apply IH2; auto.
        * apply IH3; auto.
        * destruct (Nat.eqb ep (get_epoch m c)); apply IH2; auto.
        * apply IH3; auto.
      + destruct Hc as [-> Hc]. destruct t; try (apply IH3; auto). apply IH1; auto.
  Qed.

  (* a call that ends in a panic has not touched the generator's result either:
     the result is only written by Start's final continuation, after which no
     user code runs in the same advance *)
  Definition keeps_result (g : loc) (m m' : st) : Prop :=
    forall r, lookup (gens m) g = Some r -> exists r', lookup (gens m') g = Some r' /\ result r' = result r.

  Lemma keeps_result_refl g m : keeps_result g m m.
  Proof. intros r Hr. eauto. Qed.
  Lemma keeps_result_trans g m1 m2 m3 : keeps_result g m1 m2 -> keeps_result g m2 m3 -> keeps_result g m1 m3.
  Proof.
    intros H1 H2 r Hr. destruct (H1 r Hr) as [r' [Hr' E1]]. destruct (H2 r' Hr') as [r'' [Hr'' E2]].
    exists r''. split; congruence.
  Qed.

  Lemma call_user_keeps A (f : oracle U P A) n d (m : st) g :
    match call_user f n d m with
    | Some (MOk m' _) | Some (MPanic m' _) => keeps_result g m m'
    | _ => True
    end.
  Proof.
    unfold call_user. destruct (f n (world m)) as [[u a|u pv|]|]; auto; intros r Hr; eauto.
  Qed.

  (* on a panic the result field is untouched; on a normal return it is either
     untouched or the step cell is as it was on entry (i.e. no yield happened) *)
  Definition res_keeps (g c : loc) (m : st) (r : option (mres U V P unit)) : Prop :=
    match r with
    | Some (MPanic m' _) => keeps_result g m m' /\ get_step m' c = get_step m c
    | Some (MOk m' _) => keeps_result g m m' \/ get_step m' c = get_step m c
    | _ => True
    end.

  Lemma call_user_step A (f : oracle U P A) n d (m : st) c :
    match call_user f n d m with
    | Some (MOk m' _) | Some (MPanic m' _) => get_step m' c = get_step m c
    | _ => True
    end.
  Proof. unfold call_user. destruct (f n (world m)) as [[u a|u pv|]|]; auto. Qed.

  Lemma res_keeps_prefix g c (m m1 : st) r :
    keeps_result g m m1 -> get_step m1 c = get_step m c -> res_keeps g c m1 r -> res_keeps g c m r.
  Proof.
    intros Hk Hs. destruct r as [[m' ?|m' pv|]|]; cbn [res_keeps]; auto.
    - intros [H|H]; [left; eapply keeps_result_trans; eauto|right; congruence].
    - intros [H H']. split; [eapply keeps_result_trans; eauto|congruence].
  Qed.

  Lemma frame_keeps n :
    (forall d s c k m g, cellsOK c k -> res_keeps g c m (call_seq zeroV n d s c k m)) /\
    (forall d cd p b c k sk m g, cellsOK c k -> res_keeps g c m (loop zeroV n d cd p b c k sk m)) /\
    (forall d k t v m g c, cellsOK c k -> res_keeps g c m (call_cont zeroV n d k t v m)).
  Proof.
    induction n as [|n [IH1 [IH2 IH3]]]; [repeat split; intros; exact I|].
    repeat split.
    - intros d s c k m g Hc. rewrite call_seq_S.
      destruct s as [v f|v f|f|a b|cd p b|t|v]; cbn [res_keeps]; auto.
      + left. intros r Hr. exists r. auto.
      + left. intros r Hr. exists r. auto.
      + pose proof (call_user_keeps f n (S d) m g) as Hu.
        pose proof (call_user_step f n (S d) m c) as Hs.
        destruct (call_user f n (S d) m) as [[m' s'|m' pv|]|]; cbn [res_keeps]; auto.
        eapply res_keeps_prefix; eauto.
      + apply IH1. cbn. auto.
    - intros d cd p b c k sk m g Hc. rewrite loop_S.
      assert (Hpost : match (if sk then Some (MOk m tt)
                             else match p with None => Some (MOk m tt) | Some pf => call_user pf n (S d) m end) with
                      | Some (MOk m1 _) | Some (MPanic m1 _) => keeps_result g m m1 /\ get_step m1 c = get_step m c
                      | _ => True end).
      { destruct sk; [split; auto using keeps_result_refl|].
        destruct p as [pf|]; [|split; auto using keeps_result_refl].
        pose proof (call_user_keeps pf n (S d) m g) as Hu.
        pose proof (call_user_step pf n (S d) m c) as Hs.
        destruct (call_user pf n (S d) m) as [[m' s'|m' pv|]|]; auto. }
      destruct (if sk then Some (MOk m tt)
                else match p with None => Some (MOk m tt) | Some pf => call_user pf n (S d) m end)
        as [[m1 ?|m1 pv|]|]; cbn [res_keeps]; auto.
      destruct Hpost as [Hk1 Hs1].
      assert (Hcond : match (match cd with None => Some (MOk m1 true) | Some cf => call_user cf n (S d) m1 end) with
                      | Some (MOk m2 _) | Some (MPanic m2 _) => keeps_result g m1 m2 /\ get_step m2 c = get_step m1 c
                      | _ => True end).
      { destruct cd as [cf|]; [|split; auto using keeps_result_refl].
        pose proof (call_user_keeps cf n (S d) m1 g) as Hu.
        pose proof (call_user_step cf n (S d) m1 c) as Hs.
        destruct (call_user cf n (S d) m1) as [[m' s'|m' pv|]|]; auto. }
      destruct (match cd with None => Some (MOk m1 true) | Some cf => call_user cf n (S d) m1 end)
        as [[m2 [|]|m2 pv|]|]; cbn [res_keeps]; auto.
      + destruct Hcond as [Hk2 Hs2].
        eapply res_keeps_prefix; [eapply keeps_result_trans; eauto|congruence|].
        apply IH1. cbn. auto.
      + destruct Hcond as [Hk2 Hs2].
        eapply res_keeps_prefix; [eapply keeps_result_trans; eauto|congruence|].
        apply IH3. auto.
      + destruct Hcond as [Hk2 Hs2]. split; [eapply keeps_result_trans; eauto|congruence].
    - intros d k t v m g c Hc. rewrite call_cont_S.
      destruct k as [g0|cd p b c' k' dl ep|s2 c' k'].
      + cbn [res_keeps]. right. unfold set_result. destruct (lookup (gens m) g0); reflexivity.
      + destruct Hc as [-> Hc]. destruct t.
        * destruct (Nat.eqb ep (get_epoch m c)); apply IH2; auto.
        * apply IH3; auto.
        * destruct (Nat.eqb ep (get_epoch m c)); apply IH2; auto.
        * apply IH3; auto.
      + destruct Hc as [-> Hc]. destruct t; try (apply IH3; auto). apply IH1; auto.
  Qed.
End Frame.
