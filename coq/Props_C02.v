(* Props_C02.v — execution is demand-driven and in lockstep with the consumer.

   Full statement (C02): nothing of the body runs before the first MoveNext; each
   MoveNext runs exactly the source statements between two yields, in order, including
   the evaluation of the yielded expression; a consumer that stops causes nothing
   further to run; at every stop point.

   What is proved (PARTIAL): in the semantics of Sem.v the consumer is a function
   [env k v u] that receives the k-th value together with the user world u (the state
   every source statement acts on) and decides whether to ask for more.  The compiler
   theorem (C01Main.compiler_correct_hyps) holds for every such consumer and every
   denotation of user code, and its outcome FStopped (u, k) carries the world at the
   moment the consumer stopped.  Hence, for the fragment of Props_C01.v: for every stop
   point j, the compiled generator stopped after j values has run exactly the user
   code the source coroutine has run (same world, whatever the world records), and
   every value is delivered in the same world as in the source.  The same holds on the
   MACHINE model of seq.go (C02_machine_lockstep_partial, through Link.v / LinkMachine.v):
   the consumer's loop over MoveNext / Current stops in the world in which the source
   coroutine stops.  Starting the generator runs no user code on the machine
   (C02_start_runs_nothing: Start only allocates), so nothing of the body runs before
   the first MoveNext.  Missing: the optimiser (C07); range / YieldFrom as syntax. *)
From Coq Require Import List Arith.
From Verif Require Import Base Syntax Sem Rewrite Side C01Main SeqMachine Protocol Link LinkMachine.
Import ListNotations.

(* every consumer, every stop point: same world at the stop *)
Theorem C02_same_world_at_every_stop_partial :
  forall (U V P : Type)
         (aden : nat -> U -> outcome U P unit) (cden : nat -> U -> outcome U P bool)
         (tden : nat -> U -> outcome U P nat) (kval : nat -> nat) (yden : nat -> U -> outcome U P V)
         (env : nat -> V -> U -> U * bool)
         (body : list stmt),
    c01_hyps body = true ->
    exists out, rewrite body = OK out /\
      forall n u w,
        run_source aden cden tden kval yden env n body u = Some (FStopped w) ->
        exists m, run_target aden cden tden kval yden env true m out u = Some (FStopped w).
Proof.
  intros U V P aden cden tden kval yden env body H.
  destruct (compiler_correct_hyps U V P aden cden tden kval yden env body H) as [out [Hr Hc]].
  exists out. split; [exact Hr|]. intros n u w Hs. apply (Hc n u (FStopped w) Hs). discriminate.
Qed.
Print Assumptions C02_same_world_at_every_stop_partial.

(* the consumer that takes exactly j values and stops, recording every world it is shown *)
Definition stop_after {U V : Type} (j : nat) (observe : nat -> V -> U -> U) : nat -> V -> U -> U * bool :=
  fun k v u => (observe k v u, Nat.ltb (S k) j).

Theorem C02_truncation_partial :
  forall (U V P : Type)
         (aden : nat -> U -> outcome U P unit) (cden : nat -> U -> outcome U P bool)
         (tden : nat -> U -> outcome U P nat) (kval : nat -> nat) (yden : nat -> U -> outcome U P V)
         (observe : nat -> V -> U -> U) (j : nat)
         (body : list stmt),
    c01_hyps body = true ->
    exists out, rewrite body = OK out /\
      forall n u f,
        run_source aden cden tden kval yden (stop_after j observe) n body u = Some f -> f <> FStuck ->
        exists m, run_target aden cden tden kval yden (stop_after j observe) true m out u = Some f.
Proof.
  intros U V P aden cden tden kval yden observe j body H.
  exact (compiler_correct_hyps U V P aden cden tden kval yden (stop_after j observe) body H).
Qed.
Print Assumptions C02_truncation_partial.

(* non-vacuity: a body with effects between yields, consumer stopping after 2 values:
   the source semantics stops with the effects before the second yield done and those after it not *)
Example C02_stop_point_example :
  let body := [SAtom 1; SYield 10; SAtom 2; SYield 20; SAtom 3; SYield 30; SAtom 4] in
  let aden := fun (a : nat) (u : list nat) => Ok (a :: u) tt in
  let cden := fun (c : nat) (u : list nat) => Ok u true in
  let tden := fun (t : nat) (u : list nat) => Ok u 0 in
  let yden := fun (v : nat) (u : list nat) => Ok (v :: u) v in
  let env := stop_after 2 (fun k v (u : list nat) => (100 + k) :: u) in
  c01_hyps body = true /\
  run_source (P := nat) aden cden tden (fun k => k) yden env 20 body [] = Some (FStopped ([101; 20; 2; 100; 10; 1], 2)) /\
  (forall out, rewrite body = OK out ->
     run_target (P := nat) aden cden tden (fun k => k) yden env true 20 out [] = Some (FStopped ([101; 20; 2; 100; 10; 1], 2))).
Proof.
  cbv zeta. split; [vm_compute; reflexivity|]. split; [vm_compute; reflexivity|].
  intros out H. vm_compute in H. injection H as <-. vm_compute. reflexivity.
Qed.

(* ---- on the machine model of seq/seq.go ---- *)

(* Start(s) allocates the generator object and its co cell; no thunk, condition or post statement is
   called and the world is untouched, for every term s (in particular Delay(func() Seq { body })) *)
Theorem C02_start_runs_nothing :
  forall (U V P : Type) (zeroV : V) (s : seqv U V P) (m : st U V P),
    world (fst (start zeroV s m)) = world m.
Proof. intros U V P zeroV s m. exact (proj1 (proj2 (start_grel zeroV s m))). Qed.
Print Assumptions C02_start_runs_nothing.

(* lock step at every stop point, on the machine: if the source coroutine, driven by a consumer
   that stops after some value, stops in world w (w also counts the values delivered), then the
   consumer's MoveNext / Current loop over the generator object of the machine stops in w *)
Theorem C02_machine_lockstep_partial :
  forall (U V P : Type)
         (aden : nat -> U -> outcome U P unit) (cden : nat -> U -> outcome U P bool)
         (tden : nat -> U -> outcome U P nat) (kval : nat -> nat) (yden : nat -> U -> outcome U P V)
         (env : nat -> V -> U -> U * bool) (zeroV : V)
         (body : list stmt),
    c01_hyps body = true ->
    exists out, rewrite body = OK out /\
      (forallb (lk KS) out = true ->
       forall n u w,
         run_source aden cden tden kval yden env n body u = Some (FStopped w) ->
         exists M, forall N F, M <= N -> M <= F ->
           machine_target U V P aden cden tden kval yden env zeroV KS out u N F = Some (FStopped w)).
Proof.
  intros U V P aden cden tden kval yden env zeroV body Hh.
  destruct (compiler_correct_hyps U V P aden cden tden kval yden env body Hh) as [out [Ho Hsim]].
  exists out. split; [exact Ho|]. intros Hlk n u w Hs.
  assert (Hns : FStopped w <> (@FStuck U P)) by discriminate.
  destruct (Hsim n u (FStopped w) Hs Hns) as [m Hm].
  exact (machine_link U V P aden cden tden kval yden env zeroV KS out m u (FStopped w) Hlk Hm Hns).
Qed.
Print Assumptions C02_machine_lockstep_partial.
