(* Props_C05.v — YieldFrom splices the delegate's remaining elements, lazily and in order.

   Full statement (C05): the compiled form of `YieldFrom(x); rest` evaluates x once when the
   statement is reached, then delivers exactly the remaining elements of the delegate, in order,
   advancing the delegate exactly once per consumer advance while delegating (plus the advance
   that reports exhaustion), runs nothing of the delegate after the consumer stops, and then
   behaves as `rest`; for every delegate (any iterator: a compiled generator at any recursion
   depth, one advanced by hand before or in between, one that panics), every consumer, every
   position.

   What is proved.  The delegate is an arbitrary function [mn : U -> outcome U P bool] on the
   world (what `ɪʇ.MoveNext()` does) with the value [curv u] that `ɪʇ.Current()` returns.
   [splice] (Delegate.v) is the specification, written from the sentence above: it mentions the
   delegate and the consumer only.
   - C05_yieldfrom_is_splice: under the source semantics the statement the compiler's first pass
     puts in place of YieldFrom(x) does exactly what the specification says — both directions, any
     position (the statement is executed in an arbitrary world / delivery count), any fuel.
   - C05_compiled_yieldfrom_partial: the COMPILED generator `YieldFrom(x); rest` does what the
     specification followed by `rest` says, for every body satisfying the side conditions of the
     compiler theorem (PARTIAL in exactly the way C01 is: fragment of `rest`, depth bounds, model
     of the rewriter rather than the Go code).
   The lowering itself (YieldFrom -> block with a pull loop) is part of the rewriter; it is tied to
   the code by the structural correspondence, which compares the real compiler's output on
   programs with YieldFrom with the rewriter model applied to the lowered program on every run,
   and by the differential check with delegates that log their own steps. *)
From Coq Require Import List.
From Verif Require Import Base Syntax Sem Rewrite Side Delegate DelegateMain Link LinkMachine.
Import ListNotations.

Theorem C05_yieldfrom_is_splice :
  forall (U V P : Type)
         (aden : nat -> U -> outcome U P unit) (cden : nat -> U -> outcome U P bool)
         (tden : nat -> U -> outcome U P nat) (kval : nat -> nat) (yden : nat -> U -> outcome U P V)
         (env : nat -> V -> U -> U * bool)
         (a_init a_cur c_mn y_v : nat)
         (start : U -> outcome U P unit) (mn : U -> outcome U P bool) (curv : U -> V) (setv : U -> U),
    (forall u, aden a_init u = start u) ->
    (forall u, cden c_mn u = mn u) ->
    (forall u, aden a_cur u = Ok (setv u) tt) ->
    (forall u, yden y_v (setv u) = Ok (setv u) (curv u)) ->
    forall (w : W U) (r : compl U V P),
      (forall n, yf_spec env start mn curv setv n w = Some r ->
                 exists m, exec aden cden tden kval yden env m (yf_stmt a_init a_cur c_mn y_v) w = Some r) /\
      (forall m, exec aden cden tden kval yden env m (yf_stmt a_init a_cur c_mn y_v) w = Some r ->
                 yf_spec env start mn curv setv m w = Some r).
Proof.
  intros U V P aden cden tden kval yden env a_init a_cur c_mn y_v start mn curv setv H1 H2 H3 H4 w r. split.
  - intros n. exact (@yieldfrom_meets_spec U V P aden cden tden kval yden env a_init a_cur c_mn y_v start mn curv setv H1 H2 H3 H4 n w r).
  - intros m. exact (@yieldfrom_only_spec U V P aden cden tden kval yden env a_init a_cur c_mn y_v start mn curv setv H1 H2 H3 H4 m w r).
Qed.
Print Assumptions C05_yieldfrom_is_splice.

Theorem C05_compiled_yieldfrom_partial :
  forall (U V P : Type)
         (aden : nat -> U -> outcome U P unit) (cden : nat -> U -> outcome U P bool)
         (tden : nat -> U -> outcome U P nat) (kval : nat -> nat) (yden : nat -> U -> outcome U P V)
         (env : nat -> V -> U -> U * bool)
         (a_init a_cur c_mn y_v : nat)
         (start : U -> outcome U P unit) (mn : U -> outcome U P bool) (curv : U -> V) (setv : U -> U),
    (forall u, aden a_init u = start u) ->
    (forall u, cden c_mn u = mn u) ->
    (forall u, aden a_cur u = Ok (setv u) tt) ->
    (forall u, yden y_v (setv u) = Ok (setv u) (curv u)) ->
    forall rest : list stmt,
      c01_hyps (yf_stmt a_init a_cur c_mn y_v :: rest) = true ->
      exists out, rewrite (yf_stmt a_init a_cur c_mn y_v :: rest) = OK out /\
        forall n u c,
          yf_then U V P aden cden tden kval yden env start mn curv setv rest n u = Some c -> final_of c <> FStuck ->
          exists m, run_target aden cden tden kval yden env true m out u = Some (final_of c).
Proof. exact compiled_yieldfrom. Qed.
Print Assumptions C05_compiled_yieldfrom_partial.

(* the specification says what the property says: two elements then exhaustion, consumer always
   continues — the values are delivered in order, the delegate is advanced three times *)
Example C05_splice_example :
  let mn := fun u : list nat * list nat => match fst u with [] => Ok u false | x :: r => Ok (r, snd u ++ [1000]) true end in
  splice (U:=list nat * list nat) (V:=nat) (P:=unit)
         (fun k v u => ((fst u, snd u ++ [v]), true))                       (* consumer logs each value *)
         mn
         (fun u => match snd u with _ => 7 + length (fst u) end)           (* Current *)
         (fun u => u) 10 (([5; 6], []), 0)
  = Some (CDone GNormal (([], [1000; 8; 1000; 7]), 2)).
Proof. vm_compute. reflexivity. Qed.

(* non-vacuity of the compiled theorem: `YieldFrom(x); Yield; atom` and YieldFrom inside a loop body *)
Example C05_hyps_hold_1 : c01_hyps (yf_stmt 1 2 3 4 :: [SYield 5; SAtom 6]) = true.
Proof. vm_compute. reflexivity. Qed.
Example C05_hyps_hold_2 :
  c01_hyps (yf_stmt 1 2 3 4 :: [SFor None (Some 7) None [yf_stmt 8 9 10 11; SIf None 12 [SBreak] ENone]; SYield 5]) = true.
Proof. vm_compute. reflexivity. Qed.

(* ... and on the machine model of seq/seq.go: the consumer's MoveNext / Current loop over the generator
   object of SeqMachine.v started on the compiled `YieldFrom(x); rest` does what the specification says
   (side condition of Link.v: no native Yield left in the model output, computable) *)
Theorem C05_machine_yieldfrom_partial :
  forall (U V P : Type)
         (aden : nat -> U -> outcome U P unit) (cden : nat -> U -> outcome U P bool)
         (tden : nat -> U -> outcome U P nat) (kval : nat -> nat) (yden : nat -> U -> outcome U P V)
         (env : nat -> V -> U -> U * bool) (zeroV : V)
         (a_init a_cur c_mn y_v : nat)
         (start : U -> outcome U P unit) (mn : U -> outcome U P bool) (curv : U -> V) (setv : U -> U),
    (forall u, aden a_init u = start u) ->
    (forall u, cden c_mn u = mn u) ->
    (forall u, aden a_cur u = Ok (setv u) tt) ->
    (forall u, yden y_v (setv u) = Ok (setv u) (curv u)) ->
    forall rest : list stmt,
      c01_hyps (yf_stmt a_init a_cur c_mn y_v :: rest) = true ->
      exists out, rewrite (yf_stmt a_init a_cur c_mn y_v :: rest) = OK out /\
        (forallb (lk KS) out = true ->
         forall n u c,
           yf_then U V P aden cden tden kval yden env start mn curv setv rest n u = Some c -> final_of c <> FStuck ->
           exists M, forall N F, M <= N -> M <= F ->
             machine_target U V P aden cden tden kval yden env zeroV KS out u N F = Some (final_of c)).
Proof.
  intros U V P aden cden tden kval yden env zeroV a_init a_cur c_mn y_v start mn curv setv H1 H2 H3 H4 rest Hh.
  destruct (compiled_yieldfrom U V P aden cden tden kval yden env a_init a_cur c_mn y_v start mn curv setv H1 H2 H3 H4 rest Hh) as [out [Ho Hc]].
  exists out. split; [exact Ho|]. intros Hlk n u c Hy Hns.
  destruct (Hc n u c Hy Hns) as [m Hm].
  exact (machine_link U V P aden cden tden kval yden env zeroV KS out m u (final_of c) Hlk Hm Hns).
Qed.
Print Assumptions C05_machine_yieldfrom_partial.
