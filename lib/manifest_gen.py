"""Regenerates MANIFEST.json from the table below (run: python3 lib/manifest_gen.py)."""
import json
import os

VERIF = os.path.dirname(os.path.dirname(os.path.abspath(__file__)))

RT_NOTE = ("Trusted: Coq kernel + vm_compute; SeqMachine.v as a faithful model of seq/seq.go (checked by correspondence on every run, bounded by the generators); "
           "trampoline unwinding modelled by an epoch test; Go harness and renderers. No axioms (Print Assumptions: closed under the global context).")

CHECKS = {
    "C08": dict(
        technique="Coq proof: exact-fuel refinement machine(seq.go) = reference interpreter, lifted to all operation histories; correspondence check model vs real seq on generated and exhaustively enumerated terms",
        text="Theorem C08_refinement (Props_C08.v): for every term, world and history of MoveNext/Current/Send/Result interleaved with arbitrary consumer actions, the definitional interpreter of seq.go returns the reference interpreter's responses and world; laws as corollaries. The model is tied to the code on every run by evaluating machine and reference models (vm_compute) on the cases the real package just ran, including the depth of every user-code call.",
        note=RT_NOTE, design="§6 C08"),
    "C09": dict(
        technique="Coq proof: generator methods refine a 4-field specification automaton for every operation history; the property's sentences are lemmas about the automaton; exhaustive short histories run against the real package",
        text="C09_machine_is_automaton + C09_* lemmas (Props_C09.v): Current/Result pure, zero before first advance and after exhaustion, exhaustion permanent without running generator code, Send semantics incl. auto-start, Result = return value. Tied to the code by exhaustive histories (length<=4 quick, <=6 thorough) over a generator family plus random terms, compared with machine and automaton models.",
        note=RT_NOTE, design="§6 C09"),
    "C10": dict(
        technique="Coq proof per iterator (integer, string, slice, channel; map partial) against a range specification, UTF-8 decoder proved against the RFC 3629 encoder; exhaustive byte strings + native-range differential run on the real constructors",
        text="C10_integer, C10_string (all byte strings), C10_decoder_roundtrip (all scalar values), C10_slice (all lengths, all bodies), C10_chan, C10_map_partial (Props_C10.v). Every run compares seq.New*Iter with Go's native range on ~170k inputs (exhaustive strings <=4 over a 20-byte alphabet, NaN/nil map keys, mutation scripts) and evaluates the Coq models on the same inputs.",
        note="Trusted: Coq kernel + vm_compute; Iters.v as model of seq/iter.go and Utf8.v as model of utf8.DecodeRuneInString (both compared with the implementation on every run); Go map iteration/reflect.MapIter and channels are the Go runtime's (map theorem covers only the type assertions). No axioms.",
        design="§6 C10"),
    "C14": dict(
        technique="Coq proof: k generators in one heap under any schedule = k independent reference generators sharing only the user world (frame lemma: an operation touches only its own cells); exhaustive schedules, solo-vs-interleaved comparison and race detector on the real runtime",
        text="C14_interleaving (Props_C14.v) for every number of generators and every schedule of operations. Partial by nature: goroutines/memory model are not modelled; parallel consumption is checked with the Go race detector on sampled cases.",
        note=RT_NOTE + " Goroutine interleavings are outside the sequential model.", design="§6 C14"),
    "C17": dict(
        technique="Coq proof (partial): loop-back re-enters the loop at the trampoline's depth; loops whose body completes synchronously log one constant depth for any iteration count; exact depth-log correspondence model vs runtime.Callers; direct measurement up to 10^6 iterations",
        text="C17_bounded_partial + C17_loopback_same_depth (Props_C17.v). The machine model carries the Go stack depth of every call; its depth log equals runtime.Callers on every generated case (exact comparison), and the check measures the real stack for 13 loop forms at 10..10^6 iterations.",
        note=RT_NOTE + " The general bound for arbitrary loop bodies is not proved (stated in Props_C17.v).", design="§6 C17"),
    "C18": dict(
        technique="Coq proof: panic outcome is part of the refinement (same call, same value, same prior responses, generator state unchanged, other generators untouched); panic-injection correspondence on the real runtime",
        text="C18_panic_locality, C18_panic_leaves_state, C18_not_from_another_iterator (Props_C18.v), projections of the refinement theorems onto the Panic outcome; runtime layer. Cases inject a transient panic into a random thunk/cond/post and keep driving the iterator afterwards.",
        note=RT_NOTE, design="§6 C18"),
}

TV_NOTE = ("Trusted: the program generator and its two renderings (go-co source vs reference on refco differ only in how Yield/YieldFrom/return are spelled), "
           "the goroutine hand-off reference runtime refco, the event runtime tr, the VerifCompile hook (same rewriter/optimizer objects as Compile). "
           "The Coq compiler model is under construction (DESIGN.md status); until its theorem covers this property the level is translation validation.")


def tv(technique, text, design):
    return dict(category="translation_validation", technique=technique, text=text, note=TV_NOTE, design=design)


CHECKS.update({
    "C01": tv("differential translation validation: real rewriter + real seq vs reference coroutine rendering (native Go on refco) of grammar-generated generator bodies; Coq proof of the runtime layer (C08) underneath",
              "Every generated program is rendered twice from one abstract syntax tree, compiled by the real rewriter, run under steering tapes and compared event by event with the reference rendering; failures are shrunk. Known findings F1/F2 are reported as such.", "§6 C01"),
    "C02": tv("differential translation validation on full event logs (every user-code evaluation interleaved with consumer marks, incl. generator call and advances after exhaustion)",
              "Lock-step and demand-driven execution are observed as equality of the interleaved event log of compiled vs reference runs; prefix closure covers every truncation point.", "§6 C02"),
    "C03": tv("differential translation validation with locals, shadowing and closures observed through logged values; optimiser-sensitive corpus",
              "Programs declare/shadow/update/capture integer locals at random positions relative to yields; values are observed via events and yields.", "§6 C03"),
    "C04": tv("differential translation validation of range loops (7 kinds x 6 forms x body shapes) in a go 1.22 user module; iterator layer proved in Coq (C10)",
              "Range statements over string/slice/array/map/channel/integer/[]any with all variable forms, mutation of the ranged collection, break/continue, nesting in closures; the range expression logs its evaluation.", "§6 C04"),
    "C05": tv("differential translation validation of YieldFrom over library generators (empty, straight-line, loop, self-recursive) at random positions",
              "Delegates log their own events, so order, number and timing of delegate steps are part of the compared log.", "§6 C05"),
    "C06": tv("differential translation validation of consumer-side range over iterators (:= and = forms, break/continue/return, nesting) against the pull-loop reference",
              "for v (:)= range g inside generator bodies over library generators; reference is the explicit MoveNext/Current loop.", "§6 C06"),
    "C07": tv("two-stage differential: optimised output vs unoptimised intermediate stage of the same VerifCompile run vs source, on random programs and an optimiser-sensitive corpus",
              "Both stages are built and driven with the same tapes; event logs must be identical; the optimised stage must build (import clean-up).", "§6 C07"),
    "C11": tv("acceptance check: generated supported programs must compile without compiler panic and the output must build; behaviour compared too",
              "Programs of the whole supported grammar plus a regression corpus of shapes that used to crash; untagged rejections are violations.", "§6 C11"),
    "C12": tv("construct injection: one unsupported construct at a random statement position (and negative controls inside nested plain closures); verdict rejected-or-equal",
              "13 unsupported constructs x random positions; 5 negative controls that must be accepted and preserved.", "§6 C12"),
})
CHECKS["C18"]["technique"] += "; compiled generators with panicking atoms vs reference rendering; C18_compiled_panic_locality_partial: end to end (rewriter model + machine model), a panic of the source coroutine after k deliveries in user world u is the panic of the consumer loop over the machine's generator object after k deliveries in world u (fragment and side conditions of C01)"

C_NOTE = ("Trusted: the hand-written Coq models of the rewriter (Rewrite.v) and of the source/target semantics (Sem.v), tied to /repo on every run by "
          "(a) the structural correspondence (abstract tree of the real rewriter's unoptimised output = Rewrite.rewrite, on every generated program) and "
          "(b) the behavioural correspondence (Sem.v source semantics = run of the reference rendering on refco; Sem.v target semantics of the model's output = "
          "run of the really compiled program on the real seq runtime); the program generator and its two renderings, refco, the event runtime tr, the VerifCompile hook. "
          "The big-step reading of the seq combinators in Sem.v is proved to be an execution of the reference interpreter of the runtime layer (Link.v) and hence of the machine model "
          "of seq.go (LinkMachine.v with Protocol.v / Props_C08.v): C01_end_to_end_machine_partial; it is also validated against the real runtime by (b).")
CHECKS["C01"] = dict(
    category="proof",
    technique="Coq proof (partial): forward simulation of the rewriter model (pass0, pass2, pass3) from the source coroutine semantics to the strict target semantics, "
              "for atoms / Yield / blocks / if chains / switch (tag and tag-less) / for loops / break / continue / return, every user-code denotation and every consumer; "
              "structural + behavioural correspondence model vs real compiler on every run; differential translation validation of compiled vs reference rendering",
    text="C01_compiled_equals_source_partial (Props_C01.v): for every body satisfying the computable side conditions c01_hyps (inside the proved fragment, nesting "
         "depth below the model's termination-checker fuel, model output legal Go in the sense of Strict.v) the model's output, run as Start(Delay(...)), has the outcome of the "
         "source coroutine (values, worlds at delivery, stop point, final world, panic). C01_compiled_equals_source_nofall_partial: for bodies without fallthrough the side conditions concern the INPUT only (fragment, acceptance by the model, depth of the program and of the intermediate code) and legality of the output is a conclusion. "
         "C01_end_to_end_machine_partial / C01_end_to_end_machine_nofall_partial: when moreover the model output contains no native Yield (lk, computable), "
         "the same outcome is produced by the consumer loop MoveNext/Current written with the generator object of the MACHINE model of seq.go (SeqMachine.v: co cells, continuations, For trampoline), for all large enough fuels. "
         "The side conditions of both theorems are evaluated on every generated program (evidence: theorem_side_conditions). Outside the fragment (yielding init/post, break out of a yielding case = finding F2, range, YieldFrom) the check is differential. Known findings F1/F2 are reported as such.",
    note=C_NOTE, design="§6 C01, §11")
CHECKS["C03"] = dict(
    category="proof",
    technique="Coq proof (partial): static scoping is preserved by the rewriter model — for every body satisfying the syntactic side condition soks, every atom, condition, switch tag and "
              "yielded expression of rewrite's output (pass0, pass2 with its Bind / Combine / For re-nesting, pass3) lies in the scope of exactly the declaring statements, in the same order, "
              "as in the source (Scope.v: 5-way induction over the CPS rewriter with a specification of the continuation; ScopeP3.v: pass0 / pass3); the scope lists are evaluated inside Coq on the abstract tree "
              "of the REAL compiler's output and on the source of every generated program, with the side condition and the same-block observation for partial redeclaration; "
              "differential translation validation with locals, shadowing, closures and partial redeclaration observed through logged values; optimiser-sensitive corpus",
    text="C03_static_scoping_partial, C03_static_scoping_any_outer_scope_partial, C03_same_resolution_partial, C03_pass2_scoping_partial, C03_pass3_keeps_scoping, C03_hoisted_initialiser_keeps_scoping (Props_C03.v), with the witnesses C03_forpost_refuted (finding F3) and C03_redeclaration_refuted (finding F24: 'x, n := ...' after a yield "
         "declares a new x inside the generated function literal; found while stating the theorem, reproduced on the real compiler). The hoisting of ':=' initialisers of for / switch statements into a fresh block is a lowering applied by the harness (as pass0 does), shown to keep the scope lists and validated by the structural correspondence. "
         "Not covered by a theorem: yielding post statements of loops whose body declares names in its own block (F3), the range lowering, capture by reference itself (Go's closure semantics) and per-iteration loop variables of go >= 1.22 (F18): "
         "decided by the differential check, where programs declare / shadow / update / capture / partially redeclare integer locals at random positions relative to yields and values are observed via events and yields.",
    note=C_NOTE, design="§6 C03, §11")
CHECKS["C04"] = dict(
    category="proof",
    technique="Coq proof (partial): the statement list the rewriter emits for a range statement (iterator init; for it.MoveNext() { bind; body }) equals, for ANY iterator state machine and any user body "
              "(frame lemma: user code neither reads nor writes the generated iterator variable), the specification of Go's range statement over the elements that iterator delivers (RangeLoop.v); "
              "the iterators of seq/iter.go deliver exactly the elements of range n / range string / range slice (Iters.v, C10); composed with the compiler theorem for the compiled generator; "
              "differential translation validation of range loops (7 kinds x 6 forms x body shapes) in a go 1.22 user module",
    text="C04_range_statement, C04_integer, C04_string, C04_slice, C04_compiled_range_partial (Props_C04.v). Not covered by a theorem: maps and channels beyond C10, the array-copy rule (finding F4), "
         "the form without variables; that the real rewriter emits this statement list is checked by the structural correspondence on range programs and by the differential check "
         "(range expression logs its evaluation; mutation of the ranged collection; break/continue; nesting in closures).",
    note=C_NOTE, design="§6 C04, §11")
CHECKS["C05"] = dict(
    category="proof",
    technique="Coq proof (partial): the statement pass1 puts in place of YieldFrom(x) does, under the source semantics and for ANY delegate (an arbitrary function on the world), exactly what the "
              "specification splice says: x evaluated once, one MoveNext of the delegate per consumer advance, its Current delivered, nothing after the consumer stops, rest afterwards (Delegate.v, both directions, any position); "
              "composed with the compiler theorem for the compiled generator; differential translation validation of YieldFrom over library generators (empty, straight-line, loop, self-recursive) at random positions",
    text="C05_yieldfrom_is_splice, C05_compiled_yieldfrom_partial (Props_C05.v). The lowering itself is tied to the code by the structural correspondence (programs with YieldFrom are lowered in the source abstraction, "
         "lib/lowering.py) and by the differential check, where delegates log their own events so order, number and timing of delegate steps are part of the compared log.",
    note=C_NOTE, design="§6 C05, §11")
CHECKS["C06"] = dict(
    category="proof",
    technique="Coq proof (partial): the loop the rewriter puts in place of `for w (:)= range x` over an iterator does exactly what the specification consume says for ANY iterator and any body "
              "(one MoveNext per iteration started plus the one reporting exhaustion, bind then body per element, no pull after break/return) (Delegate.v, both directions); composed with the compiler theorem inside generators; "
              "differential translation validation of consumer-side range over iterators (:= and = forms, break/continue/return, nesting) against the pull-loop reference",
    text="C06_range_is_consume, C06_compiled_range_partial (Props_C06.v). The interop sentence follows from the iterator automaton of C09; the type replacement clause is not modelled (go/types) and is checked by building generated packages; "
         "for v (:)= range g inside generator bodies over library generators, reference is the explicit MoveNext/Current loop.",
    note=C_NOTE, design="§6 C06, §11")
CHECKS["C15"] = dict(
    category="proof",
    technique="Coq proof (partial, one clause): the helper identifiers produced for one file by the gensym model (Gensym.v: counter + decimal rendering as strconv.Itoa) are pairwise different and differ from the bare prefix; "
              "the numbered identifiers of every generated file are compared with the model's names (evaluated inside Coq) on every run; "
              "byte comparison of real Compile outputs across repeated runs, placements among unrelated files/packages, renamed siblings, stale outputs on disk; hook output == Compile output",
    text="C15_helper_identifiers_unique_partial, C15_helper_identifiers_are_numbered, C15_numbered_differs_from_bare_prefix (Props_C15.v). Run-to-run determinism is sampled (3 runs), placement independence is checked on generated "
         "packages with sequential and nested ranges; for the modelled part of the compiler (rewriter and optimiser models are functions of the body) independence of placement is what the structural correspondence shows. "
         "Map iteration order, the loader's file order and the file system are outside any model.",
    note="Trusted: Coq kernel; Gensym.v as a model of rewriter/range.go gensym (compared with the identifiers of the generated files on every run); the program generator, the VerifCompile hook. No axioms.", design="§6 C15, §11")
CHECKS["C16"] = dict(
    category="proof",
    technique="Coq proof (partial, file-name mapping): NameMap.v models GoGen's suffix test, suffix mapping and the two strings.ReplaceAll calls that move a path into <dir>_tmp and back (ReplaceAll modelled for every string); "
              "theorems: x_co.go -> x.go and x_co_test.go -> x_test.go in the same directory for every directory and every name, provided the directory string occurs in the path only as its prefix; "
              "the model's derived names are compared (inside Coq) with the files the real cmd/cogen created on every generated layout; "
              "directory snapshots around the real cmd/cogen on generated package layouts, then go build / go test / go vet -tags co, then a second run",
    text="C16_suffix_mapping, C16_src_file_mapping, C16_test_file_mapping; C16_old_mapping_refuted is the witness of the repaired defect 9a377ec (Props_C16.v). File contents, header, build/test with and without the tag, "
         "idempotence of the second run and stale <dir>_tmp are decided by the check only: layouts with names containing an earlier _co, a directory name containing _co.go, test files, plain siblings, API-less co files, blank imports, sub-packages, stale <dir>_tmp.",
    note="Trusted: Coq kernel; NameMap.v as a model of rewriter/compile.go GoGen's name mapping (compared with the created files on every run); the Go toolchain decides whether the package builds and its tests pass. No axioms.", design="§6 C16, §11")
CHECKS["C13"] = dict(
    category="proof",
    technique="Coq proof (partial, the one pass that touches non-generator code): EtaModel.v models the optimiser's eta-reduction decision (arguments = parameters in order, identical types, stableCallee) over the classes of callee "
              "expressions the code distinguishes and both readings of a closure (callee evaluated at every call / once where the literal stood) in a world of function variables, receivers and an effect counter; theorem: wherever the decision is "
              "'reduce' the two readings agree for every world, intervening code and argument; the decision of the real optimiser on one closure of every class is compared with the model's decision (evaluated inside Coq) on every run; "
              "three-way differential on non-generator code: source package (native, stub API) vs unoptimised stage vs generated package, under go 1.21 and go 1.22 module semantics",
    text="C13_eta_reduction_sound_partial, C13_decision_keeps_everything_else, C13_side_condition_needed_var/_method/_call_result (Props_C13.v). Import clean-up, comment stripping, declarations other than closures and go 1.22 loop variables "
         "are decided by the differential only: bystander functions with eta-shaped closures over every callee form, package-level declarations, closures inside generator bodies.",
    note="Trusted: Coq kernel; EtaModel.v as a model of etaReduction/stableCallee in rewriter/optimize.go (its decision compared with the real optimiser on every run; the classification of a Go expression into a callee class is go/types' and the corpus author's); "
         "the program generator and its renderings, refco, tr, the VerifCompile hook. No axioms.", design="§6 C13, §11")
CHECKS["C11"] = dict(
    category="proof",
    technique="Coq proof (partial): on the supported fragment no assertion of the rewriter model can fail, for any fuel (Accept.v); in the final output every function literal at any depth "
              "ends in a statement the transcribed termination checker accepts (Legal.v through pass2, P3Term.v through pass3 and rmRedundantReturn: no 'missing return') and no break/continue is left outside a native loop/switch (Placement.v); "
              "the remaining legality conditions (legalb) evaluated on every generated program; acceptance check on the real compiler: "
              "generated supported programs must compile without compiler panic under six import styles and the output must build; behaviour compared too",
    text="C11_no_assertion_failure_partial, C11_no_assertion_any_fuel_partial, C11_branch_placement_partial (after pass3 no break/continue is left outside a native loop/switch), "
         "C11_function_literals_terminate_partial (after pass2), C11_output_literals_terminate_partial (final output: every function literal terminating) and C11_output_is_legal_partial (for bodies without fallthrough the whole legality "
         "condition legalb of the output is a theorem: no stray break/continue/return/fallthrough, terminating literals, simple init/post statements, depth within the checker's fuel) (Props_C11.v): push on a frozen/unchecked block, pop of an empty block, pushReturn with a non-return kind, "
         "returnNormalRequired on a wrong block kind, yield-in-init and post-not-return are unreachable on the fragment. The rest of 'the output builds' (types, names, imports, unused variables) is checked, not proved: go build of the real "
         "output of every generated program (whole supported grammar plus a regression corpus of shapes that used to crash); untagged rejections are violations.",
    note=C_NOTE, design="§6 C11, §11")
CHECKS["C12"] = dict(
    category="proof",
    technique="Coq proof (partial): a Yield in an if-init at any position that can execute makes the rewriter model reject the whole body, for any fuel (Reject.v); "
              "construct injection on the real compiler: one unsupported construct at a random statement position (and negative controls inside nested plain closures); verdict rejected-or-equal",
    text="C12_yield_in_if_init_rejected_partial, C12_rejected_any_fuel_partial (Props_C12.v): the error cannot be lost in a sub-block that is re-emitted as trivial nor behind the "
         "continuation of an earlier statement. The other unsupported constructs are not expressible in the model: 13 constructs x random positions and 5 negative controls are injected "
         "into generated programs and the real compiler's verdict and the behaviour of what it produces are compared.",
    note=C_NOTE, design="§6 C12, §11")
CHECKS["C02"] = dict(
    category="proof",
    technique="Coq proof (partial): corollaries of the compiler theorem for every consumer that stops after j values (same world at every stop point); "
              "differential translation validation on full event logs (every user-code evaluation interleaved with consumer marks, incl. generator call and advances after exhaustion)",
    text="C02_same_world_at_every_stop_partial, C02_truncation_partial (Props_C02.v): on the fragment of C01, for every stop point the compiled generator has run exactly the user "
         "code the source coroutine has run; C02_machine_lockstep_partial: the same on the machine model of seq.go (consumer loop over MoveNext/Current stops in the world in which the source coroutine stops); "
         "C02_start_runs_nothing: Start only allocates, no user code runs before the first advance. The laziness of the runtime itself is also covered by the runtime theorems (C08/C09) and by the "
         "differential check on interleaved event logs (prefix closure covers every truncation point).",
    note=C_NOTE, design="§6 C02, §11")
CHECKS["C07"] = dict(
    category="proof",
    technique="Coq proof (partial): the optimiser model (Opt.v: bottom-up Delay elision and eta reduction) preserves the outcome of Start(e) for every generated expression "
              "satisfying the computable condition opt_ok, both readings of callbacks, every consumer; structural correspondence optimiser model vs the real optimised output on every run; "
              "two-stage differential (optimised vs unoptimised stage vs source) on random programs and an optimiser-sensitive corpus",
    text="C07_optimiser_preserves_partial, C07_source_to_optimised_partial, C07_end_to_end_machine_partial (source coroutine = Start(<optimised expression>) driven by the consumer's MoveNext/Current loop over the "
         "generator object of the machine model of seq.go; side conditions evaluated on every generated program: within_end_to_end_machine_theorem) (Props_C07.v). Hypotheses: a literal evaluates to its value without effect; a loop condition with a stable "
         "callee behaves like the function value called later (the stableCallee decision of the real optimiser is not modelled). Eta reduction of ordinary user closures and import "
         "clean-up are covered by the differential check: both stages are built and driven with the same tapes, logs must be identical, the optimised stage must build.",
    note=C_NOTE + " For C07 additionally: the optimiser model Opt.v, tied to the real optimiser by lib/optstruct.py.", design="§6 C07, §11")

NOT_YET = {}


def main():
    props = [json.loads(l) for l in open(os.path.join(VERIF, "properties.jsonl"))]
    checks = []
    na = []
    for p in props:
        pid = p["id"]
        if pid in CHECKS:
            c = CHECKS[pid]
            checks.append({
                "property_id": pid,
                "quick_cmd": "bin/check %s --tier quick" % pid,
                "thorough_cmd": "bin/check %s --tier thorough" % pid,
                "evidence_file": "/verif/evidence/%s.json" % pid,
                "replay_cmd_template": "bin/check %s --replay {path}" % pid,
                "engine": "coq+correspondence",
                "level_claimed": {"category": c.get("category", "proof"), "text": c["text"], "design_ref": c["design"]},
                "level_note": c["note"],
                "technique": c["technique"],
            })
        else:
            na.append({"property_id": pid, "reason": NOT_YET.get(pid, "check not built yet in this round (work in progress, see DESIGN.md status section)")})
    m = {
        "version": 1,
        "setup_cmd": "bin/setup",
        "hooks": {
            "guard": "verif",
            "enable": "go build -tags verif (harness module with replace github.com/goghcrow/go-co => /repo)",
            "baseline_off_cmd": "cd /repo && GOFLAGS=-mod=mod go test -vet=off -count=1 $(go list ./... | grep -v -e rewriter/test/src -e example/microthread -e rewriter/test/out_tmp)",
            "source_commits": ["2dfbefe"],
            "add_only": True,
        },
        "engines": [{"name": "coq+correspondence", "path": "/verif/coq, /verif/harness, /verif/lib",
                     "serves_properties": sorted(CHECKS), "kind_free_text": "Coq 8.16.1 development (models + theorems) tied to /repo by a differential correspondence check that runs on every invocation"}],
        "checks": checks,
        "not_applicable": na,
        "notes": "Single entry point bin/check <id> [--tier quick|thorough] [--replay f]; VERIF_SEED seeds all generators.",
    }
    with open(os.path.join(VERIF, "MANIFEST.json"), "w") as f:
        json.dump(m, f, indent=1)


if __name__ == "__main__":
    main()
