(* Scope.v — static scoping through pass2 of the rewriter model (property C03).

   Every statement the rewriter treats as opaque (an atom) may declare names; [dcl a] says
   whether atom [a] does.  [ostmt env s] lists, for every atom, condition, tag and yielded
   expression of [s] in textual order, the declaring atoms whose scope it lies in (innermost
   first) when [env] is what is visible where [s] stands — Go's block structure: a declaration
   is visible from the statement after it to the end of the innermost enclosing block; the
   init statement of if / switch / for opens a block around the whole statement; every clause
   and every function literal body is a block.  The same function reads source bodies and
   rewriter output (a function literal [TLit b] is a block).

   Theorem [pass2_scope]: pass2 of the model keeps that list — every occurrence sees exactly
   the same declarations in the same order, so every identifier in it resolves to the same
   declaring statement — on bodies satisfying the syntactic side condition [soks]:
   no statement after break / continue / fallthrough in a list, init statements of switch /
   for that are absent, a Yield, or an atom that declares nothing (the hoisting of ':='
   initialisers into a fresh block is not part of the model), post statements that are absent
   or atoms (a yielding post statement appended to the loop body is finding F3).
   What [ostmt] cannot see is whether a declaring atom declares ALL names on its left-hand
   side: 'x, n := …' declares x only if x is not yet declared in the SAME block, and the
   rewriter does move statements into new blocks (finding F24): [sameblk] below makes that
   observable and [Props_C03] evaluates it. *)
From Coq Require Import List Arith Bool.
From Verif Require Import Syntax Rewrite.
Import ListNotations.

Inductive occ := OA (a : nat) | OU (u : nat).
Definition ob := (occ * list nat)%type.

Section S.
Variable dcl : nat -> bool.

Definition decl (s : stmt) : list nat := match s with SAtom a => if dcl a then [a] else [] | _ => [] end.
Definition declo (o : option stmt) : list nat := match o with Some s => decl s | None => [] end.

Fixpoint ostmt (env : list nat) (s : stmt) {struct s} : list ob :=
  let ol := fix go (env : list nat) (l : list stmt) {struct l} : list ob :=
    match l with [] => [] | x :: r => ostmt env x ++ go (decl x ++ env) r end in
  let oo := fun (env : list nat) (o : option stmt) => match o with None => [] | Some x => ostmt env x end in
  match s with
  | SAtom a => [(OA a, env)]
  | SYield v => [(OU v, env)]
  | SBlock b => ol env b
  | SIf i c t e =>
      let env1 := declo i ++ env in
      oo env i ++ [(OU c, env1)] ++ ol env1 t ++ oels env1 e
  | SSwitch i tag cs =>
      let env1 := declo i ++ env in
      oo env i ++ match tag with Some t => [(OU t, env1)] | None => [] end ++
      (fix go (l : list (clabel * list stmt)) : list ob :=
         match l with [] => [] | (lab, b) :: r =>
           match lab with LCond c => [(OU c, env1)] | _ => [] end ++ ol env1 b ++ go r end) cs
  | SFor i c p b =>
      let env1 := declo i ++ env in
      oo env i ++ match c with Some c => [(OU c, env1)] | None => [] end ++ ol env1 b ++ oo env1 p
  | SRet e => oexp env e
  | _ => []
  end
with oels (env : list nat) (e : els) {struct e} : list ob :=
  match e with
  | ENone => []
  | EElse b => (fix go (env : list nat) (l : list stmt) {struct l} : list ob :=
                  match l with [] => [] | x :: r => ostmt env x ++ go (decl x ++ env) r end) env b
  | EElif x => ostmt env x
  end
with oexp (env : list nat) (e : sexp) {struct e} : list ob :=
  match e with
  | XBind v t => (OU v, env) :: othunk env t
  | XDelay t => othunk env t
  | XCombine a b => oexp env a ++ oexp env b
  | XFor c p body =>
      match c with Some (CExp c) => [(OU c, env)] | Some (CFun c) => [(OU c, env)] | None => [] end ++
      oexp env body ++ match p with None => [] | Some x => ostmt env x end
  | _ => []
  end
with othunk (env : list nat) (t : thunk) {struct t} : list ob :=
  match t with
  | TLit b => (fix go (env : list nat) (l : list stmt) {struct l} : list ob :=
                  match l with [] => [] | x :: r => ostmt env x ++ go (decl x ++ env) r end) env b
  | TSig x => oexp env x
  end.

Fixpoint ol (env : list nat) (l : list stmt) : list ob :=
  match l with [] => [] | x :: r => ostmt env x ++ ol (decl x ++ env) r end.

(* the environment after the statements of [l] (same block) *)
Fixpoint after (env : list nat) (l : list stmt) : list nat :=
  match l with [] => env | x :: r => after (decl x ++ env) r end.

Fixpoint ocases (env1 : list nat) (l : list (clabel * list stmt)) : list ob :=
  match l with [] => [] | (lab, b) :: r =>
    match lab with LCond c => [(OU c, env1)] | _ => [] end ++ ol env1 b ++ ocases env1 r end.
Definition oopt (env : list nat) (o : option stmt) : list ob := match o with None => [] | Some x => ostmt env x end.

Lemma ostmt_block env b : ostmt env (SBlock b) = ol env b.
Proof. reflexivity. Qed.
Lemma ostmt_if env i c t e : ostmt env (SIf i c t e) =
  oopt env i ++ [(OU c, declo i ++ env)] ++ ol (declo i ++ env) t ++ oels (declo i ++ env) e.
Proof. reflexivity. Qed.
Lemma ostmt_switch env i tag cs : ostmt env (SSwitch i tag cs) =
  oopt env i ++ match tag with Some t => [(OU t, declo i ++ env)] | None => [] end ++ ocases (declo i ++ env) cs.
Proof.
  cbn [ostmt]. f_equal. f_equal. induction cs as [|[lab b] r IH]; [reflexivity|]. cbn [ocases]. rewrite <- IH. reflexivity.
Qed.
Lemma ostmt_for env i c p b : ostmt env (SFor i c p b) =
  oopt env i ++ match c with Some c => [(OU c, declo i ++ env)] | None => [] end ++ ol (declo i ++ env) b ++ oopt (declo i ++ env) p.
Proof. reflexivity. Qed.
Lemma oels_else env b : oels env (EElse b) = ol env b.
Proof. reflexivity. Qed.
Lemma othunk_lit env b : othunk env (TLit b) = ol env b.
Proof. reflexivity. Qed.

Lemma ol_app env a b : ol env (a ++ b) = ol env a ++ ol (after env a) b.
Proof.
  revert env. induction a as [|x a IH]; intros env; [reflexivity|].
  cbn [app ol after]. rewrite IH, app_assoc. reflexivity.
Qed.
Lemma after_app env a b : after env (a ++ b) = after (after env a) b.
Proof. revert env. induction a as [|x a IH]; intros env; [reflexivity|]. cbn [app after]. apply IH. Qed.

(* pass0 of the real rewriter hoists a ':=' initialiser of a for statement into a fresh block around the loop (the harness
   applies the same lowering to the source abstraction, lib/structcheck.py src_stmt): every occurrence keeps its scope list *)
Lemma hoist_scope env i c p b : ostmt env (SBlock [i; SFor None c p b]) = ostmt env (SFor (Some i) c p b).
Proof. rewrite ostmt_block, !ostmt_for. cbn [ol oopt declo app]. rewrite !app_nil_r. reflexivity. Qed.

(* ---- the side condition (syntactic, on the input of pass2) ---- *)
Definition is_branch (s : stmt) : bool := match s with SBreak | SContinue | SFallthrough => true | _ => false end.
Definition init_nd (i : option stmt) : bool :=
  match i with None => true | Some (SAtom a) => negb (dcl a) | Some (SYield _) => true | _ => false end.
(* no statement of the list declares anything in the list's own block *)
Definition nds (l : list stmt) : bool := forallb (fun s => match decl s with [] => true | _ => false end) l.
(* the post statement of a loop with body [b]: absent, an atom, or a Yield when the body declares nothing in its own block
   (the rewriter may append a yielding post statement to the body block: finding F3) *)
Definition post_ok (p : option stmt) (b : list stmt) : bool :=
  match p with None => true | Some (SAtom _) => true | Some (SYield _) => nds b | _ => false end.

Fixpoint sok (s : stmt) {struct s} : bool :=
  let soks := fix go (l : list stmt) {struct l} : bool :=
    match l with [] => true | x :: r => sok x && (if is_branch x then match r with [] => true | _ => false end else true) && go r end in
  match s with
  | SBlock b => soks b
  | SIf i c t e => match i with None => true | Some (SAtom _) => true | _ => false end && soks t &&
                   match e with ENone => true | EElse b => soks b | EElif x => match x with SIf _ _ _ _ => sok x | _ => false end end
  | SSwitch i tag cs => init_nd i && (fix go (l : list (clabel * list stmt)) : bool :=
                                        match l with [] => true | (_, b) :: r => soks b && go r end) cs
  | SFor i c p b => init_nd i && post_ok p b && soks b
  | SRet XReturn => true
  | SRet _ => false
  | _ => true
  end.
Fixpoint soks (l : list stmt) : bool :=
  match l with [] => true | x :: r => sok x && (if is_branch x then match r with [] => true | _ => false end else true) && soks r end.
Fixpoint sokc (l : list (clabel * list stmt)) : bool :=
  match l with [] => true | (_, b) :: r => soks b && sokc r end.

Lemma sok_block b : sok (SBlock b) = soks b.
Proof. reflexivity. Qed.
Lemma sok_switch i tag cs : sok (SSwitch i tag cs) = init_nd i && sokc cs.
Proof.
  assert (H : forall l, (fix go (l : list (clabel * list stmt)) : bool :=
                            match l with [] => true | (_, b) :: r => soks b && go r end) l = sokc l).
  { induction l as [|[lab b] r IH]; [reflexivity|]. cbn [sokc]. rewrite <- IH. reflexivity. }
  rewrite <- H. reflexivity.
Qed.
Lemma sok_for i c p b : sok (SFor i c p b) = init_nd i && post_ok p b && soks b.
Proof. reflexivity. Qed.
Lemma sok_if i c t e : sok (SIf i c t e) =
  match i with None => true | Some (SAtom _) => true | _ => false end && soks t &&
  match e with ENone => true | EElse b => soks b | EElif x => match x with SIf _ _ _ _ => sok x | _ => false end end.
Proof. reflexivity. Qed.

(* ---- blocks under construction ---- *)
Definition dinv (c : blk) : Prop :=
  forall s k, lastStmt c = Some s -> lastKind c = Some k -> k <> KTrivial -> decl s = [].

Lemma last_snoc {A} (l : list A) x : last (map Some (l ++ [x])) None = Some x.
Proof.
  induction l as [|a l IH]; [reflexivity|]. cbn [app map].
  destruct (l ++ [x]) as [|b r] eqn:E; [destruct l; discriminate|]. cbn [map] in *. exact IH.
Qed.
Lemma last_some_snoc {A} (l : list A) x : last (map Some l) None = Some x -> l = removelast l ++ [x].
Proof.
  induction l as [|a l IH]; [discriminate|].
  destruct l as [|b l'].
  - cbn. intros H. inversion H. reflexivity.
  - intros H. change (removelast (a :: b :: l')) with (a :: removelast (b :: l')).
    cbn [app]. f_equal. apply IH. exact H.
Qed.

Lemma bind_inv {A B} (m : res A) (f : A -> res B) b : bind m f = OK b -> exists a, m = OK a /\ f a = OK b.
Proof. destruct m; cbn; [eauto|discriminate]. Qed.

Lemma dinv_mk k : dinv (mkBlock k).
Proof. intros s k0 H. discriminate. Qed.

Lemma push_inv c s k c' : push c s k = OK c' ->
  bstmts c' = bstmts c ++ [s] /\ lastStmt c' = Some s /\ lastKind c' = Some k /\ bkind c' = bkind c.
Proof.
  unfold push. destruct (negb (checked c) || frozen c); [discriminate|]. intros H; inversion H; subst.
  unfold lastStmt, lastKind. cbn. rewrite !last_snoc. repeat split; reflexivity.
Qed.
Lemma push_dinv c s k c' : push c s k = OK c' -> (k = KTrivial \/ decl s = []) -> dinv c'.
Proof.
  intros H Hd. destruct (push_inv _ _ _ _ H) as [_ [Hs [Hk _]]]. intros s0 k0 E1 E2 Hn.
  rewrite Hs in E1. rewrite Hk in E2. inversion E1; inversion E2; subst. destruct Hd; [contradiction|assumption].
Qed.
Lemma pushReturn_inv c e k c' : pushReturn c e k = OK c' ->
  bstmts c' = bstmts c ++ [SRet e] /\ dinv c' /\ bkind c' = bkind c.
Proof.
  unfold pushReturn. destruct (negb (is_ret_kind k)); [discriminate|]. intros H.
  destruct (bind_inv _ _ _ H) as [b' [Hp Hb]]. inversion Hb; subst. cbn [bstmts bkind].
  destruct (push_inv _ _ _ _ Hp) as [H1 [H2 [H3 H4]]]. split; [exact H1|]. split; [|exact H4].
  intros s0 k0 E1 E2 _. unfold lastStmt in *. cbn [bstmts] in E1. rewrite H2 in E1. inversion E1; subst. reflexivity.
Qed.
Lemma gln_inv c c' : gln c = OK c' -> bkind c' = bkind c /\ (bstmts c' = bstmts c \/ bstmts c' = bstmts c ++ [SRet XNormal]).
Proof.
  intros H.
  assert (Hc : c' = c \/ pushReturn (markCombined c) XNormal KNormal = OK c').
  { revert H. unfold gln. destruct (bkind c); try (intros H; inversion H; auto; fail).
    all: destruct (returnNormalRequired c) as [[|]|]; cbn [bind]; intros H; try discriminate; try (inversion H; auto; fail); auto. }
  destruct Hc as [->|Hp]; [split; [reflexivity|left; reflexivity]|].
  destruct (pushReturn_inv _ _ _ _ Hp) as [H1 [_ H3]]. split; [exact H3|right; exact H1].
Qed.
Lemma gln_ol c c' : gln c = OK c' -> forall env, ol env (bstmts c') = ol env (bstmts c).
Proof.
  intros H env. destruct (gln_inv _ _ H) as [_ [->| ->]]; [reflexivity|].
  rewrite ol_app. cbn. apply app_nil_r.
Qed.
Lemma pop_inv c s k c' : pop c = OK (s, k, c') ->
  bstmts c = bstmts c' ++ [s] /\ lastStmt c = Some s /\ lastKind c = Some k /\ bkind c' = bkind c /\ frozen c' = false /\ checked c' = checked c.
Proof.
  unfold pop. destruct (lastStmt c) as [s0|] eqn:E; [|discriminate]. destruct (lastKind c) as [k0|] eqn:E2; [|discriminate].
  intros H; inversion H; subst. cbn. split; [apply last_some_snoc; exact E|]. repeat split; reflexivity.
Qed.

Definition Kspec (k : blk -> res blk) (R : list nat -> list ob) : Prop :=
  forall c r, dinv c -> k c = OK r -> forall env, ol env (bstmts r) = ol env (bstmts c) ++ R (after env (bstmts c)).

Lemma dinv_mark c : dinv c -> dinv (markCombined c).
Proof. intros H. exact H. Qed.

Lemma comb_scope cur k R r : dinv cur -> Kspec k R -> comb cur k = OK r ->
  forall env, ol env (bstmts r) = ol env (bstmts cur) ++ R (after env (bstmts cur)).
Proof.
  intros Hd Hk H env. unfold comb in H.
  change (combineRequired (markCombined cur)) with (combineRequired cur) in H.
  destruct (combineRequired cur) eqn:Ecr; cbn [negb] in H.
  - destruct (bind_inv _ _ _ H) as [[[s kd] cur'] [Ep H1]]. clear H.
    destruct (pop_inv _ _ _ _ Ep) as [Es [Els [Elk _]]]. cbn [markCombined bstmts] in Es.
    destruct (bind_inv _ _ _ H1) as [c1 [E1 H2]]. clear H1.
    destruct (bind_inv _ _ _ H2) as [c1' [E1' H3]]. clear H2.
    destruct (bind_inv _ _ _ H3) as [fol [Ef H4]]. clear H3.
    assert (Hds : decl s = []).
    { apply (Hd s kd Els Elk). unfold combineRequired in Ecr. change (lastKind (markCombined cur)) with (lastKind cur) in Elk.
      rewrite Elk in Ecr. intros ->. discriminate. }
    destruct (push_inv _ _ _ _ E1) as [Ec1 _]. cbn in Ec1.
    pose proof (gln_ol _ _ E1') as Hg. rewrite Ec1 in Hg.
    pose proof (Hk _ _ (dinv_mk KDelay) Ef) as Hf. cbn [mkBlock bstmts ol after app] in Hf.
    destruct (pushReturn_inv _ _ _ _ H4) as [Er _]. rewrite Er, Es, !ol_app, after_app. cbn [ol after oexp ostmt].
    rewrite !othunk_lit, Hg, Hf, Hds. cbn [ol app]. rewrite !app_nil_r, <- app_assoc. reflexivity.
  - apply (Hk (markCombined cur) r (dinv_mark _ Hd) H env).
Qed.

Definition Rnil (R : list nat -> list ob) : Prop := forall e, R e = [].

Lemma oels_unwrap env l : oels env (unwrapIf l) = ol env l.
Proof.
  unfold unwrapIf. destruct l as [|x [|y r]]; try reflexivity.
  - destruct x; try reflexivity. cbn [oels ol]. rewrite app_nil_r. reflexivity.
  - destruct x; reflexivity.
Qed.

Lemma post_ok_inv p b : post_ok p b = true -> hasYo p = false \/ (exists v, p = Some (SYield v)) /\ nds b = true.
Proof. destruct p as [[]|]; try discriminate; intros H; try (left; reflexivity). right. split; [eexists; reflexivity|exact H]. Qed.

(* ---- a block whose statements declare nothing in it stays such a block ---- *)
Definition ND (l : list stmt) : Prop := Forall (fun s => decl s = []) l.
Definition Knd (k : blk -> res blk) : Prop := forall c r, ND (bstmts c) -> k c = OK r -> ND (bstmts r).

Lemma nds_ND l : nds l = true -> ND l.
Proof.
  unfold nds, ND. rewrite forallb_forall, Forall_forall. intros H x Hx. specialize (H x Hx). destruct (decl x); [reflexivity|discriminate].
Qed.
Lemma after_ND env l : ND l -> after env l = env.
Proof. revert env. induction l as [|x l IH]; intros env H; [reflexivity|]. inversion H; subst. cbn [after]. rewrite H2. apply IH. assumption. Qed.
Lemma ND_snoc l s : ND l -> decl s = [] -> ND (l ++ [s]).
Proof. intros H Hs. apply Forall_app. split; [exact H|constructor; [exact Hs|constructor]]. Qed.
Lemma push_nd c s kd c' : push c s kd = OK c' -> ND (bstmts c) -> decl s = [] -> ND (bstmts c').
Proof. intros H Hc Hs. destruct (push_inv _ _ _ _ H) as [-> _]. apply ND_snoc; assumption. Qed.
Lemma pushReturn_nd c e kd c' : pushReturn c e kd = OK c' -> ND (bstmts c) -> ND (bstmts c').
Proof. intros H Hc. destruct (pushReturn_inv _ _ _ _ H) as [-> _]. apply ND_snoc; [assumption|reflexivity]. Qed.
Lemma gln_nd c c' : gln c = OK c' -> ND (bstmts c) -> ND (bstmts c').
Proof. intros H Hc. destruct (gln_inv _ _ H) as [_ [->| ->]]; [exact Hc|apply ND_snoc; [exact Hc|reflexivity]]. Qed.
Lemma pushk_nd cur s kd k r : ND (bstmts cur) -> decl s = [] -> Knd k -> (c <- push cur s kd ;; k c) = OK r -> ND (bstmts r).
Proof. intros Hc Hs Hk H. destruct (bind_inv _ _ _ H) as [c [Hp Hkc]]. exact (Hk c r (push_nd _ _ _ _ Hp Hc Hs) Hkc). Qed.
Lemma retk_nd cur e kd k r : ND (bstmts cur) -> Knd k -> (c <- pushReturn cur e kd ;; k c) = OK r -> ND (bstmts r).
Proof. intros Hc Hk H. destruct (bind_inv _ _ _ H) as [c [Hp Hkc]]. exact (Hk c r (pushReturn_nd _ _ _ _ Hp Hc) Hkc). Qed.
Lemma comb_nd cur k r : ND (bstmts cur) -> Knd k -> comb cur k = OK r -> ND (bstmts r).
Proof.
  intros Hc Hk H. unfold comb in H. change (combineRequired (markCombined cur)) with (combineRequired cur) in H.
  destruct (combineRequired cur); cbn [negb] in H; [|exact (Hk (markCombined cur) r Hc H)].
  destruct (bind_inv _ _ _ H) as [[[s kd] cur'] [Ep H1]]. destruct (pop_inv _ _ _ _ Ep) as [Es _]. cbn [markCombined bstmts] in Es.
  destruct (bind_inv _ _ _ H1) as [c1 [_ H2]]. destruct (bind_inv _ _ _ H2) as [c1' [_ H3]]. destruct (bind_inv _ _ _ H3) as [fol [_ H4]].
  apply (pushReturn_nd _ _ _ _ H4). unfold ND in *. rewrite Es in Hc. apply Forall_app in Hc. tauto.
Qed.
Lemma Klast_nd : Knd (fun fol => match bkind fol with KDelay => gln fol | _ => OK fol end).
Proof. intros c r Hc H. destruct (bkind c); try (inversion H; subst; exact Hc). exact (gln_nd _ _ H Hc). Qed.

Lemma init_nd_inv i : init_nd i = true ->
  i = None \/ exists x, i = Some x /\ sok x = true /\ is_branch x = false /\ decl x = [].
Proof.
  destruct i as [x|]; [|left; reflexivity]. intros H. right. exists x. split; [reflexivity|].
  destruct x; try discriminate H; cbn in *; repeat split; try reflexivity.
  destruct (dcl a); [discriminate|reflexivity].
Qed.

Lemma soks_inv x r : soks (x :: r) = true -> sok x = true /\ (is_branch x = true -> r = []) /\ soks r = true.
Proof.
  cbn [soks]. intros H. apply andb_prop in H. destruct H as [H H3]. apply andb_prop in H. destruct H as [H1 H2].
  repeat split; try assumption. intros Hb. rewrite Hb in H2. destruct r; [reflexivity|discriminate].
Qed.

Lemma Klast : Kspec (fun fol => match bkind fol with KDelay => gln fol | _ => OK fol end) (fun _ => []).
Proof.
  intros c r Hd H env. rewrite app_nil_r.
  destruct (bkind c); try (inversion H; subst; reflexivity). apply (gln_ol _ _ H).
Qed.

Lemma pushk_scope cur s kd k R r : dinv cur -> Kspec k R -> (kd = KTrivial \/ decl s = []) ->
  (c <- push cur s kd ;; k c) = OK r ->
  forall env, ol env (bstmts r) = ol env (bstmts cur) ++ ostmt (after env (bstmts cur)) s ++ R (decl s ++ after env (bstmts cur)).
Proof.
  intros Hd Hk Hs H env. destruct (bind_inv _ _ _ H) as [c [Hp Hc]].
  destruct (push_inv _ _ _ _ Hp) as [Es _]. pose proof (push_dinv _ _ _ _ Hp Hs) as Hd'.
  rewrite (Hk c r Hd' Hc env), Es, ol_app, after_app. cbn [ol after]. rewrite app_nil_r, <- app_assoc. reflexivity.
Qed.

Lemma retk_scope cur e kd k R r : dinv cur -> Kspec k R ->
  (c <- pushReturn cur e kd ;; k c) = OK r ->
  forall env, ol env (bstmts r) = ol env (bstmts cur) ++ oexp (after env (bstmts cur)) e ++ R (after env (bstmts cur)).
Proof.
  intros Hd Hk H env. destruct (bind_inv _ _ _ H) as [c [Hp Hc]].
  destruct (pushReturn_inv _ _ _ _ Hp) as [Es [Hd' _]].
  rewrite (Hk c r Hd' Hc env), Es, ol_app, after_app. cbn [ol after ostmt decl app]. rewrite app_nil_r, <- app_assoc. reflexivity.
Qed.

Lemma rw_nd f :
  (forall ss cur r, soks ss = true -> ND ss -> ND (bstmts cur) -> rw_stmts f ss cur = OK r -> ND (bstmts r)) /\
  (forall s isLast cur k r, sok s = true -> decl s = [] -> ND (bstmts cur) -> Knd k -> rw_stmt f s isLast cur k = OK r -> ND (bstmts r)) /\
  (forall i c t e cur c', ND (bstmts cur) -> rw_if f (SIf i c t e) cur = OK c' -> ND (bstmts c')) /\
  (forall init c post b cur k r, sok (SFor init c post b) = true -> ND (bstmts cur) -> Knd k ->
      rw_for f (SFor init c post b) init c post b cur k = OK r -> ND (bstmts r)) /\
  (forall init tag cases cur k r, sok (SSwitch init tag cases) = true -> ND (bstmts cur) -> Knd k ->
      rw_switch f (SSwitch init tag cases) init tag cases cur k = OK r -> ND (bstmts r)).
Proof.
  induction f as [|f [IH1 [IH2 [IH3 [IH4 IH5]]]]]; [repeat split; intros; discriminate|].
  assert (Hinit : forall init cur aft r, init_nd init = true -> ND (bstmts cur) -> Knd aft ->
            match init with None => aft cur | Some i => rw_stmt f i false cur aft end = OK r -> ND (bstmts r)).
  { intros init cur aft r Hi Hc Hk H. destruct (init_nd_inv _ Hi) as [->|[x [-> [Hx [_ Hdx]]]]].
    - exact (Hk cur r Hc H).
    - exact (IH2 x false cur aft r Hx Hdx Hc Hk H). }
  split; [|split; [|split; [|split]]].
  - intros ss cur r Hss Hn Hc H. cbn [rw_stmts] in H. destruct ss as [|s rest]; [exact (Klast_nd cur r Hc H)|].
    destruct (soks_inv _ _ Hss) as [Hs [_ Hrest]]. inversion Hn as [|? ? Hds Hnr]; subst.
    match type of H with rw_stmt _ _ ?il _ ?kk = _ => refine (IH2 s il cur kk r Hs Hds Hc _ H) end.
    destruct rest as [|s2 rest2]; [exact Klast_nd|].
    intros c r0 Hc0 H0. refine (comb_nd c _ r0 Hc0 _ H0). intros c2 r2 Hc2 H2. exact (IH1 _ c2 r2 Hrest Hnr Hc2 H2).
  - intros s isLast cur k r Hs Hds Hc Hk H. cbn [rw_stmt] in H.
    destruct s as [a|v|b|i c t e|i tag cs|i c p b| | | | |e].
    + exact (pushk_nd cur _ _ k r Hc Hds Hk H).
    + destruct isLast; destruct (bind_inv _ _ _ H) as [fol [_ Hp]]; exact (pushReturn_nd _ _ _ _ Hp Hc).
    + destruct (bind_inv _ _ _ H) as [fol [_ H1]]. destruct (mustNoYield fol); [(refine (pushk_nd cur _ _ k r Hc _ Hk H1); reflexivity)|exact (retk_nd cur _ _ k r Hc Hk H1)].
    + destruct (bind_inv _ _ _ H) as [c' [Hif H1]]. pose proof (IH3 _ _ _ _ _ _ Hc Hif) as Hc'.
      destruct isLast; [exact (gln_nd _ _ H1 Hc')|exact (Hk _ _ Hc' H1)].
    + match type of H with rw_switch _ _ _ _ _ _ ?kk = _ => refine (IH5 i tag cs cur kk r Hs Hc _ H) end.
      intros c0 r0 Hc0 H0. destruct isLast; [|exact (Hk c0 r0 Hc0 H0)].
      destruct (lastKind c0) as [[]|]; try exact (Hk c0 r0 Hc0 H0). exact (gln_nd _ _ H0 Hc0).
    + exact (IH4 i c p b cur k r Hs Hc Hk H).
    + (refine (push_nd _ _ _ _ H Hc _); reflexivity).
    + (refine (push_nd _ _ _ _ H Hc _); reflexivity).
    + (refine (pushk_nd cur _ _ k r Hc _ Hk H); reflexivity).
    + (refine (push_nd _ _ _ _ H Hc _); reflexivity).
    + (refine (pushk_nd cur _ _ k r Hc _ Hk H); reflexivity).
  - intros i c t e cur c' Hc H. cbn [rw_if] in H. destruct (hasYo i); [discriminate|].
    destruct (bind_inv _ _ _ H) as [body [_ H1]]. clear H.
    destruct e as [|b|alt].
    + destruct (mustNoYield body); (refine (push_nd _ _ _ _ H1 Hc _); reflexivity).
    + destruct (bind_inv _ _ _ H1) as [els [_ H2]]. destruct (mustNoYield body && mustNoYield els); (refine (push_nd _ _ _ _ H2 Hc _); reflexivity).
    + destruct (bind_inv _ _ _ H1) as [els [_ H2]]. destruct (mustNoYield body && mustNoYield els); (refine (push_nd _ _ _ _ H2 Hc _); reflexivity).
  - intros init c post b cur k r Hs Hc Hk H. cbn [rw_for] in H. rewrite sok_for in Hs.
    apply andb_prop in Hs. destruct Hs as [Hs _]. apply andb_prop in Hs. destruct Hs as [Hi _].
    destruct (bind_inv _ _ _ H) as [body [_ H1]]. clear H.
    destruct (negb (hasYo init) && negb (hasYo post) && mustNoYield body); [(refine (pushk_nd cur _ _ k r Hc _ Hk H1); reflexivity)|].
    refine (Hinit init cur _ r Hi Hc _ H1). intros c2 r2 Hc2 H2.
    assert (Hk1 : forall s0 kd, Knd (fun c3 => c4 <- push c3 s0 kd ;; k c4) \/ True) by (intros; right; exact I).
    destruct (mustNoYield body && negb (hasYo post)).
    + refine (comb_nd c2 _ r2 Hc2 _ H2). intros c3 r3 Hc3 H3. (refine (pushk_nd c3 _ _ k r3 Hc3 _ Hk H3); reflexivity).
    + destruct (negb (hasYo post)).
      * refine (comb_nd c2 _ r2 Hc2 _ H2). intros c3 r3 Hc3 H3. exact (retk_nd c3 _ _ k r3 Hc3 Hk H3).
      * destruct post as [p|]; [|discriminate]. destruct (bind_inv _ _ _ H2) as [body' [_ H3]].
        refine (comb_nd c2 _ r2 Hc2 _ H3). intros c3 r3 Hc3 H4. exact (retk_nd c3 _ _ k r3 Hc3 Hk H4).
  - intros init tag cases cur k r Hs Hc Hk H. cbn [rw_switch] in H. rewrite sok_switch in Hs.
    apply andb_prop in Hs. destruct Hs as [Hi _].
    destruct (bind_inv _ _ _ H) as [[cases' allTrivial] [_ H1]]. clear H.
    destruct (negb (hasYo init) && allTrivial); [(refine (pushk_nd cur _ _ k r Hc _ Hk H1); reflexivity)|].
    refine (Hinit init cur _ r Hi Hc _ H1). intros c2 r2 Hc2 H2. destruct allTrivial.
    + (refine (pushk_nd c2 _ _ k r2 Hc2 _ Hk H2); reflexivity).
    + refine (comb_nd c2 _ r2 Hc2 _ H2). intros c3 r3 Hc3 H3. (refine (pushk_nd c3 _ _ k r3 Hc3 _ Hk H3); reflexivity).
Qed.

Lemma rw_yield_last f v cur k r : rw_stmt f (SYield v) true cur k = OK r ->
  exists fol, bstmts r = bstmts cur ++ [SRet (XBind v (TLit fol))] /\ forall env, ol env fol = [].
Proof.
  destruct f; [discriminate|]. cbn [rw_stmt]. intros H. destruct (bind_inv _ _ _ H) as [fol [Hf Hp]].
  destruct (pushReturn_inv _ _ _ _ Hp) as [Es _]. exists (bstmts fol). split; [exact Es|].
  intros env. rewrite (gln_ol _ _ Hf). reflexivity.
Qed.

Lemma rw_scope f :
  (forall ss cur r, soks ss = true -> dinv cur -> rw_stmts f ss cur = OK r ->
      forall env, ol env (bstmts r) = ol env (bstmts cur) ++ ol (after env (bstmts cur)) ss) /\
  (forall s isLast cur k R r, sok s = true -> (is_branch s = true -> isLast = true) -> dinv cur -> Kspec k R ->
      (isLast = true -> Rnil R) -> rw_stmt f s isLast cur k = OK r ->
      forall env, ol env (bstmts r) = ol env (bstmts cur) ++ ostmt (after env (bstmts cur)) s ++ R (decl s ++ after env (bstmts cur))) /\
  (forall i c t e cur c', sok (SIf i c t e) = true -> rw_if f (SIf i c t e) cur = OK c' ->
      exists s', bstmts c' = bstmts cur ++ [s'] /\ decl s' = [] /\ (forall env, ostmt env s' = ostmt env (SIf i c t e)) /\ dinv c') /\
  (forall init c post b cur k R r, sok (SFor init c post b) = true -> dinv cur -> Kspec k R ->
      rw_for f (SFor init c post b) init c post b cur k = OK r ->
      forall env, ol env (bstmts r) = ol env (bstmts cur) ++ ostmt (after env (bstmts cur)) (SFor init c post b) ++ R (after env (bstmts cur))) /\
  (forall init tag cases cur k R r, sok (SSwitch init tag cases) = true -> dinv cur -> Kspec k R ->
      rw_switch f (SSwitch init tag cases) init tag cases cur k = OK r ->
      forall env, ol env (bstmts r) = ol env (bstmts cur) ++ ostmt (after env (bstmts cur)) (SSwitch init tag cases) ++ R (after env (bstmts cur))).
Proof.
  induction f as [|f [IH1 [IH2 [IH3 [IH4 IH5]]]]]; [repeat split; intros; discriminate|].
  assert (Hsub : forall l kd B, soks l = true -> rw_stmts f l (mkBlock kd) = OK B -> forall env, ol env (bstmts B) = ol env l).
  { intros l kd B Hl H env. exact (IH1 l (mkBlock kd) B Hl (dinv_mk kd) H env). }
  (* the hoisted init statement, then the rest of the for / switch rewriting *)
  assert (Hinit : forall init cur aft R' r, init_nd init = true -> dinv cur -> Kspec aft R' ->
            match init with None => aft cur | Some i => rw_stmt f i false cur aft end = OK r ->
            forall env, ol env (bstmts r) = ol env (bstmts cur) ++ oopt (after env (bstmts cur)) init ++ R' (after env (bstmts cur))).
  { intros init cur aft R' r Hi Hd Hk H env. destruct (init_nd_inv _ Hi) as [->|[x [-> [Hx [Hb Hdx]]]]].
    - cbn [oopt app]. exact (Hk cur r Hd H env).
    - cbn [oopt]. rewrite (IH2 x false cur aft R' r Hx ltac:(rewrite Hb; discriminate) Hd Hk ltac:(discriminate) H env), Hdx. reflexivity. }
  split; [|split; [|split; [|split]]].
  - (* rw_stmts *)
    intros ss cur r Hss Hd H env. cbn [rw_stmts] in H. destruct ss as [|s rest].
    + cbn [ol]. exact (Klast cur r Hd H env).
    + destruct (soks_inv _ _ Hss) as [Hs [Hbr Hrest]]. cbn [ol].
      match type of H with rw_stmt _ _ ?il _ ?kk = _ =>
        refine (IH2 s il cur kk (fun e => ol e rest) r Hs _ Hd _ _ H env) end.
      * intros Hb. rewrite (Hbr Hb). reflexivity.
      * destruct rest as [|s2 rest2]; [exact Klast|].
        intros c r0 Hd0 H0 env0. apply (comb_scope c (fun f2 => rw_stmts f (s2 :: rest2) f2) (fun e => ol e (s2 :: rest2)) r0 Hd0); [|exact H0].
        intros c2 r2 Hd2 H2 env2. exact (IH1 _ c2 r2 Hrest Hd2 H2 env2).
      * destruct rest; [intros _ e; reflexivity|discriminate].
  - (* rw_stmt *)
    intros s isLast cur k R r Hs Hbr Hd Hk HR H env. cbn [rw_stmt] in H.
    destruct s as [a|v|b|i c t e|i tag cs|i c p b| | | | |e].
    + exact (pushk_scope cur _ KTrivial k R r Hd Hk (or_introl eq_refl) H env).
    + (* yield *)
      cbn [decl app ostmt]. destruct isLast.
      * destruct (bind_inv _ _ _ H) as [fol [Hf Hp]]. destruct (pushReturn_inv _ _ _ _ Hp) as [Es _].
        rewrite Es, ol_app. cbn [ol after ostmt oexp]. rewrite othunk_lit, (gln_ol _ _ Hf), (HR eq_refl). reflexivity.
      * destruct (bind_inv _ _ _ H) as [fol [Hf Hp]]. destruct (pushReturn_inv _ _ _ _ Hp) as [Es _].
        rewrite Es, ol_app. cbn [ol after ostmt oexp]. rewrite othunk_lit, (Hk _ _ (dinv_mk KDelay) Hf). cbn [mkBlock bstmts ol after app].
        rewrite app_nil_r. reflexivity.
    + (* block *)
      rewrite sok_block in Hs. destruct (bind_inv _ _ _ H) as [fol [Hf H1]]. pose proof (Hsub _ _ _ Hs Hf) as Hb.
      destruct (mustNoYield fol).
      * exact (pushk_scope cur _ KTrivial k R r Hd Hk (or_introl eq_refl) H1 env).
      * rewrite (retk_scope cur _ KYield k R r Hd Hk H1 env). cbn [oexp decl app]. rewrite othunk_lit, Hb. reflexivity.
    + (* if *)
      destruct (bind_inv _ _ _ H) as [c' [Hif H1]]. destruct (IH3 _ _ _ _ _ _ Hs Hif) as [s' [Es [Hds [Ho Hd']]]].
      cbn [decl app]. destruct isLast.
      * rewrite (gln_ol _ _ H1), Es, ol_app, (HR eq_refl). cbn [ol]. rewrite Ho, !app_nil_r. reflexivity.
      * rewrite (Hk _ _ Hd' H1 env), Es, ol_app, after_app. cbn [ol after]. rewrite Hds, Ho, app_nil_r, <- app_assoc. reflexivity.
    + (* switch *)
      match type of H with rw_switch _ _ _ _ _ _ ?kk = _ => refine (IH5 i tag cs cur kk R r Hs Hd _ H env) end.
      intros c0 r0 Hd0 H0 env0. destruct isLast; [|exact (Hk c0 r0 Hd0 H0 env0)].
      destruct (lastKind c0) as [[]|]; try exact (Hk c0 r0 Hd0 H0 env0).
      rewrite (gln_ol _ _ H0), (HR eq_refl). symmetry. apply app_nil_r.
    + exact (IH4 i c p b cur k R r Hs Hd Hk H env).
    + (* break *) destruct (push_inv _ _ _ _ H) as [Es _]. rewrite Es, ol_app, (HR (Hbr eq_refl)). cbn. rewrite !app_nil_r. reflexivity.
    + destruct (push_inv _ _ _ _ H) as [Es _]. rewrite Es, ol_app, (HR (Hbr eq_refl)). cbn. rewrite !app_nil_r. reflexivity.
    + exact (pushk_scope cur _ KTrivial k R r Hd Hk (or_introl eq_refl) H env).
    + destruct (push_inv _ _ _ _ H) as [Es _]. rewrite Es, ol_app, (HR (Hbr eq_refl)). cbn. rewrite !app_nil_r. reflexivity.
    + exact (pushk_scope cur _ KTrivial k R r Hd Hk (or_introl eq_refl) H env).
  - (* rw_if *)
    intros i c t e cur c' Hs H. cbn [rw_if] in H. rewrite sok_if in Hs.
    apply andb_prop in Hs. destruct Hs as [Hs He]. apply andb_prop in Hs. destruct Hs as [Hi Ht].
    destruct (hasYo i); [discriminate|].
    destruct (bind_inv _ _ _ H) as [body [Hb H1]]. clear H. pose proof (Hsub _ _ _ Ht Hb) as Eb.
    assert (Hfin : forall s' kd, push cur s' kd = OK c' -> decl s' = [] -> (forall env, ostmt env s' = ostmt env (SIf i c t e)) ->
              exists s', bstmts c' = bstmts cur ++ [s'] /\ decl s' = [] /\ (forall env, ostmt env s' = ostmt env (SIf i c t e)) /\ dinv c').
    { intros s' kd Hp Hds Ho. exists s'. destruct (push_inv _ _ _ _ Hp) as [Es _]. repeat split; try assumption.
      exact (push_dinv _ _ _ _ Hp (or_intror Hds)). }
    destruct e as [|b|alt].
    + destruct (mustNoYield body); [exact (Hfin _ _ H1 eq_refl (fun _ => eq_refl))|].
      apply (Hfin _ _ H1 eq_refl). intros env. rewrite !ostmt_if, Eb. reflexivity.
    + destruct (bind_inv _ _ _ H1) as [els [Hel H2]]. pose proof (Hsub _ _ _ He Hel) as Ee.
      destruct (mustNoYield body && mustNoYield els); [exact (Hfin _ _ H2 eq_refl (fun _ => eq_refl))|].
      apply (Hfin _ _ H2 eq_refl). intros env. rewrite !ostmt_if, Eb, oels_unwrap, Ee. reflexivity.
    + destruct alt as [| | |i2 c2 t2 e2| | | | | | |]; try discriminate He.
      destruct (bind_inv _ _ _ H1) as [els [Hel H2]].
      destruct (IH3 _ _ _ _ _ _ He Hel) as [s2 [Es2 [_ [Ho2 _]]]]. cbn [mkBlock bstmts app] in Es2.
      destruct (mustNoYield body && mustNoYield els); [exact (Hfin _ _ H2 eq_refl (fun _ => eq_refl))|].
      apply (Hfin _ _ H2 eq_refl). intros env. rewrite !ostmt_if, Eb, oels_unwrap, Es2. cbn [ol oels]. rewrite Ho2, app_nil_r. reflexivity.
  - (* rw_for *)
    intros init c post b cur k R r Hs Hd Hk H env. cbn [rw_for] in H. rewrite sok_for in Hs.
    apply andb_prop in Hs. destruct Hs as [Hs Hb]. apply andb_prop in Hs. destruct Hs as [Hi Hp].
    destruct (bind_inv _ _ _ H) as [body [Hbody H1]]. clear H. pose proof (Hsub _ _ _ Hb Hbody) as Eb.
    destruct (post_ok_inv _ _ Hp) as [Hpy|[[v Epost] Hnd]].
    { rewrite Hpy in H1. cbn [negb] in H1. rewrite !andb_true_r in H1.
      destruct (negb (hasYo init) && mustNoYield body).
      + exact (pushk_scope cur _ KTrivial k R r Hd Hk (or_introl eq_refl) H1 env).
      + assert (Haft : Kspec (fun c2 => if mustNoYield body
                  then comb c2 (fun c3 => c4 <- push c3 (SFor None c post b) KTrivial ;; k c4)
                  else comb c2 (fun c3 => c4 <- pushReturn c3 (XFor (option_map CExp c) post (XDelay (TLit (bstmts body)))) KFor ;; k c4))
                (fun e => ostmt e (SFor None c post b) ++ R e)).
        { intros c2 r2 Hd2 H2 env2. destruct (mustNoYield body).
          - refine (comb_scope c2 _ (fun e => ostmt e (SFor None c post b) ++ R e) r2 Hd2 _ H2 env2). intros c3 r3 Hd3 H3 env3.
            exact (pushk_scope c3 _ KTrivial k R r3 Hd3 Hk (or_introl eq_refl) H3 env3).
          - refine (comb_scope c2 _ (fun e => ostmt e (SFor None c post b) ++ R e) r2 Hd2 _ H2 env2). intros c3 r3 Hd3 H3 env3.
            rewrite (retk_scope c3 _ KFor k R r3 Hd3 Hk H3 env3), ostmt_for. cbn [oexp declo app oopt]. rewrite othunk_lit, Eb.
            destruct c as [c|]; cbn [option_map]; rewrite <- ?app_assoc; reflexivity. }
        rewrite (Hinit init cur _ _ r Hi Hd Haft H1 env), !ostmt_for.
        destruct (init_nd_inv _ Hi) as [->|[x [-> [_ [_ Hdx]]]]]; cbn [declo oopt app]; rewrite ?Hdx; cbn [app]; rewrite <- ?app_assoc; reflexivity.
    }
    subst post. change (hasYo (Some (SYield v))) with true in H1. cbn [negb] in H1. rewrite andb_false_r in H1. cbn [andb] in H1.
    pose proof (proj1 (rw_nd f) b (mkBlock KFor) body Hb (nds_ND _ Hnd) (Forall_nil _) Hbody) as Hndb.
    assert (Ebody' : forall body', (if combineRequired body
               then pb <- rw_stmt f (SYield v) true (mkBlock KDelay) (fun x => OK x) ;;
                    match lastStmt pb with
                    | Some (SRet _) => b1 <- gln body ;; pushReturn (mkBlock (bkind body)) (XCombine (XDelay (TLit (bstmts b1))) (XDelay (TLit (bstmts pb)))) KCombine
                    | _ => Err E_POST_NOT_RETURN
                    end
               else rw_stmt f (SYield v) true (markCombined body) (fun x => OK x)) = OK body' ->
             forall e, ol e (bstmts body') = ol e b ++ [(OU v, e)]).
    { intros body' Hb' e. destruct (combineRequired body).
      - destruct (bind_inv _ _ _ Hb') as [pb [Hpb H2]]. destruct (rw_yield_last _ _ _ _ _ Hpb) as [fol [Epb Hfol]].
        cbn [mkBlock bstmts app] in Epb. unfold lastStmt in H2. rewrite Epb in H2. cbn [map last] in H2.
        destruct (bind_inv _ _ _ H2) as [b1 [Hb1 H3]]. destruct (pushReturn_inv _ _ _ _ H3) as [Es _]. cbn [mkBlock bstmts app] in Es.
        rewrite Es. cbn [ol ostmt oexp]. rewrite !othunk_lit, (gln_ol _ _ Hb1), Eb. cbn [ol ostmt oexp]. rewrite othunk_lit, Hfol, !app_nil_r. reflexivity.
      - destruct (rw_yield_last _ _ _ _ _ Hb') as [fol [Es Hfol]]. cbn [markCombined bstmts] in Es.
        rewrite Es, ol_app, Eb, (after_ND _ _ Hndb). cbn [ol ostmt oexp]. rewrite othunk_lit, Hfol, !app_nil_r. reflexivity. }
    set (aft := fun c2 : blk =>
           body' <- (if combineRequired body
               then pb <- rw_stmt f (SYield v) true (mkBlock KDelay) (fun x => OK x) ;;
                    match lastStmt pb with
                    | Some (SRet _) => b1 <- gln body ;; pushReturn (mkBlock (bkind body)) (XCombine (XDelay (TLit (bstmts b1))) (XDelay (TLit (bstmts pb)))) KCombine
                    | _ => Err E_POST_NOT_RETURN
                    end
               else rw_stmt f (SYield v) true (markCombined body) (fun x => OK x)) ;;
           comb c2 (fun c3 => c4 <- pushReturn c3 (XFor (option_map CExp c) None (XDelay (TLit (bstmts body')))) KFor ;; k c4)).
    assert (Haft : Kspec aft (fun e => ostmt e (SFor None c (Some (SYield v)) b) ++ R e)).
    { intros c2 r2 Hd2 H2 env2. unfold aft in H2. destruct (bind_inv _ _ _ H2) as [body' [Hb' H3]].
      refine (comb_scope c2 _ (fun e => ostmt e (SFor None c (Some (SYield v)) b) ++ R e) r2 Hd2 _ H3 env2). intros c3 r3 Hd3 H4 env3.
      rewrite (retk_scope c3 _ KFor k R r3 Hd3 Hk H4 env3), ostmt_for. cbn [oexp declo app oopt ostmt]. rewrite othunk_lit, (Ebody' _ Hb').
      destruct c as [c|]; cbn [option_map]; rewrite <- ?app_assoc; reflexivity. }
    assert (H1' : match init with None => aft cur | Some i => rw_stmt f i false cur aft end = OK r).
    { destruct (mustNoYield body); exact H1. }
    rewrite (Hinit init cur aft _ r Hi Hd Haft H1' env), !ostmt_for.
    destruct (init_nd_inv _ Hi) as [->|[x [-> [_ [_ Hdx]]]]]; cbn [declo oopt app]; rewrite ?Hdx; cbn [app]; rewrite <- ?app_assoc; reflexivity.
  - (* rw_switch *)
    intros init tag cases cur k R r Hs Hd Hk H env. cbn [rw_switch] in H. rewrite sok_switch in Hs.
    apply andb_prop in Hs. destruct Hs as [Hi Hc].
    destruct (bind_inv _ _ _ H) as [[cases' allTrivial] [Hcs H1]]. clear H.
    assert (Ecs : forall env1, ocases env1 cases' = ocases env1 cases).
    { clear H1. revert cases' allTrivial Hcs Hc. induction cases as [|[lab b] rr IHc]; intros cases' allTrivial Hcs Hc env1.
      - inversion Hcs; subst. reflexivity.
      - cbn [sokc] in Hc. apply andb_prop in Hc. destruct Hc as [Hb Hrr].
        destruct (bind_inv _ _ _ Hcs) as [cb [Hcb H2]]. destruct (bind_inv _ _ _ H2) as [[rc ra] [Hrc H3]].
        inversion H3; subst. cbn [fst ocases]. rewrite (Hsub _ _ _ Hb Hcb), (IHc rc ra Hrc Hrr). reflexivity. }
    destruct (negb (hasYo init) && allTrivial).
    + exact (pushk_scope cur _ KTrivial k R r Hd Hk (or_introl eq_refl) H1 env).
    + assert (Haft : Kspec (fun c2 => if allTrivial then c3 <- push c2 (SSwitch None tag cases) KTrivial ;; k c3
                else comb c2 (fun c3 => c4 <- push c3 (SSwitch None tag cases') KSwitch ;; k c4))
              (fun e => ostmt e (SSwitch None tag cases) ++ R e)).
      { intros c2 r2 Hd2 H2 env2. destruct allTrivial.
        - exact (pushk_scope c2 _ KTrivial k R r2 Hd2 Hk (or_introl eq_refl) H2 env2).
        - refine (comb_scope c2 _ (fun e => ostmt e (SSwitch None tag cases) ++ R e) r2 Hd2 _ H2 env2). intros c3 r3 Hd3 H3 env3.
          rewrite (pushk_scope c3 (SSwitch None tag cases') KSwitch k R r3 Hd3 Hk (or_intror eq_refl) H3 env3), !ostmt_switch, Ecs. reflexivity. }
      rewrite (Hinit init cur _ _ r Hi Hd Haft H1 env), !ostmt_switch.
      destruct (init_nd_inv _ Hi) as [->|[x [-> [_ [_ Hdx]]]]]; cbn [declo oopt app]; rewrite ?Hdx; cbn [app]; rewrite <- ?app_assoc; reflexivity.
Qed.

Theorem pass2_scope f body r env : soks body = true -> rw_stmts f body (mkBlock KDelay) = OK r ->
  ol env (bstmts r) = ol env body.
Proof. intros Hs H. exact (proj1 (rw_scope f) body (mkBlock KDelay) r Hs (dinv_mk KDelay) H env). Qed.
End S.
