"""Regenerates MANIFEST.json from the table below (run: python3 lib/manifest_gen.py)."""
import json
import os

VERIF = os.path.dirname(os.path.dirname(os.path.abspath(__file__)))

CHECKS = {
    "C08": dict(
        technique="Coq proof: exact-fuel refinement machine(seq.go) = reference interpreter, lifted to all operation histories; correspondence check model vs real seq on generated and exhaustively enumerated terms",
        text="Theorem C08_refinement (Props_C08.v): for every term, world and history of MoveNext/Current/Send/Result interleaved with arbitrary consumer actions, the definitional interpreter of seq.go returns the reference interpreter's responses and world; laws as corollaries. The model is tied to the code on every run by evaluating machine and reference models (vm_compute) on the cases the real package just ran, including the depth of every user-code call.",
        note="Trusted: Coq kernel + vm_compute; SeqMachine.v as a faithful model of seq/seq.go (checked by correspondence, bounded by the generators); trampoline unwinding modelled by an epoch test; Go harness and renderers. No axioms (Print Assumptions: closed).",
        design="§6 C08"),
}

NOT_YET = {}


def main():
    props = [json.loads(l) for l in open(os.path.join(VERIF, "properties.jsonl"))]
    checks = []
    na = []
    for p in props:
        pid = p["id"]
        if pid in CHECKS:
            c = CHECKS[pid]
            checks.append({
                "property_id": pid,
                "quick_cmd": "bin/check %s --tier quick" % pid,
                "thorough_cmd": "bin/check %s --tier thorough" % pid,
                "evidence_file": "/verif/evidence/%s.json" % pid,
                "replay_cmd_template": "bin/check %s --replay {path}" % pid,
                "engine": "coq+correspondence",
                "level_claimed": {"category": c.get("category", "proof"), "text": c["text"], "design_ref": c["design"]},
                "level_note": c["note"],
                "technique": c["technique"],
            })
        else:
            na.append({"property_id": pid, "reason": NOT_YET.get(pid, "check not built yet in this round (work in progress, see DESIGN.md status section)")})
    m = {
        "version": 1,
        "setup_cmd": "bin/setup",
        "hooks": {
            "guard": "verif",
            "enable": "go build -tags verif (harness module with replace github.com/goghcrow/go-co => /repo)",
            "baseline_off_cmd": "cd /repo && GOFLAGS=-mod=mod go test -vet=off -count=1 $(go list ./... | grep -v -e rewriter/test/src -e example/microthread -e rewriter/test/out_tmp)",
            "source_commits": [],
            "add_only": True,
        },
        "engines": [{"name": "coq+correspondence", "path": "/verif/coq, /verif/harness, /verif/lib",
                     "serves_properties": sorted(CHECKS), "kind_free_text": "Coq 8.16.1 development (models + theorems) tied to /repo by a differential correspondence check that runs on every invocation"}],
        "checks": checks,
        "not_applicable": na,
        "notes": "Single entry point bin/check <id> [--tier quick|thorough] [--replay f]; VERIF_SEED seeds all generators.",
    }
    with open(os.path.join(VERIF, "MANIFEST.json"), "w") as f:
        json.dump(m, f, indent=1)


if __name__ == "__main__":
    main()
