"""pass1 of the rewriter as seen by the source abstraction: YieldFrom and range-over-iterator are
lowered to the core loop the real compiler produces before pass2 (rewriter/yieldfrom_rewrite.go,
rewriteForRange), including the block that hoists the `ɪʇ := g()` initialiser:

    YieldFrom(g())            =>  { ɪʇ := g(); for ɪʇ.MoveNext() { ʌ := ɪʇ.Current(); Yield(ʌ) } }
    for w := range g() { B }  =>  { ɪʇ := g(); for ɪʇ.MoveNext() { w := ɪʇ.Current(); B } }
    for w = range g() { B }   =>  { ɪʇ := g(); for ɪʇ.MoveNext() { w = ɪʇ.Current(); B } }

The lowered program is in the abstract syntax of coq/Syntax.v, so the rewriter and optimiser models
and the side conditions of the C01 / C07 theorems apply to it; the structural correspondence then
checks this lowering together with the models against the real output."""


def norm(t):
    import re
    return re.sub(r"[\s;]", "", t)


def atom(text):
    return {"s": "atom", "t": norm(text)}


def loop(g, first, body):
    return {"s": "block", "b": [atom("ɪʇ := %s()" % g),
                                {"s": "for", "init": None, "c": "ɪʇ.MoveNext()", "post": None, "b": first + body}]}


def yieldfrom(s):
    return [loop(s["g"], [atom("ʌ := ɪʇ.Current()")], [{"s": "yield", "v": "ʌ"}])]


def rangeiter(s, body_abs):
    """body_abs: the already abstracted loop body."""
    x = "w%d" % s["id"]
    use = atom("tr.U(%d, %s)" % (s["id"], x))
    if s["form"] == "=":
        return [atom("var %s int" % x), loop(s["g"], [atom("%s = ɪʇ.Current()" % x), use], body_abs), use]
    return [loop(s["g"], [atom("%s := ɪʇ.Current()" % x), use], body_abs)]
