(* EtaModel.v — eta reduction of ordinary closures by the optimiser (rewriter/optimize.go: etaReduction,
   which is applied to every function literal of a processed file, generator or not):

       func(params) T { return callee(params) }   ==>   callee

   fires when the arguments are exactly the parameters in order ([args_match]), the literal and the callee
   have identical types ([types_identical]) and the callee is "stable" (stableCallee).  After the reduction
   the callee expression is evaluated once, where the literal was written, instead of at every call.

   The model: a callee expression is classified as the optimiser classifies it; its evaluation in a world
   (function-typed variables, receiver variables, an effect counter) yields a function value and may have an
   effect.  A closure is created, arbitrary other code runs, then the closure is called. *)
From Coq Require Import List Arith Bool.
Import ListNotations.

Inductive callee :=
| CPkgFunc (f : nat)                 (* package-level function, non-generic or fully instantiated *)
| CPartialGeneric (f : nat)          (* generic function whose type arguments are (partly) inferred from the call *)
| CVar (x : nat)                     (* function-typed variable, parameter or field *)
| CMethodGen (it m : nat)            (* method value of a compiler-generated iterator variable ɪʇ… (assigned once) *)
| CMethodUser (x m : nat)            (* method value of any other receiver expression *)
| CCallResult (g : nat)              (* the result of a call: mk()(…) *)
| CBuiltin (b : nat)                 (* len, cap, … *)
| CConversion (t : nat).             (* T(x) *)

(* stableCallee *)
Definition stable (c : callee) : bool :=
  match c with CPkgFunc _ | CMethodGen _ _ => true | _ => false end.

(* the decision of etaReduction *)
Definition reduces (args_match types_identical : bool) (c : callee) : bool :=
  args_match && types_identical && stable c.

Section Sem.
  (* function values are functions on numbers; what functions, methods, builtins and conversions compute is arbitrary *)
  Variable pkg : nat -> nat -> nat.
  Variable meth : nat -> nat -> nat -> nat.       (* method m of receiver value r *)
  Variable made : nat -> nat -> nat -> nat.       (* the function returned by the n-th call of g *)
  Variable builtin conv : nat -> nat -> nat.

  Record world := { fvar : nat -> nat -> nat;     (* function-typed variables *)
                    gvar : nat -> nat;            (* generated iterator variables *)
                    uvar : nat -> nat;            (* receiver variables of user code *)
                    calls : nat }.                (* number of calls made so far (an observable effect) *)

  Definition tick (w : world) : world := {| fvar := fvar w; gvar := gvar w; uvar := uvar w; calls := S (calls w) |}.

  (* evaluating the callee EXPRESSION (not calling it yet) *)
  Definition evalc (c : callee) (w : world) : world * (nat -> nat) :=
    match c with
    | CPkgFunc f | CPartialGeneric f => (w, pkg f)
    | CVar x => (w, fvar w x)
    | CMethodGen it m => (w, meth m (gvar w it))
    | CMethodUser x m => (w, meth m (uvar w x))
    | CCallResult g => (tick w, made g (calls w))
    | CBuiltin b => (w, builtin b)
    | CConversion t => (w, conv t)
    end.

  (* the closure as written: nothing happens where it is created; each call evaluates the callee, then calls it *)
  Definition run_closure (c : callee) (between : world -> world) (a : nat) (w0 : world) : world * nat :=
    let w1 := between w0 in
    let '(w2, f) := evalc c w1 in (w2, f a).

  (* the reduced form: the callee is evaluated where the literal was; the call applies that value *)
  Definition run_reduced (c : callee) (between : world -> world) (a : nat) (w0 : world) : world * nat :=
    let '(w0', f) := evalc c w0 in
    let w1 := between w0' in (w1, f a).

  (* generated iterator variables are assigned once: other code does not change them *)
  Definition keeps_generated (between : world -> world) : Prop := forall w it, gvar (between w) it = gvar w it.

  Theorem eta_sound c between a w0 :
    stable c = true -> keeps_generated between ->
    run_reduced c between a w0 = run_closure c between a w0.
  Proof.
    intros Hs Hk. destruct c; try discriminate; unfold run_reduced, run_closure; cbn [evalc].
    - reflexivity.
    - rewrite Hk. reflexivity.
  Qed.

  Theorem reduces_sound am ti c between a w0 :
    reduces am ti c = true -> keeps_generated between -> run_reduced c between a w0 = run_closure c between a w0.
  Proof.
    unfold reduces. intros H. apply andb_prop in H. destruct H as [_ H]. apply eta_sound. exact H.
  Qed.
End Sem.

(* ---- the side condition is needed: for each class the optimiser keeps, reducing would be observable ---- *)
Definition w_init : world := {| fvar := fun _ y => y + 1; gvar := fun _ => 0; uvar := fun _ => 1; calls := 0 |}.

(* a function variable reassigned between creation and call (g := func(x) { return f(x) }; f = …) *)
Example eta_unsound_var :
  let between := fun w => {| fvar := fun _ y => y * 10; gvar := gvar w; uvar := uvar w; calls := calls w |} in
  snd (run_reduced (fun _ y => y) (fun _ _ y => y) (fun _ _ y => y) (fun _ y => y) (fun _ y => y) (CVar 0) between 1 w_init)
  <> snd (run_closure (fun _ y => y) (fun _ _ y => y) (fun _ _ y => y) (fun _ y => y) (fun _ y => y) (CVar 0) between 1 w_init).
Proof. vm_compute. discriminate. Qed.

(* a receiver variable reassigned between creation and call (get := func() int { return cur.Get() }; cur = cur.Next) *)
Example eta_unsound_method :
  let between := fun w => {| fvar := fvar w; gvar := gvar w; uvar := fun _ => 2; calls := calls w |} in
  snd (run_reduced (fun _ y => y) (fun _ r y => r + y) (fun _ _ y => y) (fun _ y => y) (fun _ y => y) (CMethodUser 0 0) between 5 w_init)
  <> snd (run_closure (fun _ y => y) (fun _ r y => r + y) (fun _ _ y => y) (fun _ y => y) (fun _ y => y) (CMethodUser 0 0) between 5 w_init).
Proof. vm_compute. discriminate. Qed.

(* the result of a call (g := func() int { return mk()() }): after reduction mk() runs where the literal is written,
   even if g is never called, and only once however often g is called *)
Example eta_unsound_call_result :
  calls (fst (evalc (fun _ y => y) (fun _ _ y => y) (fun _ n y => n + y) (fun _ y => y) (fun _ y => y) (CCallResult 0) w_init)) = 1
  /\ calls w_init = 0.
Proof. split; reflexivity. Qed.
