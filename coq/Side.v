(* Side.v — the computable side conditions of the compiler theorems (definitions only,
   no proofs, so that they can be evaluated by the correspondence checks even when a
   proof is broken): nesting depth [fitsb], the fragment covered by the simulation
   proof [supp], legality of generated code [okb / legalb], and their conjunction
   [c01_hyps]. *)
From Coq Require Import List Arith Bool.
From Verif Require Import Base Syntax Rewrite.
Import ListNotations.

Definition simple (o : option stmt) : bool :=
  match o with None => true | Some (SAtom _) | Some (SYield _) => true | _ => false end.

(* Go rejects a fallthrough in the last clause of a switch *)
Definition no_final_fallthrough (cs : list (clabel * list stmt)) : bool :=
  match last (map Some cs) None with
  | Some (_, b) => match last (map Some b) None with Some SFallthrough => false | _ => true end
  | None => true
  end.

(* nesting depth below k, init/post statements simple *)
Fixpoint fitsb (k : nat) (s : stmt) {struct k} : bool :=
  match k with 0 => false | S k =>
    match s with
    | SBlock b => forallb (fitsb k) b
    | SIf i _ t e => simple i && forallb (fitsb k) t &&
                     match e with ENone => true | EElse b => forallb (fitsb k) b | EElif x => fitsb k x end
    | SSwitch i _ cs => simple i && forallb (fun lb => forallb (fitsb k) (snd lb)) cs
    | SFor i _ p b => simple i && simple p && forallb (fitsb k) b
    | SRet e =>
        (fix fx (m : nat) (e : sexp) {struct m} : bool :=
           match m with 0 => false | S m =>
             let ft := fun (t : thunk) => match t with TLit l => forallb (fitsb k) l | TSig _ => true end in
             match e with
             | XBind _ t | XDelay t => ft t
             | XCombine a b => fx m a && fx m b
             | XFor _ p body => simple p && fx m body
             | _ => true
             end
           end) (S k) e
    | _ => true
    end
  end.


(* ---- legality of generated code (Strict.v) ---- *)
Definition is_sig (x : sexp) : bool := match x with XNormal | XBreak | XContinue | XReturn => true | _ => false end.

Definition okt (okl : list stmt -> bool) (t : thunk) : bool :=
  match t with
  | TLit l => okl l && is_term TFUEL (SBlock l) && fitsb TFUEL (SBlock l)
  | TSig x => is_sig x
  end.

Fixpoint okx (okl : list stmt -> bool) (e : sexp) : bool :=
  match e with
  | XBind _ t | XDelay t => okt okl t
  | XCombine a b => okx okl a && okx okl b
  | XFor _ p body => simple p && okx okl body
  | _ => true
  end.

Fixpoint okb (k : nat) (il isw fall : bool) (s : stmt) {struct k} : bool :=
  match k with 0 => false | S k =>
    match s with
    | SAtom _ | SYield _ => true
    | SBlock b => forallb (okb k il isw false) b
    | SIf i _ t e => simple i && forallb (okb k il isw false) t &&
                     match e with ENone => true | EElse b => forallb (okb k il isw false) b | EElif x => okb k il isw false x end
    | SSwitch i _ cs => simple i && forallb (fun lb => forallb (okb k il true true) (snd lb)) cs
    | SFor i _ p b => simple i && simple p && forallb (okb k true isw false) b
    | SBreak => il || isw
    | SContinue => il
    | SReturn => false
    | SFallthrough => fall
    | SRet e => okx (forallb (okb k false false false)) e
    end
  end.

(* the compiled body handed to Start(Delay(func() Seq { out })) *)
Definition legalb (k : nat) (out : list stmt) : bool :=
  okt (forallb (okb k false false false)) (TLit out).


(* ---- target code the link theorems (Link.v, LinkMachine.v) apply to: nesting depth below k, no native Yield statement,
   init / post statements that are atoms ---- *)
Definition lko (o : option stmt) : bool := match o with None | Some (SAtom _) => true | _ => false end.

Fixpoint lkx (okl : list stmt -> bool) (e : sexp) : bool :=
  match e with
  | XBind _ (TLit l) | XDelay (TLit l) => okl l
  | XBind _ (TSig x) | XDelay (TSig x) => is_sig x
  | XCombine a b => lkx okl a && lkx okl b
  | XFor _ p body => lko p && lkx okl body
  | _ => true
  end.

Fixpoint lk (k : nat) (s : stmt) {struct k} : bool :=
  match k with 0 => false | S k =>
    match s with
    | SYield _ => false
    | SBlock b => forallb (lk k) b
    | SIf i _ t e => lko i && forallb (lk k) t &&
                     match e with ENone => true | EElse b => forallb (lk k) b | EElif x => lk k x end
    | SSwitch i _ cs => lko i && forallb (fun lb => forallb (lk k) (snd lb)) cs
    | Syntax.SFor i _ p b => lko i && lko p && forallb (lk k) b
    | SRet e => lkx (forallb (lk k)) e
    | _ => true
    end
  end.


(* ---- statements covered by the pass2 simulation proof (RwCorrect.v) ---- *)
Definition init_ok (i : option stmt) : bool :=
  match i with None => true | Some (SAtom _) => true | _ => false end.
(* init statements of for / switch may also be a Yield (the rewriter hoists them in front) *)
Definition init_ok2 (i : option stmt) : bool :=
  match i with None => true | Some (SAtom _) | Some (SYield _) => true | _ => false end.
(* the post statement of a for loop: nothing / an atom, or a Yield provided no `continue` of the body
   targets this loop (the rewriter appends the post statement to the body callback, so a continue
   would skip it: finding F1) *)
Definition post_okb (k : nat) (p : option stmt) (b : list stmt) : bool :=
  match p with
  | None | Some (SAtom _) => true
  | Some (SYield _) => forallb (okb k false true false) b
  | _ => false
  end.
Definition is_if (s : stmt) : bool := match s with SIf _ _ _ _ => true | _ => false end.

(* statements without any Yield (init / post statements are atoms) *)
Fixpoint ny (k : nat) (s : stmt) {struct k} : bool :=
  match k with 0 => false | S k =>
    match s with
    | SYield _ => false
    | SBlock b => forallb (ny k) b
    | SIf i _ t e => init_ok i && forallb (ny k) t &&
                     match e with ENone => true | EElse b => forallb (ny k) b | EElif x => ny k x end
    | SSwitch i _ cs => init_ok i && forallb (fun lb => forallb (ny k) (snd lb)) cs
    | SFor i _ p b => init_ok i && init_ok p && forallb (ny k) b
    | _ => true
    end
  end.

(* a case body the proof covers: supported statements that either contain no Yield at all (the
   rewriter keeps such a clause as it is, native break / fallthrough included), or never leave the
   clause by break or fallthrough (the rewriter mistranslates a break that ends up inside a
   callback: finding F2) *)
Definition clause_ok (sup : stmt -> bool) (k : nat) (b : list stmt) : bool :=
  forallb sup b &&
  (forallb (ny k) b ||
   (forallb (fitsb k) b && negb (has_break (S k) (SBlock b)) && forallb (okb k true true false) b)).

Fixpoint supp (k : nat) (s : stmt) {struct k} : bool :=
  match k with 0 => false | S k =>
    match s with
    | SAtom _ | SYield _ | SBreak | SContinue | SFallthrough => true
    | SRet XReturn => true
    | SBlock b => forallb (supp k) b
    | SIf i c t e =>
        init_ok i && forallb (supp k) t &&
        match e with
        | ENone => true
        | EElse b => forallb (supp k) b
        | EElif x => is_if x && supp k x
        end
    | SFor i c p b => init_ok2 i && post_okb k p b && forallb (supp k) b
    | SSwitch i t cs => init_ok2 i && forallb (fun lb => clause_ok (supp k) k (snd lb)) cs
    | _ => false
    end
  end.

Definition supps (k : nat) (l : list stmt) : bool := forallb (supp k) l.



(* the fragment predicate with one switch: [supp2 true] also excludes `fallthrough` (needed where the legality of the
   output is derived, P3Legal.v: the placement of a source fallthrough is not tracked); [supp2 false] is Side.supp *)
Fixpoint supp2 (sf : bool) (k : nat) (s : stmt) {struct k} : bool :=
  match k with 0 => false | S k =>
    match s with
    | SAtom _ | SYield _ | SBreak | SContinue => true
    | SFallthrough => negb sf
    | SRet XReturn => true
    | SBlock b => forallb (supp2 sf k) b
    | SIf i c t e =>
        init_ok i && forallb (supp2 sf k) t &&
        match e with
        | ENone => true
        | EElse b => forallb (supp2 sf k) b
        | EElif x => is_if x && supp2 sf k x
        end
    | SFor i c p b => init_ok2 i && post_okb k p b && forallb (supp2 sf k) b
    | SSwitch i t cs => init_ok2 i && forallb (fun lb => clause_ok (supp2 sf k) k (snd lb)) cs
    | _ => false
    end
  end.
Definition supps2 (sf : bool) (k : nat) (l : list stmt) : bool := forallb (supp2 sf k) l.


(* pass0 followed by pass2: the callback body before pass3 *)
Definition pass12 (body : list stmt) : res (list stmt) :=
  let body0 := map (pass0 400) body in
  let fuel := 50 + 4 * size 400 (SBlock body0) in
  r <- rw_stmts fuel body0 (mkBlock KDelay) ;;
  OK (bstmts r).


(* the computable side conditions of the theorem, at fixed depth bounds *)
Definition KS := 100.
Definition c01_hyps (body : list stmt) : bool :=
  match pass12 body, rewrite body with
  | OK mid, OK out =>
      supps KS (map (pass0 400) body) && forallb (fitsb KS) body && forallb (fitsb KS) mid && legalb KS out
  | _, _ => false
  end.


(* the side conditions of the compiler theorem for bodies without `fallthrough`: they concern the INPUT only (fragment,
   nesting depth of the program and of the intermediate code); legality of the output is a theorem (P3Legal.v) *)
Definition c01_hyps_nf (body : list stmt) : bool :=
  match pass12 body with
  | OK mid => supps2 true KS (map (pass0 400) body) && forallb (fitsb KS) body && forallb (fitsb KS) mid
  | _ => false
  end.

(* classification used by the correspondence check: 0 the model rejects the program; 1 it
   accepts but its output is not legal in the sense of [legalb]; 2 legal but outside the
   fragment the C01 theorem covers; 3 all side conditions of the C01 theorem hold; 4 also those of the
   end-to-end theorem down to the machine model of seq.go (Link.v: no native Yield left in the output);
   plus 10 when the input-only side conditions [c01_hyps_nf] hold (legality of the output is then a theorem) *)
Definition hyp_code (body : list stmt) : nat :=
  match rewrite body with
  | Err _ => 0
  | OK out => (if legalb KS out then (if c01_hyps body then (if forallb (lk KS) out then 4 else 3) else 2) else 1)
              + (if c01_hyps_nf body then 10 else 0)
  end.
