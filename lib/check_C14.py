"""C14 — iterators are independent under any interleaving (and across goroutines, by the race detector)."""
import itertools
import json
import os
import random

import common as C
import rtcheck
import rtgen
import rtprops


def schedules(k, m):
    """All interleavings of k generators with exactly m MoveNext steps each."""
    base = []
    for i in range(k):
        base += [i] * m
    return sorted(set(itertools.permutations(base)))


def project(events, gi):
    """Events of generator gi in an interleaved log, with the index normalised to 0."""
    out, cur = [], None
    for e in events:
        if 10 <= e[0] <= 13:
            cur = e[1]
            if cur == gi:
                out.append([e[0], 0, e[2]])
            continue
        if cur == gi:
            out.append(list(e))
    return out


def solo_case(case, gi):
    return {"terms": [case["terms"][gi]], "hist": [[0] + o[1:] for o in case["hist"] if o[0] == gi], "budget": case["budget"]}


def check(rep, tier):
    if not rtprops.proof_or_violation(rep, "C14"):
        return
    rng = random.Random(C.seed() * 104729 + 14)
    cases = []
    # exhaustive schedules: k generators on disjoint registers, m advances each
    for k, m, nterms in ((2, 3, 12), (3, 2, 8)) if tier == "quick" else ((2, 4, 20), (3, 3, 10)):
        for _ in range(nterms):
            g = rtgen.Gen(rng, panics=True)
            terms = []
            for i in range(k):
                g.regs = [i]
                terms.append(g.term(rng.choice([3, 5, 7])))
            for sch in schedules(k, m):
                h = []
                for gi in sch:
                    h.append([gi, "mn"])
                    h.append([gi, "cur"])
                cases.append({"terms": rtgen.copy(terms), "hist": h, "budget": 200})
    for i in range(200 if tier == "quick" else 2000):
        cases.append(rtgen.make_case(rng, rng.choice([3, 5, 8]), ngens=rng.choice([2, 3]), histlen=10, budget=200,
                                     panics=(i % 3 == 0), disjoint=True))
    rule = ("k=2,3 generators whose user code works on disjoint registers, all interleavings of m advances each (exhaustive "
            "schedules for fixed random terms) plus random schedules incl. Send/Result and panicking thunks; checked (a) real "
            "runtime vs Coq machine and vs k independent reference generators, (b) each generator's projection of the interleaved "
            "run = its solo run on the real runtime, (c) the same cases on 6 goroutines under the Go race detector")

    def extra(work, exe, results):
        # (b) interleaved projection == solo run, on the real runtime
        solos, refs = [], []
        for ci, c in enumerate(cases):
            for gi in range(len(c["terms"])):
                solos.append(solo_case(c, gi))
                refs.append((ci, gi))
        sres = rtcheck.run_go(exe, solos)
        bad = []
        for (ci, gi), sr in zip(refs, sres):
            # budget is shared in the interleaved run; skip cases that ran out of budget (event 9,-1)
            if any(e[0] == 9 and e[1] == -1 for e in results[ci]["events"]) or any(e[0] == 9 and e[1] == -1 for e in sr["events"]):
                continue
            if project(results[ci]["events"], gi) != [list(e) for e in sr["events"]]:
                bad.append((ci, gi))
        rep.coverage["solo_vs_interleaved_comparisons"] = len(solos)
        rep.coverage["solo_vs_interleaved_differences"] = len(bad)
        if bad:
            ci, gi = bad[0]
            path = rep.write_replay("interleaving", {
                "what": "generator %d behaves differently when interleaved with the others than when consumed alone" % gi,
                "case": cases[ci], "interleaved_events": results[ci]["events"],
                "solo_case": solo_case(cases[ci], gi),
                "solo_events": sres[refs.index((ci, gi))]["events"]})
            rep.violation(path)
        # (c) goroutines + race detector
        rexe = os.path.join(work, "racedrive")
        rc, o, e = C.run(["go", "build", "-race", "-tags", "verif", "-o", rexe, "./cmd/racedrive"], cwd=C.HARNESS, timeout=900)
        if rc != 0:
            raise RuntimeError("cannot build racedrive: " + (o + e)[-2000:])
        sample = cases[:: max(1, len(cases) // (150 if tier == "quick" else 1500))]
        rc, o, e = C.run(["timeout", "600", rexe], input=json.dumps(sample), timeout=700)
        rep.coverage["race_detector_cases"] = len(sample)
        rep.coverage["race_detector_exit"] = rc
        if rc != 0:
            path = rep.write_replay("race", {"what": "parallel consumption on goroutines: data race reported or results differ",
                                             "exit": rc, "stdout": o[-3000:], "stderr": e[-6000:]})
            rep.violation(path)

    def extra2(work, exe, results):
        extra(work, exe, results)
        # (d) many recovered panics on one iterator must not affect another one
        n = 300000
        rc, o, e = C.run(["timeout", "300", exe, "-stress", str(n)], timeout=330)
        rep.coverage["recovered_panics_before_healthy_run"] = n
        if rc != 0:
            path = rep.write_replay("panic_accumulation", {"what": "an iterator misbehaves after recovered panics of ANOTHER iterator",
                                                           "how": "harness/cmd/rtdrive -stress %d" % n, "stdout": o[-2000:], "stderr": e[-2000:]})
            rep.violation(path)
        # (e) the range iterators of seq/iter.go consumed on 8 goroutines under the race detector
        iexe = os.path.join(work, "iterdrive_race")
        rc, o, e = C.run(["go", "build", "-race", "-tags", "verif", "-o", iexe, "./cmd/iterdrive"], cwd=C.HARNESS, timeout=900)
        if rc != 0:
            raise RuntimeError("cannot build iterdrive -race: " + (o + e)[-2000:])
        rc, o, e = C.run(["timeout", "300", iexe, "-par"], timeout=330)
        rep.coverage["range_iterators_race_exit"] = rc
        if rc != 0:
            path = rep.write_replay("iter_race", {"what": "fresh range iterators consumed on different goroutines race",
                                                  "how": "go build -race ./cmd/iterdrive && iterdrive -par", "stderr": e[-6000:]})
            rep.violation(path)

    rtprops.correspondence(rep, "C14", cases, rule, extra=extra2,
                           what="interleaved generators on the real runtime disagree with independent reference generators")
    rep.assumptions.append("goroutine scheduling and the Go memory model are not modelled; parallel consumption is checked by the race detector on a sample only")


replay = rtprops.replay
