(* ScopeP3.v — pass0 and pass3 of the rewriter model leave the scoping observation of Scope.v
   unchanged (they replace return / break / continue by `return seq.<Signal>()` and drop a
   redundant trailing `return seq.Normal()`: none of these is an occurrence or a declaration),
   and with that the whole of [rewrite] does: [rewrite_scope]. *)
From Coq Require Import List Arith Bool Lia.
From Verif Require Import Syntax Rewrite P3Rel Scope.
Import ListNotations.

Section S.
Variable dcl : nat -> bool.
Notation ostmt := (ostmt dcl).
Notation ol := (ol dcl).
Notation decl := (decl dcl).
Notation declo := (declo dcl).
Notation oopt := (oopt dcl).
Notation oels := (oels dcl).
Notation oexp := (oexp dcl).
Notation othunk := (othunk dcl).
Notation ocases := (ocases dcl).

Definition SP (g : stmt -> stmt) : Prop := forall s, (forall env, ostmt env (g s) = ostmt env s) /\ decl (g s) = decl s.

Lemma sp_list g : SP g -> forall l env, ol env (map g l) = ol env l.
Proof.
  intros Hg l. induction l as [|x r IH]; intros env; [reflexivity|].
  cbn [map ol]. destruct (Hg x) as [H1 H2]. rewrite H1, H2, IH. reflexivity.
Qed.
Lemma sp_opt g : SP g -> forall o env, oopt env (option_map g o) = oopt env o /\ declo (option_map g o) = declo o.
Proof. intros Hg [x|] env; [|split; reflexivity]. destruct (Hg x) as [H1 H2]. cbn. split; [apply H1|exact H2]. Qed.

(* ---- pass0 ---- *)
Lemma pass0_sp n : SP (pass0 n).
Proof.
  induction n as [|n IH]; [intros s; split; reflexivity|].
  intros s. destruct s as [a|v|b|i c t e|i tag cs|i c p b| | | | |e]; try (split; reflexivity).
  - split; [|reflexivity]. intros env. cbn [pass0]. rewrite !ostmt_block. apply sp_list. exact IH.
  - split; [|reflexivity]. intros env. cbn [pass0]. rewrite !ostmt_if.
    destruct (sp_opt _ IH i env) as [H1 H2]. rewrite H1, H2, (sp_list _ IH).
    destruct e as [|eb|x]; [reflexivity| |].
    + rewrite !oels_else, (sp_list _ IH). reflexivity.
    + cbn [oels]. rewrite (proj1 (IH x)). reflexivity.
  - split; [|reflexivity]. intros env. cbn [pass0]. rewrite !ostmt_switch.
    destruct (sp_opt _ IH i env) as [H1 H2]. rewrite H1, H2. f_equal. f_equal.
    induction cs as [|[lab b] r IHc]; [reflexivity|]. cbn [map ocases fst snd]. rewrite (sp_list _ IH), IHc. reflexivity.
  - split; [|reflexivity]. intros env. cbn [pass0]. rewrite !ostmt_for.
    destruct (sp_opt _ IH i env) as [H1 H2]. rewrite H1, H2, (sp_list _ IH).
    destruct (sp_opt _ IH p (declo i ++ env)) as [H3 _]. rewrite H3. reflexivity.
Qed.

Lemma oexp_bind env v t : oexp env (XBind v t) = (OU v, env) :: othunk env t.
Proof. reflexivity. Qed.
Lemma oexp_delay env t : oexp env (XDelay t) = othunk env t.
Proof. reflexivity. Qed.
Lemma oexp_combine env a b : oexp env (XCombine a b) = oexp env a ++ oexp env b.
Proof. reflexivity. Qed.
Lemma oexp_for env c p body : oexp env (XFor c p body) =
  match c with Some (CExp c) => [(OU c, env)] | Some (CFun c) => [(OU c, env)] | None => [] end ++ oexp env body ++ oopt env p.
Proof. reflexivity. Qed.
Lemma ostmt_ret env e : ostmt env (SRet e) = oexp env e.
Proof. reflexivity. Qed.

(* ---- pass3 ---- *)
Lemma p3_list_cons' n il isw x r :
  p3_list n il isw (x :: r) = (fst (p3 n il isw x) :: fst (p3_list n il isw r), snd (p3 n il isw x) || snd (p3_list n il isw r)).
Proof.
  cbn [p3_list]. fold (p3_list n il isw). destruct (p3 n il isw x) as [x' a]. destruct (p3_list n il isw r) as [r' b]. reflexivity.
Qed.
Lemma ol_snoc_normal env pre : ol env (pre ++ [SRet XNormal]) = ol env pre.
Proof. rewrite ol_app. cbn. apply app_nil_r. Qed.

Lemma p3_sp n : forall il isw, SP (fun s => fst (p3 n il isw s)).
Proof.
  induction n as [|n IH]; [intros il isw s; split; reflexivity|].
  assert (HL : forall il isw l env, ol env (fst (p3_list n il isw l)) = ol env l).
  { intros il isw l. induction l as [|x r IHl]; intros env; [reflexivity|].
    rewrite p3_list_cons'. cbn [fst ol]. destruct (IH il isw x) as [H1 H2]. cbn beta in H1, H2. rewrite H1, H2, IHl. reflexivity. }
  assert (HF : forall l env, ol env (p3_fbody n l) = ol env l).
  { intros l env. pose proof (HL false false l env) as Fl. unfold p3_fbody.
    destruct (p3_list n false false l) as [l' rep]. cbn [fst] in Fl. destruct rep; [|exact Fl].
    destruct (rm_redundant_spec l') as [->|[pre [E [-> _]]]]; [exact Fl|].
    subst l'. rewrite ol_snoc_normal in Fl. exact Fl. }
  assert (HO : forall il isw o env, oopt env (fst (p3_opt n il isw o)) = oopt env o /\ declo (fst (p3_opt n il isw o)) = declo o).
  { intros il isw [x|] env; [|split; reflexivity]. unfold p3_opt. destruct (IH il isw x) as [H1 H2]. cbn beta in H1, H2.
    destruct (p3 n il isw x) as [x' a]. cbn [fst oopt declo] in *. split; [apply H1|exact H2]. }
  assert (HX : forall m e env, oexp env (p3_px n m e) = oexp env e).
  { induction m as [|m IHm]; intros e env; [reflexivity|]. rewrite p3_px_S.
    destruct e as [v t|t|e1 e2|c post e| | | |]; try reflexivity.
    + destruct t as [l|x]; [|reflexivity]. cbn [p3_th]. rewrite !oexp_bind, !othunk_lit, HF. reflexivity.
    + destruct t as [l|x]; [|reflexivity]. cbn [p3_th]. rewrite !oexp_delay, !othunk_lit, HF. reflexivity.
    + rewrite !oexp_combine, !IHm. reflexivity.
    + rewrite !oexp_for, IHm. destruct post as [x|]; [|reflexivity]. cbn [Scope.oopt]. rewrite (proj1 (IH false false x)). reflexivity. }
  intros il isw s. rewrite p3_S.
  destruct s as [a|v|body|init c thn el|init tag cases|init c post body| | | | |e]; try (split; reflexivity).
  - pose proof (HL il isw body) as Hb. destruct (p3_list n il isw body) as [b' a]. cbn [fst] in *. split; [|reflexivity].
    intros env. rewrite !ostmt_block. apply Hb.
  - pose proof (HO il isw init) as Hi. destruct (p3_opt n il isw init) as [i' a0]. cbn [fst] in Hi.
    pose proof (HL il isw thn) as Ht. destruct (p3_list n il isw thn) as [t' a1]. cbn [fst] in Ht.
    split; [|destruct el as [|eb|x]; [reflexivity|destruct (p3_list n il isw eb); reflexivity|destruct (p3 n il isw x); reflexivity]].
    intros env. destruct (Hi env) as [Hi1 Hi2].
    destruct el as [|eb|x].
    + cbn [fst]. rewrite !ostmt_if, Hi1, Hi2, Ht. reflexivity.
    + pose proof (HL il isw eb) as He. destruct (p3_list n il isw eb) as [e' a2]. cbn [fst] in *.
      rewrite !ostmt_if, Hi1, Hi2, Ht, !oels_else, He. reflexivity.
    + pose proof (proj1 (IH il isw x)) as He. cbn beta in He. destruct (p3 n il isw x) as [x' a2]. cbn [fst] in *.
      rewrite !ostmt_if, Hi1, Hi2, Ht. cbn [oels]. rewrite He. reflexivity.
  - pose proof (HO il true init) as Hi. destruct (p3_opt n il true init) as [i' a0]. cbn [fst] in Hi.
    assert (HC : forall env, ocases env (fst (p3_clauses n il cases)) = ocases env cases).
    { intros env. induction cases as [|[lab b] r IHc]; [reflexivity|].
      cbn [p3_clauses]. fold (p3_clauses n il). pose proof (HL il true b env) as Fb.
      destruct (p3_list n il true b) as [b' a]. destruct (p3_clauses n il r) as [r' a']. cbn [fst ocases] in *. rewrite Fb, IHc. reflexivity. }
    destruct (p3_clauses n il cases) as [cs' a1]. cbn [fst] in *. split; [|reflexivity].
    intros env. destruct (Hi env) as [Hi1 Hi2]. rewrite !ostmt_switch, Hi1, Hi2, HC. reflexivity.
  - pose proof (HO true isw init) as Hi. destruct (p3_opt n true isw init) as [i' a0]. cbn [fst] in Hi.
    pose proof (HO true isw post) as Hp. destruct (p3_opt n true isw post) as [p' a1]. cbn [fst] in Hp.
    pose proof (HL true isw body) as Hb. destruct (p3_list n true isw body) as [b' a2]. cbn [fst] in *. split; [|reflexivity].
    intros env. destruct (Hi env) as [Hi1 Hi2]. destruct (Hp (declo init ++ env)) as [Hp1 _].
    rewrite !ostmt_for, Hi1, Hi2, Hb, Hp1. reflexivity.
  - destruct (il || isw); split; reflexivity.
  - destruct il; split; reflexivity.
  - cbn [fst]. split; [|reflexivity]. intros env. rewrite !ostmt_ret. apply HX.
Qed.

Lemma p3_fbody_scope n l env : ol env (p3_fbody n l) = ol env l.
Proof.
  assert (Fl : ol env (fst (p3_list n false false l)) = ol env l).
  { revert env. induction l as [|x r IHl]; intros env; [reflexivity|].
    rewrite p3_list_cons'. cbn [fst Scope.ol]. destruct (p3_sp n false false x) as [H1 H2]. cbn beta in H1, H2. rewrite H1, H2, IHl. reflexivity. }
  unfold p3_fbody. destruct (p3_list n false false l) as [l' rep]. cbn [fst] in Fl. destruct rep; [|exact Fl].
  destruct (rm_redundant_spec l') as [->|[pre [E [-> _]]]]; [exact Fl|].
  subst l'. rewrite ol_snoc_normal in Fl. exact Fl.
Qed.

Lemma pass3_body_eq l : pass3_body l = p3_fbody 399 l.
Proof.
  unfold pass3_body, P3FUEL. change 400 with (S 399). rewrite p3_S. change 399 with (S 398) at 1. rewrite p3_px_S. reflexivity.
Qed.

Lemma pass3_body_scope l env : ol env (pass3_body l) = ol env l.
Proof. rewrite pass3_body_eq. apply p3_fbody_scope. Qed.

(* the whole per-generator pipeline of the model *)
Lemma rewrite_inv body out : rewrite body = OK out ->
  exists f r, rw_stmts f (map (pass0 400) body) (mkBlock KDelay) = OK r /\ out = pass3_body (bstmts r).
Proof.
  unfold rewrite. cbv zeta. generalize (50 + 4 * size 400 (SBlock (map (pass0 400) body))). intros f.
  destruct (rw_stmts f (map (pass0 400) body) (mkBlock KDelay)) as [r|e] eqn:E; intros H; [|discriminate].
  exists f, r. split; [exact E|]. unfold bind in H. injection H as <-. reflexivity.
Qed.

Theorem rewrite_scope body out env :
  soks dcl (map (pass0 400) body) = true -> rewrite body = OK out -> ol env out = ol env body.
Proof.
  intros Hs H. destruct (rewrite_inv _ _ H) as [f [r [Hr ->]]].
  rewrite pass3_body_scope, (pass2_scope dcl _ _ _ env Hs Hr). apply sp_list. apply pass0_sp.
Qed.
End S.
