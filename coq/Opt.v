(* Opt.v — model of the optimiser (rewriter/optimize.go) on the abstract syntax of
   generated code: two bottom-up passes over every file,
     A. optimizeDelayCall:  Delay(func() Seq { return X })  =>  X   when X is a call of
        Delay / Combine / For / While / Loop / Return, or Bind(<literal>, ..);
     B. etaReduction:       func() R { return f() }  =>  f           when f is a stable callee
        (here: the signal constructors, and loop conditions that are calls of a method
        value of a compiler-generated iterator variable or of a package-level function).
   Both passes visit children before parents (go-matcher's postOrder), so a node is
   examined after its sub-terms have been rewritten.  Definitions only. *)
From Coq Require Import List Arith Bool.
From Verif Require Import Base Syntax.
Import ListNotations.

(* the body `{ return x }` of a function literal *)
Definition single_ret (l : list stmt) : option sexp :=
  match l with [SRet x] => Some x | _ => None end.

Section O.
  Variable is_lit : nat -> bool.            (* the yielded expression is a basic literal *)
  Variable eta_cond : nat -> option nat.    (* cond expression `f()` with stable callee f  |->  id of f *)

  Definition noeff (x : sexp) : bool :=
    match x with
    | XDelay _ | XCombine _ _ | XFor _ _ _ | XReturn => true
    | XBind v _ => is_lit v
    | _ => false
    end.

  (* building x evaluates nothing but literals: no effect, cannot fail *)
  Fixpoint pureb (x : sexp) : bool :=
    match x with
    | XDelay _ => true
    | XCombine a b => pureb a && pureb b
    | XFor _ _ body => pureb body
    | XBind v _ => is_lit v
    | _ => true
    end.

  (* pass A *)
  Fixpoint optA (n : nat) (s : stmt) {struct n} : stmt :=
    match n with 0 => s | S n =>
      let l := map (optA n) in
      let o := option_map (optA n) in
      match s with
      | SBlock b => SBlock (l b)
      | SIf i c t e => SIf (o i) c (l t) (match e with ENone => ENone | EElse b => EElse (l b) | EElif x => EElif (optA n x) end)
      | SSwitch i t cs => SSwitch (o i) t (map (fun lb => (fst lb, l (snd lb))) cs)
      | SFor i c p b => SFor (o i) c (o p) (l b)
      | SRet e =>
          SRet ((fix ax (m : nat) (e : sexp) {struct m} : sexp :=
                   match m with 0 => e | S m =>
                     let th := fun (t : thunk) => match t with TLit body => TLit (l body) | TSig x => TSig x end in
                     match e with
                     | XBind v t => XBind v (th t)
                     | XDelay t =>
                         match th t with
                         | TLit body' => match single_ret body' with
                                         | Some x => if noeff x then x else XDelay (TLit body')
                                         | None => XDelay (TLit body')
                                         end
                         | t' => XDelay t'
                         end
                     | XCombine a b => XCombine (ax m a) (ax m b)
                     | XFor c p body => XFor c (o p) (ax m body)
                     | _ => e
                     end
                   end) n e)
      | _ => s
      end
    end.

  (* every Delay that pass A elides wraps an expression whose construction is pure; the real
     optimiser looks at the head call only, so this is a condition on its input (it holds for
     the rewriter's output, where the arguments of Combine / For are themselves Delay calls) *)
  Fixpoint okA (n : nat) (s : stmt) {struct n} : bool :=
    match n with 0 => true | S n =>
      let l := forallb (okA n) in
      let o := fun (x : option stmt) => match x with None => true | Some y => okA n y end in
      match s with
      | SBlock b => l b
      | SIf i c t e => o i && l t && (match e with ENone => true | EElse b => l b | EElif x => okA n x end)
      | SSwitch i t cs => o i && forallb (fun lb => l (snd lb)) cs
      | SFor i c p b => o i && o p && l b
      | SRet e =>
          (fix kx (m : nat) (e : sexp) {struct m} : bool :=
             match m with 0 => true | S m =>
               let okth := fun (t : thunk) => match t with TLit body => l body | TSig _ => true end in
               match e with
               | XBind v t => okth t
               | XDelay t =>
                   okth t &&
                   match t with
                   | TLit body => match single_ret (map (optA n) body) with
                                  | Some x => if noeff x then pureb x else true
                                  | None => true
                                  end
                   | TSig _ => true
                   end
               | XCombine a b => kx m a && kx m b
               | XFor c p body => o p && kx m body
               | _ => true
               end
             end) n e
      | _ => true
      end
    end.

  Definition is_sigx (x : sexp) : bool := match x with XNormal | XBreak | XContinue | XReturn => true | _ => false end.

  (* pass B *)
  Fixpoint optB (n : nat) (s : stmt) {struct n} : stmt :=
    match n with 0 => s | S n =>
      let l := map (optB n) in
      let o := option_map (optB n) in
      match s with
      | SBlock b => SBlock (l b)
      | SIf i c t e => SIf (o i) c (l t) (match e with ENone => ENone | EElse b => EElse (l b) | EElif x => EElif (optB n x) end)
      | SSwitch i t cs => SSwitch (o i) t (map (fun lb => (fst lb, l (snd lb))) cs)
      | SFor i c p b => SFor (o i) c (o p) (l b)
      | SRet e =>
          SRet ((fix bx (m : nat) (e : sexp) {struct m} : sexp :=
                   match m with 0 => e | S m =>
                     let th := fun (t : thunk) =>
                       match t with
                       | TLit body => match single_ret (l body) with
                                      | Some x => if is_sigx x then TSig x else TLit (l body)
                                      | None => TLit (l body)
                                      end
                       | TSig x => TSig x
                       end in
                     match e with
                     | XBind v t => XBind v (th t)
                     | XDelay t => XDelay (th t)
                     | XCombine a b => XCombine (bx m a) (bx m b)
                     | XFor c p body =>
                         XFor (match c with
                               | Some (CExp e0) => match eta_cond e0 with Some f => Some (CFun f) | None => Some (CExp e0) end
                               | other => other
                               end) (o p) (bx m body)
                     | _ => e
                     end
                   end) n e)
      | _ => s
      end
    end.

  Definition OFUEL := 400.
  (* the optimised argument of seq.Start *)
  Definition optimise (e : sexp) : sexp :=
    match optB OFUEL (optA OFUEL (SRet e)) with SRet e' => e' | _ => e end.
  Definition opt_ok (e : sexp) : bool := okA OFUEL (SRet e).
End O.
