(* Reject.v — a Yield in the init statement of an `if` is outside the supported subset; the
   rewriter model never accepts a body that contains one at a position that can execute:
   the error is not lost in a trivial path, in a sub-block that is later discarded, or in the
   continuation of a later statement.  (Statements after a break / continue / fallthrough in
   the same list are dropped by the rewriter — they cannot execute — so they do not count.) *)
From Coq Require Import List Arith Bool Lia.
From Verif Require Import Base Syntax Rewrite Side P3Rel RwCorrect.
Import ListNotations.

Definition is_branch (s : stmt) : bool := match s with SBreak | SContinue | SFallthrough => true | _ => false end.

Fixpoint bad (k : nat) (s : stmt) {struct k} : bool :=
  match k with 0 => false | S k =>
    let bl := fix bl (l : list stmt) : bool :=
      match l with [] => false | x :: r => bad k x || (if is_branch x then false else bl r) end in
    match s with
    | SIf i _ t e => hasYo i || bl t || match e with ENone => false | EElse b => bl b | EElif x => bad k x end
    | SBlock b => bl b
    | SSwitch _ _ cs => existsb (fun lb => bl (snd lb)) cs
    | SFor _ _ _ b => bl b
    | _ => false
    end
  end.

Definition badl (k : nat) : list stmt -> bool :=
  fix bl (l : list stmt) : bool :=
    match l with [] => false | x :: r => bad k x || (if is_branch x then false else bl r) end.

Lemma bad_S k s :
  bad (S k) s =
    match s with
    | SIf i _ t e => hasYo i || badl k t || match e with ENone => false | EElse b => badl k b | EElif x => bad k x end
    | SBlock b => badl k b
    | SSwitch _ _ cs => existsb (fun lb => badl k (snd lb)) cs
    | SFor _ _ _ b => badl k b
    | _ => false
    end.
Proof. reflexivity. Qed.

Definition isErr {A} (r : res A) : Prop := exists e, r = Err e.
Definition allErr (kk : blk -> res blk) : Prop := forall c, isErr (kk c).

Lemma isErr_bind_l A B (m : res A) (f : A -> res B) : isErr m -> isErr (bind m f).
Proof. intros [e ->]. exists e. reflexivity. Qed.
Lemma isErr_bind_r A B (m : res A) (f : A -> res B) : (forall a, isErr (f a)) -> isErr (bind m f).
Proof. intros H. destruct m as [a|e]; cbn; [apply H|exists e; reflexivity]. Qed.

Lemma comb_allErr c k' : allErr k' -> isErr (comb c k').
Proof.
  intros Hk. unfold comb. cbv zeta. destruct (negb (combineRequired (markCombined c))); [apply Hk|].
  apply isErr_bind_r. intros [[s kd] cur']. apply isErr_bind_r. intros c1. apply isErr_bind_r. intros c1'.
  apply isErr_bind_l. apply Hk.
Qed.

(* the error of a later statement surfaces through an earlier one that is not a branch statement *)
Lemma rw_calls_k f :
  (forall k s cur kk, fitsb k s = true -> is_branch s = false -> allErr kk -> isErr (rw_stmt f s false cur kk)) /\
  (forall init c post b cur kk, simple init = true -> allErr kk -> isErr (rw_for f (SFor init c post b) init c post b cur kk)) /\
  (forall init tag cases cur kk, simple init = true -> allErr kk -> isErr (rw_switch f (SSwitch init tag cases) init tag cases cur kk)) /\
  True.
Proof.
  induction f as [|f [IH2 [IH4 [IH5 _]]]]; [repeat split; intros; exists E_FUEL; reflexivity|].
  assert (Hinit : forall (init : option stmt) cur after, simple init = true -> allErr after ->
            isErr (match init with None => after cur | Some i => rw_stmt f i false cur after end)).
  { intros init cur after Hs Ha. destruct init as [i|]; [|apply Ha].
    apply (IH2 1); [| |exact Ha]; destruct i; try discriminate; reflexivity. }
  repeat split.
  - intros k s cur kk Hf Hb Hk. rewrite rw_stmt_S. destruct k as [|k]; [discriminate|]. rewrite P3Rel.fitsb_S in Hf.
    destruct s as [a|v|b|ini cnd th el|ini tag cases|ini cnd post b| | | | |e]; try discriminate.
    + apply isErr_bind_r. intros c. apply Hk.
    + apply isErr_bind_l. apply Hk.
    + apply isErr_bind_r. intros fol. destruct (mustNoYield fol); apply isErr_bind_r; intros c; apply Hk.
    + apply isErr_bind_r. intros c. apply Hk.
    + apply IH5; [apply andb_prop in Hf; tauto|]. intros c. apply Hk.
    + apply IH4; [apply andb_prop in Hf; destruct Hf as [Hf _]; apply andb_prop in Hf; tauto|exact Hk].
    + apply isErr_bind_r. intros c. apply Hk.
    + apply isErr_bind_r. intros c. apply Hk.
  - intros init c post b cur kk Hsi Hk. rewrite rw_for_S. apply isErr_bind_r. intros body. cbv zeta.
    destruct (negb (hasYo init) && negb (hasYo post) && mustNoYield body); [apply isErr_bind_r; intros c1; apply Hk|].
    apply Hinit; [exact Hsi|]. intros c2.
    destruct (mustNoYield body && negb (hasYo post)).
    + apply comb_allErr. intros c3. apply isErr_bind_r. intros c4. apply Hk.
    + destruct (negb (hasYo post)).
      * apply comb_allErr. intros c3. apply isErr_bind_r. intros c4. apply Hk.
      * destruct post as [p|]; [|exists E_UNSUPPORTED; reflexivity].
        apply isErr_bind_r. intros body'. apply comb_allErr. intros c3. apply isErr_bind_r. intros c4. apply Hk.
  - intros init tag cases cur kk Hsi Hk. rewrite rw_switch_S. apply isErr_bind_r. intros [cases' allTrivial].
    destruct (negb (hasYo init) && allTrivial); [apply isErr_bind_r; intros c1; apply Hk|].
    apply Hinit; [exact Hsi|]. intros c2. destruct allTrivial.
    + apply isErr_bind_r. intros c3. apply Hk.
    + apply comb_allErr. intros c3. apply isErr_bind_r. intros c4. apply Hk.
Qed.

Lemma reject f :
  (forall k ss cur, forallb (fitsb k) ss = true -> badl k ss = true -> isErr (rw_stmts f ss cur)) /\
  (forall k s isLast cur kk, fitsb k s = true -> bad k s = true -> isErr (rw_stmt f s isLast cur kk)) /\
  (forall k s cur, fitsb k s = true -> bad k s = true -> isErr (rw_if f s cur)) /\
  (forall k init c post b cur kk, forallb (fitsb k) b = true -> badl k b = true ->
      isErr (rw_for f (SFor init c post b) init c post b cur kk)) /\
  (forall k init tag cases cur kk, forallb (fun lb => forallb (fitsb k) (snd lb)) cases = true ->
      existsb (fun lb => badl k (snd lb)) cases = true ->
      isErr (rw_switch f (SSwitch init tag cases) init tag cases cur kk)).
Proof.
  induction f as [|f [IH1 [IH2 [IH3 [IH4 IH5]]]]]; [repeat split; intros; exists E_FUEL; reflexivity|].
  repeat split.
  - intros k ss cur Hf Hb. rewrite rw_stmts_S. destruct ss as [|s rest]; [discriminate|].
    cbn [forallb] in Hf. apply andb_prop in Hf. destruct Hf as [Hfs Hfr].
    change (badl k (s :: rest)) with (bad k s || (if is_branch s then false else badl k rest)) in Hb. cbv zeta.
    destruct (bad k s) eqn:Es; [eapply IH2; eauto|]. cbn [orb] in Hb.
    destruct (is_branch s) eqn:Eb; [discriminate|].
    destruct rest as [|s2 rest2]; [discriminate|].
    eapply (proj1 (rw_calls_k f)); [exact Hfs|exact Eb|].
    intros c. apply comb_allErr. intros c2. eapply IH1; eauto.
  - intros k s isLast cur kk Hf Hb. destruct k as [|k]; [discriminate|]. rewrite bad_S in Hb. rewrite P3Rel.fitsb_S in Hf. rewrite rw_stmt_S.
    destruct s as [a|v|b|ini cnd th el|ini tag cases|ini cnd post b| | | | |e]; try discriminate.
    + apply isErr_bind_l. eapply IH1; eauto.
    + apply isErr_bind_l. eapply (IH3 (S k)); [rewrite P3Rel.fitsb_S; exact Hf|rewrite bad_S; exact Hb].
    + apply andb_prop in Hf. destruct Hf as [_ Hf]. eapply IH5; eauto.
    + apply andb_prop in Hf. destruct Hf as [_ Hf]. eapply IH4; eauto.
  - intros k s cur Hf Hb. destruct k as [|k]; [discriminate|]. rewrite bad_S in Hb. rewrite P3Rel.fitsb_S in Hf. rewrite rw_if_S.
    destruct s as [a|v|b|init c th el|ini tag cases|ini cnd post b| | | | |e]; try (exists E_UNSUPPORTED; reflexivity).
    apply andb_prop in Hf. destruct Hf as [Hf Hfe]. apply andb_prop in Hf. destruct Hf as [_ Hft].
    destruct (hasYo init); [exists E_YIELD_IN_INIT; reflexivity|]. cbn [orb] in Hb.
    destruct (badl k th) eqn:Et; [apply isErr_bind_l; eapply IH1; eauto|]. cbn [orb] in Hb.
    apply isErr_bind_r. intros body. destruct el as [|eb|alt]; [discriminate| |].
    + apply isErr_bind_l. eapply IH1; eauto.
    + apply isErr_bind_l. eapply IH3; eauto.
  - intros k init c post b cur kk Hf Hb. rewrite rw_for_S. apply isErr_bind_l. eapply IH1; eauto.
  - intros k init tag cases cur kk Hf Hb. rewrite rw_switch_S. apply isErr_bind_l.
    clear - Hf Hb IH1. induction cases as [|[lab b] r IHr]; [discriminate|]. cbn [rw_cases]. fold (rw_cases f).
    cbn [forallb existsb snd] in Hf, Hb. apply andb_prop in Hf. destruct Hf as [Hfb Hfr].
    destruct (badl k b) eqn:Eb; [apply isErr_bind_l; eapply IH1; eauto|]. cbn [orb] in Hb.
    apply isErr_bind_r. intros cb. apply isErr_bind_l. apply IHr; assumption.
Qed.

Theorem rewrite_rejects k body :
  forallb (fitsb k) (map (pass0 400) body) = true -> badl k (map (pass0 400) body) = true ->
  exists e, rewrite body = Err e.
Proof.
  intros Hf Hb. unfold rewrite. cbv zeta.
  destruct (proj1 (reject (50 + 4 * size 400 (SBlock (map (pass0 400) body)))) k _ (mkBlock KDelay) Hf Hb) as [e He].
  rewrite He. exists e. reflexivity.
Qed.
