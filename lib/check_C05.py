import ccheck
import cprops


def check(rep, tier):
    cprops.check(rep, tier, "C05")


replay = ccheck.replay
