(* OptExec.v — executable comparison of the optimiser model (Opt.v) with the abstract tree
   of the real optimiser's output: optimise (the model's unoptimised Start argument) must
   equal the Start argument found in <dst>. *)
From Coq Require Import List Arith Bool.
From Verif Require Import Syntax Rewrite Side StructExec.
From Verif Require Import Opt.
Import ListNotations.

Record ocase := { oc_src : list stmt; oc_lits : list nat; oc_eta : list (nat * nat); oc_expect : sexp }.

Fixpoint lookup_nat (l : list (nat * nat)) (x : nat) : option nat :=
  match l with [] => None | (a, b) :: r => if Nat.eqb a x then Some b else lookup_nat r x end.

(* 0 agree; 1 trees differ; 2 the model rejects the program *)
Definition check_ocase (c : ocase) : nat :=
  match rewrite (oc_src c) with
  | OK body =>
      let e := optimise (fun v => existsb (Nat.eqb v) (oc_lits c)) (lookup_nat (oc_eta c)) (XDelay (TLit body)) in
      if sexp_eqb e (oc_expect c) then 0 else 1
  | Err _ => 2
  end.

Fixpoint omismatches_from (i : nat) (cs : list ocase) : list (nat * nat) :=
  match cs with
  | [] => []
  | c :: rest => match check_ocase c with
                 | 0 => omismatches_from (S i) rest
                 | k => (i, k) :: omismatches_from (S i) rest
                 end
  end.
Definition omismatches (cs : list ocase) := omismatches_from 0 cs.

(* the side condition of the optimiser theorem (every elided Delay wraps a pure construction) *)
Definition ocase_ok (c : ocase) : bool :=
  match rewrite (oc_src c) with
  | OK body => opt_ok (fun v => existsb (Nat.eqb v) (oc_lits c)) (XDelay (TLit body))
  | Err _ => false
  end.

(* all side conditions of C07_end_to_end_machine_partial: the program is inside the compiler theorem, every
   elided Delay wraps a pure construction, and no native Yield is left in the optimised expression *)
Definition ocase_e2e (c : ocase) : bool :=
  match rewrite (oc_src c) with
  | OK body =>
      c01_hyps (oc_src c) && opt_ok (fun v => existsb (Nat.eqb v) (oc_lits c)) (XDelay (TLit body)) &&
      lkx (forallb (lk KS)) (optimise (fun v => existsb (Nat.eqb v) (oc_lits c)) (lookup_nat (oc_eta c)) (XDelay (TLit body)))
  | Err _ => false
  end.
