import ccheck
import cprops


def check(rep, tier):
    cprops.check(rep, tier, "C06")


replay = ccheck.replay
