(* Props_C11.v — the compiler accepts the whole supported subset and its output builds.

   Full statement (C11): on every type-correct package whose generator functions stay within
   the supported subset the compiler terminates without panicking, under every way of importing
   the API, and the generated files type-check and build.

   What is proved (PARTIAL): for the rewriter model (Rewrite.v), on every body of the fragment
   [supp] (atoms, Yield, blocks, if chains, switch, for, break / continue / return; init and
   post statements that do not yield): none of the assertions of yield_block.go /
   yield_rewrite.go can fail — pushing onto a frozen or unchecked block, popping an empty block,
   pushReturn with a non-return kind, returnNormalRequired on a wrong kind of block, "yield in
   if-init", "post is not a return" — for any fuel; the only failure of the model is running
   out of its own fuel, which the Go code does not have.  In the FINAL output (after pass3 and
   rmRedundantReturn) every function literal, at any depth, ends in a statement the transcribed
   termination checker accepts — "missing return" cannot be reported for generated code
   (C11_output_literals_terminate_partial) — and no break / continue is left where Go rejects it
   (C11_branch_placement_partial).  The rest of "the output builds" is a checked
   condition, not a theorem: [legalb] (every generated function literal returns a seq value on
   every path, no stray break / continue / fallthrough) is evaluated on every generated program
   by the structural correspondence (evidence of C01: model_output_not_legal = 0) and the real
   output is built with `go build` by the C11 check, under six import styles.  Types, names,
   imports, methods / generics / function literals as generator hosts are not modelled. *)
From Coq Require Import List.
From Verif Require Import Base Syntax Rewrite Side.
From Verif Require Import Accept C01Main Placement Legal P3Term P3Legal C01Legal.
Import ListNotations.

Theorem C11_no_assertion_failure_partial :
  forall (k : nat) (body : list stmt),
    supps k (map (pass0 400) body) = true ->
    match rewrite body with OK _ => True | Err e => e = E_FUEL end.
Proof. exact rewrite_no_assert. Qed.
Print Assumptions C11_no_assertion_failure_partial.

(* any fuel, any block kind the rewriter starts from *)
Theorem C11_no_assertion_any_fuel_partial :
  forall (f k : nat) (ss : list stmt) (kd : kind),
    supps k ss = true -> good_bkind kd = true ->
    ok_err (rw_stmts f ss (mkBlock kd)).
Proof. intros f k ss kd Hs Hk. apply okB_ok_err. exact (proj1 (accept f) k ss (mkBlock kd) Hs (ready_mk kd Hk)). Qed.
Print Assumptions C11_no_assertion_any_fuel_partial.

(* whatever the rewriter's pass2 produced (of nesting depth below the fuel of pass3), after pass3 no
   break / continue is left where Go would reject it: break only in a native loop or switch of the
   same function literal, continue only in a native loop *)
Theorem C11_branch_placement_partial :
  forall (body mid out : list stmt) (k : nat),
    pass12 body = OK mid -> rewrite body = OK out ->
    S (S (S k)) < P3FUEL -> forallb (fitsb k) mid = true ->
    forallb (bpl (S (S k)) false false) out = true.
Proof.
  intros body mid out k H12 Hrw Hk Hf.
  destruct (rewrite_spec body out Hrw) as [mid' [H12' ->]]. rewrite H12 in H12'. injection H12' as <-.
  apply pass3_placement; assumption.
Qed.
Print Assumptions C11_branch_placement_partial.

(* every function literal pass2 generates — the body handed to Start(Delay(..)), the continuation of every
   Bind, both halves of every Combine, every loop-body callback — ends in a statement the transcribed
   termination checker accepts, or in a break / continue that pass3 turns into a return (previous theorem):
   Go's "missing return" cannot be caused by the rewriter on the fragment *)
Theorem C11_function_literals_terminate_partial :
  forall (body mid : list stmt) (k : nat),
    supps k (map (pass0 400) body) = true -> pass12 body = OK mid ->
    lastT mid /\ Forall (WT false) mid.
Proof.
  intros body mid k Hs H12. destruct (pass12_spec body mid H12) as [B [HB ->]].
  rewrite <- supps2_false in Hs. exact (pass2_terminates false _ k _ B Hs HB).
Qed.
Print Assumptions C11_function_literals_terminate_partial.

(* ... and so is every function literal of the FINAL output, at any depth: [tlit] says that every
   literal body l nested in a statement satisfies is_term TFUEL (SBlock l), the transcription of
   return.go's isTerminating; the conclusion's second half is the same for the outermost callback *)
Theorem C11_output_literals_terminate_partial :
  forall (body mid out : list stmt) (ks k : nat),
    supps ks (map (pass0 400) body) = true ->
    pass12 body = OK mid -> rewrite body = OK out ->
    forallb (fitsb k) mid = true -> S (S (S k)) <= 199 ->
    forallb (tlit (S (S k))) out = true /\ is_term TFUEL (SBlock out) = true.
Proof.
  intros body mid out ks k Hs H12 Hr Hf Hk.
  destruct (rewrite_spec body out Hr) as [mid' [H12' ->]]. rewrite H12 in H12'. injection H12' as <-.
  destruct (pass12_spec body mid H12) as [B [HB ->]].
  rewrite <- supps2_false in Hs. destruct (pass2_terminates false _ ks _ B Hs HB) as [Hl Hw].
  apply (pass3_terminates false); [unfold P3FUEL; apply (PeanoNat.Nat.le_lt_trans _ 199); [exact Hk|repeat constructor]|exact Hk|exact Hf|exact Hw|exact Hl].
Qed.
Print Assumptions C11_output_literals_terminate_partial.

Example C11_output_terminates_example :
  match rewrite [SFor None (Some 1) None [SYield 2; SIf None 3 [SBreak] ENone; SAtom 4]; SYield 5] with
  | OK out => forallb (tlit 100) out && is_term TFUEL (SBlock out)
  | Err _ => false
  end = true.
Proof. vm_compute. reflexivity. Qed.

(* non-vacuity: a supported body on which the model succeeds; and a body outside the fragment
   (yield in an if-init) on which the model does fail an assertion *)
Example C11_example_accept :
  let body := [SFor (Some (SAtom 1)) (Some 2) (Some (SAtom 3)) [SSwitch None (Some 4) [(LVals [5], [SYield 6]); (LDefault, [SAtom 7])]; SYield 8]] in
  supps 10 (map (pass0 400) body) = true /\ exists out, rewrite body = OK out.
Proof. cbv zeta. split; [vm_compute; reflexivity|]. eexists. vm_compute. reflexivity. Qed.
Example C11_example_reject :
  rewrite [SIf (Some (SYield 1)) 2 [SYield 3] ENone] = Err E_YIELD_IN_INIT.
Proof. vm_compute. reflexivity. Qed.

(* For bodies without `fallthrough` the whole legality condition of Strict.v is a theorem: in the output of the
   rewriter model no break / continue is left outside a native loop / switch, no bare `return` or `fallthrough`
   anywhere, every function literal at any depth ends in a terminating statement, init / post statements are simple
   and the nesting depth stays within the checker's fuel.  ([legalb] is what makes the strict reading of callbacks —
   Go's — coincide with the reading the simulation proof uses; types, names, imports, unused variables are outside the model.) *)
Theorem C11_output_is_legal_partial :
  forall (body mid out : list stmt) (ks : nat),
    supps2 true ks (map (pass0 400) body) = true ->
    pass12 body = OK mid -> rewrite body = OK out ->
    forallb (fitsb KS) mid = true ->
    legalb (S (S KS)) out = true.
Proof. exact rewrite_legal. Qed.
Print Assumptions C11_output_is_legal_partial.
