(* Props_C01.v — compiled generators yield exactly the source's coroutine sequence.
   PARTIAL (work in progress, see DESIGN.md status): what is proved so far is the
   forward simulation of pass2 of the rewriter model (Rewrite.v) for the statement
   forms atoms / Yield / blocks / if-else-if chains / return, under the generalised
   reading of callbacks; for / switch, pass3 and strictness are covered by the
   structural and behavioural correspondence and by the differential check. *)
From Coq Require Import List.
From Verif Require Import Base Syntax Sem Rewrite RwBase Rel RwCorrect.
Import ListNotations.

(* For every user-code denotation and every consumer [env]: if the source body [ss]
   (in tail position, after whatever the block under construction already holds)
   has outcome r — values handed to the consumer, its stop point, final world,
   panic — then so has the block the rewriter model builds. *)
Theorem C01_pass2_simulation_partial :
  forall (U V P : Type)
         (aden : nat -> U -> outcome U P unit) (cden : nat -> U -> outcome U P bool)
         (tden : nat -> U -> outcome U P nat) (kval : nat -> nat) (yden : nat -> U -> outcome U P V)
         (env : nat -> V -> U -> U * bool)
         (f k : nat) (ss : list stmt) (B : blk),
    supps k ss = true ->
    rw_stmts f ss (mkBlock KDelay) = OK B ->
    forall w r, TM aden cden tden kval yden env ss w r -> TM aden cden tden kval yden env (bstmts B) w r.
Proof.
  intros U V P aden cden tden kval yden env f k ss B Hs HB w r [n H].
  destruct (proj1 (pass2_correct aden cden tden kval yden env f) k ss (mkBlock KDelay) B Hs (Forall_nil _) HB (S n) w r) as [m Hm].
  - apply Nseq_empty. exact H.
  - exists m. exact Hm.
Qed.
Print Assumptions C01_pass2_simulation_partial.

(* non-vacuity: a body with a yielding if / else-if chain is supported and rewritten *)
Example C01_example_supported :
  let body := [SAtom 1; SIf None 2 [SYield 3; SAtom 4] (EElif (SIf None 5 [SYield 6] ENone)); SYield 7; SRet XReturn] in
  supps 5 body = true /\ exists B, rw_stmts 60 body (mkBlock KDelay) = OK B.
Proof. split; [reflexivity|]. eexists. vm_compute. reflexivity. Qed.
