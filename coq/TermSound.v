(* TermSound.v — soundness of the transcribed termination checker (return.go):
   a statement the checker calls terminating never completes normally, and a
   statement without a (free) break never completes with the break signal.
   All fuel-indexed syntactic functions are only meaningful when their fuel covers
   the nesting depth of the statement: [fitsb k s]. *)
From Coq Require Import List Arith Bool Lia.
From Verif Require Import Base Syntax Sem SemLemmas Rewrite Side.
Import ListNotations.

Set Implicit Arguments.

Section T.
  Variables U V P : Type.
  Variable aden : nat -> U -> outcome U P unit.
  Variable cden : nat -> U -> outcome U P bool.
  Variable tden : nat -> U -> outcome U P nat.
  Variable kval : nat -> nat.
  Variable yden : nat -> U -> outcome U P V.
  Variable env : nat -> V -> U -> U * bool.

  Notation compl := (compl U V P).
  Notation W := (W U).
  Notation exec := (exec aden cden tden kval yden env).
  Notation ex := (exec_list aden cden tden kval yden env).
  Notation exfrom := (exec_from aden cden tden kval yden env).
  Notation expick := (exec_pick aden cden tden kval yden env).
  Notation exloop := (exec_loop aden cden tden kval yden env).

  Definition nobreak (r : option compl) : Prop := forall w', r <> Some (CDone GBreak w').
  Definition nonormal (r : option compl) : Prop := forall w', r <> Some (CDone GNormal w').

  Lemma nobreak_after x f : nobreak x -> (forall w, nobreak (f w)) -> nobreak (after_normal x f).
  Proof.
    intros Hx Hf w' H. unfold after_normal in H. destruct x as [[g w1| | | |]|]; try discriminate.
    - destruct g; try discriminate; [eapply Hf; eauto|eapply Hx; eauto].
  Qed.
  Lemma nobreak_lift A (o : outcome U P A) k f : (forall a w, nobreak (f a w)) -> nobreak (lift o k f).
  Proof. intros Hf w' H. unfold lift in H. destruct o; try discriminate. eapply Hf; eauto. Qed.

  (* simple statements complete normally, stop, panic or get stuck *)
  Lemma simple_exec i n w x : simple i = true ->
    (match i with None => Some (CDone GNormal w) | Some s => exec n s w end) = Some x ->
    match x with CDone g _ => g = GNormal | CRet _ _ => False | _ => True end.
  Proof.
    destruct i as [s|]; [|intros _ H; inversion H; reflexivity].
    destruct s; try discriminate; intros _ H; (destruct n; [discriminate|]); rewrite exec_S in H; unfold lift in H.
    - destruct (aden a (fst w)); inversion H; auto.
    - destruct (yden v (fst w)) as [u val|u pv|]; try (inversion H; auto; fail).
      cbn in H. destruct (env (snd w) val u) as [u' more]. destruct more; inversion H; auto.
  Qed.

  (* switches and loops never complete with the break signal: they consume it *)
  Lemma exfrom_nobreak n : forall l w, nobreak (exfrom n l w).
  Proof.
    induction n as [|n IH]; intros l w w' H; [discriminate|]. rewrite exec_from_S in H.
    destruct l as [|[lab b] r]; [discriminate|].
    destruct (ex n b w) as [[g w1| | | |]|]; try discriminate. destruct g; try discriminate. destruct r; [discriminate|]. eapply IH; eauto.
  Qed.
  Lemma expick_nobreak n : forall a l w, nobreak (expick n a l w).
  Proof.
    induction n as [|n IH]; intros a l w w' H; [discriminate|]. rewrite exec_pick_S in H.
    destruct l as [|[lab b] r].
    - destruct (default_from a); [eapply exfrom_nobreak; eauto|discriminate].
    - destruct lab; try (eapply IH; eauto; fail).
      unfold lift in H. destruct (cden c (fst w)) as [u bb|u pv|]; try discriminate.
      destruct bb; [eapply exfrom_nobreak; eauto|eapply IH; eauto].
  Qed.
  Lemma exloop_nobreak n : forall c p b w, simple p = true -> nobreak (exloop n c p b w).
  Proof.
    induction n as [|n IH]; intros c p b w Hp w' H; [discriminate|]. rewrite exec_loop_S in H. cbv zeta in H.
    assert (Hbody : forall w2, nobreak
      (match ex n b w2 with
       | Some (CDone (GNormal | GContinue) w3) =>
           after_normal (match p with None => Some (CDone GNormal w3) | Some x => exec n x w3 end) (fun w4 => exloop n c p b w4)
       | Some (CDone GBreak w3) => Some (CDone GNormal w3)
       | other => other
       end)).
    { intros w2 w'' H2. destruct (ex n b w2) as [[g w3| | | |]|]; try discriminate.
      destruct g; try discriminate;
        (revert H2; apply nobreak_after; [|intros w4; apply IH; exact Hp]);
        intros w5 H5; pose proof (@simple_exec p n w3 _ Hp H5) as Hs; cbn in Hs; discriminate. }
    destruct c as [cc|]; [|eapply Hbody; eauto].
    unfold lift in H. destruct (cden cc (fst w)) as [u bb|u pv|]; try discriminate.
    destruct bb; [eapply Hbody; eauto|discriminate].
  Qed.

  Lemma forallb_In A (f : A -> bool) l x : forallb f l = true -> In x l -> f x = true.
  Proof. intros H Hx. rewrite forallb_forall in H. auto. Qed.

  Lemma list_nobreak l : (forall x, In x l -> forall n w, nobreak (exec n x w)) -> forall n w, nobreak (ex n l w).
  Proof.
    intros Hl n. revert l Hl. induction n as [|n IH]; intros l Hl w w' H; [discriminate|].
    rewrite exec_list_S in H. destruct l as [|x r]; [discriminate|].
    revert H. apply nobreak_after; [apply Hl; left; reflexivity|]. intros w1. apply IH. intros y Hy. apply Hl. right. exact Hy.
  Qed.

  Definition hb_list (k : nat) (l : list stmt) : bool :=
    (fix go (l : list stmt) : bool := match l with [] => false | x :: r => has_break k x || go r end) l.

  Lemma hb_list_In k l x : hb_list k l = false -> In x l -> has_break k x = false.
  Proof.
    induction l as [|y r IH]; [intros _ []|]. cbn. intros H [->|Hx].
    - apply orb_false_elim in H. tauto.
    - apply orb_false_elim in H. apply IH; tauto.
  Qed.

  (* has_break = false is sound *)
  Lemma has_break_sound k : forall s n w, fitsb k s = true -> has_break k s = false -> nobreak (exec n s w).
  Proof.
    induction k as [|k IH]; [intros; discriminate|].
    assert (HL : forall l n w, forallb (fitsb k) l = true -> hb_list k l = false -> nobreak (ex n l w)).
    { intros l n w Hf Hb. apply list_nobreak. intros x Hx n0 w0. apply IH; [eapply forallb_In; eauto|eapply hb_list_In; eauto]. }
    intros s n w Hf Hb. destruct n; [intros w' H; discriminate|]. rewrite exec_S.
    destruct s; cbn [fitsb has_break] in Hf, Hb; try discriminate.
    - intros w' H. unfold lift in H. destruct (aden a (fst w)); discriminate.
    - intros w' H. unfold lift in H. destruct (yden v (fst w)) as [u val|u pv|]; try discriminate.
      cbn in H. destruct (env (snd w) val u) as [u' more]. destruct more; discriminate.
    - apply HL; assumption.
    - apply andb_prop in Hf. destruct Hf as [Hf He]. apply andb_prop in Hf. destruct Hf as [Hi Ht].
      apply orb_false_elim in Hb. destruct Hb as [Hbt Hbe].
      apply nobreak_after.
      + intros w' H. pose proof (@simple_exec init n w _ Hi H) as Hs. cbn in Hs. discriminate.
      + intros w1. apply nobreak_lift. intros bb w2. destruct bb; [apply HL; assumption|].
        destruct el; [intros w' H; discriminate|apply HL; assumption|apply IH; assumption].
    - apply andb_prop in Hf. destruct Hf as [Hi Hc].
      apply nobreak_after.
      + intros w' H. pose proof (@simple_exec init n w _ Hi H) as Hs. cbn in Hs. discriminate.
      + intros w1. destruct tag as [t|]; [|apply expick_nobreak].
        apply nobreak_lift. intros tv w2. destruct (pick_clause kval tv cases); [apply exfrom_nobreak|].
        destruct (default_from cases); [apply exfrom_nobreak|intros w' H; discriminate].
    - apply andb_prop in Hf. destruct Hf as [Hf Hb2]. apply andb_prop in Hf. destruct Hf as [Hi Hp].
      apply nobreak_after.
      + intros w' H. pose proof (@simple_exec init n w _ Hi H) as Hs. cbn in Hs. discriminate.
      + intros w1. apply exloop_nobreak. exact Hp.
    - intros w' H. destruct (build yden e w); discriminate.
  Qed.

  (* ---------------- is_term is sound ---------------- *)
  Lemma nonormal_after x f : (forall w, nonormal (f w)) -> nonormal (after_normal x f).
  Proof.
    intros Hf w' H. unfold after_normal in H. destruct x as [[g w1| | | |]|]; try discriminate.
    destruct g; try discriminate. eapply Hf; eauto.
  Qed.
  Lemma nonormal_lift A (o : outcome U P A) k f : (forall a w, nonormal (f a w)) -> nonormal (lift o k f).
  Proof. intros Hf w' H. unfold lift in H. destruct o; try discriminate. eapply Hf; eauto. Qed.

  Definition tlist (k : nat) (l : list stmt) : bool :=
    match last (map Some l) None with Some x => is_term k x | None => false end.

  (* a list whose last statement cannot complete normally cannot complete normally *)
  Lemma list_nonormal l x : last (map Some l) None = Some x -> (forall n w, nonormal (exec n x w)) -> forall n w, nonormal (ex n l w).
  Proof.
    intros Hl Hx n. revert l Hl. induction n as [|n IH]; intros l Hl w w' H; [discriminate|].
    rewrite exec_list_S in H. destruct l as [|y r]; [discriminate|].
    destruct r as [|z r].
    - cbn in Hl. inversion Hl; subst y. unfold after_normal in H.
      destruct (exec n x w) as [[g w1| | | |]|] eqn:E; try discriminate. destruct g; try discriminate.
      eapply Hx; eauto.
    - revert H. apply nonormal_after. intros w1. apply IH. exact Hl.
  Qed.

  Lemma exloop_nonormal n : forall p b w, simple p = true -> (forall m w0, nobreak (ex m b w0)) -> nonormal (exloop n None p b w).
  Proof.
    induction n as [|n IH]; intros p b w Hp Hb w' H; [discriminate|]. rewrite exec_loop_S in H. cbv beta zeta in H.
    destruct (ex n b w) as [[g w3| | | |]|] eqn:E; try discriminate.
    destruct g; try discriminate.
    - revert H. apply nonormal_after. intros w4. apply IH; assumption.
    - exfalso. eapply Hb; eauto.
    - revert H. apply nonormal_after. intros w4. apply IH; assumption.
  Qed.

  (* clauses: bodies terminating and break-free; running from any suffix never completes normally,
     provided the last clause does not end in fallthrough *)
  Definition clauses_ok (k : nat) (cs : list (clabel * list stmt)) : Prop :=
    forall lb, In lb cs -> (forall n w, nonormal (ex n (snd lb) w)) /\ (forall n w, nobreak (ex n (snd lb) w)).

  Lemma exfrom_nonormal n : forall cs w k, clauses_ok k cs -> cs <> [] -> nonormal (exfrom n cs w).
  Proof.
    induction n as [|n IH]; intros cs w k Hok Hne w' H; [discriminate|]. rewrite exec_from_S in H.
    destruct cs as [|[lab b] r]; [congruence|].
    destruct (Hok (lab, b) (or_introl eq_refl)) as [Hn Hb]. cbn [snd] in *.
    destruct (ex n b w) as [[g w1| | | |]|] eqn:E; try discriminate.
    destruct g; try discriminate.
    - inversion H; subst. eapply Hn; eauto.
    - exfalso. eapply Hb; eauto.
    - destruct r as [|lb2 r2]; [discriminate|].
      eapply (IH (lb2 :: r2) w1 k); [|discriminate|exact H].
      intros lb Hin. apply Hok. right. exact Hin.
  Qed.

  Lemma suffix_clauses_ok k cs d : clauses_ok k cs -> (forall lb, In lb d -> In lb cs) -> clauses_ok k d.
  Proof. intros H Hs lb Hin. apply H. apply Hs. exact Hin. Qed.

  Lemma default_from_suffix cs d : default_from cs = Some d -> d <> [] /\ forall lb : clabel * list stmt, In lb d -> In lb cs.
  Proof.
    induction cs as [|[lab b] cs IH]; cbn; [discriminate|]. destruct lab.
    - intros H. inversion H; subst. split; [discriminate|auto].
    - intros H. destruct (IH H) as [A B]. split; [exact A|]. intros lb Hin. right. apply B. exact Hin.
    - intros H. destruct (IH H) as [A B]. split; [exact A|]. intros lb Hin. right. apply B. exact Hin.
  Qed.
  Lemma pick_clause_suffix tv cs d : pick_clause kval tv cs = Some d -> d <> [] /\ forall lb : clabel * list stmt, In lb d -> In lb cs.
  Proof.
    induction cs as [|[lab b] cs IH]; cbn; [discriminate|]. destruct (clause_matches kval lab tv).
    - intros H. inversion H; subst. split; [discriminate|auto].
    - intros H. destruct (IH H) as [A B]. split; [exact A|]. intros lb Hin. right. apply B. exact Hin.
  Qed.

  Lemma expick_nonormal n : forall a l w k, clauses_ok k a -> (forall lb, In lb l -> In lb a) ->
    (exists d, default_from a = Some d) -> nonormal (expick n a l w).
  Proof.
    induction n as [|n IH]; intros a l w k Hok Hsub Hd w' H; [discriminate|]. rewrite exec_pick_S in H.
    destruct l as [|[lab b] r].
    - destruct Hd as [d Hd]. rewrite Hd in H. destruct (default_from_suffix _ Hd) as [Hne Hs].
      eapply exfrom_nonormal; [eapply suffix_clauses_ok; eauto|exact Hne|exact H].
    - assert (Hr : forall lb, In lb r -> In lb a) by (intros lb Hin; apply Hsub; right; exact Hin).
      destruct lab; try (eapply IH; eauto; fail).
      unfold lift in H. destruct (cden c (fst w)) as [u bb|u pv|]; try discriminate.
      destruct bb; [|eapply IH; eauto].
      eapply exfrom_nonormal; [eapply suffix_clauses_ok; [exact Hok|exact Hsub]|discriminate|exact H].
  Qed.

  (* the switch part of is_term: all clause bodies terminating and break-free, default present *)
  Definition term_switch (k : nat) (cs : list (clabel * list stmt)) : bool :=
    (fix go (l : list (clabel * list stmt)) (hasDefault : bool) : bool :=
       match l with
       | [] => hasDefault
       | (lab, b) :: r =>
           if negb (tlist k b) || hb_list k b then false
           else go r (hasDefault || match lab with LDefault => true | _ => false end)
       end) cs false.

  Lemma term_switch_spec k cs : term_switch k cs = true ->
    (forall lb, In lb cs -> tlist k (snd lb) = true /\ hb_list k (snd lb) = false) /\ exists d, default_from cs = Some d.
  Proof.
    unfold term_switch.
    assert (G : forall l hd,
      (fix go (l : list (clabel * list stmt)) (hasDefault : bool) : bool :=
         match l with
         | [] => hasDefault
         | (lab, b) :: r => if negb (tlist k b) || hb_list k b then false
                            else go r (hasDefault || match lab with LDefault => true | _ => false end)
         end) l hd = true ->
      (forall lb, In lb l -> tlist k (snd lb) = true /\ hb_list k (snd lb) = false) /\ (hd = true \/ exists d, default_from l = Some d)).
    { induction l as [|[lab b] r IH]; intros hd H.
      - split; [intros lb []|left; exact H].
      - destruct (negb (tlist k b) || hb_list k b) eqn:E; [discriminate|].
        apply orb_false_elim in E. destruct E as [E1 E2]. apply negb_false_iff in E1.
        destruct (IH _ H) as [A B]. split.
        + intros lb [<-|Hin]; [cbn; auto|apply A; exact Hin].
        + destruct lab; cbn.
          * right. eauto.
          * destruct B as [B|[d B]]; [rewrite orb_false_r in B; left; exact B|right; eauto].
          * destruct B as [B|[d B]]; [rewrite orb_false_r in B; left; exact B|right; eauto]. }
    intros H. destruct (G cs false H) as [A [B|B]]; [discriminate|]. split; auto.
  Qed.

  Lemma is_term_S k s :
    is_term (S k) s =
      match s with
      | SRet _ | SReturn | SFallthrough => true
      | SBlock b => tlist k b
      | SIf _ _ t e =>
          match e with
          | ENone => false
          | EElse b => tlist k t && tlist k b
          | EElif x => tlist k t && is_term k x
          end
      | SSwitch _ _ cs => term_switch k cs
      | SFor _ c _ b => match c with None => negb (hb_list k b) | Some _ => false end
      | _ => false
      end.
  Proof. reflexivity. Qed.

  Lemma is_term_sound k : forall s n w, fitsb k s = true -> is_term k s = true -> nonormal (exec n s w).
  Proof.
    induction k as [|k IH]; [intros; discriminate|].
    assert (HT : forall l n w, forallb (fitsb k) l = true -> tlist k l = true -> nonormal (ex n l w)).
    { intros l n w Hf Ht. unfold tlist in Ht. destruct (last (map Some l) None) as [x|] eqn:El; [|discriminate].
      eapply list_nonormal; [exact El|]. intros n0 w0. apply IH; [|exact Ht].
      eapply forallb_In; [exact Hf|]. clear -El. induction l as [|a [|b r] IHl]; [discriminate| |].
      - cbn in El. inversion El. left. reflexivity.
      - right. apply IHl. exact El. }
    assert (HB : forall l n w, forallb (fitsb k) l = true -> hb_list k l = false -> nobreak (ex n l w)).
    { intros l n w Hf Hb. apply list_nobreak. intros x Hx n0 w0.
      apply has_break_sound with (k:=k); [eapply forallb_In; eauto|eapply hb_list_In; eauto]. }
    intros s n w Hf Ht. destruct n; [intros w' H; discriminate|]. rewrite exec_S. rewrite is_term_S in Ht.
    destruct s; cbn [fitsb] in Hf; try discriminate.
    - apply HT; assumption.
    - apply andb_prop in Hf. destruct Hf as [Hf He]. apply andb_prop in Hf. destruct Hf as [Hi Hth].
      apply nonormal_after. intros w1. apply nonormal_lift. intros bb w2.
      destruct el; [discriminate| |]; apply andb_prop in Ht; destruct Ht as [Ht1 Ht2].
      + destruct bb; apply HT; assumption.
      + destruct bb; [apply HT; assumption|apply IH; assumption].
    - apply andb_prop in Hf. destruct Hf as [Hi Hc].
      destruct (term_switch_spec _ _ Ht) as [Hall Hd].
      assert (Hok : clauses_ok k cases).
      { intros lb Hin. destruct (Hall lb Hin) as [A B].
        assert (Hfb : forallb (fitsb k) (snd lb) = true) by (eapply (forallb_In (fun lb => forallb (fitsb k) (snd lb))); eauto).
        split; intros n0 w0; [apply HT|apply HB]; assumption. }
      apply nonormal_after. intros w1. destruct tag as [t|].
      + apply nonormal_lift. intros tv w2. destruct (pick_clause kval tv cases) eqn:Ep.
        * destruct (pick_clause_suffix _ _ Ep) as [Hne Hs]. eapply exfrom_nonormal; [eapply suffix_clauses_ok; eauto|exact Hne].
        * destruct Hd as [d Hd]. rewrite Hd. destruct (default_from_suffix _ Hd) as [Hne Hs].
          eapply exfrom_nonormal; [eapply suffix_clauses_ok; eauto|exact Hne].
      + eapply expick_nonormal; eauto.
    - apply andb_prop in Hf. destruct Hf as [Hf Hb]. apply andb_prop in Hf. destruct Hf as [Hi Hp].
      destruct c as [cc|]; [discriminate|]. apply negb_true_iff in Ht.
      apply nonormal_after. intros w1. apply exloop_nonormal; [exact Hp|]. intros m w0. apply HB; assumption.
    - intros w' H. destruct (build yden e w); discriminate.
  Qed.
End T.
