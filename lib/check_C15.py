"""C15 — generated output is deterministic and independent of unrelated inputs."""
import hashlib
import os
import random
import re
import shutil

import common as C
import cbatch
import cdiff
import cprops
import optcorpus
import pgen

COMPILE0 = """package main

import (
	"os"

	"github.com/goghcrow/go-co/rewriter"
)

func main() { rewriter.Compile(os.Args[1], os.Args[2]) }
"""


def tree(d):
    out = {}
    for root, _, files in os.walk(d):
        for f in files:
            p = os.path.join(root, f)
            out[os.path.relpath(p, d)] = hashlib.sha1(open(p, "rb").read()).hexdigest()
    return out


def check(rep, tier):
    if not cprops.proof_part(rep, "C15"):
        return
    rng = random.Random(C.seed() * 2750159 + 15)
    n = 36 if tier == "quick" else 200
    progs = cdiff.gen_programs(rng, n, feats={"range", "postyield", "vars", "yieldfrom"})
    # programs with several sequential and nested range loops: helper identifiers must be unique
    for i in range(6):
        g = pgen.PGen(rng, {"range"})
        body = []
        for _ in range(3):
            s = g.rangestmt({"loop": False, "switch": False, "vars": [], "funcs": [], "depth": 1, "local": []}, 3)
            s["closure"] = False
            s["b"] = [g.rangestmt({"loop": True, "switch": False, "vars": [], "funcs": [], "depth": 2, "local": []}, 2), {"s": "yield", "id": g.fresh()}]
            s["b"][0]["closure"] = False
            s["b"][0]["b"] = [{"s": "yield", "id": g.fresh()}]
            body.append(s)
        progs.append({"name": "N%d" % i, "body": body, "nid": g.nid})
    b = cdiff.make_batch("C15", progs, per_file=4, files_per_pkg=4)
    problems = []
    cov = {}
    try:
        b.extra_src[("oc", "oc.go")] = optcorpus.render("co")
        b.write()
        w = b.work
        os.makedirs(os.path.join(w, "cmd", "compile0"))
        open(os.path.join(w, "cmd", "compile0", "main.go"), "w").write(COMPILE0)
        exe0 = os.path.join(w, "compile0.bin")
        rc, o, e = C.run(["go", "build", "-o", exe0, "./cmd/compile0"], cwd=w, timeout=900)
        if rc != 0:
            raise RuntimeError("cannot build compile0: " + (o + e)[-2000:])

        def compile0(src, dst):
            rc, o, e = C.run(["timeout", "900", exe0, src, dst], cwd=w, timeout=1000)
            return rc, e

        # drop files the compiler rejects (known findings) so that Compile (which has no per-file recover) can run
        b.compile()
        for k, v in list(b.status.items()):
            if k.startswith("file:") and v.startswith("compile-panic"):
                pkg, file = k[5:].split("/")
                os.remove(os.path.join(w, "src", pkg, file + ".go"))
                os.remove(os.path.join(w, "ref", pkg, file + ".go"))
        hooked = tree(os.path.join(w, "out"))
        shutil.rmtree(os.path.join(w, "out"))
        shutil.rmtree(os.path.join(w, "tmp"))
        # (a) run-to-run determinism of the real Compile, (e) hook == production
        runs = []
        for k in range(3):
            rc, e = compile0("src", "o%d" % k)
            if rc != 0:
                raise RuntimeError("Compile failed: " + e[-2000:])
            runs.append(tree(os.path.join(w, "o%d" % k)))
            if os.path.exists(os.path.join(w, "o%d_tmp" % k)):
                problems.append(("tmp-left-behind", "Compile left %s behind" % ("o%d_tmp" % k), None))
        cov["repeated_runs"] = len(runs)
        for k in (1, 2):
            if runs[k] != runs[0]:
                diff = [f for f in runs[0] if runs[k].get(f) != runs[0][f]]
                problems.append(("nondeterministic", "run %d differs from run 0 on identical sources" % k, diff[:5]))
        hk = {f: h for f, h in hooked.items() if not f.startswith("oc/") or True}
        if hk != runs[0]:
            diff = [f for f in set(hk) | set(runs[0]) if hk.get(f) != runs[0].get(f)]
            problems.append(("hook-differs", "VerifCompile output differs from Compile output", diff[:5]))
        # (b) every file alone / next to unrelated files and packages / under permuted file names
        files = sorted(f for f in runs[0])
        sample = files if tier == "thorough" else rng.sample(files, min(8, len(files)))
        placements = 0
        for f in sample:
            pkg, fname = f.split("/")
            for variant in ("alone", "with-sibling", "with-other-package", "renamed-siblings"):
                d = os.path.join(w, "iso")
                shutil.rmtree(d, ignore_errors=True)
                os.makedirs(os.path.join(d, pkg))
                shutil.copy(os.path.join(w, "src", pkg, fname), os.path.join(d, pkg, fname))
                sibs = [x for x in os.listdir(os.path.join(w, "src", pkg)) if x != fname and x != "lib.go"]
                libp = os.path.join(w, "src", pkg, "lib.go")
                if os.path.exists(libp) and fname != "lib.go":
                    shutil.copy(libp, os.path.join(d, pkg, "lib.go"))
                if variant in ("with-sibling", "renamed-siblings") and sibs:
                    for j, x in enumerate(sibs[:2]):
                        tgt = x if variant == "with-sibling" else ("%s%d_%s" % ("a" if j == 0 else "zz", j, x))
                        shutil.copy(os.path.join(w, "src", pkg, x), os.path.join(d, pkg, tgt))
                if variant == "with-other-package":
                    other = [p for p in os.listdir(os.path.join(w, "src")) if p != pkg]
                    if other:
                        shutil.copytree(os.path.join(w, "src", other[0]), os.path.join(d, other[0]))
                rc, e = compile0("iso", "isoout")
                if rc != 0:
                    problems.append(("placement-crash", "Compile failed for %s (%s)" % (f, variant), e[-600:]))
                    continue
                got = tree(os.path.join(w, "isoout")).get(f)
                placements += 1
                if got != runs[0][f]:
                    problems.append(("placement", "bytes of %s depend on its placement (%s)" % (f, variant), None))
                shutil.rmtree(os.path.join(w, "isoout"), ignore_errors=True)
        cov["placements_compared"] = placements
        # (c) outputs of earlier runs on disk: a longer stale file in dst, stale files in dst_tmp
        d = os.path.join(w, "stale")
        shutil.copytree(os.path.join(w, "o0"), d)
        for f in files[:6]:
            with open(os.path.join(d, f), "a") as fh:
                fh.write("\n// stale tail from an earlier, longer output\nfunc StaleLeftover() {}\n" * 3)
        os.makedirs(os.path.join(w, "stale_tmp", "zz"), exist_ok=True)
        # a file as a crashed earlier run would have left it: a real intermediate-stage file (it uses seq)
        shutil.copy(os.path.join(w, "o0", files[0]), os.path.join(w, "stale_tmp", "zz", "stale.go"))
        rc, e = compile0("src", "stale")
        if rc != 0:
            problems.append(("stale-crash", "Compile failed with earlier outputs on disk", e[-600:]))
        else:
            t = tree(d)
            if t != runs[0]:
                diff = [f for f in set(t) | set(runs[0]) if t.get(f) != runs[0].get(f)]
                problems.append(("stale-outputs", "result depends on outputs of an earlier run present on disk", diff[:5]))
        # (d) numbered helper identifiers (gensym) are unique within a file
        dup = 0
        for f in files:
            text = open(os.path.join(w, "o0", f)).read()
            names = re.findall(r"(ɪʇ\d+)\s*:=", text)
            if len(names) != len(set(names)):
                dup += 1
                problems.append(("gensym-clash", "numbered helper identifier defined twice in %s" % f, sorted(names)))
        cov["functions_with_duplicate_helper_identifiers"] = dup
        cov["files"] = len(files)
        # correspondence with the gensym model (coq/Gensym.v): the numbered identifiers of a file are exactly
        # the names the model produces for as many calls (the model is evaluated inside Coq)
        per_file = {}
        for f in files:
            text = open(os.path.join(w, "o0", f)).read()
            per_file[f] = sorted(set(int(x) for x in re.findall(r"ɪʇ(\d+)\s*:=", text)))
        counts = sorted(set(len(v) for v in per_file.values()))
        model = {}
        if counts and os.path.exists(os.path.join(C.COQ, "Gensym.v")):
            ev = C.workdir("gensym")
            try:
                txt = ("From Coq Require Import List.\nFrom Verif Require Import Gensym.\nImport ListNotations.\n"
                       "Definition G := Eval vm_compute in map (fun n => map (fun l => skipn 4 l) (gensyms [201; 170; 202; 135] 0 n)) %s.\nPrint G.\n"
                       % ("[" + "; ".join(str(c) for c in counts) + "]"))
                rc, out = C.coq_eval(ev, "gensym_cases", txt)
                if rc != 0:
                    raise RuntimeError("coqc failed on gensym cases: " + out[-2000:])
                body = re.search(r"G\s*=\s*(.*?)\s*:\s*list", out, re.S).group(1)
                groups = re.findall(r"\[((?:\s*\[[^\[\]]*\]\s*;?)*)\]", body)
                # parse nested lists: one group per count
                parsed = []
                depth, cur, tok = 0, None, ""
                lists = []
                for ch in body:
                    if ch == "[":
                        depth += 1
                        if depth == 2:
                            cur = []
                        elif depth == 3:
                            tok = ""
                    elif ch == "]":
                        if depth == 3:
                            digs = [int(x) for x in re.findall(r"\d+", tok)]
                            cur.append(int("".join(chr(d) for d in digs)) if digs else -1)
                        elif depth == 2:
                            lists.append(cur)
                        depth -= 1
                    elif depth == 3:
                        tok += ch
                if len(lists) != len(counts):
                    raise RuntimeError("gensym model evaluation returned %d lists for %d counts" % (len(lists), len(counts)))
                model = dict(zip(counts, lists))
            finally:
                C.rmtree(ev)
            bad = [(f, v, model[len(v)]) for f, v in per_file.items() if sorted(model[len(v)]) != v]
            cov["gensym_model_files_compared"] = len(per_file)
            cov["gensym_model_max_identifiers_in_a_file"] = max(counts)
            cov["gensym_model_mismatches"] = len(bad)
            if bad:
                problems.append(("gensym-model", "numbered helper identifiers of %s differ from the names of the gensym model (coq/Gensym.v); "
                                 "theorem C15_helper_identifiers_unique_partial no longer speaks about this code" % bad[0][0], {"found": bad[0][1], "model": bad[0][2]}))
        # everything must still build
        rc, o, e = C.run(["go", "build", "./o0/..."], cwd=w, timeout=900)
        if rc != 0:
            problems.append(("does-not-build", "generated packages do not build", e[-800:]))
    finally:
        b.close()
    rep.coverage.update(cov)
    rep.coverage.update({
        "evaluations": cov.get("repeated_runs", 0) + cov.get("placements_compared", 0) + 1,
        "programs": len(progs),
        "distinct_nontrivial": cov.get("placements_compared", 0) + cov.get("repeated_runs", 0),
        "disagreements_checked": len(problems),
        "rule": "real rewriter.Compile on generated packages (ranges incl. sequential and nested, yielding loops, delegation, optimiser corpus): "
                "3 identical runs; every sampled file alone / with siblings / with another package / with siblings renamed so that the processing "
                "order changes; a run over a destination that holds longer stale outputs and a stale <dst>_tmp; byte comparison of the generated files; "
                "helper identifiers per function, compared with the gensym model evaluated inside Coq; hook output == Compile output",
        "samples": [{"problems": [p[:2] for p in problems[:3]]}],
    })
    if problems:
        # a concrete failing input first; a broken model correspondence alone is reported as such
        problems.sort(key=lambda p: p[0] == "gensym-model")
        kind, what, detail = problems[0]
        path = rep.write_replay(kind.replace("-", "_"), {"what": what, "detail": detail, "all_problems": [p[:2] for p in problems]})
        if kind == "gensym-model":
            rep.violation(path, "no-failing-input-found")
        else:
            rep.violation(path)
    rep.assumptions = ["run-to-run determinism is sampled (3 runs), not proved: map iteration order and the package loader are outside the model"]


def replay(rep, path):
    print("re-run: bin/check C15")
    return 0
