(* OptMachine.v — Start(e) for an arbitrary seq expression e, on the machine model: the big-step
   statement of OptCorrect.v (start_run) carried to LinkMachine.machine_start. *)
From Coq Require Import List Arith.
From Verif Require Import Base Syntax Sem Rewrite Side Opt OptRel OptCorrect Link LinkMachine.
Import ListNotations.

Lemma start_run_machine (U V P : Type)
      (aden : nat -> U -> outcome U P unit) (cden : nat -> U -> outcome U P bool)
      (tden : nat -> U -> outcome U P nat) (kval : nat -> nat) (yden : nat -> U -> outcome U P V)
      (env : nat -> V -> U -> U * bool) (zeroV : V) (k : nat) (e : sexp) (m : nat) (u : U) (f : final U P) :
  lkx (forallb (lk k)) e = true ->
  start_run U V P aden cden tden kval yden env true m e u = Some f -> f <> FStuck ->
  exists M, forall N F, M <= N -> M <= F -> machine_start U V P aden cden tden kval yden env zeroV k e u N F = Some f.
Proof.
  intros Hlk Hm Hns. unfold start_run in Hm. unfold machine_start.
  destruct (build yden e (u, 0)) as [u' sv|u' pv|] eqn:B.
  - destruct (run aden cden tden kval yden env true m sv (u', 0)) as [c|] eqn:E; [|discriminate].
    cbn [option_map] in Hm. inversion Hm; subst f.
    exact (machine_link_sval U V P aden cden tden kval yden env zeroV k sv m (u', 0) c (build_lk U V P yden k _ _ _ _ Hlk B) E Hns).
  - exists 0. intros N F _ _. exact Hm.
  - exists 0. intros N F _ _. exact Hm.
Qed.
