"""C10 — built-in range iterators equal Go's range for every input."""
import itertools
import json
import os
import random
import re
from concurrent.futures import ThreadPoolExecutor

import common as C

ALPHA = [0x61, 0x00, 0x7F, 0x80, 0xBF, 0xC0, 0xC2, 0xDF, 0xE0, 0xA0, 0x9F, 0xED, 0xEF, 0xBD, 0xF0, 0x90, 0x8F, 0xF4, 0xF5, 0xFF]

TRUSTED = [
    "Coq 8.16.1 kernel; vm_compute for evaluating the models on generated cases",
    "Iters.v models seq/iter.go by hand (modelled, not verified); checked on every run against the real constructors",
    "Utf8.decode_rune transcribes unicode/utf8's table; proved against the RFC 3629 encoder and compared with the Go runtime on every run",
    "reflect.MapIter / Go map iteration and channel receive are the Go runtime's; only the repository's own logic is modelled for maps",
    "harness/cmd/iterdrive and this script's renderers",
]


def cz(n):
    return "(%d)%%Z" % n


def coq_case(c, out):
    k = c["kind"]
    if k == "str":
        return "IStr [%s] [%s]" % ("; ".join(cz(b) for b in c["bytes"]), "; ".join("(%s, %s)" % (cz(a), cz(b)) for a, b in out["iter"]))
    if k == "int":
        return "IInt %s [%s]" % (cz(c["n"]), "; ".join(cz(a) for a, _ in out["iter"]))
    if k == "slice":
        return "ISlice [%s] [%s] [%s]" % ("; ".join(cz(b) for b in c["init"]),
                                          "; ".join("(%d%%nat, %d%%nat, %s)" % (s, i, cz(v)) for s, i, v in c["script"]),
                                          "; ".join("(%s, %s)" % (cz(a), cz(b)) for a, b in out["iter"]))
    if k == "chan":
        return "IChan [%s] [%s]" % ("; ".join(cz(b) for b in c["q"]), "; ".join(cz(a) for a, _ in out["iter"]))
    raise ValueError(k)


def coq_shard(args):
    work, name, base, cases, outs = args
    text = ("From Coq Require Import List ZArith.\nFrom Verif Require Import IterExec.\nImport ListNotations.\n"
            "Definition cases : list icase := [\n%s\n].\nDefinition M := Eval vm_compute in imismatches cases.\nPrint M.\n"
            % ";\n".join(coq_case(c, o) for c, o in zip(cases, outs)))
    rc, out = C.coq_eval(work, name, text)
    if rc != 0:
        raise RuntimeError("coqc failed: " + out[-2000:])
    m = re.search(r"M\s*=\s*(\[.*?\])\s*:\s*list", out, re.S)
    return [(base + int(a), int(b)) for a, b in re.findall(r"\((\d+),\s*(\d+)\)", m.group(1))]


def gen(tier, rng):
    go_only, both = [], []
    exh = 3
    for l in range(0, exh + 1):
        for bs in itertools.product(ALPHA, repeat=l):
            both.append({"kind": "str", "bytes": list(bs)})
    for bs in itertools.product(ALPHA, repeat=4):
        go_only.append({"kind": "str", "bytes": list(bs)})
    for _ in range(1500 if tier == "quick" else 20000):
        l = rng.randint(4, 14)
        bs = []
        while len(bs) < l:
            k = rng.random()
            if k < 0.35:
                bs.append(rng.choice(ALPHA))
            elif k < 0.5:
                bs.append(rng.randrange(256))
            else:   # a valid encoding of a random code point (incl. U+FFFD itself and the range edges)
                r = rng.choice([0x7F, 0x80, 0x7FF, 0x800, 0xD7FF, 0xE000, 0xFFFD, 0xFFFF, 0x10000, 0x10FFFF, rng.randrange(0x110000)])
                if 0xD800 <= r < 0xE000:
                    r = 0xFFFD
                bs.extend(chr(r).encode("utf-8"))
        both.append({"kind": "str", "bytes": bs})
    for n in list(range(-5, 70)) + [255, 1000]:
        both.append({"kind": "int", "n": n})
    for l in range(0, 6):
        for _ in range(40 if tier == "quick" else 400):
            init = [rng.randint(-9, 9) for _ in range(l)]
            script = [[rng.randrange(max(l, 1)), rng.randrange(max(l, 1)), rng.randint(10, 99)] for _ in range(rng.randint(0, 4))]
            both.append({"kind": "slice", "init": init, "script": script})
    for _ in range(60):
        both.append({"kind": "chan", "q": [rng.randint(-5, 50) for _ in range(rng.randint(0, 6))]})
    keys = ["nil", "nan", "nan", "i1", "i2", "i3", "sa", "sb", "sc", "i7"]
    vals = ["nil", "nan", "i1", "i2", "sx", "nil"]
    for _ in range(300 if tier == "quick" else 3000):
        ks = rng.sample(keys, rng.randint(0, len(keys)))
        vs = [rng.choice(vals) for _ in ks]
        script = [[rng.randrange(6), rng.choice([0, 0, 1, 2]), rng.randrange(10)] for _ in range(rng.randint(0, 5))]
        go_only.append({"kind": "map", "keys": ks, "vals": vs, "script": script if ks else []})
    return both, go_only


def check(rep, tier):
    props = C.coq_props("C10")
    rep.add_proof(props)
    rep.coverage["trusted_base"] = TRUSTED
    rep.assumptions = ["int is modelled as unbounded Z (counter overflow after 2^63 calls is outside the model)",
                       "the backing array of a ranged slice keeps its length; the loop body is an arbitrary store transformer"]
    if not props["ok"]:
        path = rep.write_replay("proof_broken", {"what": "Props_C10.v no longer checks", "forbidden": props["bad"], "coqc_output": props["output"]})
        rep.violation(path, "no-failing-input-found")
        return
    work = C.workdir("C10")
    try:
        rng = random.Random(C.seed() * 6700417 + 10)
        exe = os.path.join(work, "iterdrive")
        ok, out = C.go_build("./cmd/iterdrive", exe)
        if not ok:
            raise RuntimeError("cannot build iterdrive: " + out[-2000:])
        both, go_only = gen(tier, rng)
        allc = both + go_only
        rc, o, e = C.run(["timeout", "900", exe], input=json.dumps(allc), timeout=1000)
        if rc != 0:
            raise RuntimeError("iterdrive failed: " + e[-2000:])
        outs = json.loads(o)
        # (1) the property itself on the real code: iterator == native range / spec guarantees for maps
        direct = []
        for i, (c, r) in enumerate(zip(allc, outs)):
            if r.get("err") or r.get("viol") or (c["kind"] != "map" and r["iter"] != r["native"]):
                direct.append(i)
        rep.coverage["direct_comparisons_iterator_vs_native_range"] = len(allc)
        rep.coverage["direct_differences"] = len(direct)
        if direct:
            i = min(direct, key=lambda j: len(json.dumps(allc[j])))
            path = rep.write_replay("iter_vs_native", {"what": "seq iterator differs from Go's range statement on this input",
                                                       "case": allc[i], "observed": outs[i]})
            rep.violation(path)
        # (2) correspondence of the Coq models with the implementation
        jobs = []
        shard = 700
        for s in range(0, len(both), shard):
            jobs.append((work, "icases_%d" % (s // shard), s, both[s:s + shard], outs[s:s + shard]))
        mism = []
        with ThreadPoolExecutor(max_workers=14) as ex:
            for r in ex.map(coq_shard, jobs):
                mism.extend(r)
        rep.coverage["model_vs_impl_mismatches"] = len(mism)
        if mism and not direct:
            i, k = mism[0]
            path = rep.write_replay("model_vs_impl", {"what": "Coq model (code 1) / range specification (code 2) differs from the implementation",
                                                      "code": k, "case": both[i], "observed": outs[i]})
            rep.violation(path)
        kinds = {}
        for c in allc:
            kinds[c["kind"]] = kinds.get(c["kind"], 0) + 1
        rep.coverage.update({
            "evaluations": len(allc),
            "distinct_nontrivial": len({C.digest(c) for c, r in zip(allc, outs) if r["iter"] and len(json.dumps(c)) > 30}),
            "kind_histogram": kinds,
            "exhaustive_part": "all byte strings of length <= 3 (Go and Coq) and = 4 (Go only) over the %d-byte alphabet %s" % (len(ALPHA), [hex(b) for b in ALPHA]),
            "rule": ("strings: exhaustive over a 20-byte alphabet (ASCII, NUL, continuation bytes, overlong/surrogate/too-large leads, the bytes of "
                     "U+FFFD) plus random strings mixing valid encodings of boundary code points with junk; ints -5..69,255,1000; slices of length 0..5 "
                     "with write scripts; closed buffered channels; map[any]any with nil and NaN keys/values under delete/insert/update scripts. "
                     "non-trivial = produced at least one element and input not tiny"),
            "samples": [{"case": allc[i], "observed": outs[i]} for i in (len(both) // 3, len(both) - 1, len(allc) - 1)],
        })
    finally:
        C.rmtree(work)


def replay(rep, path):
    data = json.load(open(path))
    work = C.workdir("C10r")
    try:
        exe = os.path.join(work, "iterdrive")
        C.go_build("./cmd/iterdrive", exe)
        rc, o, e = C.run([exe], input=json.dumps([data["case"]]))
        print(o, e)
        r = json.loads(o)[0]
        return 1 if (r.get("viol") or r.get("err") or (data["case"]["kind"] != "map" and r["iter"] != r["native"])) else 0
    finally:
        C.rmtree(work)
