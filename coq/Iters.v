(* Iters.v — models of the iterator state machines of seq/iter.go (one record and
   MoveNext/Current per iterator, mirroring the Go methods) and RangeSpec: what the
   Go language specification says the corresponding range statement produces. *)
From Coq Require Import List ZArith Lia Bool Arith.
From Verif Require Import Utf8.
Import ListNotations.

Set Implicit Arguments.

(* pull up to [fuel] elements out of a state machine *)
Fixpoint drain {S A} (mn : S -> S * bool) (cur : S -> A) (fuel : nat) (s : S) : list A * S :=
  match fuel with
  | 0 => ([], s)
  | S f => let '(s', ok) := mn s in
           if ok then let '(l, s'') := drain mn cur f s' in (cur s' :: l, s'') else ([], s')
  end.

(* ------------------------------------------------------------------ integer *)
Record intIter := { ii_n : Z; ii_i : Z }.
Definition new_int (n : Z) : intIter := {| ii_n := n; ii_i := -1 |}.
Definition int_moveNext (it : intIter) : intIter * bool :=
  let i' := (ii_i it + 1)%Z in ({| ii_n := ii_n it; ii_i := i' |}, (i' <? ii_n it)%Z).
Definition int_current (it : intIter) : Z := ii_i it.

(* spec: `for i := range n` produces 0 .. n-1, nothing for n <= 0 *)
Definition range_int (n : Z) : list Z := map Z.of_nat (seq 0 (Z.to_nat n)).

Lemma drain_int_from n k fuel :
  (0 <= k)%Z -> (Z.to_nat (n - k) < fuel)%nat ->
  fst (drain int_moveNext int_current fuel {| ii_n := n; ii_i := k - 1 |}) =
    map Z.of_nat (seq (Z.to_nat k) (Z.to_nat (n - k))).
Proof.
  revert k. induction fuel as [|f IH]; intros k Hk Hf; [lia|].
  cbn [drain int_moveNext ii_i ii_n]. replace (k - 1 + 1)%Z with k by lia.
  destruct (k <? n)%Z eqn:E.
  - apply Z.ltb_lt in E. specialize (IH (k + 1)%Z).
    replace (k + 1 - 1)%Z with k in IH by lia.
    destruct (drain int_moveNext int_current f {| ii_n := n; ii_i := k |}) as [l s''] eqn:D.
    cbn [fst] in *. rewrite IH by lia. cbn [int_current ii_i].
    replace (Z.to_nat (n - k)) with (S (Z.to_nat (n - (k + 1)))) by lia.
    cbn [seq map]. f_equal; [lia|]. f_equal. f_equal. lia.
  - apply Z.ltb_ge in E. replace (Z.to_nat (n - k)) with 0%nat by lia. reflexivity.
Qed.

Theorem int_iter_correct n fuel :
  (Z.to_nat n < fuel)%nat ->
  fst (drain int_moveNext int_current fuel (new_int n)) = range_int n.
Proof.
  intros H. unfold new_int, range_int.
  pose proof (@drain_int_from n 0 fuel) as D. cbn in D. rewrite D; [|lia|rewrite Z.sub_0_r; exact H].
  rewrite Z.sub_0_r. reflexivity.
Qed.

(* once MoveNext has reported false it keeps reporting false (until the counter
   would overflow after 2^63 further calls, which is outside the model) *)
Lemma int_exhausted_stays it : snd (int_moveNext it) = false -> snd (int_moveNext (fst (int_moveNext it))) = false.
Proof. unfold int_moveNext. cbn. intros H. apply Z.ltb_ge in H. apply Z.ltb_ge. lia. Qed.

(* ------------------------------------------------------------------ string *)
Record strIter := { si_str : list Z; si_idx : nat; si_width : nat; si_val : Z }.
Definition new_str (s : list Z) : strIter := {| si_str := s; si_idx := 0; si_width := 0; si_val := 0 |}.
Definition str_moveNext (it : strIter) : strIter * bool :=
  let idx := si_idx it + si_width it in
  if length (si_str it) <=? idx
  then ({| si_str := si_str it; si_idx := idx; si_width := 0; si_val := si_val it |}, false)
  else let '(r, w) := decode_rune (skipn idx (si_str it)) in
       ({| si_str := si_str it; si_idx := idx; si_width := w; si_val := r |}, true).
Definition str_current (it : strIter) : nat * Z := (si_idx it, si_val it).

(* spec: range over a string yields (byte offset, code point) pairs; an invalid
   sequence yields U+FFFD and advances one byte (that is what decode_rune returns) *)
Fixpoint range_string_from (fuel : nat) (off : nat) (bytes : list Z) : list (nat * Z) :=
  match fuel with
  | 0 => []
  | S f => match bytes with
           | [] => []
           | _ => let '(r, w) := decode_rune bytes in (off, r) :: range_string_from f (off + w) (skipn w bytes)
           end
  end.
Definition range_string (s : list Z) : list (nat * Z) := range_string_from (length s) 0 s.

Lemma skipn_skipn' A (l : list A) a b : skipn a (skipn b l) = skipn (b + a) l.
Proof. revert l. induction b as [|b IH]; intros l; cbn; [reflexivity|]. destruct l; [now rewrite skipn_nil|apply IH]. Qed.

Lemma drain_str_from s fuel : forall idx w v,
  idx + w <= length s -> length s - (idx + w) <= fuel ->
  fst (drain str_moveNext str_current (S fuel) {| si_str := s; si_idx := idx; si_width := w; si_val := v |}) =
    range_string_from fuel (idx + w) (skipn (idx + w) s).
Proof.
  induction fuel as [|f IH]; intros idx w v Hle Hf.
  - cbn [drain]. unfold str_moveNext. cbn [si_idx si_width si_str].
    replace (length s <=? idx + w) with true by (symmetry; apply Nat.leb_le; lia). reflexivity.
  - remember (S f) as fuel' eqn:Ef. cbn [drain]. unfold str_moveNext at 1. cbn [si_idx si_width si_str si_val].
    destruct (length s <=? idx + w) eqn:E.
    + apply Nat.leb_le in E. rewrite skipn_all2 by lia. subst fuel'. reflexivity.
    + apply Nat.leb_gt in E. subst fuel'. cbn [range_string_from].
      destruct (skipn (idx + w) s) as [|b0 rest] eqn:Es.
      { exfalso. assert (length (skipn (idx + w) s) = length s - (idx + w)) by apply skipn_length.
        rewrite Es in H. cbn in H. lia. }
      destruct (decode_rune (b0 :: rest)) as [r w'] eqn:Ed.
      assert (Hw : 1 <= w' <= length (b0 :: rest)).
      { pose proof (@decode_width_pos (b0 :: rest)) as P1. pose proof (decode_width_le (b0 :: rest)) as P2.
        rewrite Ed in *. cbn [snd] in *. split; [apply P1; discriminate|exact P2]. }
      assert (Hl : length (b0 :: rest) = length s - (idx + w)) by (rewrite <- Es; apply skipn_length).
      specialize (IH (idx + w) w' r).
      destruct (drain str_moveNext str_current (S f) {| si_str := s; si_idx := idx + w; si_width := w'; si_val := r |}) as [l s''] eqn:D.
      cbn [fst] in *. rewrite IH by lia. cbn [str_current si_idx si_val]. f_equal.
      f_equal. rewrite <- Es. rewrite skipn_skipn'. reflexivity.
Qed.

Theorem str_iter_correct s fuel :
  length s < fuel -> fst (drain str_moveNext str_current fuel (new_str s)) = range_string s.
Proof.
  intros H. destruct fuel as [|f]; [lia|]. unfold new_str, range_string.
  pose proof (@drain_str_from s f 0 0 0) as D. cbn [Nat.add] in D. rewrite D by lia. cbn [skipn].
  (* extra fuel does not change the spec's result *)
  assert (M : forall a b off bytes, length bytes <= a -> length bytes <= b ->
              range_string_from a off bytes = range_string_from b off bytes).
  { induction a as [|a IHa]; intros b off bytes Ha Hb.
    - destruct bytes; [destruct b; reflexivity|cbn in Ha; lia].
    - destruct b as [|b]; [destruct bytes; [reflexivity|cbn in Hb; lia]|].
      cbn [range_string_from]. destruct bytes as [|b0 rest]; [reflexivity|].
      destruct (decode_rune (b0 :: rest)) as [r w] eqn:Ed.
      assert (1 <= w).
      { pose proof (@decode_width_pos (b0 :: rest)) as P1. rewrite Ed in P1. apply P1. discriminate. }
      f_equal. apply IHa; rewrite skipn_length; cbn [length] in *; lia. }
  apply M; lia.
Qed.

(* ------------------------------------------------------------------ slice *)
Section Slice.
  Variable V : Type.
  Variable zeroV : V.
  (* the backing array is a store that the loop body may mutate between two
     iterations; its length never changes (appends go to another array or beyond
     the iterator's length snapshot) *)
  Definition store := list V.
  Record slIter := { sl_len : nat; sl_idx : Z }.
  Definition new_slice (len : nat) : slIter := {| sl_len := len; sl_idx := -1 |}.
  Definition sl_moveNext (it : slIter) : slIter * bool :=
    let i' := (sl_idx it + 1)%Z in ({| sl_len := sl_len it; sl_idx := i' |}, (i' <? Z.of_nat (sl_len it))%Z).
  Definition sl_current (it : slIter) (st : store) : Z * V := (sl_idx it, nth (Z.to_nat (sl_idx it)) st zeroV).

  (* run the rewritten loop: MoveNext; read Current; run the body (a store transformer) *)
  Fixpoint sl_loop (fuel : nat) (it : slIter) (body : nat -> store -> store) (i : nat) (st : store) : list (Z * V) * store :=
    match fuel with
    | 0 => ([], st)
    | S f => let '(it', ok) := sl_moveNext it in
             if ok then let kv := sl_current it' st in
                        let '(l, st') := sl_loop f it' body (S i) (body i st) in (kv :: l, st')
             else ([], st)
    end.

  (* spec: the length is evaluated once before the loop; element i is read when
     iteration i starts, so writes made by earlier iterations are visible *)
  Fixpoint range_slice (len : nat) (body : nat -> store -> store) (i : nat) (st : store) : list (Z * V) * store :=
    match len with
    | 0 => ([], st)
    | S l => let kv := (Z.of_nat i, nth i st zeroV) in
             let '(rest, st') := range_slice l body (S i) (body i st) in (kv :: rest, st')
    end.

  Theorem slice_iter_correct len body : forall i fuel st,
    len - i < fuel -> i <= len ->
    sl_loop fuel {| sl_len := len; sl_idx := Z.of_nat i - 1 |} body i st = range_slice (len - i) body i st.
  Proof.
    intros i fuel. revert i. induction fuel as [|f IH]; intros i st Hf Hi; [lia|].
    cbn [sl_loop sl_moveNext sl_idx sl_len]. replace (Z.of_nat i - 1 + 1)%Z with (Z.of_nat i) by lia.
    destruct (Z.of_nat i <? Z.of_nat len)%Z eqn:E.
    - apply Z.ltb_lt in E. replace (len - i) with (S (len - S i)) by lia. cbn [range_slice].
      specialize (IH (S i) (body i st)). replace (Z.of_nat (S i) - 1)%Z with (Z.of_nat i) in IH by lia.
      rewrite IH by lia. unfold sl_current. cbn [sl_idx]. rewrite Nat2Z.id. reflexivity.
    - apply Z.ltb_ge in E. replace (len - i) with 0 by lia. reflexivity.
  Qed.
End Slice.

(* ------------------------------------------------------------------ channel *)
Section Chan.
  Variable V : Type.
  Variable zeroV : V.
  Record chanSt := { ch_q : list V; ch_closed : bool }.
  Inductive recvRes := Recv (v : V) (c : chanSt) | Closed | WouldBlock.
  Definition recv (c : chanSt) : recvRes :=
    match ch_q c with
    | v :: q => Recv v {| ch_q := q; ch_closed := ch_closed c |}
    | [] => if ch_closed c then Closed else WouldBlock
    end.
  (* chanIter.MoveNext: c.v, ok = <-c.ch *)
  Definition ch_moveNext (c : chanSt) (cur : V) : option (chanSt * V * bool) :=
    match recv c with
    | Recv v c' => Some (c', v, true)
    | Closed => Some (c, zeroV, false)
    | WouldBlock => None
    end.
  Fixpoint ch_drain (fuel : nat) (c : chanSt) (cur : V) : option (list V) :=
    match fuel with
    | 0 => Some []
    | S f => match ch_moveNext c cur with
             | None => None
             | Some (c', v, true) => option_map (cons v) (ch_drain f c' v)
             | Some (_, _, false) => Some []
             end
    end.
  (* spec: range over a channel produces the values sent until it is closed *)
  Theorem chan_iter_correct q cur : ch_drain (S (length q)) {| ch_q := q; ch_closed := true |} cur = Some q.
  Proof.
    revert cur. induction q as [|v q IH]; intros cur; [reflexivity|].
    change (ch_drain (S (length (v :: q))) {| ch_q := v :: q; ch_closed := true |} cur)
      with (option_map (cons v) (ch_drain (S (length q)) {| ch_q := q; ch_closed := true |} v)).
    rewrite IH. reflexivity.
  Qed.
  (* an open, empty channel blocks (MoveNext does not return) *)
  Lemma chan_blocks cur fuel : ch_drain (S fuel) {| ch_q := []; ch_closed := false |} cur = None.
  Proof. reflexivity. Qed.
End Chan.

(* ------------------------------------------------------------------ map *)
Section Map.
  (* K, V are the static element types; a dynamic value is [Some d] or the nil
     interface [None].  For interface-typed K/V the zero value is the nil interface.
     The underlying reflect.MapIter is an arbitrary sequence of entries: only the
     repository's own logic (the two type assertions in Current) is modelled. *)
  Variable D : Type.
  Definition dyn := option D.
  (* x.(T) single-value form: panics on the nil interface *)
  Definition assert1 (x : dyn) : option dyn := match x with Some d => Some (Some d) | None => None end.
  (* v, _ := x.(T): yields the zero value (nil) instead *)
  Definition assert2 (x : dyn) : dyn := match x with Some d => Some d | None => None end.
  Definition map_current (kv : dyn * dyn) : dyn * dyn := (assert2 (fst kv), assert2 (snd kv)).
  Theorem map_current_is_entry kv : map_current kv = kv.
  Proof. destruct kv as [[k|] [v|]]; reflexivity. Qed.
  (* the entries delivered are exactly those of the underlying iterator, in its order *)
  Theorem map_iter_correct (entries : list (dyn * dyn)) : map map_current entries = entries.
  Proof. induction entries as [|e l IH]; cbn; [reflexivity|]. now rewrite map_current_is_entry, IH. Qed.
  (* the single-value assertion that was in the code before the fix panics on nil *)
  Example old_code_panics_on_nil : assert1 None = None.
  Proof. reflexivity. Qed.
End Map.
