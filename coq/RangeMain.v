(* RangeMain.v — a range statement inside a generator, compiled: RangeLoop.v composed with the
   compiler theorem (C01Main.v). *)
From Coq Require Import List Arith Bool Lia ZArith.
From Verif Require Import Base Syntax Sem SemLemmas Rewrite Side C01Main Iters RangeLoop.
Import ListNotations.

Section RM.
  Variables I X K V P : Type.
  Variable adenX : nat -> X -> outcome X P unit.
  Variable cdenX : nat -> X -> outcome X P bool.
  Variable tdenX : nat -> X -> outcome X P nat.
  Variable kval : nat -> nat.
  Variable ydenX : nat -> X -> outcome X P V.
  Variable envX : nat -> V -> X -> X * bool.
  Variable imn : I -> I * bool.
  Variable icur : I -> X -> K.
  Variable bind : K -> X -> X.
  Variables a_bind c_mn a_init : nat.
  Variable inew : X -> I.
  Variables B rest : list stmt.
  Hypothesis HB : Forall (UserS a_bind c_mn a_init) B.
  Hypothesis Hrest : Forall (UserS a_bind c_mn a_init) rest.
  Hypothesis Hdistinct : a_init <> a_bind.

  (* what the consumer observes, with the (hidden) iterator variable put back *)
  Definition mapf (i : I) (f : final X P) : final (I * X) P :=
    match f with
    | FFinished w => FFinished (upw I X i w)
    | FStopped w => FStopped (upw I X i w)
    | FPanicked w pv => FPanicked (upw I X i w) pv
    | FStuck => FStuck
    end.

  Lemma final_mapc i c : final_of (mapc I X V P i c) = mapf i (final_of c).
  Proof. destruct c; reflexivity. Qed.

  Theorem compiled_range :
    c01_hyps (range_stmts a_bind c_mn a_init B rest) = true ->
    exists out, rewrite (range_stmts a_bind c_mn a_init B rest) = OK out /\
      forall es n i x c,
        iter_elems I X K imn icur (inew x) es ->
        range_then X K V P adenX cdenX tdenX kval ydenX envX bind B rest n es (x, 0) = Some c ->
        final_of c <> FStuck ->
        exists m i',
          run_target (aden I X K P adenX icur bind a_bind a_init inew) (cden I X P cdenX imn c_mn) (tden I X P tdenX) kval
                     (yden I X V P ydenX) (env I X V envX) true m out (i, x) = Some (mapf i' (final_of c)).
  Proof.
    intros Hh.
    destruct (compiler_correct_hyps (I * X) V P (aden I X K P adenX icur bind a_bind a_init inew) (cden I X P cdenX imn c_mn)
                (tden I X P tdenX) kval (yden I X V P ydenX) (env I X V envX) _ Hh) as [out [Ho Hsim]].
    exists out. split; [exact Ho|]. intros es n i x c Hie Hc Hns.
    destruct (range_stmts_spec I X K V P adenX cdenX tdenX kval ydenX envX imn icur bind a_bind c_mn a_init inew B HB rest Hrest
                Hdistinct es n i (x, 0) c Hie Hc) as [i' [m Hm]].
    destruct (Hsim m (i, x) (mapf i' (final_of c))) as [m' Hm'].
    - unfold run_source. pose proof (f_equal (option_map (@final_of (I * X) V P)) Hm) as Hm2.
      cbn [option_map] in Hm2. rewrite final_mapc in Hm2. exact Hm2.
    - destruct c; cbn in *; congruence.
    - exists m', i'. exact Hm'.
  Qed.
End RM.
