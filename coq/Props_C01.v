(* Props_C01.v — compiled generators yield exactly the source's coroutine sequence.

   Full statement (C01): for every generator body the compiler accepts, driving the
   compiled iterator produces exactly the values, in the order, with the side effects,
   the end of the sequence and the panics that the source coroutine would produce,
   for every consumer.

   What is proved (PARTIAL — see DESIGN.md): the statement above for the rewriter
   model (Rewrite.v: pass0, pass2, pass3 with rmRedundantReturn and the
   isTerminating / hasBreak checks) on every body made of atoms, Yield, blocks,
   if / else-if / else chains, break / continue / return, for which the computable
   side conditions [c01_hyps] hold: the body is in that fragment, its nesting depth
   and that of the rewritten code are below the fuel of the model's termination
   checker, and the output is legal Go in the sense of Strict.v (every generated
   function literal returns a seq value on every path).  Missing: for / switch /
   range in the proof (their rewriting is covered by the structural and behavioural
   correspondence and by the differential check), the optimiser, and legality of
   the output as a theorem rather than a checked condition.

   The semantics quantifies over the denotations of user code (atoms, conditions,
   tags, yielded expressions: arbitrary state transformers that may panic) and over
   the consumer [env] (which may stop after any value), so the theorem covers every
   interleaving of consumer and generator, every stop point and every panic point. *)
From Coq Require Import List.
From Verif Require Import Base Syntax Sem Rewrite Side RwBase Rel TermSound RwCorrect Strict C01Main.
Import ListNotations.

Theorem C01_compiled_equals_source_partial :
  forall (U V P : Type)
         (aden : nat -> U -> outcome U P unit) (cden : nat -> U -> outcome U P bool)
         (tden : nat -> U -> outcome U P nat) (kval : nat -> nat) (yden : nat -> U -> outcome U P V)
         (env : nat -> V -> U -> U * bool)
         (body : list stmt),
    c01_hyps body = true ->
    exists out, rewrite body = OK out /\
      forall n u f,
        run_source aden cden tden kval yden env n body u = Some f -> f <> FStuck ->
        exists m, run_target aden cden tden kval yden env true m out u = Some f.
Proof. exact compiler_correct_hyps. Qed.
Print Assumptions C01_compiled_equals_source_partial.

(* the pass2 simulation on its own, for any block kind and any fuel *)
Theorem C01_pass2_simulation_partial :
  forall (U V P : Type)
         (aden : nat -> U -> outcome U P unit) (cden : nat -> U -> outcome U P bool)
         (tden : nat -> U -> outcome U P nat) (kval : nat -> nat) (yden : nat -> U -> outcome U P V)
         (env : nat -> V -> U -> U * bool)
         (f k : nat) (ss : list stmt) (B : blk),
    supps k ss = true ->
    rw_stmts f ss (mkBlock KDelay) = OK B ->
    forall w r, TM aden cden tden kval yden env ss w r -> TM aden cden tden kval yden env (bstmts B) w r.
Proof.
  intros U V P aden cden tden kval yden env f k ss B Hs HB w r [n H].
  destruct (proj1 (pass2_correct aden cden tden kval yden env f) k ss (mkBlock KDelay) B Hs (Forall_nil _) eq_refl HB (S n) w r) as [m Hm].
  - apply Nseq_empty. exact H.
  - exists m. exact Hm.
Qed.
Print Assumptions C01_pass2_simulation_partial.

(* non-vacuity: bodies with yields under if / else-if chains, early return, and a
   break replaced by a signal satisfy the side conditions *)
Example C01_hyps_hold_1 :
  c01_hyps [SAtom 1; SIf None 2 [SYield 3; SAtom 4] (EElif (SIf None 5 [SYield 6] ENone)); SYield 7; SReturn] = true.
Proof. vm_compute. reflexivity. Qed.
Example C01_hyps_hold_2 :
  c01_hyps [SIf (Some (SAtom 9)) 2 [SYield 3; SIf None 4 [SReturn] (EElse [SYield 5; SAtom 6])] ENone; SAtom 7; SYield 8] = true.
Proof. vm_compute. reflexivity. Qed.
(* loops: a three-clause loop with a yield and a conditional break / continue in its body, then more statements *)
Example C01_hyps_hold_3 :
  c01_hyps [SFor (Some (SAtom 1)) (Some 2) (Some (SAtom 3))
              [SIf None 4 [SBreak] ENone; SYield 5; SIf None 6 [SContinue] ENone; SAtom 7];
            SYield 8;
            SFor None None None [SYield 9; SIf None 10 [SReturn] ENone]] = true.
Proof. vm_compute. reflexivity. Qed.
(* switches: a tag switch and a tag-less switch with yields in their case bodies inside a loop *)
Example C01_hyps_hold_4 :
  c01_hyps [SFor None (Some 1) (Some (SAtom 2))
              [SSwitch (Some (SAtom 3)) (Some 4)
                 [(LVals [5; 6], [SYield 7; SAtom 8]); (LDefault, [SIf None 9 [SContinue] ENone; SYield 10]); (LVals [11], [SAtom 12])];
               SSwitch None None [(LCond 13, [SYield 14; SReturn]); (LCond 15, [SAtom 16])];
               SYield 17]] = true.
Proof. vm_compute. reflexivity. Qed.
(* init statements that yield (hoisted in front of the loop / switch) *)
Example C01_hyps_hold_5 :
  c01_hyps [SFor (Some (SYield 1)) (Some 2) (Some (SAtom 9)) [SYield 3; SAtom 8];
            SSwitch (Some (SYield 4)) (Some 5) [(LVals [6], [SAtom 7])];
            SSwitch (Some (SYield 10)) None [(LCond 11, [SYield 12]); (LDefault, [SAtom 13])]] = true.
Proof. vm_compute. reflexivity. Qed.
(* a post statement that yields (no continue in the body targets that loop) *)
Example C01_hyps_hold_6 :
  c01_hyps [SFor (Some (SAtom 1)) (Some 2) (Some (SYield 3)) [SAtom 4; SIf None 5 [SBreak] ENone; SYield 6];
            SFor None (Some 7) (Some (SYield 8)) [SAtom 9];
            SFor None (Some 10) (Some (SYield 11)) [SIf None 12 [SYield 13] ENone]] = true.
Proof. vm_compute. reflexivity. Qed.
(* ... and with a continue the side conditions fail (finding F1: the compiled loop skips the post statement) *)
Example C01_F1_outside :
  c01_hyps [SFor None (Some 1) (Some (SYield 2)) [SIf None 3 [SContinue] ENone; SYield 4]] = false.
Proof. vm_compute. reflexivity. Qed.
(* a switch whose yield-free clauses leave by break or fall through, next to a yielding clause *)
Example C01_hyps_hold_7 :
  c01_hyps [SFor None (Some 1) None
              [SSwitch None (Some 2) [(LVals [3], [SAtom 4; SIf None 5 [SBreak] ENone; SAtom 6]);
                                      (LVals [7], [SAtom 8; SFallthrough]);
                                      (LVals [9], [SYield 10; SAtom 11]);
                                      (LDefault, [SBreak])];
               SYield 12]] = true.
Proof. vm_compute. reflexivity. Qed.
(* ... and a break after a yield in the same clause is outside (finding F2) *)
Example C01_F2_outside :
  c01_hyps [SSwitch None (Some 1) [(LVals [2], [SYield 3; SBreak])]; SYield 4] = false.
Proof. vm_compute. reflexivity. Qed.
