(* RtExec.v — concrete test instantiation of Layer R (DESIGN.md §4.2): a small
   deep syntax of combinator terms whose thunks/conditions/posts are lists of
   logging / register actions, its denotation into [seqv] over the concrete
   world [W], and the history driver.  The Go twin is harness/rt (same syntax as
   JSON, interpreted on the real seq package).  Everything here is executable
   (vm_compute) and is what cases_*.v files evaluate. *)
From Verif Require Import Base SeqMachine SeqRef Protocol.

Set Implicit Arguments.

Definition ev := (Z * Z * Z)%type.

Record W := { wlog : list ev; regs : list Z; budget : nat }.

Definition getr (rs : list Z) (r : nat) : Z := nth r rs 0%Z.
Fixpoint setr (rs : list Z) (r : nat) (x : Z) : list Z :=
  match rs, r with
  | [], _ => []
  | _ :: t, 0 => x :: t
  | h :: t, S r' => h :: setr t r' x
  end.

Definition wlogev (w : W) (e : ev) : W := {| wlog := e :: wlog w; regs := regs w; budget := budget w |}.
Definition wsetr (w : W) r x : W := {| wlog := wlog w; regs := setr (regs w) r x; budget := budget w |}.

(* actions inside user code *)
Inductive act :=
| ALog (i : Z)
| ASet (r : nat) (k : Z)
| AAdd (r : nat) (k : Z)
| APanicIfEq (r : nat) (k : Z) (pv : Z)
| ARecvTo (r : nat).

Inductive cexp := CTrue | CFalse | CLt (r : nat) (k : Z) | CNe (r : nat) (k : Z).
Inductive vexp := VConst (k : Z) | VReg (r : nat) | VRegPlus (r : nat) (k : Z).

Definition eval_c (e : cexp) (rs : list Z) : bool :=
  match e with
  | CTrue => true | CFalse => false
  | CLt r k => Z.ltb (getr rs r) k
  | CNe r k => negb (Z.eqb (getr rs r) k)
  end.
Definition eval_v (e : vexp) (rs : list Z) : Z :=
  match e with
  | VConst k => k | VReg r => getr rs r | VRegPlus r k => (getr rs r + k)%Z
  end.

Definition wout (A : Type) := outcome W Z A.

(* every piece of user code first spends one unit of budget; at zero it panics
   with value -1, so that non-productive loops end identically on both sides *)
Definition spend (w : W) : W + W :=
  match budget w with
  | 0 => inr w
  | S b => inl {| wlog := wlog w; regs := regs w; budget := b |}
  end.

Fixpoint run_acts (acts : list act) (recv : Z) (w : W) : W + (W * Z) :=
  match acts with
  | [] => inl w
  | a :: rest =>
      match a with
      | ALog i => run_acts rest recv (wlogev w (1, i, 0)%Z)
      | ASet r k => run_acts rest recv (wsetr w r k)
      | AAdd r k => run_acts rest recv (wsetr w r (getr (regs w) r + k)%Z)
      | APanicIfEq r k pv =>
          if Z.eqb (getr (regs w) r) k then inr (wlogev w (9, pv, 0)%Z, pv) else run_acts rest recv w
      | ARecvTo r => run_acts rest recv (wsetr w r recv)
      end
  end.

(* user code = id + actions; logs (kind,id,_) on entry *)
Definition run_code (kind : Z) (id : Z) (acts : list act) (recv : Z) (w : W) : W + (W * Z) :=
  match spend w with
  | inr w' => inr (wlogev w' (9, -1, 0)%Z, (-1)%Z)
  | inl w' => run_acts acts recv (wlogev w' (kind, id, recv))
  end.

Inductive rt :=
| TBind (v : vexp) (id : Z) (acts : list act) (body : rt)
| TBindRecv (v : vexp) (id : Z) (acts : list act) (body : rt)
| TDelay (id : Z) (acts : list act) (body : rt)
| TCombine (a b : rt)
| TFor (c : option (Z * list act * cexp)) (p : option (Z * list act)) (b : rt)
| TOfK (t : ctype)
| TRetV (v : vexp).

Notation wseqv := (seqv W Z Z).

Definition mk_cond (c : Z * list act * cexp) : oracle W Z bool :=
  fun _ w => let '(id, acts, e) := c in
    match run_code 2 id acts 0 w with
    | inr (w', pv) => Some (Panic w' pv)
    | inl w' => let b := eval_c e (regs w') in
                Some (Ok (wlogev w' (3, id, if b then 1 else 0)%Z) b)
    end.
Definition mk_post (p : Z * list act) : oracle W Z unit :=
  fun _ w => let '(id, acts) := p in
    match run_code 4 id acts 0 w with
    | inr (w', pv) => Some (Panic w' pv)
    | inl w' => Some (Ok w' tt)
    end.

(* build t rs: the Go expression tree for t evaluated with registers rs
   (value expressions are evaluated eagerly, when the enclosing thunk runs) *)
Fixpoint build (t : rt) (rs : list Z) : wseqv :=
  match t with
  | TBind v id acts body =>
      SBind (eval_v v rs) (fun _ w =>
        match run_code 1 id acts 0 w with
        | inr (w', pv) => Some (Panic w' pv)
        | inl w' => Some (Ok w' (build body (regs w')))
        end)
  | TBindRecv v id acts body =>
      SBindRecv (eval_v v rs) (fun recv _ w =>
        match run_code 1 id acts recv w with
        | inr (w', pv) => Some (Panic w' pv)
        | inl w' => Some (Ok w' (build body (regs w')))
        end)
  | TDelay id acts body =>
      SDelay (fun _ w =>
        match run_code 1 id acts 0 w with
        | inr (w', pv) => Some (Panic w' pv)
        | inl w' => Some (Ok w' (build body (regs w')))
        end)
  | TCombine a b => SCombine (build a rs) (build b rs)
  | TFor c p b => SFor (option_map mk_cond c) (option_map mk_post p) (build b rs)
  | TOfK t => SOfK t
  | TRetV v => SRetV (eval_v v rs)
  end.

(* ---- history driver over the machine ---- *)
Inductive op := OpMoveNext | OpCurrent | OpSend (v : Z) | OpResult.

Notation mst := (st W Z Z).

Definition mlog (m : mst) (e : ev) : mst := set_world m (wlogev (world m) e).

Definition FUEL := 200 * 150.

Definition gop_of (o : op) : gop W Z :=
  match o with
  | OpMoveNext => OMoveNext | OpCurrent => OCurrent | OpSend v => OSend v | OpResult => OResult
  end.

(* the marker logged before the call and the event logged for its response *)
Definition op_marker (gi : nat) (o : op) : ev :=
  let zi := Z.of_nat gi in
  match o with
  | OpMoveNext => (10, zi, 0) | OpCurrent => (11, zi, 0) | OpSend v => (12, zi, v) | OpResult => (13, zi, 0)
  end%Z.
Definition resp_ev (o : op) (a : resp Z Z) : ev :=
  match a with
  | RBool b => (20, if b then 1 else 0, 0)
  | RVal v => (match o with OpResult => 23 | _ => 21 end, v, 0)
  | RSent y b => (22, y, if b then 1 else 0)
  | RPanicked pv => (30, pv, 0)
  | RUnit => (0, 0, 0)
  end%Z.

(* one operation on generator g (index gi in the case); the method runs at depth 1 *)
Definition do_op (gi : nat) (g : loc) (o : op) (m : mst) : option mst :=
  match m_op 0%Z FUEL 1 g (gop_of o) (mlog m (op_marker gi o)) with
  | None => None
  | Some (m', a) => Some (mlog m' (resp_ev o a))
  end.

Fixpoint start_all (ts : list rt) (m : mst) : mst * list loc :=
  match ts with
  | [] => (m, [])
  | t :: rest =>
      let '(m1, g) := start 0%Z (build t (regs (world m))) m in
      let '(m2, gs) := start_all rest m1 in
      (m2, g :: gs)
  end.

Fixpoint run_hist (gs : list loc) (h : list (nat * op)) (m : mst) : option mst :=
  match h with
  | [] => Some m
  | (gi, o) :: rest =>
      match nth_error gs gi with
      | None => None
      | Some g => match do_op gi g o m with
                  | None => None
                  | Some m' => run_hist gs rest m'
                  end
      end
  end.

Definition init_w (bud : nat) : W := {| wlog := []; regs := [0; 0; 0; 0]%Z; budget := bud |}.

(* result of a case: the event log (oldest first) and the depth log (oldest first) *)
Definition run_case (ts : list rt) (h : list (nat * op)) (bud : nat) : option (list ev * list nat) :=
  let '(m, gs) := start_all ts (empty_st Z Z (init_w bud)) in
  match run_hist gs h m with
  | None => None
  | Some m' => Some (rev (wlog (world m')), rev (dlog m'))
  end.

(* ---- the same driver over the reference generators (no heap) ---- *)
Notation wrgen := (rgen W Z Z).

Definition r_do_op (gi : nat) (o : op) (rg : wrgen) (w : W) : option (wrgen * W) :=
  match r_op 0%Z FUEL (gop_of o) rg (wlogev w (op_marker gi o)) with
  | None => None
  | Some (rg', w', a) => Some (rg', wlogev w' (resp_ev o a))
  end.

Fixpoint r_update (l : list wrgen) (i : nat) (x : wrgen) : list wrgen :=
  match l, i with
  | [], _ => []
  | _ :: t, 0 => x :: t
  | h :: t, S i' => h :: r_update t i' x
  end.

Fixpoint r_run_hist (gs : list wrgen) (h : list (nat * op)) (w : W) : option W :=
  match h with
  | [] => Some w
  | (gi, o) :: rest =>
      match nth_error gs gi with
      | None => None
      | Some rg => match r_do_op gi o rg w with
                   | None => None
                   | Some (rg', w') => r_run_hist (r_update gs gi rg') rest w'
                   end
      end
  end.

Definition r_run_case (ts : list rt) (h : list (nat * op)) (bud : nat) : option (list ev) :=
  let w := init_w bud in
  let gs := map (fun t => r_fresh 0%Z (build t (regs w))) ts in
  match r_run_hist gs h w with
  | None => None
  | Some w' => Some (rev (wlog w'))
  end.

(* ---- comparison helpers used by generated cases files ---- *)
Definition ev_eqb (a b : ev) : bool :=
  let '(a1, a2, a3) := a in let '(b1, b2, b3) := b in (Z.eqb a1 b1 && Z.eqb a2 b2 && Z.eqb a3 b3)%bool.
Fixpoint list_eqb {A} (eqb : A -> A -> bool) (l1 l2 : list A) : bool :=
  match l1, l2 with
  | [], [] => true
  | x :: r1, y :: r2 => (eqb x y && list_eqb eqb r1 r2)%bool
  | _, _ => false
  end.

Record rcase := { rc_terms : list rt; rc_hist : list (nat * op); rc_budget : nat;
                  rc_events : list ev; rc_depths : list nat }.

(* 0 = agree; 1 = machine events differ; 2 = reference events differ; 3 = depths differ; 4 = model got stuck *)
Definition check_case (c : rcase) : nat :=
  match run_case (rc_terms c) (rc_hist c) (rc_budget c) with
  | None => 4
  | Some (evs, ds) =>
      if negb (list_eqb ev_eqb evs (rc_events c)) then 1
      else match r_run_case (rc_terms c) (rc_hist c) (rc_budget c) with
           | None => 4
           | Some evs' =>
               if negb (list_eqb ev_eqb evs' (rc_events c)) then 2
               else if negb (list_eqb Nat.eqb ds (rc_depths c)) then 3 else 0
           end
  end.

Fixpoint mismatches_from (i : nat) (cs : list rcase) : list (nat * nat) :=
  match cs with
  | [] => []
  | c :: rest => match check_case c with
                 | 0 => mismatches_from (S i) rest
                 | k => (i, k) :: mismatches_from (S i) rest
                 end
  end.
Definition mismatches (cs : list rcase) := mismatches_from 0 cs.
