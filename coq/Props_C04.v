(* Props_C04.v — range loops inside generators behave like Go's range statement.

   Full statement (C04): for each kind of range expression (string, slice, array, map, channel,
   integer) and each form of the key / value variables, a range statement inside a generator body
   — with a body that may yield, break, continue, return, mutate the collection — behaves as Go's
   range statement: the range expression is evaluated once, the elements are those the language
   specification prescribes, in that order, and break / continue have their native meaning.

   What is proved.  The rewriter emits `ɪʇ := seq.NewXIter(x); for ɪʇ.MoveNext() { k, v (:)=
   ɪʇ.Current()…; B }` (rewriter/range.go).  RangeLoop.v gives that statement list its meaning in a
   world (iterator state, user world) in which user code — B, the rest of the body, the consumer
   of the generator — acts on the user world only (the iterator variable is generated; the frame
   lemma [frame] proves that user statements neither read nor write it), and proves:
   - C04_range_statement: for ANY iterator state machine and any list [es] of element readers it
     will deliver ([iter_elems]), the emitted statements followed by `rest` do exactly what
     [range_then] says: the specification of Go's range statement over [es] (element j is read
     when iteration j starts; break leaves the loop; continue and normal completion go on with the
     next element; anything else leaves the statement), then `rest`.  B and rest are arbitrary
     user statements (yields, nested loops, switches, return …).
   - C04_integer / C04_string / C04_slice: the iterators of seq/iter.go (Iters.v, tied to the code by
     the C10 correspondence) deliver exactly the elements of `range n` (0 … n-1, nothing for n <= 0),
     `range s` (byte offset and rune per RFC 3629 decoding, U+FFFD / width 1 on invalid input, for
     every byte string) and `range slice` (length fixed before the loop, element j read live).
   - C04_compiled_range_partial: the COMPILED generator does the same (PARTIAL as C01: side
     conditions of the compiler theorem on the whole body, rewriter model).
   Not covered by a theorem: maps (iteration order and deletion during iteration are the Go
   runtime's reflect.MapIter; C10_map_partial covers the repository's own code), channels
   (C10_chan covers the iterator; blocking is outside this semantics), the array-copy rule
   (`range arr` with a value variable iterates over a copy: the rewriter slices the array
   instead — known finding), the form with no variables (no binding statement is emitted), and
   that the real rewriter emits this statement list (structural correspondence on the range
   corpus and the differential check of every kind x form). *)
From Coq Require Import List ZArith.
From Verif Require Import Base Syntax Sem Rewrite Side Iters RangeLoop RangeMain Link LinkMachine.
Import ListNotations.

Theorem C04_range_statement :
  forall (I X K V P : Type)
         (adenX : nat -> X -> outcome X P unit) (cdenX : nat -> X -> outcome X P bool)
         (tdenX : nat -> X -> outcome X P nat) (kval : nat -> nat) (ydenX : nat -> X -> outcome X P V)
         (envX : nat -> V -> X -> X * bool)
         (imn : I -> I * bool) (icur : I -> X -> K) (bind : K -> X -> X)
         (a_bind c_mn a_init : nat) (inew : X -> I) (B : list stmt),
    Forall (UserS a_bind c_mn a_init) B ->
    forall rest : list stmt,
    Forall (UserS a_bind c_mn a_init) rest ->
    a_init <> a_bind ->
    forall (es : list (X -> K)) (n : nat) (i : I) (w : X * nat) (c : compl X V P),
      iter_elems I X K imn icur (inew (fst w)) es ->
      range_then X K V P adenX cdenX tdenX kval ydenX envX bind B rest n es w = Some c ->
      exists (i' : I) (m : nat),
        exec_list (aden I X K P adenX icur bind a_bind a_init inew) (cden I X P cdenX imn c_mn) (tden I X P tdenX) kval
                  (yden I X V P ydenX) (env I X V envX) m
                  (range_stmts a_bind c_mn a_init B rest) (upw I X i w) = Some (mapc I X V P i' c).
Proof. exact range_stmts_spec. Qed.
Print Assumptions C04_range_statement.

Theorem C04_integer :
  forall (X : Type) (n : Z),
    iter_elems intIter X Z int_moveNext (fun i _ => int_current i) (new_int n) (map (fun a _ => a) (range_int n)).
Proof. exact int_iter_elems. Qed.
Print Assumptions C04_integer.

Theorem C04_string :
  forall (X : Type) (s : list Z),
    iter_elems strIter X (nat * Z) str_moveNext (fun i _ => str_current i) (new_str s) (map (fun a _ => a) (range_string s)).
Proof. exact str_iter_elems. Qed.
Print Assumptions C04_string.

Theorem C04_slice :
  forall (X E : Type) (zero : E) (get : X -> list E) (len : nat),
    iter_elems slIter X (Z * E) sl_moveNext (fun it x => sl_current zero it (get x)) (new_slice len)
               (map (fun j x => (Z.of_nat j, nth j (get x) zero)) (seq 0 len)).
Proof. intros X E zero get len. exact (slice_iter_elems X E zero get len len 0 eq_refl). Qed.
Print Assumptions C04_slice.

Theorem C04_compiled_range_partial :
  forall (I X K V P : Type)
         (adenX : nat -> X -> outcome X P unit) (cdenX : nat -> X -> outcome X P bool)
         (tdenX : nat -> X -> outcome X P nat) (kval : nat -> nat) (ydenX : nat -> X -> outcome X P V)
         (envX : nat -> V -> X -> X * bool)
         (imn : I -> I * bool) (icur : I -> X -> K) (bind : K -> X -> X)
         (a_bind c_mn a_init : nat) (inew : X -> I) (B rest : list stmt),
    Forall (UserS a_bind c_mn a_init) B ->
    Forall (UserS a_bind c_mn a_init) rest ->
    a_init <> a_bind ->
    c01_hyps (range_stmts a_bind c_mn a_init B rest) = true ->
    exists out, rewrite (range_stmts a_bind c_mn a_init B rest) = OK out /\
      forall es n i x c,
        iter_elems I X K imn icur (inew x) es ->
        range_then X K V P adenX cdenX tdenX kval ydenX envX bind B rest n es (x, 0) = Some c ->
        final_of c <> FStuck ->
        exists m i',
          run_target (aden I X K P adenX icur bind a_bind a_init inew) (cden I X P cdenX imn c_mn) (tden I X P tdenX) kval
                     (yden I X V P ydenX) (env I X V envX) true m out (i, x) = Some (mapf I X P i' (final_of c)).
Proof. exact compiled_range. Qed.
Print Assumptions C04_compiled_range_partial.

(* ... and on the machine model of seq/seq.go: the world of the machine is ((iterator state, user world), count) *)
Theorem C04_machine_range_partial :
  forall (I X K V P : Type)
         (adenX : nat -> X -> outcome X P unit) (cdenX : nat -> X -> outcome X P bool)
         (tdenX : nat -> X -> outcome X P nat) (kval : nat -> nat) (ydenX : nat -> X -> outcome X P V)
         (envX : nat -> V -> X -> X * bool) (zeroV : V)
         (imn : I -> I * bool) (icur : I -> X -> K) (bind : K -> X -> X)
         (a_bind c_mn a_init : nat) (inew : X -> I) (B rest : list stmt),
    Forall (UserS a_bind c_mn a_init) B ->
    Forall (UserS a_bind c_mn a_init) rest ->
    a_init <> a_bind ->
    c01_hyps (range_stmts a_bind c_mn a_init B rest) = true ->
    exists out, rewrite (range_stmts a_bind c_mn a_init B rest) = OK out /\
      (forallb (lk KS) out = true ->
       forall es n i x c,
         iter_elems I X K imn icur (inew x) es ->
         range_then X K V P adenX cdenX tdenX kval ydenX envX bind B rest n es (x, 0) = Some c ->
         final_of c <> FStuck ->
         exists i' M, forall N F, M <= N -> M <= F ->
           machine_target (I * X) V P (aden I X K P adenX icur bind a_bind a_init inew) (cden I X P cdenX imn c_mn) (tden I X P tdenX) kval
                          (yden I X V P ydenX) (env I X V envX) zeroV KS out (i, x) N F = Some (mapf I X P i' (final_of c))).
Proof.
  intros I X K V P adenX cdenX tdenX kval ydenX envX zeroV imn icur bind a_bind c_mn a_init inew B rest HB Hrest Hd Hh.
  destruct (compiled_range I X K V P adenX cdenX tdenX kval ydenX envX imn icur bind a_bind c_mn a_init inew B rest HB Hrest Hd Hh) as [out [Ho Hc]].
  exists out. split; [exact Ho|]. intros Hlk es n i x c Hie Hr Hns.
  destruct (Hc es n i x c Hie Hr Hns) as [m [i' Hm]]. exists i'.
  assert (Hns' : mapf I X P i' (final_of c) <> FStuck).
  { clear - Hns. destruct (final_of c); cbn [mapf]; try discriminate. exact (fun _ => Hns eq_refl). }
  exact (machine_link (I * X) V P (aden I X K P adenX icur bind a_bind a_init inew) (cden I X P cdenX imn c_mn) (tden I X P tdenX) kval
                      (yden I X V P ydenX) (env I X V envX) zeroV KS out m (i, x) (mapf I X P i' (final_of c)) Hlk Hm Hns').
Qed.
Print Assumptions C04_machine_range_partial.

(* the specification computes what one expects: `for k := range 4 { log k; if k == 2 { break } }` *)
Example C04_spec_example :
  range_spec (list Z * Z) Z unit unit
    (fun a u => Ok (fst u ++ [snd u], snd u) tt)            (* atom: log the loop variable *)
    (fun c u => Ok u (Z.eqb (snd u) 2))                      (* condition: k == 2 *)
    (fun _ u => Ok u 0) (fun x => x) (fun _ u => Ok u tt) (fun _ _ u => (u, true))
    (fun k u => (fst u, k))                                  (* k := ɪʇ.Current() *)
    [SAtom 5; SIf None 6 [SBreak] ENone]
    20 (map (fun a _ => a) (range_int 4)) (([], 0%Z), 0)
  = Some (CDone GNormal (([0; 1; 2]%Z, 2%Z), 0)).
Proof. vm_compute. reflexivity. Qed.

(* non-vacuity: a range body with a yield, break and continue, followed by more statements, meets the
   side conditions of the compiler theorem and consists of user statements *)
Example C04_hyps_hold :
  c01_hyps (range_stmts 1 2 3 [SAtom 4; SIf None 5 [SContinue] ENone; SYield 6; SIf None 7 [SBreak] ENone] [SYield 8; SAtom 9]) = true.
Proof. vm_compute. reflexivity. Qed.
Example C04_user_statements :
  Forall (UserS 1 2 3) [SAtom 4; SIf None 5 [SContinue] ENone; SYield 6; SIf None 7 [SBreak] ENone].
Proof.
  repeat constructor; discriminate.
Qed.
