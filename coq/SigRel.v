(* SigRel.v — replacing native signal statements by `return seq.<Signal>()`.
   [srel il isw s s']: s' is s with some break / continue / return statements
   replaced by the corresponding seq return, where no native construct of the same
   function literal would catch that signal (il: inside a native loop, isw: inside a
   native switch), and with callback bodies transformed the same way (possibly
   losing a redundant trailing `return Normal()`).  Both pass0 and pass3 of the
   rewriter produce srel-related code; the theorem says such code has the same
   meaning in tail position under the generalised callback semantics. *)
From Coq Require Import List Arith Bool Lia.
From Verif Require Import Base Syntax Sem SemLemmas Rewrite Side RwBase Rel TermSound.
Import ListNotations.

Set Implicit Arguments.

Definition crel_clauses (R : list stmt -> list stmt -> Prop) (a b : clabel * list stmt) : Prop :=
  fst a = fst b /\ R (snd a) (snd b).

Inductive orel {A} (R : A -> A -> Prop) : option A -> option A -> Prop :=
| or_none : orel R None None
| or_some a b : R a b -> orel R (Some a) (Some b).

Inductive srel : bool -> bool -> stmt -> stmt -> Prop :=
| sr_atom il isw a : srel il isw (SAtom a) (SAtom a)
| sr_yield il isw v : srel il isw (SYield v) (SYield v)
| sr_block il isw b b' : Forall2 (srel il isw) b b' -> srel il isw (SBlock b) (SBlock b')
| sr_if il isw i i' c t t' e e' : orel (srel il isw) i i' -> Forall2 (srel il isw) t t' -> erel il isw e e' -> srel il isw (SIf i c t e) (SIf i' c t' e')
| sr_switch il isw i i' tag cs cs' : orel (srel il true) i i' ->
    Forall2 (crel_clauses (Forall2 (srel il true))) cs cs' -> srel il isw (SSwitch i tag cs) (SSwitch i' tag cs')
| sr_for il isw i i' c p p' b b' : orel (srel true isw) i i' -> orel (srel true isw) p p' ->
    Forall2 (srel true isw) b b' -> srel il isw (SFor i c p b) (SFor i' c p' b')
| sr_break il isw : srel il isw SBreak SBreak
| sr_break_ret : srel false false SBreak (SRet XBreak)
| sr_continue il isw : srel il isw SContinue SContinue
| sr_continue_ret isw : srel false isw SContinue (SRet XContinue)
| sr_return il isw : srel il isw SReturn SReturn
| sr_return_ret il isw : srel il isw SReturn (SRet XReturn)
| sr_fallthrough il isw : srel il isw SFallthrough SFallthrough
| sr_ret il isw e e' : xrel e e' -> srel il isw (SRet e) (SRet e')
with erel : bool -> bool -> els -> els -> Prop :=
| er_none il isw : erel il isw ENone ENone
| er_else il isw b b' : Forall2 (srel il isw) b b' -> erel il isw (EElse b) (EElse b')
| er_elif il isw s s' : srel il isw s s' -> erel il isw (EElif s) (EElif s')
with xrel : sexp -> sexp -> Prop :=
| xr_bind v t t' : trel t t' -> xrel (XBind v t) (XBind v t')
| xr_delay t t' : trel t t' -> xrel (XDelay t) (XDelay t')
| xr_combine a a' b b' : xrel a a' -> xrel b b' -> xrel (XCombine a b) (XCombine a' b')
| xr_for c p p' body body' : orel (srel false false) p p' -> xrel body body' -> xrel (XFor c p body) (XFor c p' body')
| xr_normal : xrel XNormal XNormal
| xr_break : xrel XBreak XBreak
| xr_continue : xrel XContinue XContinue
| xr_return : xrel XReturn XReturn
with trel : thunk -> thunk -> Prop :=
| tr_lit l l' : Forall2 (srel false false) l l' -> trel (TLit l) (TLit l')
| tr_rm l l' : Forall2 (srel false false) l (l' ++ [SRet XNormal]) ->
               is_term TFUEL (SBlock l') = true -> fitsb TFUEL (SBlock l') = true -> trel (TLit l) (TLit l')
| tr_sig x : trel (TSig x) (TSig x).

Section S.
  Variables U V P : Type.
  Variable aden : nat -> U -> outcome U P unit.
  Variable cden : nat -> U -> outcome U P bool.
  Variable tden : nat -> U -> outcome U P nat.
  Variable kval : nat -> nat.
  Variable yden : nat -> U -> outcome U P V.
  Variable env : nat -> V -> U -> U * bool.

  Notation compl := (compl U V P).
  Notation W := (W U).
  Notation exec := (exec aden cden tden kval yden env).
  Notation ex := (exec_list aden cden tden kval yden env).
  Notation exfrom := (exec_from aden cden tden kval yden env).
  Notation expick := (exec_pick aden cden tden kval yden env).
  Notation exloop := (exec_loop aden cden tden kval yden env).
  Notation rung := (run aden cden tden kval yden env false).
  Notation callg := (call aden cden tden kval yden env false).
  Notation runloop := (run_loop aden cden tden kval yden env false).
  Notation EXS := (EXS aden cden tden kval yden env).
  Notation EX := (EX aden cden tden kval yden env).
  Notation RUN := (RUN aden cden tden kval yden env).
  Notation CALL := (CALL aden cden tden kval yden env).
  Notation TM := (TM aden cden tden kval yden env).

  (* seq values related through their callbacks *)
  Inductive vrel : sval V -> sval V -> Prop :=
  | vr_bind v t t' : trel t t' -> vrel (VBind v t) (VBind v t')
  | vr_delay t t' : trel t t' -> vrel (VDelay t) (VDelay t')
  | vr_combine a a' b b' : vrel a a' -> vrel b b' -> vrel (VCombine a b) (VCombine a' b')
  | vr_for c p p' body body' : orel (srel false false) p p' -> vrel body body' -> vrel (VFor c p body) (VFor c p' body')
  | vr_sig g : vrel (VSig g) (VSig g).

  (* related native completions *)
  Inductive crel (il isw : bool) : compl -> compl -> Prop :=
  | cr_same x : crel il isw x x
  | cr_ret sv sv' w : vrel sv sv' -> crel il isw (CRet sv w) (CRet sv' w)
  | cr_break w : il = false -> isw = false -> crel il isw (CDone GBreak w) (CRet (VSig GBreak) w)
  | cr_continue w : il = false -> crel il isw (CDone GContinue w) (CRet (VSig GContinue) w)
  | cr_return w : crel il isw (CDone GReturn w) (CRet (VSig GReturn) w).

  Lemma build_rel e e' w : xrel e e' ->
    match build yden e w with
    | Ok u sv => exists sv', build yden e' w = Ok u sv' /\ vrel sv sv'
    | Panic u pv => build yden e' w = Panic u pv
    | Stuck => build yden e' w = Stuck
    end.
  Proof.
    intros H. revert w. induction H; intros w; cbn [build].
    - destruct (yden v (fst w)); eauto using vrel.
    - eauto using vrel.
    - specialize (IHxrel1 w). destruct (build yden a w) as [u a1|u pv|].
      + destruct IHxrel1 as [a1' [-> Ha]]. specialize (IHxrel2 (u, snd w)).
        destruct (build yden b (u, snd w)) as [u' b1|u' pv|].
        * destruct IHxrel2 as [b1' [-> Hb]]. eauto using vrel.
        * rewrite IHxrel2. reflexivity.
        * rewrite IHxrel2. reflexivity.
      + rewrite IHxrel1. reflexivity.
      + rewrite IHxrel1. reflexivity.
    - specialize (IHxrel w). destruct (build yden body w) as [u b1|u pv|].
      + destruct IHxrel as [b1' [-> Hb]]. eauto using vrel.
      + rewrite IHxrel. reflexivity.
      + rewrite IHxrel. reflexivity.
    - eauto using vrel.
    - eauto using vrel.
    - eauto using vrel.
    - eauto using vrel.
  Qed.

  Notation clauses_rel il := (Forall2 (crel_clauses (Forall2 (srel il true)))).

  Lemma crel_weaken il isw' x x' : crel il true x x' -> crel il isw' x x'.
  Proof. intros H. inversion H; subst; try (constructor; auto; fail). discriminate. Qed.

  Lemma crel_loop_weaken isw il' isw' x x' : crel true isw x x' -> crel il' isw' x x'.
  Proof. intros H. inversion H; subst; try (constructor; auto; fail); discriminate. Qed.

  Lemma pick_clause_rel il tv cs cs' : clauses_rel il cs cs' ->
    match pick_clause kval tv cs, pick_clause kval tv cs' with
    | Some d, Some d' => clauses_rel il d d'
    | None, None => True
    | _, _ => False
    end.
  Proof.
    induction 1 as [|[lab b] [lab' b'] r r' [Hl Hb] Hr IH]; cbn; auto. cbn in Hl. subst lab'.
    destruct (clause_matches kval lab tv); [constructor; [split; auto|auto]|exact IH].
  Qed.

  Lemma default_from_rel il cs cs' : clauses_rel il cs cs' ->
    match default_from cs, default_from cs' with
    | Some d, Some d' => clauses_rel il d d'
    | None, None => True
    | _, _ => False
    end.
  Proof.
    induction 1 as [|[lab b] [lab' b'] r r' [Hl Hb] Hr IH]; cbn; auto. cbn in Hl. subst lab'.
    destruct lab; [constructor; [split; auto|auto]|exact IH|exact IH].
  Qed.

  (* a list whose prefix cannot complete normally: the suffix never runs *)
  Lemma ex_prefix_nonormal n l1 l2 w x :
    (forall m w0, nonormal (ex m l1 w0)) -> ex n (l1 ++ l2) w = Some x -> ex n l1 w = Some x.
  Proof.
    intros Hn H. destruct (@ex_app_fwd _ _ _ aden cden tden kval yden env n l1 l2 w x H) as [[H1 _]|[w' [H1 _]]]; [exact H1|].
    exfalso. eapply Hn; eauto.
  Qed.

  Ltac inv H := inversion H; subst; clear H.

  Lemma sigrel n :
    (forall il isw s s' w x, srel il isw s s' -> exec n s w = Some x -> exists x', exec n s' w = Some x' /\ crel il isw x x') /\
    (forall il isw l l' w x, Forall2 (srel il isw) l l' -> ex n l w = Some x -> exists x', ex n l' w = Some x' /\ crel il isw x x') /\
    (forall il cs cs' w x, clauses_rel il cs cs' -> exfrom n cs w = Some x -> exists x', exfrom n cs' w = Some x' /\ crel il true x x') /\
    (forall il a a' l l' w x, clauses_rel il a a' -> clauses_rel il l l' -> expick n a l w = Some x ->
        exists x', expick n a' l' w = Some x' /\ crel il true x x') /\
    (forall isw c p p' b b' w x, orel (srel true isw) p p' -> Forall2 (srel true isw) b b' -> exloop n c p b w = Some x ->
        exists x', exloop n c p' b' w = Some x' /\ crel true isw x x') /\
    (forall sv sv' w r, vrel sv sv' -> rung n sv w = Some r -> rung n sv' w = Some r) /\
    (forall t t' w r, trel t t' -> callg n t w = Some r -> callg n t' w = Some r) /\
    (forall c p p' body body' sk w r, orel (srel false false) p p' -> vrel body body' ->
        runloop n c p body sk w = Some r -> runloop n c p' body' sk w = Some r).
  Proof.
    induction n as [|n [IHE [IHL [IHF [IHP [IHLP [IHR [IHC IHRL]]]]]]]].
    { repeat split; intros; discriminate. }
    (* how a related completion continues in a native list *)
    assert (Hafter : forall il isw x x' (f f' : W -> option compl) y,
              crel il isw x x' ->
              (forall w1 y1, f w1 = Some y1 -> exists y1', f' w1 = Some y1' /\ crel il isw y1 y1') ->
              after_normal (Some x) f = Some y -> exists y', after_normal (Some x') f' = Some y' /\ crel il isw y y').
    { intros il isw x x' f f' y Hc Hf Hy. inversion Hc; subst.
      - destruct x' as [g w1| | | |]; cbn in *; try (inv Hy; eexists; split; [reflexivity|constructor]).
        destruct g; try (inv Hy; eexists; split; [reflexivity|constructor]). apply Hf. exact Hy.
      - cbn in *. inv Hy. eexists. split; [reflexivity|exact Hc].
      - cbn in *. inv Hy. eexists. split; [reflexivity|exact Hc].
      - cbn in *. inv Hy. eexists. split; [reflexivity|exact Hc].
      - cbn in *. inv Hy. eexists. split; [reflexivity|exact Hc]. }
    assert (Hlift : forall il isw A (o : outcome U P A) k (f f' : A -> W -> option compl) y,
              (forall a w1 y1, f a w1 = Some y1 -> exists y1', f' a w1 = Some y1' /\ crel il isw y1 y1') ->
              lift o k f = Some y -> exists y', lift o k f' = Some y' /\ crel il isw y y').
    { intros il isw A o k f f' y Hf Hy. unfold lift in *. destruct o.
      - apply Hf. exact Hy.
      - inv Hy. eexists. split; [reflexivity|constructor].
      - inv Hy. eexists. split; [reflexivity|constructor]. }
    assert (Hopt : forall il isw i i' w y, orel (srel il isw) i i' ->
              match i with None => Some (CDone GNormal w) | Some x0 => exec n x0 w end = Some y ->
              exists y', match i' with None => Some (CDone GNormal w) | Some x0 => exec n x0 w end = Some y' /\ crel il isw y y').
    { intros il isw i i' w y Ho Hy. inversion Ho; subst; [eexists; split; [exact Hy|constructor]|]. eapply IHE; eauto. }
    repeat split.
    - (* statements *)
      intros il isw s s' w x Hs Hx. rewrite exec_S in Hx.
      inversion Hs; subst; rewrite exec_S.
      + eexists. split; [exact Hx|constructor].
      + eexists. split; [exact Hx|constructor].
      + eapply IHL; eauto.
      + (* if *)
        destruct (match i with None => Some (CDone GNormal w) | Some x0 => exec n x0 w end) as [yi|] eqn:Ei; [|discriminate].
        match goal with Ho : orel _ i i' |- _ => destruct (Hopt il isw i i' w yi Ho Ei) as [yi' [-> Hci]] end.
        eapply Hafter; [exact Hci| |exact Hx].
        intros w1 y1 HH1. eapply Hlift; [|exact HH1]. intros bb w2 y2 HH2. cbv beta in HH2 |- *.
        destruct bb; [eapply IHL; eauto|].
        match goal with He : erel _ _ _ _ |- _ => inversion He; subst end.
        * inv HH2. eexists. split; [reflexivity|constructor].
        * eapply IHL; eauto.
        * eapply IHE; eauto.
      + (* switch *)
        destruct (match i with None => Some (CDone GNormal w) | Some x0 => exec n x0 w end) as [yi|] eqn:Ei; [|discriminate].
        match goal with Ho : orel _ i i' |- _ => destruct (Hopt il true i i' w yi Ho Ei) as [yi' [-> Hci]] end.
        eapply Hafter; [apply crel_weaken; exact Hci| |exact Hx].
        intros w1 y1 HH1. destruct tag as [t|].
        * eapply Hlift; [|exact HH1]. intros tv w2 y2 HH2. cbv beta in HH2 |- *.
          match goal with Hc : Forall2 _ cs cs' |- _ => pose proof (pick_clause_rel tv Hc) as Hp; pose proof (default_from_rel Hc) as Hd end.
          destruct (pick_clause kval tv cs) as [d|], (pick_clause kval tv cs') as [d'|]; try contradiction.
          -- destruct (IHF il d d' w2 y2 Hp HH2) as [y' [Hy' Hc']]. exists y'. split; [exact Hy'|apply crel_weaken; exact Hc'].
          -- destruct (default_from cs) as [d|], (default_from cs') as [d'|]; try contradiction.
             ++ destruct (IHF il d d' w2 y2 Hd HH2) as [y' [Hy' Hc']]. exists y'. split; [exact Hy'|apply crel_weaken; exact Hc'].
             ++ inv HH2. eexists. split; [reflexivity|constructor].
        * match goal with Hc : Forall2 _ cs cs' |- _ => destruct (IHP il cs cs' cs cs' w1 y1 Hc Hc HH1) as [y' [Hy' Hc']] end.
          exists y'. split; [exact Hy'|apply crel_weaken; exact Hc'].
      + (* for *)
        destruct (match i with None => Some (CDone GNormal w) | Some x0 => exec n x0 w end) as [yi|] eqn:Ei; [|discriminate].
        match goal with Ho : orel _ i i' |- _ => destruct (Hopt true isw i i' w yi Ho Ei) as [yi' [-> Hci]] end.
        eapply Hafter; [eapply crel_loop_weaken; exact Hci| |exact Hx].
        intros w1 y1 HH1. destruct (IHLP isw c p p' b b' w1 y1 ltac:(assumption) ltac:(assumption) HH1) as [y' [Hy' Hc']].
        exists y'. split; [exact Hy'|eapply crel_loop_weaken; exact Hc'].
      + eexists. split; [exact Hx|constructor].
      + inv Hx. eexists. split; [reflexivity|]. destruct w. apply cr_break; reflexivity.
      + eexists. split; [exact Hx|constructor].
      + inv Hx. eexists. split; [reflexivity|]. destruct w. apply cr_continue; reflexivity.
      + eexists. split; [exact Hx|constructor].
      + inv Hx. eexists. split; [reflexivity|]. destruct w. apply cr_return.
      + eexists. split; [exact Hx|constructor].
      + (* return <seq expr> *)
        match goal with Hxr : xrel _ _ |- _ => pose proof (build_rel w Hxr) as Hb end.
        destruct (build yden e w) as [u sv|u pv|].
        * destruct Hb as [sv' [-> Hv]]. inv Hx. eexists. split; [reflexivity|constructor; exact Hv].
        * rewrite Hb. inv Hx. eexists. split; [reflexivity|constructor].
        * rewrite Hb. inv Hx. eexists. split; [reflexivity|constructor].
    - (* lists *)
      intros il isw l l' w x Hl Hx. rewrite exec_list_S in Hx. rewrite exec_list_S.
      inversion Hl as [|s0 s0' r r' Hs0 Hr0]; subst; [eexists; split; [exact Hx|constructor]|].
      destruct (exec n s0 w) as [ys|] eqn:Ey; [|discriminate].
      destruct (IHE il isw s0 s0' w ys Hs0 Ey) as [ys' [-> Hc]].
      eapply Hafter; [exact Hc| |exact Hx]. intros w1 y1 H1. eapply IHL; eauto.
    - (* clause bodies with fallthrough *)
      intros il cs cs' w x Hc Hx. rewrite exec_from_S in Hx. rewrite exec_from_S.
      inversion Hc; subst; [eexists; split; [exact Hx|constructor]|].
      destruct x0 as [lab b], y as [lab' b']. match goal with H : crel_clauses _ _ _ |- _ => destruct H as [Hl Hb] end. cbn in Hl, Hb. subst lab'.
      destruct (ex n b w) as [yb|] eqn:Eb; [|discriminate].
      destruct (IHL il true b b' w yb Hb Eb) as [yb' [-> Hcb]].
      inversion Hcb; subst; try discriminate; try (inv Hx; eexists; split; [reflexivity|exact Hcb]; fail).
      destruct yb' as [g w1| | | |]; try (inv Hx; eexists; split; [reflexivity|constructor]).
      destruct g; try (inv Hx; eexists; split; [reflexivity|constructor]).
      match goal with Hr : Forall2 _ l l' |- _ => inversion Hr; subst end; [inv Hx; eexists; split; [reflexivity|constructor]|].
      eapply IHF; [|exact Hx]. constructor; assumption.
    - (* tag-less switch *)
      intros il a a' l l' w x Ha Hl Hx. rewrite exec_pick_S in Hx. rewrite exec_pick_S.
      inversion Hl; subst.
      + pose proof (default_from_rel Ha) as Hd.
        destruct (default_from a) as [d|], (default_from a') as [d'|]; try contradiction.
        * eapply IHF; eauto.
        * inv Hx. eexists. split; [reflexivity|constructor].
      + destruct x0 as [lab b], y as [lab' b']. match goal with H : crel_clauses _ _ _ |- _ => destruct H as [Hlab Hb] end. cbn in Hlab, Hb. subst lab'.
        destruct lab; try (eapply IHP; eauto; fail).
        eapply Hlift; [|exact Hx]. intros bb w1 y1 H1. cbv beta in H1 |- *. destruct bb.
        * eapply IHF; [|exact H1]. constructor; [split; auto|assumption].
        * eapply IHP; eauto.
    - (* native loops *)
      intros isw c p p' b b' w x Hp Hb Hx. rewrite exec_loop_S in Hx. rewrite exec_loop_S. cbv beta zeta in *.
      assert (Hbody : forall w2 y,
        (match ex n b w2 with
         | Some (CDone (GNormal | GContinue) w3) =>
             after_normal (match p with None => Some (CDone GNormal w3) | Some x0 => exec n x0 w3 end) (fun w4 => exloop n c p b w4)
         | Some (CDone GBreak w3) => Some (CDone GNormal w3)
         | other => other end) = Some y ->
        exists y',
        (match ex n b' w2 with
         | Some (CDone (GNormal | GContinue) w3) =>
             after_normal (match p' with None => Some (CDone GNormal w3) | Some x0 => exec n x0 w3 end) (fun w4 => exloop n c p' b' w4)
         | Some (CDone GBreak w3) => Some (CDone GNormal w3)
         | other => other end) = Some y' /\ crel true isw y y').
      { intros w2 y Hy. destruct (ex n b w2) as [yb|] eqn:Eb; [|discriminate].
        destruct (IHL true isw b b' w2 yb Hb Eb) as [yb' [-> Hcb]].
        inversion Hcb; subst; try discriminate.
        - destruct yb' as [g w3| | | |]; try (inv Hy; eexists; split; [reflexivity|constructor]).
          destruct g; try (inv Hy; eexists; split; [reflexivity|constructor]).
          + destruct (match p with None => Some (CDone GNormal w3) | Some x0 => exec n x0 w3 end) as [yp|] eqn:Ep; [|discriminate].
            destruct (Hopt true isw p p' w3 yp Hp Ep) as [yp' [-> Hcp]].
            eapply Hafter; [exact Hcp| |exact Hy]. intros w4 y4 H4. eapply IHLP; eauto.
          + destruct (match p with None => Some (CDone GNormal w3) | Some x0 => exec n x0 w3 end) as [yp|] eqn:Ep; [|discriminate].
            destruct (Hopt true isw p p' w3 yp Hp Ep) as [yp' [-> Hcp]].
            eapply Hafter; [exact Hcp| |exact Hy]. intros w4 y4 H4. eapply IHLP; eauto.
        - inv Hy. eexists. split; [reflexivity|constructor; assumption].
        - inv Hy. eexists. split; [reflexivity|apply cr_return]. }
      destruct c as [cc|]; [|apply Hbody; exact Hx].
      eapply Hlift; [|exact Hx]. intros bb w2 y2 H2. cbv beta in H2 |- *. destruct bb; [apply Hbody; exact H2|].
      inv H2. eexists. split; [reflexivity|constructor].
    - (* run *)
      intros sv sv' w r Hv Hr. rewrite run_S in Hr. rewrite run_S. inversion Hv; subst.
      + destruct (env (snd w) v (fst w)) as [u' more]. destruct more; [eapply IHC; eauto|exact Hr].
      + eapply IHC; eauto.
      + unfold after_normal in *. destruct (rung n a w) as [y|] eqn:Ea; [|discriminate].
        rewrite (IHR a a' w y ltac:(assumption) Ea). destruct y as [g w1| | | |]; auto. destruct g; auto. eapply IHR; eauto.
      + eapply IHRL; eauto.
      + exact Hr.
    - (* call *)
      intros t t' w r Ht Hr. rewrite call_S in Hr. rewrite call_S. inversion Ht as [l0 l0' Hl0|l0 l0' Hl0 Hterm Hfits|x0]; subst.
      + destruct (ex n l0 w) as [x|] eqn:El; [|discriminate].
        destruct (IHL false false l0 l0' w x Hl0 El) as [x' [-> Hc]].
        inversion Hc; subst; cbn [negb] in *.
        * destruct x' as [g w1|sv w1| | |]; auto.
        * eapply IHR; eauto.
        * destruct n; [discriminate|]. cbn in Hr. inv Hr. reflexivity.
        * destruct n; [discriminate|]. cbn in Hr. inv Hr. reflexivity.
        * destruct n; [discriminate|]. cbn in Hr. inv Hr. reflexivity.
      + (* a redundant trailing return-normal was dropped *)
        destruct (ex n l0 w) as [x|] eqn:El; [|discriminate].
        destruct (IHL false false l0 (l0' ++ [SRet XNormal]) w x Hl0 El) as [x' [Ex' Hc]].
        assert (Ex'' : ex n l0' w = Some x').
        { eapply ex_prefix_nonormal; [|exact Ex']. intros m w0.
          pose proof (@is_term_sound _ _ _ aden cden tden kval yden env TFUEL (SBlock l0') (S m) w0) as Hs.
          specialize (Hs Hfits Hterm). rewrite exec_S in Hs. exact Hs. }
        rewrite Ex''. inversion Hc; subst; cbn [negb] in *.
        * destruct x' as [g w1|sv w1| | |]; auto.
        * eapply IHR; eauto.
        * destruct n; [discriminate|]. cbn in Hr. inv Hr. reflexivity.
        * destruct n; [discriminate|]. cbn in Hr. inv Hr. reflexivity.
        * destruct n; [discriminate|]. cbn in Hr. inv Hr. reflexivity.
      + exact Hr.
    - (* run_loop *)
      intros c p p' body body' sk w r Hp Hv Hr. rewrite run_loop_S in Hr. rewrite run_loop_S. cbv beta zeta in *.
      assert (Hiter : forall w2 y,
        (match rung n body w2 with
         | Some (CDone (GNormal | GContinue) w3) => runloop n c p body false w3
         | Some (CDone GBreak w3) => Some (CDone GNormal w3)
         | other => other end) = Some y ->
        (match rung n body' w2 with
         | Some (CDone (GNormal | GContinue) w3) => runloop n c p' body' false w3
         | Some (CDone GBreak w3) => Some (CDone GNormal w3)
         | other => other end) = Some y).
      { intros w2 y Hy. destruct (rung n body w2) as [yb|] eqn:Eb; [|discriminate].
        rewrite (IHR body body' w2 yb Hv Eb). destruct yb as [g w3| | | |]; auto. destruct g; auto; eapply IHRL; eauto. }
      assert (Hap : forall w1 y,
        (match c with
         | None => (fun w2 => match rung n body w2 with
                              | Some (CDone (GNormal | GContinue) w3) => runloop n c p body false w3
                              | Some (CDone GBreak w3) => Some (CDone GNormal w3)
                              | other => other end) w1
         | Some (CExp cc) | Some (CFun cc) =>
             lift (cden cc (fst w1)) (snd w1) (fun bb w2 => if bb then
                 match rung n body w2 with
                 | Some (CDone (GNormal | GContinue) w3) => runloop n c p body false w3
                 | Some (CDone GBreak w3) => Some (CDone GNormal w3)
                 | other => other end else Some (CDone GNormal w2))
         end) = Some y ->
        (match c with
         | None => (fun w2 => match rung n body' w2 with
                              | Some (CDone (GNormal | GContinue) w3) => runloop n c p' body' false w3
                              | Some (CDone GBreak w3) => Some (CDone GNormal w3)
                              | other => other end) w1
         | Some (CExp cc) | Some (CFun cc) =>
             lift (cden cc (fst w1)) (snd w1) (fun bb w2 => if bb then
                 match rung n body' w2 with
                 | Some (CDone (GNormal | GContinue) w3) => runloop n c p' body' false w3
                 | Some (CDone GBreak w3) => Some (CDone GNormal w3)
                 | other => other end else Some (CDone GNormal w2))
         end) = Some y).
      { intros w1 y Hy. destruct c as [[cc|cc]|]; [| |apply Hiter; exact Hy];
          unfold lift in *; destruct (cden cc (fst w1)) as [u bb|u pv|]; auto; destruct bb; auto; apply Hiter; exact Hy. }
      destruct sk; [apply Hap; exact Hr|]. inversion Hp as [|ps ps' Hps]; subst; [apply Hap; exact Hr|].
      destruct (exec n ps w) as [yp|] eqn:Ep; [|discriminate].
      destruct (IHE false false ps ps' w yp Hps Ep) as [yp' [-> Hcp]].
      inversion Hcp; subst; try discriminate; auto.
      destruct yp' as [g w1| | | |]; auto. destruct g; auto.
  Qed.
End S.
